(* C04 / Parse.v — model of cron/parser.go (and Every of constantdelay.go).

   Faithful to what the code does, quirks and partiality included:
   * [Panic] exactly where the Go code panics at run time: the TZ=/CRON_TZ= prefix with no
     space anywhere in the spec slices [spec[eq+1 : -1]] (variant [Original] = the pinned
     tree; [Fixed] = a prefix with no following field is refused with an error), and
     NewParser's documented panic when both optionals are configured;
   * the star/question test looks only at the first hyphen-separated piece, so "*-5" and
     "?-x-y" are accepted as "*"; "?/3", "+5", "1/+2", ",", "1,,2" are accepted;
   * strconv.Atoi precisely (optional sign, int64 range); names via strings.ToLower;
   * getBits on real uint64 (shifts truncate to 64 bits), star bit 1<<63, cleared when
     step > 1.
   [time.LoadLocation] and [time.ParseDuration] are ORACLES: parameters [ll] and [pd].

   Definitions only (plus closed Examples). *)
From Kit.Lib Require Import Base.
From Kit.C04 Require Import Cal Zone Str.
From Coq Require Import ZArith NArith Lia Bool List String.
Import ListNotations.
Open Scope Z_scope.

(* error values: never compared by the correspondence check, kept for readability *)
Inductive perr :=
| EEmptySpec | EBadLocation | ENoFieldsAfterTZ | EDescriptorsOff | EMultipleOptionals
| EFieldCount | EUnknownOptional | EParseInt | ENegative | ETooManyHyphens | ETooManySlashes
| EBelowMin | EAboveMax | EInverted | EZeroStep | EBadDuration | EUnknownDescriptor.

(* schedules *)
Inductive sched_loc := LocLocal | LocZone (z : zone).

Inductive schedule :=
| SpecSched (second minute hour dom month dow : N) (loc : sched_loc)
| EverySched (delay_ns : Z).

(* ParseOption bits *)
Definition o_second := 0.       (* Second         = 1   *)
Definition o_second_opt := 1.   (* SecondOptional = 2   *)
Definition o_minute := 2.       (* Minute         = 4   *)
Definition o_hour := 3.         (* Hour           = 8   *)
Definition o_dom := 4.          (* Dom            = 16  *)
Definition o_month := 5.        (* Month          = 32  *)
Definition o_dow := 6.          (* Dow            = 64  *)
Definition o_dow_opt := 7.      (* DowOptional    = 128 *)
Definition o_descriptor := 8.   (* Descriptor     = 256 *)

(* [options & place > 0] for a single-bit place *)
Definition has (o : Z) (bit : Z) : bool := Z.testbit o bit.

(* bounds *)
Record bounds := mkBounds { b_min : Z; b_max : Z; b_names : list (list N * Z) }.

Definition month_names : list (list N * Z) :=
  [ (bs "jan", 1); (bs "feb", 2); (bs "mar", 3); (bs "apr", 4); (bs "may", 5); (bs "jun", 6);
    (bs "jul", 7); (bs "aug", 8); (bs "sep", 9); (bs "oct", 10); (bs "nov", 11); (bs "dec", 12) ].
Definition dow_names : list (list N * Z) :=
  [ (bs "sun", 0); (bs "mon", 1); (bs "tue", 2); (bs "wed", 3); (bs "thu", 4); (bs "fri", 5);
    (bs "sat", 6) ].

Definition seconds := mkBounds 0 59 [].
Definition minutes := mkBounds 0 59 [].
Definition hours := mkBounds 0 23 [].
Definition dom := mkBounds 1 31 [].
Definition months := mkBounds 1 12 month_names.
Definition dow := mkBounds 0 6 dow_names.

(* ------------------------------------------------------------------------------------ *)
(* uint64 bit sets                                                                       *)

Definition mask64 : N := (2 ^ 64 - 1)%N.
Definition star_bit : N := (2 ^ 63)%N.

(* x << k on uint64 (k is a Go uint; a count >= 64 gives 0) *)
Definition shl64 (x : N) (k : Z) : N :=
  if 64 <=? k then 0%N else N.land (N.shiftl x (Z.to_N k)) mask64.
Definition not64 (x : N) : N := N.lxor (N.land x mask64) mask64.

Fixpoint bits_loop (fuel : nat) (i max step : Z) (acc : N) : N :=
  match fuel with
  | O => acc
  | S f => if i <=? max then bits_loop f (i + step) max step (N.lor acc (shl64 1 i)) else acc
  end.

(* getBits(min, max, step). The loop runs at most max-min+1 <= 64 times for the arguments
   getRange passes (0 <= min <= max <= 59, step >= 2), so 64 is enough fuel. *)
Definition get_bits (min max step : Z) : N :=
  if step =? 1 then N.land (not64 (shl64 mask64 (max + 1))) (shl64 mask64 min)
  else bits_loop 64 min max step 0%N.

Definition all_bits (r : bounds) : N := N.lor (get_bits (b_min r) (b_max r) 1) star_bit.

(* ------------------------------------------------------------------------------------ *)
(* getField / getRange                                                                   *)

Definition must_parse_int (expr : list N) : result Z perr :=
  match atoi expr with
  | None => Err EParseInt
  | Some n => if n <? 0 then Err ENegative else Ok n
  end.

Fixpoint assoc (k : list N) (tbl : list (list N * Z)) : option Z :=
  match tbl with
  | [] => None
  | (k', v) :: r => if eqb_listN k k' then Some v else assoc k r
  end.

Definition parse_int_or_name (expr : list N) (names : list (list N * Z)) : result Z perr :=
  match assoc (lower_key expr) names with
  | Some v => Ok v
  | None => must_parse_int expr
  end.

Definition is_star_or_q (s : list N) : bool :=
  match s with [42%N] | [63%N] => true | _ => false end.

Definition get_range (expr : list N) (r : bounds) : result N perr :=
  let range_and_step := split_on 47 expr in
  let low_and_high := split_on 45 (hd [] range_and_step) in
  let single_digit := match low_and_high with [_] => true | _ => false end in
  let lh0 := hd [] low_and_high in
  bind
    (if is_star_or_q lh0 then Ok (b_min r, b_max r, star_bit)
     else
       bind (parse_int_or_name lh0 (b_names r)) (fun start =>
         match low_and_high with
         | [_] => Ok (start, start, 0%N)
         | [_; hi] => bind (parse_int_or_name hi (b_names r)) (fun e => Ok (start, e, 0%N))
         | _ => Err ETooManyHyphens
         end))
    (fun '(start, end_, extra) =>
       bind
         (match range_and_step with
          | [_] => Ok (1, end_, extra)
          | [_; st] =>
              bind (must_parse_int st) (fun step =>
                Ok (step, (if single_digit then b_max r else end_),
                    (if 1 <? step then 0%N else extra)))
          | _ => Err ETooManySlashes
          end)
         (fun '(step, end_, extra) =>
            if start <? b_min r then Err EBelowMin
            else if b_max r <? end_ then Err EAboveMax
            else if end_ <? start then Err EInverted
            else if step =? 0 then Err EZeroStep
            else Ok (N.lor (get_bits start end_ step) extra))).

Fixpoint get_field_loop (ranges : list (list N)) (r : bounds) (bits : N) : result N perr :=
  match ranges with
  | [] => Ok bits
  | e :: rest => bind (get_range e r) (fun b => get_field_loop rest r (N.lor bits b))
  end.

Definition get_field (field : list N) (r : bounds) : result N perr :=
  get_field_loop (fields_on 44 field) r 0%N.

(* ------------------------------------------------------------------------------------ *)
(* normalizeFields                                                                       *)

Definition b2z (b : bool) : Z := if b then 1 else 0.

(* the loop over [places]: take the next supplied field where the place is configured,
   the default otherwise; [fields[n]] out of range would be a run-time panic *)
Fixpoint expand (places : list (bool * list N)) (fields : list (list N))
  : result (list (list N)) perr :=
  match places with
  | [] => Ok []
  | (true, _) :: ps =>
      match fields with
      | [] => Panic
      | f :: fs => bind (expand ps fs) (fun r => Ok (f :: r))
      end
  | (false, d) :: ps => bind (expand ps fields) (fun r => Ok (d :: r))
  end.

Definition normalize_fields (fields : list (list N)) (o : Z) : result (list (list N)) perr :=
  let so := has o o_second_opt in
  let dwo := has o o_dow_opt in
  let optionals := b2z so + b2z dwo in
  if 1 <? optionals then Err EMultipleOptionals
  else
    let p_sec := has o o_second || so in
    let p_min := has o o_minute in
    let p_hour := has o o_hour in
    let p_dom := has o o_dom in
    let p_month := has o o_month in
    let p_dow := has o o_dow || dwo in
    let max := b2z p_sec + b2z p_min + b2z p_hour + b2z p_dom + b2z p_month + b2z p_dow in
    let min := max - optionals in
    let count := len fields in
    if (count <? min) || (max <? count) then Err EFieldCount
    else
      bind
        (if (min <? max) && (count =? min) then
           if dwo then Ok (fields ++ [bs "*"])
           else if so then Ok (bs "0" :: fields)
           else Err EUnknownOptional
         else Ok fields)
        (fun fields =>
           expand [ (p_sec, bs "0"); (p_min, bs "0"); (p_hour, bs "0");
                    (p_dom, bs "*"); (p_month, bs "*"); (p_dow, bs "*") ] fields).

(* ------------------------------------------------------------------------------------ *)
(* Every (constantdelay.go) and descriptors                                              *)

Definition ns_per_s : Z := 1000000000.

Definition every (duration_ns : Z) : Z :=
  let d := if duration_ns <? ns_per_s then ns_per_s else duration_ns in
  d - d mod ns_per_s.

Definition bit (k : Z) : N := shl64 1 k.

Definition desc_is (descriptor : list N) (s : string) : bool := eqb_listN descriptor (bs s).
Arguments desc_is descriptor s%string.

Definition parse_descriptor (pd : list N -> option Z) (descriptor : list N) (loc : sched_loc)
  : result schedule perr :=
  if desc_is descriptor "@yearly" || desc_is descriptor "@annually" then
    Ok (SpecSched (bit 0) (bit 0) (bit 0) (bit 1) (bit 1) (all_bits dow) loc)
  else if desc_is descriptor "@monthly" then
    Ok (SpecSched (bit 0) (bit 0) (bit 0) (bit 1) (all_bits months) (all_bits dow) loc)
  else if desc_is descriptor "@weekly" then
    Ok (SpecSched (bit 0) (bit 0) (bit 0) (all_bits dom) (all_bits months) (bit 0) loc)
  else if desc_is descriptor "@daily" || desc_is descriptor "@midnight" then
    Ok (SpecSched (bit 0) (bit 0) (bit 0) (all_bits dom) (all_bits months) (all_bits dow) loc)
  else if desc_is descriptor "@hourly" then
    Ok (SpecSched (bit 0) (bit 0) (all_bits hours) (all_bits dom) (all_bits months)
                  (all_bits dow) loc)
  else if prefixb (bs "@every ") descriptor then
    match pd (skipn 7 descriptor) with
    | None => Err EBadDuration
    | Some d => Ok (EverySched (every d))
    end
  else Err EUnknownDescriptor.

(* ------------------------------------------------------------------------------------ *)
(* Parser.Parse                                                                          *)

Definition has_tz_prefix (spec : list N) : bool :=
  prefixb (bs "TZ=") spec || prefixb (bs "CRON_TZ=") spec.

(* the "Extract timezone if present" block: (location, remaining spec) *)
Definition strip_tz (v : variant) (ll : list N -> option zone) (spec : list N)
  : result (sched_loc * list N) perr :=
  if has_tz_prefix spec then
    let i := go_index 32 spec in
    let eq := go_index 61 spec in
    if is_fixed v && (i <? 0) then Err ENoFieldsAfterTZ
    else
      bind (go_slice spec (eq + 1) i) (fun name =>
        match ll name with
        | None => Err EBadLocation
        | Some z =>
            bind (go_slice spec i (len spec)) (fun rest => Ok (LocZone z, trim_space rest))
        end)
  else Ok (LocLocal, spec).

(* Parser{options}.Parse(spec) *)
Definition parser_parse (v : variant) (o : Z)
    (ll : list N -> option zone) (pd : list N -> option Z) (spec : list N)
  : result schedule perr :=
  match spec with
  | [] => Err EEmptySpec
  | _ =>
      bind (strip_tz v ll spec) (fun '(loc, spec) =>
        if prefixb (bs "@") spec then
          if negb (has o o_descriptor) then Err EDescriptorsOff
          else parse_descriptor pd spec loc
        else
          bind (normalize_fields (go_fields spec) o) (fun fields =>
            match fields with
            | [f0; f1; f2; f3; f4; f5] =>
                bind (get_field f0 seconds) (fun second =>
                bind (get_field f1 minutes) (fun minute =>
                bind (get_field f2 hours) (fun hour =>
                bind (get_field f3 dom) (fun dayofmonth =>
                bind (get_field f4 months) (fun month =>
                bind (get_field f5 dow) (fun dayofweek =>
                  Ok (SpecSched second minute hour dayofmonth month dayofweek loc)))))))
            | _ => Panic                 (* fields[k] out of range: unreachable, see Proofs *)
            end))
  end.

(* NewParser(options) panics (documented) when both optionals are configured *)
Definition new_parser_panics (o : Z) : bool := has o o_dow_opt && has o o_second_opt.

(* NewParser(o).Parse(spec) *)
Definition parse (v : variant) (o : Z)
    (ll : list N -> option zone) (pd : list N -> option Z) (spec : list N)
  : result schedule perr :=
  if new_parser_panics o then Panic else parser_parse v o ll pd spec.

(* the standard parser: Minute | Hour | Dom | Month | Dow | Descriptor *)
Definition standard_opts : Z := 4 + 8 + 16 + 32 + 64 + 256.
Definition parse_standard v ll pd spec := parse v standard_opts ll pd spec.

(* ------------------------------------------------------------------------------------ *)
(* Examples (each one was observed on the Go code with a scratch program)                *)

Definition no_ll : list N -> option zone := fun _ => None.
Definition utc_ll : list N -> option zone := fun _ => Some (fixed_zone 0).
Definition no_pd : list N -> option Z := fun _ => None.

Example parse_ex1 :
  parse_standard Original no_ll no_pd (bs "* * * * *") =
  Ok (SpecSched 1 0x8fffffffffffffff 0x8000000000ffffff 0x80000000fffffffe
                0x8000000000001ffe 0x800000000000007f LocLocal).
Proof. vm_compute. reflexivity. Qed.
Example parse_ex2 : parse_standard Original utc_ll no_pd (bs "TZ=UTC") = Panic.
Proof. vm_compute. reflexivity. Qed.
Example parse_ex3 : parse_standard Fixed utc_ll no_pd (bs "TZ=UTC") = Err ENoFieldsAfterTZ.
Proof. vm_compute. reflexivity. Qed.
Example parse_ex4 : parse_standard Original utc_ll no_pd (bs "TZ=UTC ") = Err EFieldCount.
Proof. vm_compute. reflexivity. Qed.
Example parse_ex5 :
  parse_standard Original no_ll no_pd (bs "* * * * ?/3") =
  Ok (SpecSched 1 0x8fffffffffffffff 0x8000000000ffffff 0x80000000fffffffe
                0x8000000000001ffe 0x49 LocLocal).
Proof. vm_compute. reflexivity. Qed.
Example parse_ex6 :
  parse_standard Original no_ll no_pd (bs "* * * * ,") =
  Ok (SpecSched 1 0x8fffffffffffffff 0x8000000000ffffff 0x80000000fffffffe
                0x8000000000001ffe 0 LocLocal).
Proof. vm_compute. reflexivity. Qed.
Example parse_ex7 :
  parse_standard Original no_ll (fun _ => Some 1500000000) (bs "@every 1.5s") =
  Ok (EverySched 1000000000).
Proof. vm_compute. reflexivity. Qed.
Example parse_ex8 : parse Original (standard_opts + 2 + 128) no_ll no_pd (bs "* * * * *") = Panic.
Proof. vm_compute. reflexivity. Qed.
Example parse_ex9 :
  parse Original 256 no_ll no_pd (bs " ") =
  Ok (SpecSched 1 1 1 0x80000000fffffffe 0x8000000000001ffe 0x800000000000007f LocLocal).
Proof. vm_compute. reflexivity. Qed.
