(* C04 / Spec.v — the DOCUMENTED meaning of a cron schedule, written from cron/doc.go (and
   the Wikipedia "Cron" page it defers to), not from the code. No bit sets here.

   1. The documented field grammar and what each list item denotes (a set of values).
   2. [matches]: an instant matches when its wall-clock second, minute, hour and month are
      in the respective sets and the day rule holds.
   3. [next_ref]: the least whole second after t that matches, inside the five-year window;
      defined as the naive second-by-second scan (never executed).
   4. [next_ref_fast]: an executable version (per zone period: days, then hours, minutes,
      seconds on the wall clock); Proofs_Ref.v proves it equal to [next_ref].

   READING OF THE DAY RULE. doc.go does not spell the rule out; it defers to the Wikipedia
   page: "if both day-of-month and day-of-week are restricted (not '*'), then one or both
   must match the current day", otherwise both fields must match (a '*' field matches
   every day anyway). doc.go says the asterisk "will match for all values of the field",
   that '?' "may be used instead of '*'", and that "*/n" is "equivalent to first-last/n".
   So here a day field is UNRESTRICTED iff one of its list items is a wildcard, and an
   item is a wildcard iff it is '*' or '?' standing for all values of the field (bare, or
   with step 1); "*/n" with n > 1 is an ordinary range with a step and restricts the field.
   [wildcard_vixie] below is the other common reading (Vixie cron: any item starting with
   '*'); the two differ exactly on "*/n", n > 1 (see Proofs_Parse.day_rule_readings_differ). *)
From Kit.Lib Require Import Base.
From Kit.C04 Require Import Cal Zone Str.
From Coq Require Import ZArith NArith Lia Bool List String.
Import ListNotations.
Open Scope Z_scope.

(* ------------------------------------------------------------------------------------ *)
(* 1. field grammar and denotation                                                       *)

Inductive term :=
| TAll                          (*  *   or  ?                                   *)
| TVal (v : Z)                  (*  v                                           *)
| TRange (v w : Z)              (*  v-w     inclusive                           *)
| TAllStep (s : Z)              (*  */s     = first-last/s                      *)
| TValStep (v s : Z)            (*  v/s     = v-last/s                          *)
| TRangeStep (v w s : Z).       (*  v-w/s   v, v+s, v+2s, ... up to w           *)

(* a field of the expression: allowed values, names, whether '?' is allowed *)
Record fspec := mkFspec { f_lo : Z; f_hi : Z; f_names : list (list N * Z); f_q : bool }.

Definition stepped (lo hi s x : Z) : bool :=
  (lo <=? x) && (x <=? hi) && ((x - lo) mod s =? 0).

Definition denote_term (f : fspec) (tm : term) (x : Z) : bool :=
  match tm with
  | TAll => (f_lo f <=? x) && (x <=? f_hi f)
  | TVal v => x =? v
  | TRange v w => (v <=? x) && (x <=? w)
  | TAllStep s => stepped (f_lo f) (f_hi f) s x
  | TValStep v s => stepped v (f_hi f) s x
  | TRangeStep v w s => stepped v w s x
  end.

(* values in the allowed range, ranges not inverted, steps positive *)
Definition term_valid (f : fspec) (tm : term) : bool :=
  let inr v := (f_lo f <=? v) && (v <=? f_hi f) in
  match tm with
  | TAll => true
  | TVal v => inr v
  | TRange v w => inr v && inr w && (v <=? w)
  | TAllStep s => 1 <=? s
  | TValStep v s => inr v && (1 <=? s)
  | TRangeStep v w s => inr v && inr w && (v <=? w) && (1 <=? s)
  end.

(* a comma-separated list denotes the union *)
Definition denote_field (f : fspec) (tms : list term) (x : Z) : bool :=
  existsb (fun tm => denote_term f tm x) tms.

Definition wildcard (tm : term) : bool :=
  match tm with TAll => true | TAllStep s => s =? 1 | _ => false end.
Definition wildcard_vixie (tm : term) : bool :=
  match tm with TAll | TAllStep _ => true | _ => false end.

Definition unrestricted (tms : list term) : bool := existsb wildcard tms.

(* the six fields (doc.go's table; seconds as in the "Alternative Formats" section) *)
Definition spec_month_names : list (list N * Z) :=
  [ (bs "jan", 1); (bs "feb", 2); (bs "mar", 3); (bs "apr", 4); (bs "may", 5); (bs "jun", 6);
    (bs "jul", 7); (bs "aug", 8); (bs "sep", 9); (bs "oct", 10); (bs "nov", 11); (bs "dec", 12) ].
Definition spec_dow_names : list (list N * Z) :=
  [ (bs "sun", 0); (bs "mon", 1); (bs "tue", 2); (bs "wed", 3); (bs "thu", 4); (bs "fri", 5);
    (bs "sat", 6) ].

Definition fs_second := mkFspec 0 59 [] false.
Definition fs_minute := mkFspec 0 59 [] false.
Definition fs_hour := mkFspec 0 23 [] false.
Definition fs_dom := mkFspec 1 31 [] true.
Definition fs_month := mkFspec 1 12 spec_month_names false.
Definition fs_dow := mkFspec 0 6 spec_dow_names true.

(* --- reading the documented concrete syntax ---------------------------------------- *)

(* a number: one or more decimal digits (that fit Go's int) *)
Definition read_num (s : list N) : option Z :=
  match s with
  | [] => None
  | _ => match digits_val 0 s with
         | Some n => if n <? 2 ^ 63 then Some n else None
         | None => None
         end
  end.

Fixpoint spec_assoc (k : list N) (tbl : list (list N * Z)) : option Z :=
  match tbl with
  | [] => None
  | (k', v) :: r => if eqb_listN k k' then Some v else spec_assoc k r
  end.

(* a value: a name of the field in any capitalisation ("SUN", "Sun", "sun"), or a number *)
Definition read_value (f : fspec) (s : list N) : option Z :=
  match spec_assoc (List.map lower1 s) (f_names f) with
  | Some v => Some v
  | None => read_num s
  end.

Inductive rng := RAll | RVal (v : Z) | RRange (v w : Z).

Definition read_range (f : fspec) (s : list N) : option rng :=
  match s with
  | [42%N] => Some RAll                                           (* "*" *)
  | [63%N] => if f_q f then Some RAll else None                   (* "?" *)
  | _ =>
      match split_on 45 s with                                    (* '-' *)
      | [a] => option_map RVal (read_value f a)
      | [a; b2] =>
          match read_value f a, read_value f b2 with
          | Some v, Some w => Some (RRange v w)
          | _, _ => None
          end
      | _ => None
      end
  end.

Definition read_item (f : fspec) (s : list N) : option term :=
  match split_on 47 s with                                        (* '/' *)
  | [r] =>
      match read_range f r with
      | Some RAll => Some TAll
      | Some (RVal v) => Some (TVal v)
      | Some (RRange v w) => Some (TRange v w)
      | None => None
      end
  | [r; st] =>
      match read_num st, read_range f r with
      | Some s, Some RAll => Some (TAllStep s)
      | Some s, Some (RVal v) => Some (TValStep v s)
      | Some s, Some (RRange v w) => Some (TRangeStep v w s)
      | _, _ => None
      end
  | _ => None
  end.

Fixpoint read_items (f : fspec) (items : list (list N)) : option (list term) :=
  match items with
  | [] => Some []
  | it :: rest =>
      match read_item f it, read_items f rest with
      | Some tm, Some tms => Some (tm :: tms)
      | _, _ => None
      end
  end.

(* a field: a non-empty comma-separated list of items *)
Definition read_field (f : fspec) (s : list N) : option (list term) :=
  read_items f (split_on 44 s).

(* ------------------------------------------------------------------------------------ *)
(* 2. matching                                                                           *)

(* a schedule as six sets of values and the two "unrestricted" flags of the day fields *)
Record dsched := mkDsched {
  d_sec : Z -> bool; d_min : Z -> bool; d_hour : Z -> bool;
  d_dom : Z -> bool; d_month : Z -> bool; d_dow : Z -> bool;
  d_dom_star : bool; d_dow_star : bool }.

(* the six fields of an expression *)
Record expr := mkExpr {
  e_sec : list term; e_min : list term; e_hour : list term;
  e_dom : list term; e_month : list term; e_dow : list term }.

Definition denote (e : expr) : dsched :=
  mkDsched (denote_field fs_second (e_sec e)) (denote_field fs_minute (e_min e))
           (denote_field fs_hour (e_hour e)) (denote_field fs_dom (e_dom e))
           (denote_field fs_month (e_month e)) (denote_field fs_dow (e_dow e))
           (unrestricted (e_dom e)) (unrestricted (e_dow e)).

(* both day fields must match, unless both are restricted: then either one suffices *)
Definition day_rule (d : dsched) (day wday : Z) : bool :=
  if d_dom_star d || d_dow_star d then d_dom d day && d_dow d wday
  else d_dom d day || d_dow d wday.

Definition matches_wall (d : dsched) (w : wall) : bool :=
  d_sec d (w_sec w) && d_min d (w_min w) && d_hour d (w_hour w) &&
  d_month d (w_month w) && day_rule d (w_day w) (w_wday w).

(* the instant u (unix second), read on the wall clock of zone z, matches *)
Definition matches (d : dsched) (z : zone) (u : Z) : bool := matches_wall d (fields z u).

(* ------------------------------------------------------------------------------------ *)
(* 3. the reference: least matching second after t within the window                     *)

(* least n in [lo, lo + 2^k) with p n, by exhaustive scan *)
Fixpoint least_in (p : Z -> bool) (lo : Z) (k : nat) : option Z :=
  match k with
  | O => if p lo then Some lo else None
  | S k' =>
      match least_in p lo k' with
      | Some n => Some n
      | None => least_in p (lo + 2 ^ Z.of_nat k') k'
      end
  end.

(* the window of the search: wall-clock years up to (year of the upcoming second) + 5 *)
Definition year_limit (z : zone) (t : Z) : Z := w_year (fields z (t + 1)) + 5.

(* 2^28 s is about 8.5 years: the scan always meets the year limit first (zones with sane
   offsets), so the cap is never what ends it. *)
Definition scan_log : nat := 28.

(* [None] stands for Go's zero time: no matching second before the first instant whose
   wall-clock year exceeds the limit *)
Definition next_ref (d : dsched) (z : zone) (t : Z) : option Z :=
  let lim := year_limit z t in
  match least_in (fun u => matches d z u || (lim <? w_year (fields z u))) (t + 1) scan_log with
  | Some u => if lim <? w_year (fields z u) then None else Some u
  | None => None
  end.

(* ------------------------------------------------------------------------------------ *)
(* 4. executable version                                                                 *)

(* matching as a function of LOCAL seconds *)
Definition local_match (d : dsched) (L : Z) : bool := matches_wall d (wall_of_local L).

Fixpoint scan_cells (n : nat) (c : Z) (f : Z -> option Z) : option Z :=
  match n with
  | O => None
  | S n' => match f c with Some r => Some r | None => scan_cells n' (c + 1) f end
  end.

(* least x in [lo, hi) such that its cell x / unit is ok and the inner search succeeds *)
Definition find_cells (unit : Z) (cell_ok : Z -> bool) (inner : Z -> Z -> option Z)
    (lo hi : Z) : option Z :=
  if hi <=? lo then None
  else
    let c0 := lo / unit in
    let c1 := (hi - 1) / unit in
    scan_cells (Z.to_nat (c1 - c0 + 1)) c0
      (fun c => if cell_ok c then inner (Z.max lo (c * unit)) (Z.min hi ((c + 1) * unit))
                else None).

Definition day_cell_ok (d : dsched) (c : Z) : bool :=
  let '(_, m, dd) := civil_of_days c in
  d_month d m && day_rule d dd (weekday c).

Definition find_second (d : dsched) : Z -> Z -> option Z :=
  find_cells 1 (fun c => d_sec d (c mod 60)) (fun a _ => Some a).
Definition find_minute (d : dsched) : Z -> Z -> option Z :=
  find_cells 60 (fun c => d_min d (c mod 60)) (find_second d).
Definition find_hour (d : dsched) : Z -> Z -> option Z :=
  find_cells 3600 (fun c => d_hour d (c mod 24)) (find_minute d).
(* least local second in [lo, hi) that matches *)
Definition first_local (d : dsched) : Z -> Z -> option Z :=
  find_cells 86400 (day_cell_ok d) (find_hour d).

Inductive piece_result := PFound (u : Z) | PStop | PContinue.

(* one zone period: UTC range [a, b) (b = None: unbounded) with offset off; [wend] is the
   first local second of year limit+1 *)
Definition piece (d : dsched) (wend off a : Z) (b : option Z) : piece_result :=
  let la := a + off in
  if wend <=? la then PStop
  else
    let lb := match b with Some b' => Z.min (b' + off) wend | None => wend end in
    match first_local d la lb with
    | Some L => PFound (L - off)
    | None =>
        match b with
        | Some b' => if wend <? b' + off then PStop else PContinue
        | None => PStop
        end
    end.

Fixpoint fast_scan (d : dsched) (wend off : Z) (tr : list (Z * Z)) (lo : Z) : option Z :=
  match tr with
  | [] => match piece d wend off lo None with PFound u => Some u | _ => None end
  | (w, o) :: rest =>
      if w <=? lo then fast_scan d wend o rest lo
      else
        match piece d wend off lo (Some w) with
        | PFound u => Some u
        | PStop => None
        | PContinue => fast_scan d wend o rest w
        end
  end.

Definition next_ref_fast (d : dsched) (z : zone) (t : Z) : option Z :=
  let wend := days_of_civil (year_limit z t + 1) 1 1 * 86400 in
  fast_scan d wend (z_init z) (z_trans z) (t + 1).

(* zones for which [next_ref_fast = next_ref] is proved: sorted table, offsets below a day *)
Definition zone_offsets_small (z : zone) : bool :=
  (Z.abs (z_init z) <=? 86400) && forallb (fun p => Z.abs (snd p) <=? 86400) (z_trans z).
Definition zone_ok (z : zone) : bool := zone_sorted z && zone_offsets_small z.
