(* C04 — source-table tie: the data harness/srctab04 regenerates from the text of
   /repo/cron/{spec.go,parser.go,constantdelay.go}, each item tested against the definition the
   model itself uses (Parse.v, Next.v, Spec.v, Check.v).  Where the model holds a table as a
   FUNCTION (parse_descriptor, normalize_fields) the function is evaluated on every key of the
   regenerated table; where it inlines a literal in several places (the five-year window) the
   literal is named here and the lemmas below show, by conversion, that the model's functions
   compute with that name. *)
From Kit.Lib Require Import Base SrcTab.
From Kit.C04 Require Import Cal Zone Str Parse Next Spec.
From Kit.C04 Require Check.
From Coq Require Import ZArith NArith Bool List String.
Import ListNotations.
Open Scope Z_scope.
Local Open Scope string_scope.

(* ---- the five-year search window: spec.go `yearLimit := t.Year() + 5` ---- *)
Definition year_span : Z := 5.

Lemma next_model_year_span b z t :
  next_model b z t =
  match iter_pow2 b z (w_year (fields z (t + 1)) + year_span) next_fuel (mkSt PWrap (t + 1) false) with
  | inl _ => OutOfFuel
  | inr r => r
  end.
Proof. reflexivity. Qed.

Lemma year_limit_year_span z t : year_limit z t = w_year (fields z (t + 1)) + year_span.
Proof. reflexivity. Qed.

Lemma next_model_fuel_year_span n b z t :
  Check.next_model_fuel n b z t =
  match iter_pow2 b z (w_year (fields z (t + 1)) + year_span) n (mkSt PWrap (t + 1) false) with
  | inl _ => OutOfFuel
  | inr r => r
  end.
Proof. reflexivity. Qed.

Lemma model_stuck_year_span b z t :
  Check.model_stuck b z t =
  let lim := w_year (fields z (t + 1)) + year_span in
  match iter_pow2 b z lim Check.stuck_fuel (mkSt PWrap (t + 1) false) with
  | inl s => match step b z lim s with inl s' => Check.st_eqb s' s | inr _ => false end
  | inr _ => false
  end.
Proof. reflexivity. Qed.

(* ---- helpers ---- *)
Definition bounds_of (name : string) : option bounds :=
  if String.eqb name "seconds" then Some seconds else if String.eqb name "minutes" then Some minutes
  else if String.eqb name "hours" then Some hours else if String.eqb name "dom" then Some dom
  else if String.eqb name "months" then Some months else if String.eqb name "dow" then Some dow
  else None.

Definition bounds_entries (name : string) (r : bounds) : list entry :=
  [ ("cron." ++ name ++ ".min", eqv (TZ (b_min r)));
    ("cron." ++ name ++ ".max", eqv (TZ (b_max r)));
    ("cron." ++ name ++ ".names[]", in_list (tpairs tbytes TZ (b_names r)));
    ("cron." ++ name ++ ".names[#]", eqv (tnat (List.length (b_names r)))) ].

(* one field of a descriptor's schedule: ("min", X) = 1 << X.min, ("all", X) = all(X) *)
Definition field_bits (f : tv) : option N :=
  match f with
  | TP (TS k) (TS x) =>
      match bounds_of x with
      | Some r => if String.eqb k "min" then Some (bit (b_min r))
                  else if String.eqb k "all" then Some (all_bits r) else None
      | None => None
      end
  | _ => None
  end.

Definition descriptor_ok (label fields : tv) : bool :=
  match label, fields with
  | TS l, TL [f1; f2; f3; f4; f5; f6] =>
      match field_bits f1, field_bits f2, field_bits f3, field_bits f4, field_bits f5, field_bits f6,
            parse_descriptor no_pd (bs l) LocLocal with
      | Some a1, Some a2, Some a3, Some a4, Some a5, Some a6, Ok (SpecSched s mi h d mo dw LocLocal) =>
          (a1 =? s)%N && (a2 =? mi)%N && (a3 =? h)%N && (a4 =? d)%N && (a5 =? mo)%N && (a6 =? dw)%N
      | _, _, _, _, _, _, _ => false
      end
  | _, _ => false
  end.

Fixpoint eqb_fields (a b : list (list N)) : bool :=
  match a, b with
  | [], [] => true
  | x :: a', y :: b' => eqb_listN x y && eqb_fields a' b'
  | _, _ => false
  end.

Definition res_fields_eqb (r : result (list (list N)) perr) (want : list (list N)) : bool :=
  match r with Ok l => eqb_fields l want | _ => false end.

Fixpoint replace_nth {A} (n : nat) (x : A) (l : list A) : list A :=
  match l, n with
  | [], _ => []
  | _ :: t, O => x :: t
  | h :: t, S n' => h :: replace_nth n' x t
  end.

(* places[i] configured alone, one field supplied: it lands in position i, every other position
   holds defaults[j] *)
Definition places_defaults_ok (v : tv) : bool :=
  match v with
  | TL l =>
      let places := map (fun p => match p with TP (TZ o) _ => o | _ => 0 end) l in
      let defaults := map (fun p => match p with TP _ (TS d) => bs d | _ => [] end) l in
      Nat.eqb (List.length l) 6
      && forallb (fun i => res_fields_eqb (normalize_fields [bs "x"] (nth i places 0))
                                          (replace_nth i (bs "x") defaults))
                 (seq 0 6)
  | _ => false
  end.

(* the default that fills an omitted optional field: [DowOptional's; SecondOptional's] *)
Definition optional_defaults_ok (v : tv) : bool :=
  match v with
  | TL [TS ddow; TS dsec] =>
      res_fields_eqb (normalize_fields [bs "a"; bs "b"] (2 ^ o_dom + 2 ^ o_month + 2 ^ o_dow_opt))
                     [bs "0"; bs "0"; bs "0"; bs "a"; bs "b"; bs ddow]
      && res_fields_eqb (normalize_fields [bs "a"] (2 ^ o_second_opt + 2 ^ o_minute))
                        [bs dsec; bs "a"; bs "0"; bs "*"; bs "*"; bs "*"]
  | _ => false
  end.

(* "@every " ++ duration: the prefix test and the length of what is cut off *)
Definition every_prefix_ok (p : string) : bool :=
  match parse_descriptor (fun r => if eqb_listN r (bs "Q") then Some 2000000000 else None)
                         (bs p ++ bs "Q")%list LocLocal with
  | Ok (EverySched d) => (d =? 2000000000)%Z
  | _ => false
  end.

Definition parse_options : list tv :=
  tpairs TS TZ
    [ ("Second", 2 ^ o_second); ("SecondOptional", 2 ^ o_second_opt); ("Minute", 2 ^ o_minute);
      ("Hour", 2 ^ o_hour); ("Dom", 2 ^ o_dom); ("Month", 2 ^ o_month); ("Dow", 2 ^ o_dow);
      ("DowOptional", 2 ^ o_dow_opt); ("Descriptor", 2 ^ o_descriptor) ].

(* the descriptors the model's parse_descriptor knows (its "unrecognized descriptor" answer for
   anything else is part of the behavioural check) *)
Definition descriptor_count : nat := 7.

Definition table : list entry :=
  (bounds_entries "seconds" seconds ++ bounds_entries "minutes" minutes
  ++ bounds_entries "hours" hours ++ bounds_entries "dom" dom
  ++ bounds_entries "months" months ++ bounds_entries "dow" dow
  ++ [ ("cron.starBit", eqv (tN star_bit));
       ("cron.Next.yearLimit", eqv (TZ year_span));
       ("cron.ParseOption[]", in_list parse_options);
       ("cron.ParseOption[#]", eqv (tnat (List.length parse_options)));
       ("cron.places+defaults", places_defaults_ok);
       ("cron.standardParser.options", eqv (TZ standard_opts));
       ("cron.normalizeFields.optional-defaults", optional_defaults_ok);
       ("cron.parseDescriptor[]", on_pair descriptor_ok);
       ("cron.parseDescriptor[#]", eqv (tnat descriptor_count));
       ("cron.parseDescriptor.every", on_S every_prefix_ok);
       ("cron.Every.minimum", eqv (TZ ns_per_s));
       ("cron.Every.minimum-assigned", eqv (TZ ns_per_s));
       ("cron.Every.granularity", eqv (TZ ns_per_s)) ])%list.

Definition run_cases := run_tab table.

(* the table accepts what the tree says today (a regression test of this file, not the tie) *)
Example table_accepts_today :
  run_cases
    [ (0, CTab "cron.dow.max" (TZ 6)); (1, CTab "cron.Next.yearLimit" (TZ 5));
      (5, CTab "cron.dow.names[sun]" (TP (TS "sun") (TZ 0))); (6, CTab "cron.dow.names[#]" (TZ 7));
      (7, CTab "cron.parseDescriptor[@weekly]"
             (TP (TS "@weekly") (TL [TP (TS "min") (TS "seconds"); TP (TS "min") (TS "minutes");
                                     TP (TS "min") (TS "hours"); TP (TS "all") (TS "dom");
                                     TP (TS "all") (TS "months"); TP (TS "min") (TS "dow")])));
      (2, CTab "cron.parseDescriptor.every" (TS "@every "));
      (3, CTab "cron.normalizeFields.optional-defaults" (TL [TS "*"; TS "0"]));
      (4, CTab "cron.dow.max" (TZ 7)) ] = [(4, 1)].
Proof. vm_compute. reflexivity. Qed.
