(* C04 / Proofs_Ref.v — the reference [next_ref] is the least matching second inside the
   window (every zone), and the witnesses on which the model of SpecSchedule.Next — and the
   Go code, see corpus/C04/witness.jsonl — departs from it at daylight-saving transitions. *)
From Kit.Lib Require Import Base.
From Kit.C04 Require Import Cal Zone Str Parse Next Spec Bridge Proofs_Local.
From Coq Require Import ZArith NArith Lia Bool List ZifyBool.
Import ListNotations.
Open Scope Z_scope.

(* ------------------------------------------------------------------------------------ *)
(* next_ref: what [Some u] and [None] mean                                               *)

Definition in_window (z : zone) (t x : Z) : Prop := w_year (fields z x) <= year_limit z t.

(* a result is later than t, matches, lies in the window, and no earlier second after t
   matches (all of them lie in the window as well) *)
Lemma next_ref_some d z t u :
  next_ref d z t = Some u ->
  t < u /\ matches d z u = true /\ in_window z t u /\
  (forall x, t < x < u -> matches d z x = false /\ in_window z t x).
Proof.
  unfold next_ref, in_window. set (lim := year_limit z t).
  set (p := fun u => matches d z u || (lim <? w_year (fields z u))).
  pose proof (least_in_spec p scan_log (t + 1)) as H.
  destruct (least_in p (t + 1) scan_log) as [n|]; [|discriminate].
  destruct H as (Hr & Hp & Hl).
  destruct (lim <? w_year (fields z n)) eqn:E; [discriminate|].
  intros Hu. injection Hu as <-.
  split; [lia|]. split.
  - unfold p in Hp. rewrite E in Hp. rewrite orb_false_r in Hp. exact Hp.
  - split; [lia|]. intros x Hx. specialize (Hl x ltac:(lia)). unfold p in Hl.
    apply orb_false_iff in Hl as [H1 H2]. split; [exact H1 | lia].
Qed.

(* the zero time: no second x after t matches while everything in (t, x] is still inside
   the window (x within the 2^28-second cap of the scan, about 8.5 years) *)
Lemma next_ref_none d z t :
  next_ref d z t = None ->
  forall x, t < x < t + 1 + 2 ^ Z.of_nat scan_log ->
    (forall y, t < y <= x -> in_window z t y) -> matches d z x = false.
Proof.
  unfold next_ref, in_window. set (lim := year_limit z t).
  set (p := fun u => matches d z u || (lim <? w_year (fields z u))).
  pose proof (least_in_spec p scan_log (t + 1)) as H.
  destruct (least_in p (t + 1) scan_log) as [n|].
  - destruct H as (Hr & Hp & Hl).
    destruct (lim <? w_year (fields z n)) eqn:E; [|discriminate].
    intros _ x Hx Hw.
    destruct (Z_lt_le_dec x n) as [Hlt | Hge].
    + specialize (Hl x ltac:(lia)). unfold p in Hl. apply orb_false_iff in Hl. tauto.
    + specialize (Hw n ltac:(lia)). lia.
  - intros _ x Hx _. specialize (H x ltac:(lia)). unfold p in H.
    apply orb_false_iff in H. tauto.
Qed.

(* the headline form: [next_ref] returns u exactly when u is the least second after t that
   matches, provided the window has not ended before it *)
Theorem next_ref_least d z t u :
  next_ref d z t = Some u <->
  (t < u < t + 1 + 2 ^ Z.of_nat scan_log /\ matches d z u = true /\
   (forall x, t < x < u -> matches d z x = false) /\
   (forall x, t < x <= u -> in_window z t x)).
Proof.
  split.
  - intros H. pose proof (next_ref_some d z t u H) as (H1 & H2 & H3 & H4).
    split; [|split; [exact H2|split]].
    + split; [exact H1|]. revert H. unfold next_ref.
      set (p := fun u => _ || _). pose proof (least_in_spec p scan_log (t + 1)) as Hs.
      destruct (least_in p (t + 1) scan_log) as [n|]; [|discriminate].
      destruct (_ <? _); [discriminate|]. intros E. injection E as <-. lia.
    + intros x Hx. apply H4. exact Hx.
    + intros x Hx. destruct (Z.eq_dec x u) as [-> | Hne]; [exact H3|]. apply H4. lia.
  - intros (Hr & Hm & Hl & Hw). unfold next_ref, in_window in *.
    set (lim := year_limit z t) in *.
    set (p := fun u => matches d z u || (lim <? w_year (fields z u))).
    rewrite (least_in_unique p (t + 1) scan_log u).
    + replace (lim <? w_year (fields z u)) with false; [reflexivity|].
      symmetry. apply Z.ltb_ge. apply Hw. lia.
    + lia.
    + unfold p. rewrite Hm. reflexivity.
    + intros x Hx. unfold p. rewrite Hl by lia. cbn [orb]. apply Z.ltb_ge. apply Hw. lia.
Qed.

(* non-vacuity: a fixed zone, a schedule (every minute at second 0), the least match *)
Example next_ref_least_ex :
  next_ref (dsched_of_bits every_minute) (fixed_zone 0) 1709210096 = Some 1709210100.
Proof. vm_compute. reflexivity. Qed.

(* ------------------------------------------------------------------------------------ *)
(* two ways to show that the model departs from the reference                            *)

Lemma refute_nonmatch b z t u :
  next_model b z t = NextAt u -> matches (dsched_of_bits b) z u = false ->
  next_model b z t <> result_of_option (next_ref (dsched_of_bits b) z t).
Proof.
  intros Hm Hf Heq. rewrite Hm in Heq.
  destruct (next_ref (dsched_of_bits b) z t) as [u'|] eqn:E; cbn in Heq; [|discriminate].
  injection Heq as <-. apply next_ref_some in E as (_ & E & _). congruence.
Qed.

Lemma refute_earlier b z t u x :
  next_model b z t = NextAt u -> t < x < u -> matches (dsched_of_bits b) z x = true ->
  next_model b z t <> result_of_option (next_ref (dsched_of_bits b) z t).
Proof.
  intros Hm Hx Ht Heq. rewrite Hm in Heq.
  destruct (next_ref (dsched_of_bits b) z t) as [u'|] eqn:E; cbn in Heq; [|discriminate].
  injection Heq as <-. apply next_ref_some in E as (_ & _ & _ & E).
  destruct (E x Hx) as [E1 _]. congruence.
Qed.

(* ------------------------------------------------------------------------------------ *)
(* the witnesses (zone tables inlined; each replayed on the Go code by the harness)      *)

Definition bits_15_3 : bits6 :=    (* "15 3 * * *" *)
  mkBits 1 32768 8 9223372041149743102 9223372036854783998 9223372036854775935.
Definition bits_45_1 : bits6 :=    (* "45 1 * * *" *)
  mkBits 1 35184372088832 2 9223372041149743102 9223372036854783998 9223372036854775935.
Definition bits_0_1_9_3 : bits6 := (* "0 1 9 3 *" *)
  mkBits 1 1 2 512 8 9223372036854775935.
Definition bits_0_0_1 : bits6 :=   (* "0 0 1 * *" *)
  mkBits 1 1 1 2 9223372036854783998 9223372036854775935.

(* Australia/Lord_Howe, 2023-10-01 02:00 +10:30 -> 02:30 +11:00 *)
(* "15 3 * * *" from 2023-10-01T00:00:00+10:30: the model returns 03:15 of 2 October although
   03:15 of 1 October (unix 1696090500) exists and matches *)
Lemma half_hour_skips :
  zone_ok lord_howe = true /\
  next_model bits_15_3 lord_howe 1696080600 = NextAt 1696176900 /\
  matches (dsched_of_bits bits_15_3) lord_howe 1696090500 = true.
Proof. vm_compute. repeat split; reflexivity. Qed.

(* "45 1 * * *" from 01:45:00: the model returns 02:45 (hour 2) *)
Lemma half_hour_wrong_hour :
  next_model bits_45_1 lord_howe 1696086900 = NextAt 1696088700 /\
  fields lord_howe 1696088700 = mkWall 2023 10 1 2 45 0 0 /\
  matches (dsched_of_bits bits_45_1) lord_howe 1696088700 = false.
Proof. vm_compute. repeat split; reflexivity. Qed.

Theorem refuted_half_hour_shift :
  exists b z t, zone_ok z = true /\
    next_model b z t <> result_of_option (next_ref (dsched_of_bits b) z t).
Proof.
  exists bits_15_3, lord_howe, 1696080600.
  destruct half_hour_skips as (Hz & Hm & Hx). split; [exact Hz|].
  apply (refute_earlier _ _ _ _ 1696090500 Hm); [lia | exact Hx].
Qed.

Theorem refuted_half_hour_shift_wrong_hour :
  exists b z t u, zone_ok z = true /\ next_model b z t = NextAt u /\
    matches (dsched_of_bits b) z u = false.
Proof.
  exists bits_45_1, lord_howe, 1696086900, 1696088700.
  destruct half_hour_wrong_hour as (Hm & _ & Hf).
  split; [vm_compute; reflexivity|]. split; [exact Hm | exact Hf].
Qed.

(* America/Havana, 2024-03-10 00:00 -05:00 -> 01:00 -04:00. "0 1 9 3 *" (01:00 on 9 March)
   from 2024-03-09T02:00:00-05:00: the model returns 01:00 of 10 March *)
Lemma midnight_gap_wrong_day :
  zone_ok havana = true /\
  next_model bits_0_1_9_3 havana 1709967600 = NextAt 1710046800 /\
  fields havana 1710046800 = mkWall 2024 3 10 1 0 0 0 /\
  matches (dsched_of_bits bits_0_1_9_3) havana 1710046800 = false.
Proof. vm_compute. repeat split; reflexivity. Qed.

Theorem refuted_midnight_gap :
  exists b z t, zone_ok z = true /\
    next_model b z t <> result_of_option (next_ref (dsched_of_bits b) z t).
Proof.
  exists bits_0_1_9_3, havana, 1709967600.
  destruct midnight_gap_wrong_day as (Hz & Hm & _ & Hf). split; [exact Hz|].
  apply (refute_nonmatch _ _ _ _ Hm Hf).
Qed.

(* America/St_Johns, 2001-04-01 00:01 -03:30 -> 01:01 -02:30 (a whole-hour change that does
   not happen on a whole wall-clock hour). "0 0 1 * *" from 2001-04-01T00:00:01-03:30: the
   model returns 1 June 00:00 although 1 May 00:00 (unix 988684200) matches *)
Definition st_johns : zone :=
  mkZone (-12600) [ (986095860, -9000)      (* 2001-04-01T03:31:00Z: -3:30 -> -2:30 *)
                  ; (1004236260, -12600) ]. (* 2001-10-28T02:31:00Z: -2:30 -> -3:30 *)

Lemma off_hour_skips :
  zone_ok st_johns = true /\
  next_model bits_0_0_1 st_johns 986095801 = NextAt 991362600 /\
  matches (dsched_of_bits bits_0_0_1) st_johns 988684200 = true.
Proof. vm_compute. repeat split; reflexivity. Qed.

Theorem refuted_off_hour :
  exists b z t, zone_ok z = true /\
    next_model b z t <> result_of_option (next_ref (dsched_of_bits b) z t).
Proof.
  exists bits_0_0_1, st_johns, 986095801.
  destruct off_hour_skips as (Hz & Hm & Hx). split; [exact Hz|].
  apply (refute_earlier _ _ _ _ 988684200 Hm); [lia | exact Hx].
Qed.

(* Africa/Tunis, 1978-10-01 01:00 +02:00 -> 00:00 +01:00: 00:00 happens twice. "0 0 1 * *"
   from 1978-09-30T01:00+02:00: the model returns the SECOND 00:00 of 1 October (the
   transition instant itself) although the first one (unix 276040800) matches *)
Definition tunis : zone := mkZone 7200 [ (276044400, 3600) ].

Lemma midnight_overlap_skips :
  zone_ok tunis = true /\
  next_model bits_0_0_1 tunis 275954400 = NextAt 276044400 /\
  matches (dsched_of_bits bits_0_0_1) tunis 276040800 = true.
Proof. vm_compute. repeat split; reflexivity. Qed.

Theorem refuted_midnight_overlap :
  exists b z t, zone_ok z = true /\
    next_model b z t <> result_of_option (next_ref (dsched_of_bits b) z t).
Proof.
  exists bits_0_0_1, tunis, 275954400.
  destruct midnight_overlap_skips as (Hz & Hm & Hx). split; [exact Hz|].
  apply (refute_earlier _ _ _ _ 276040800 Hm); [lia | exact Hx].
Qed.

(* America/Argentina/Catamarca, 1991-03-03 00:00 -02:00 -> 1991-03-02 22:00 -04:00 (two hours
   back). "59 59 23 * * *" asked AT the transition instant (22:00:00 -04:00): truncating to
   the hour with time.Date lands in the first 22:00 (-02:00), two hours earlier, and the
   model returns 23:59:59 -02:00 - one second BEFORE the argument *)
Definition catamarca : zone := mkZone (-7200) [ (667965600, -14400) ].
Definition bits_59_59_23 : bits6 :=   (* "59 59 23 * * *" *)
  mkBits 576460752303423488 576460752303423488 8388608 9223372041149743102
         9223372036854783998 9223372036854775935.

Theorem refuted_multi_hour_not_later :
  exists b z t u, zone_ok z = true /\ next_model b z t = NextAt u /\ u < t.
Proof.
  exists bits_59_59_23, catamarca, 667965600, 667965599.
  split; [vm_compute; reflexivity|]. split; [vm_compute; reflexivity | lia].
Qed.

Theorem refuted_multi_hour :
  exists b z t, zone_ok z = true /\
    next_model b z t <> result_of_option (next_ref (dsched_of_bits b) z t).
Proof.
  destruct refuted_multi_hour_not_later as (b & z & t & u & Hz & Hm & Hu).
  exists b, z, t. split; [exact Hz|]. intros Heq. rewrite Hm in Heq.
  destruct (next_ref (dsched_of_bits b) z t) as [u'|] eqn:E; cbn in Heq; [|discriminate].
  injection Heq as <-. apply next_ref_some in E as (E & _). lia.
Qed.

(* ------------------------------------------------------------------------------------ *)
(* a state the machine never leaves                                                      *)

Lemma iter_stuck b z lim s :
  step b z lim s = inl s -> forall n, iter_pow2 b z lim n s = inl s.
Proof.
  intros H n. induction n as [|n IH]; cbn [iter_pow2]; [exact H|]. rewrite IH. exact IH.
Qed.

Lemma iter_reach_stuck b z lim s0 s n :
  iter_pow2 b z lim n s0 = inl s -> step b z lim s = inl s ->
  forall m, (n <= m)%nat -> iter_pow2 b z lim m s0 = inl s.
Proof.
  intros H0 Hs m Hm. induction Hm as [|m Hm IH]; [exact H0|].
  cbn [iter_pow2]. rewrite IH. apply iter_stuck. exact Hs.
Qed.

(* Pacific/Apia skipped 2011-12-30: 2011-12-29T23:59:59-10:00 is followed by
   2011-12-31T00:00:00+14:00. "0 0 31 12 *" from 2011-12-29T23:59:00-10:00 (the next
   activation, 31 December 00:00, is one minute away): time.Date of 30 December 00:00
   normalises back to 29 December 00:00, the day loop makes no progress and the machine never
   leaves the state (day loop, 2011-12-29T00:00-10:00). The corpus witness ("0 0 1 * *" from
   noon of the 29th) ends in the same state. *)
Definition apia : zone := mkZone (-36000) [ (1325239200, 50400) ].
Definition bits_0_0_31_12 : bits6 :=   (* "0 0 31 12 *" *)
  mkBits 1 1 1 2147483648 4096 9223372036854775935.

Theorem refuted_day_skip_hang :
  exists b z t, zone_ok z = true /\ next_model b z t = OutOfFuel /\
    next_ref (dsched_of_bits b) z t = Some (t + 60).
Proof.
  exists bits_0_0_31_12, apia, 1325239140. split; [vm_compute; reflexivity|]. split.
  - unfold next_model.
    replace (w_year (fields apia (1325239140 + 1)) + 5) with 2016 by (vm_compute; reflexivity).
    rewrite (iter_reach_stuck bits_0_0_31_12 apia 2016 (mkSt PWrap (1325239140 + 1) false)
               (mkSt PDay 1325152800 true) 3).
    + reflexivity.
    + vm_compute. reflexivity.
    + vm_compute. reflexivity.
    + unfold next_fuel. lia.
  - vm_compute. reflexivity.
Qed.
