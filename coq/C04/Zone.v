(* C04 / Zone.v — time zones as transition tables, and the parts of Go's package [time]
   that cron/spec.go uses, on unix seconds (Z).

   A zone is the offset in force before the first transition and a list of
   (utc_start_seconds, offset_seconds) transitions sorted by strictly increasing start.
   This is what [Location.lookup] computes from the tzdata tables (including the
   periods generated from the "extend" TZ string, which a harness enumerates with
   [Time.ZoneBounds]); [time.LoadLocation] itself is an oracle of the development.

   Definitions only (plus closed Examples). *)
From Kit.Lib Require Import Base.
From Kit.C04 Require Import Cal.
From Coq Require Import ZArith Lia Bool List.
Import ListNotations.
Open Scope Z_scope.

Record zone := mkZone { z_init : Z; z_trans : list (Z * Z) }.

Definition fixed_zone (off : Z) : zone := mkZone off [].

(* Go's sentinels for "beginning / end of time" in lookup results. *)
Definition alpha : Z := - 2 ^ 63.
Definition omega : Z := 2 ^ 63 - 1.

(* [lookup z u] = (offset, start, end) of the period containing u: the last transition with
   start <= u (Go: binary search "largest when <= sec"), or the initial period. *)
Fixpoint lookup_from (off start : Z) (tr : list (Z * Z)) (u : Z) : Z * Z * Z :=
  match tr with
  | [] => (off, start, omega)
  | (w, o) :: rest => if u <? w then (off, start, w) else lookup_from o w rest u
  end.

Definition lookup (z : zone) (u : Z) : Z * Z * Z := lookup_from (z_init z) alpha (z_trans z) u.

Definition offset_at (z : zone) (u : Z) : Z := fst (fst (lookup z u)).

(* table well-formedness, used by hypotheses and by Check *)
Fixpoint sorted_from (w : Z) (tr : list (Z * Z)) : bool :=
  match tr with
  | [] => true
  | (w', _) :: rest => (w <? w') && sorted_from w' rest
  end.
Definition zone_sorted (z : zone) : bool := sorted_from alpha (z_trans z).

(* every offset and every transition instant is a whole number of minutes *)
Definition zone_whole_minutes (z : zone) : bool :=
  (z_init z mod 60 =? 0) &&
  forallb (fun p => (fst p mod 60 =? 0) && (snd p mod 60 =? 0)) (z_trans z).

(* ------------------------------------------------------------------------------------ *)
(* wall clock                                                                            *)

Record wall := mkWall {
  w_year : Z; w_month : Z; w_day : Z; w_hour : Z; w_min : Z; w_sec : Z; w_wday : Z }.

(* fields of a LOCAL second count (seconds since 1970-01-01 00:00:00 on the wall clock) *)
Definition wall_of_local (L : Z) : wall :=
  let dn := L / 86400 in
  let s := L mod 86400 in
  let '(y, m, d) := civil_of_days dn in
  mkWall y m d (s / 3600) ((s mod 3600) / 60) (s mod 60) (weekday dn).

(* Time.Year/Month/Day/Hour/Minute/Second/Weekday of the instant u presented in zone z *)
Definition fields (z : zone) (u : Z) : wall := wall_of_local (u + offset_at z u).

(* ------------------------------------------------------------------------------------ *)
(* time.Date                                                                             *)

(* time.norm: hi*base + lo is preserved, 0 <= lo' < base. Go's integer division truncates;
   both divisions below are on non-negative numerators, where it coincides with Z's. *)
Definition norm (hi lo base : Z) : Z * Z :=
  let '(hi1, lo1) :=
    if lo <? 0 then let n := (- lo - 1) / base + 1 in (hi - n, lo + n * base) else (hi, lo) in
  if base <=? lo1 then let n := lo1 / base in (hi1 + n, lo1 - n * base) else (hi1, lo1).

(* The offset resolution at the end of time.Date (Go 1.23): [unix] is the wall-clock reading
   taken as if it were UTC. *)
Definition resolve (z : zone) (unix : Z) : Z :=
  let '(offset, start, end_) := lookup z unix in
  if offset =? 0 then unix
  else
    let utc := unix - offset in
    let offset' :=
      if (utc <? start) || (end_ <=? utc) then fst (fst (lookup z utc)) else offset in
    unix - offset'.

(* time.Date(year, month, day, hour, min, sec, 0, loc) *)
Definition go_date (z : zone) (year month day hour min sec : Z) : Z :=
  let '(year, m) := norm year (month - 1) 12 in
  let month := m + 1 in
  let '(min, sec) := norm min sec 60 in
  let '(hour, min) := norm hour min 60 in
  let '(day, hour) := norm day hour 24 in
  let d := days_of_civil year month 1 + (day - 1) in
  resolve z (d * 86400 + (hour * 3600 + min * 60 + sec)).

(* Time.AddDate(years, months, days) for a Time located in z *)
Definition add_date (z : zone) (u years months days : Z) : Z :=
  let w := fields z u in
  go_date z (w_year w + years) (w_month w + months) (w_day w + days)
          (w_hour w) (w_min w) (w_sec w).

(* Time.Add(d seconds): absolute *)
Definition add (u d : Z) : Z := u + d.

(* Time.Truncate(time.Minute) / Truncate(time.Second) on a whole-second instant: Go rounds the
   absolute time since its internal epoch (year 1), which is a multiple of 60 s away from
   the unix epoch, and rounds towards minus infinity ([div] fixes up negative values). *)
Definition truncate_minute (u : Z) : Z := u - u mod 60.
Definition truncate_second (u : Z) : Z := u.

(* ------------------------------------------------------------------------------------ *)
(* Examples                                                                              *)

(* Australia/Lord_Howe around the 2023-10-01 half-hour transition *)
Definition lord_howe : zone :=
  mkZone 37800 [ (1696087800, 39600)    (* 2023-09-30T15:30:00Z: +10:30 -> +11:00 *)
               ; (1712415600, 37800) ]. (* 2024-04-06T15:00:00Z: +11:00 -> +10:30 *)

(* America/Havana around the 2024-03-10 midnight gap *)
Definition havana : zone :=
  mkZone (-18000) [ (1710046800, -14400)     (* 2024-03-10T05:00:00Z: -5:00 -> -4:00 *)
                  ; (1730610000, -18000) ].  (* 2024-11-03T05:00:00Z: -4:00 -> -5:00 *)

Example zone_ex1 : fields (fixed_zone 0) 1709210096 = mkWall 2024 2 29 12 34 56 4.
Proof. reflexivity. Qed.
Example zone_ex2 : go_date (fixed_zone 3600) 2024 2 29 12 34 56 = 1709210096 - 3600.
Proof. reflexivity. Qed.
(* October 32 normalises to November 1; month 13 to January of the next year *)
Example zone_ex3 : go_date (fixed_zone 0) 2023 10 32 0 0 0 = go_date (fixed_zone 0) 2023 11 1 0 0 0.
Proof. reflexivity. Qed.
Example zone_ex4 : go_date (fixed_zone 0) 2023 13 1 0 0 0 = go_date (fixed_zone 0) 2024 1 1 0 0 0.
Proof. reflexivity. Qed.
(* Havana 2024-03-10 00:00 does not exist; Go's Date yields 2024-03-09 23:00 -0500
   (checked against Go 1.23.5: time.Date(2024,3,10,0,0,0,0,havana).Unix() = 1710043200) *)
Example zone_ex5 : go_date havana 2024 3 10 0 0 0 = 1710043200.
Proof. reflexivity. Qed.
Example zone_ex6 : w_hour (fields havana 1710043200) = 23.
Proof. reflexivity. Qed.
(* Lord Howe 2023-10-01 02:15 does not exist; Go yields 02:45 +1100 (Unix 1696088700);
   2024-04-07 01:45 happens twice; Go yields the second one, +1030 (Unix 1712416500) *)
Example zone_ex7 : go_date lord_howe 2023 10 1 2 15 0 = 1696088700.
Proof. reflexivity. Qed.
Example zone_ex8 : go_date lord_howe 2024 4 7 1 45 0 = 1712416500.
Proof. reflexivity. Qed.
