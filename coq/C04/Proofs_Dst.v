(* C04 / Proofs_Dst.v — SpecSchedule.Next on BENIGN daylight-saving tables (Benign.v): the
   model returns exactly the specification's reference value, for every six bit sets and
   every instant.

   R. time.Date's offset resolution in terms of the offset function g of the table.
   T. what a benign table says about g: whole minutes, at most a day, and on every interval
      shorter than three days g is constant or makes one benign jump.
   A. consequences for the local time L u = u + g u: every local midnight has exactly one
      preimage and L is monotone across it (day, month and year cells are UTC intervals);
      steps of a second / minute / hour from an aligned instant; the start of a wall-clock
      hour as time.Date finds it.
   M. the invariant of the step machine (as in Proofs_Next.v, in UTC order), termination.
   F. the theorem. *)
From Kit.Lib Require Import Base.
From Kit.C04 Require Import Cal Zone Str Parse Next Spec Bridge Benign Proofs_Local Proofs_Fast Proofs_Next.
From Coq Require Import ZArith NArith Lia Bool List ZifyBool.
Import ListNotations.
Open Scope Z_scope.

(* ------------------------------------------------------------------------------------ *)
(* R. lookup, resolve, time.Date on any sorted table                                     *)

Lemma lookup_from_start_ge tr : forall off start u o s e,
  sorted_from start tr = true -> lookup_from off start tr u = (o, s, e) -> start <= s.
Proof.
  induction tr as [|[w o'] rest IH]; intros off start u o s e Hs; cbn [lookup_from].
  - intros H. injection H as _ <- _. lia.
  - cbn [sorted_from] in Hs. apply andb_true_iff in Hs as [Hw Hs].
    destruct (u <? w); [intros H; injection H as _ <- _; lia|].
    intros H. pose proof (IH _ _ _ _ _ _ Hs H). lia.
Qed.

Lemma lookup_from_const tr : forall off start u o s e,
  sorted_from start tr = true -> lookup_from off start tr u = (o, s, e) ->
  forall x, s <= x < e -> fst (fst (lookup_from off start tr x)) = o.
Proof.
  induction tr as [|[w o'] rest IH]; intros off start u o s e Hs; cbn [lookup_from].
  - intros H x Hx. injection H as <- _ _. reflexivity.
  - cbn [sorted_from] in Hs. apply andb_true_iff in Hs as [Hw Hs].
    destruct (u <? w) eqn:Eu.
    + intros H x Hx. injection H as <- <- <-. replace (x <? w) with true by lia. reflexivity.
    + intros H x Hx. pose proof (lookup_from_start_ge _ _ _ _ _ _ _ Hs H) as Hge.
      replace (x <? w) with false by lia. apply (IH _ _ _ _ _ _ Hs H). exact Hx.
Qed.

(* the offset resolution of time.Date: the wall-clock reading Lc (seconds, as if UTC) becomes
   Lc - g (Lc - g Lc) *)
Lemma resolve_g z Lc : zone_sorted z = true ->
  resolve z Lc = Lc - offset_at z (Lc - offset_at z Lc).
Proof.
  intros Hs. unfold resolve, offset_at at 2. unfold lookup at 1 3.
  destruct (lookup_from (z_init z) alpha (z_trans z) Lc) as [[o1 s] e] eqn:E. cbn [fst].
  destruct (o1 =? 0) eqn:E0.
  - assert (o1 = 0) by lia. subst o1. replace (Lc - 0) with Lc by lia.
    unfold offset_at, lookup. rewrite E. cbn [fst]. lia.
  - destruct ((Lc - o1 <? s) || (e <=? Lc - o1)) eqn:Ec.
    + reflexivity.
    + unfold offset_at, lookup.
      rewrite (lookup_from_const _ _ _ _ _ _ _ Hs E (Lc - o1)) by lia. reflexivity.
Qed.

(* time.Date with in-range month and hour, minute = second = 0 *)
Lemma go_date_resolve z y mo d h :
  1 <= mo <= 12 -> 0 <= h < 24 ->
  go_date z y mo d h 0 0 = resolve z (days_of_civil y mo d * 86400 + h * 3600).
Proof.
  intros Hm Hh. unfold go_date.
  rewrite (norm_in_range y (mo - 1) 12) by lia.
  rewrite (norm_in_range 0 0 60) by lia.
  rewrite (norm_in_range h 0 60) by lia.
  rewrite (norm_in_range d h 24) by lia.
  rewrite (days_of_civil_day y mo d). replace (mo - 1 + 1) with mo by lia. f_equal. lia.
Qed.

Lemma go_date_resolve_next_month z y m :
  1 <= m <= 12 ->
  go_date z y (m + 1) 1 0 0 0 =
  resolve z (days_of_civil (fst (next_month y m)) (snd (next_month y m)) 1 * 86400).
Proof.
  intros Hm. unfold go_date. rewrite (norm_month y m Hm).
  rewrite (norm_in_range 0 0 60) by lia.
  rewrite (norm_in_range 0 0 60) by lia.
  rewrite (norm_in_range 1 0 24) by lia.
  replace (snd (next_month y m) - 1 + 1) with (snd (next_month y m)) by lia. f_equal. lia.
Qed.

(* ------------------------------------------------------------------------------------ *)
(* T. from the table to the offset function                                              *)

Definition jumpP (w p q : Z) : Prop :=
  (q - p = 3600 \/ q - p = -3600) /\ (w + p) mod 3600 = 0 /\
  3600 <= Z.min (w + p) (w + q) mod 86400 <= 79200.

Lemma jumpok_spec w p q : jumpok w p q = true -> jumpP w p q.
Proof. unfold jumpok, jumpP. intros H. lia. Qed.

Record benign_fun (g : Z -> Z) : Prop := mkBenignFun {
  bg_min : forall u, g u mod 60 = 0;
  bg_small : forall u, Z.abs (g u) <= 86400;
  bg_local : forall u1 u2, u1 <= u2 -> u2 - u1 < spacing ->
    (forall x, u1 <= x <= u2 -> g x = g u1) \/
    (exists w, u1 < w <= u2 /\ (forall x, u1 <= x < w -> g x = g u1) /\
               (forall x, w <= x <= u2 -> g x = g u2) /\ jumpP w (g u1) (g u2)) }.

Definition local_prop (g : Z -> Z) : Prop :=
  forall u1 u2, u1 <= u2 -> u2 - u1 < spacing ->
    (forall x, u1 <= x <= u2 -> g x = g u1) \/
    (exists w, u1 < w <= u2 /\ (forall x, u1 <= x < w -> g x = g u1) /\
               (forall x, w <= x <= u2 -> g x = g u2) /\ jumpP w (g u1) (g u2)).

Lemma off_at_below tr : forall off lo x,
  sorted_from lo tr = true -> x <= lo -> off_at off tr x = off.
Proof.
  destruct tr as [|[w o] rest]; intros off lo x Hs Hx; cbn [off_at]; [reflexivity|].
  cbn [sorted_from] in Hs. apply andb_true_iff in Hs as [Hw _].
  replace (x <? w) with true by lia. reflexivity.
Qed.

Lemma benign_from_props tr : forall off lastc lo,
  sorted_from lo tr = true -> benign_from off lastc tr = true ->
  (forall x, (off_at off tr x - off) mod 3600 = 0) /\
  (forall c, lastc = Some c -> forall x, x < c + spacing -> off_at off tr x = off) /\
  local_prop (off_at off tr).
Proof.
  induction tr as [|[w o] rest IH]; intros off lastc lo Hs Hb.
  - cbn [off_at]. split; [|split].
    + intros x. replace (off - off) with 0 by lia. reflexivity.
    + reflexivity.
    + intros u1 u2 _ _. left. reflexivity.
  - cbn [sorted_from] in Hs. apply andb_true_iff in Hs as [Hw Hs].
    cbn [benign_from] in Hb. destruct (o =? off) eqn:Eo.
    + (* a boundary that keeps the offset *)
      assert (o = off) by lia. subst o.
      destruct (IH off lastc w Hs Hb) as (I1 & I2 & I3).
      assert (Hsame : forall x, off_at off ((w, off) :: rest) x = off_at off rest x).
      { intros x. cbn [off_at]. destruct (x <? w) eqn:E; [|reflexivity].
        symmetry. apply (off_at_below rest off w x Hs). lia. }
      split; [|split].
      * intros x. rewrite Hsame. apply I1.
      * intros c Hc x Hx. rewrite Hsame. apply (I2 c Hc x Hx).
      * intros u1 u2 H1 H2. destruct (I3 u1 u2 H1 H2) as [Hc | (w' & Hw' & Ha & Hb' & Hj)].
        -- left. intros x Hx. rewrite !Hsame. apply Hc. exact Hx.
        -- right. exists w'. rewrite !Hsame. split; [exact Hw'|].
           split; [intros x Hx; rewrite Hsame; apply Ha; exact Hx|].
           split; [intros x Hx; rewrite Hsame; apply Hb'; exact Hx | exact Hj].
    + (* an offset change *)
      apply andb_true_iff in Hb as [Hb Hrest]. apply andb_true_iff in Hb as [Hj Hsp].
      apply jumpok_spec in Hj.
      destruct (IH o (Some w) w Hs Hrest) as (I1 & I2 & I3).
      specialize (I2 w eq_refl).
      split; [|split].
      * intros x. cbn [off_at]. destruct (x <? w).
        -- replace (off - off) with 0 by lia. reflexivity.
        -- destruct Hj as ([Hd | Hd] & _); specialize (I1 x);
             replace (off_at o rest x - off) with ((off_at o rest x - o) + (o - off)) by lia;
             rewrite Hd; rewrite <- Z.add_mod_idemp_l, I1 by lia; reflexivity.
      * intros c Hc x Hx. subst lastc. cbn [off_at]. replace (x <? w) with true by lia. reflexivity.
      * intros u1 u2 H1 H2. cbn [off_at].
        destruct (u2 <? w) eqn:E2.
        -- left. intros x Hx. replace (x <? w) with true by lia.
           replace (u1 <? w) with true by lia. reflexivity.
        -- destruct (u1 <? w) eqn:E1.
           ++ right. exists w. split; [lia|].
              split; [intros x Hx; replace (x <? w) with true by lia; reflexivity|].
              rewrite (I2 u2) by lia.
              split; [intros x Hx; replace (x <? w) with false by lia; apply I2; lia | exact Hj].
           ++ destruct (I3 u1 u2 H1 H2) as [Hc | (w' & Hw' & Ha & Hb' & Hj')].
              ** left. intros x Hx. replace (x <? w) with false by lia. apply Hc. exact Hx.
              ** right. exists w'. split; [exact Hw'|].
                 split; [intros x Hx; replace (x <? w) with false by lia; apply Ha; exact Hx|].
                 split; [intros x Hx; replace (x <? w) with false by lia; apply Hb'; exact Hx|].
                 exact Hj'.
Qed.

Theorem dst_benign_fun z : dst_benign z = true -> benign_fun (offset_at z).
Proof.
  unfold dst_benign. intros H. apply andb_true_iff in H as [H Hb]. apply andb_true_iff in H as [Hok H60].
  unfold zone_ok in Hok. apply andb_true_iff in Hok as [Hsorted Hsmall].
  destruct (benign_from_props _ _ _ _ Hsorted Hb) as (P1 & _ & P3).
  constructor.
  - intros u. rewrite offset_at_off. specialize (P1 u).
    replace (off_at (z_init z) (z_trans z) u)
      with ((off_at (z_init z) (z_trans z) u - z_init z) + z_init z) by lia.
    assert (H60' : z_init z mod 60 = 0) by lia.
    revert P1 H60'. generalize (off_at (z_init z) (z_trans z) u - z_init z). intros a Ha Hb'.
    clear - Ha Hb'. Z.div_mod_to_equations. lia.
  - intros u. rewrite offset_at_off. apply off_at_small. apply zone_offsets_small_spec. exact Hsmall.
  - intros u1 u2 H1 H2. specialize (P3 u1 u2 H1 H2).
    destruct P3 as [Hc | (w & Hw & Ha & Hb' & Hj)].
    + left. intros x Hx. rewrite !offset_at_off. apply Hc. exact Hx.
    + right. exists w. rewrite !offset_at_off. split; [exact Hw|].
      split; [intros x Hx; rewrite offset_at_off; apply Ha; exact Hx|].
      split; [intros x Hx; rewrite offset_at_off; apply Hb'; exact Hx | exact Hj].
Qed.

(* ------------------------------------------------------------------------------------ *)
(* A. the local time of a benign offset function                                         *)

Ltac dlia := Z.div_mod_to_equations; lia.

Section Abstract.
  Variable g : Z -> Z.
  Hypothesis Bg : benign_fun g.

  Definition Lo (u : Z) : Z := u + g u.
  (* time.Date's answer for the wall-clock reading Lc *)
  Definition pre (Lc : Z) : Z := Lc - g (Lc - g Lc).

  (* one formula for both cases of [bg_local] *)
  Lemma local3 a b : a <= b -> b - a < spacing ->
    exists w p q, (forall x, a <= x <= b -> g x = if x <? w then p else q) /\
                  (p = q \/ (a < w <= b /\ jumpP w p q)).
  Proof.
    intros H1 H2. destruct (bg_local g Bg a b H1 H2) as [Hc | (w & Hw & Ha & Hb & Hj)].
    - exists a, (g a), (g a). split; [|left; reflexivity].
      intros x Hx. replace (x <? a) with false by lia. apply Hc. exact Hx.
    - exists w, (g a), (g b). split; [|right; split; assumption].
      intros x Hx. destruct (x <? w) eqn:E; [apply Ha | apply Hb]; lia.
  Qed.

  Lemma g60 u : g u mod 60 = 0.
  Proof. apply (bg_min g Bg). Qed.
  Lemma gsmall u : -86400 <= g u <= 86400.
  Proof. pose proof (bg_small g Bg u). lia. Qed.

  (* --- local midnights ------------------------------------------------------------- *)

  Lemma pre_midnight K : K mod 86400 = 0 -> Lo (pre K) = K.
  Proof.
    intros HK. unfold Lo, pre.
    pose proof (gsmall K) as B1. pose proof (gsmall (K - g K)) as B2.
    destruct (local3 (K - 86400) (K + 86400)) as (w & p & q & Hg & Hpq); [lia | unfold spacing; lia |].
    pose proof (Hg K ltac:(lia)) as E1. pose proof (Hg (K - g K) ltac:(lia)) as E2.
    pose proof (Hg (K - g (K - g K)) ltac:(lia)) as E3.
    destruct Hpq as [-> | (Hw & (Hd & Hm & Hr))].
    - destruct (K <? w), (K - g K <? w), (K - g (K - g K) <? w); lia.
    - unfold spacing in *.
      destruct (K <? w) eqn:C1; rewrite E1 in *;
      destruct (K - _ <? w) eqn:C2 in E2; rewrite E2 in *;
      destruct (K - _ <? w) eqn:C3 in E3; rewrite E3; try lia;
      exfalso; destruct Hd; dlia.
  Qed.

  Lemma pre_mono K : K mod 86400 = 0 -> forall u, u < pre K <-> Lo u < K.
  Proof.
    intros HK u. pose proof (pre_midnight K HK) as Hr. set (r := pre K) in *.
    pose proof (gsmall u) as Bu. pose proof (gsmall r) as Br. unfold Lo in *.
    destruct (Z_lt_le_dec (Z.abs (u - r)) 200000) as [Hnear | Hfar]; [|split; intros; lia].
    destruct (local3 (Z.min u r) (Z.max u r)) as (w & p & q & Hg & Hpq); [lia | unfold spacing; lia |].
    pose proof (Hg u ltac:(lia)) as E1. pose proof (Hg r ltac:(lia)) as E2.
    destruct Hpq as [-> | (Hw & (Hd & Hm & Hrr))].
    - destruct (u <? w), (r <? w); lia.
    - destruct (u <? w) eqn:C1; rewrite E1 in *; destruct (r <? w) eqn:C2; rewrite E2 in *;
        try lia; destruct Hd; dlia.
  Qed.

  (* day cells: the instants whose local day is D form the interval between the preimages of
     the two midnights *)
  Lemma day_cell D u : pre (D * 86400) <= u < pre ((D + 1) * 86400) <-> Lo u / 86400 = D.
  Proof.
    pose proof (pre_mono (D * 86400) ltac:(apply Z.mod_mul; lia) u) as H1.
    pose proof (pre_mono ((D + 1) * 86400) ltac:(apply Z.mod_mul; lia) u) as H2.
    split; intros H; dlia.
  Qed.

  (* --- cells of a second, a minute, an hour ---------------------------------------- *)

  Lemma cell_const s u : (s = 1 \/ s = 60 \/ s = 3600) -> Lo u mod s = 0 ->
    forall x, u <= x < u + s -> g x = g u.
  Proof.
    intros Hs Ha x Hx. unfold Lo in Ha.
    destruct (local3 u (u + s)) as (w & p & q & Hg & Hpq); [lia | unfold spacing; lia |].
    pose proof (Hg u ltac:(lia)) as E1. pose proof (Hg x ltac:(lia)) as E2.
    destruct Hpq as [-> | (Hw & (Hd & Hm & Hrr))].
    - destruct (u <? w), (x <? w); lia.
    - destruct (u <? w) eqn:C1; rewrite E1 in *; destruct (x <? w) eqn:C2; rewrite E2; try lia;
        exfalso; destruct Hs as [-> | [-> | ->]]; dlia.
  Qed.

  (* a step of one cell from an aligned instant: the local time advances by the cell, plus or
     minus an hour if a (benign) jump sits exactly at the end of the cell *)
  Lemma step_aligned s u : (s = 1 \/ s = 60 \/ s = 3600) -> Lo u mod s = 0 ->
    exists d, Lo (u + s) = Lo u + s + d /\
      (d = 0 \/ ((d = 3600 \/ d = -3600) /\ (Lo u + s) mod 3600 = 0 /\
                 3600 <= Z.min (Lo u + s) (Lo u + s + d) mod 86400 <= 79200)).
  Proof.
    intros Hs Ha. unfold Lo in *.
    destruct (local3 u (u + s)) as (w & p & q & Hg & Hpq); [lia | unfold spacing; lia |].
    pose proof (Hg u ltac:(lia)) as E1. pose proof (Hg (u + s) ltac:(lia)) as E2.
    destruct Hpq as [-> | (Hw & (Hd & Hm & Hrr))].
    - exists 0. split; [|left; reflexivity]. destruct (u <? w), (u + s <? w); lia.
    - destruct (u <? w) eqn:C1; rewrite E1 in *; destruct (u + s <? w) eqn:C2; rewrite E2.
      + exists 0. split; [lia | left; reflexivity].
      + assert (w = u + s) by (destruct Hs as [-> | [-> | ->]]; dlia). subst w.
        exists (q - p). split; [lia|]. right.
        replace (u + p + s) with (u + s + p) by lia.
        replace (u + s + p + (q - p)) with (u + s + q) by lia. tauto.
      + lia.
      + exists 0. split; [lia | left; reflexivity].
  Qed.

  (* the start of the cell an instant lies in *)
  Lemma cell_back s t : (s = 60 \/ s = 3600) -> g (t - Lo t mod s) = g t.
  Proof.
    intros Hs. unfold Lo.
    assert (H0 : 0 <= (t + g t) mod s < s) by (destruct Hs as [-> | ->]; dlia).
    destruct (local3 (t - s) t) as (w & p & q & Hg & Hpq); [lia | unfold spacing; lia |].
    pose proof (Hg t ltac:(lia)) as E1. pose proof (Hg (t - (t + g t) mod s) ltac:(lia)) as E2.
    destruct Hpq as [-> | (Hw & (Hd & Hm & Hrr))].
    - destruct (t <? w), (t - _ <? w); lia.
    - destruct (t <? w) eqn:C1; rewrite E1 in *; destruct (t - _ <? w) eqn:C2; rewrite E2; try lia;
        exfalso; destruct Hs as [-> | ->]; destruct Hd; dlia.
  Qed.

  Lemma cell_start s t : (s = 60 \/ s = 3600) ->
    Lo (t - Lo t mod s) = Lo t - Lo t mod s.
  Proof. intros Hs. unfold Lo at 1. rewrite (cell_back s t Hs). unfold Lo. lia. Qed.

  (* inside a cell the local time runs with the instant *)
  Lemma cell_run s u : (s = 1 \/ s = 60 \/ s = 3600) -> Lo u mod s = 0 ->
    forall x, u <= x < u + s -> Lo x = Lo u + (x - u).
  Proof. intros Hs Ha x Hx. unfold Lo. rewrite (cell_const s u Hs Ha x Hx). lia. Qed.

  (* --- the start of a wall-clock hour, as time.Date finds it -------------------------- *)

  (* t lies in the absolute hour cell starting at a, whose wall reading starts at Hs.
     time.Date returns an instant whose wall reading is Hs: a itself, or - when that wall hour
     happens twice - possibly the other copy, an hour earlier or later. *)
  Lemma hour_start t :
    let a := t - Lo t mod 3600 in
    let Hs := Lo t - Lo t mod 3600 in
    Lo (pre Hs) = Hs /\
    (pre Hs = a \/
     ((pre Hs = a - 3600 \/ pre Hs = a + 3600) /\ 3600 <= Hs mod 86400 <= 79200)).
  Proof.
    cbv zeta. pose proof (cell_start 3600 t ltac:(lia)) as Ha.
    set (a := t - Lo t mod 3600) in *. set (Hs := Lo t - Lo t mod 3600) in *.
    assert (HsA : Hs mod 3600 = 0) by (unfold Hs; dlia).
    unfold Lo in Ha. unfold Lo at 1, pre.
    pose proof (gsmall Hs) as B1. pose proof (gsmall (Hs - g Hs)) as B2. pose proof (gsmall a) as B3.
    destruct (local3 (Hs - 86400) (Hs + 86400)) as (w & p & q & Hg & Hpq); [lia | unfold spacing; lia |].
    pose proof (Hg Hs ltac:(lia)) as E1. pose proof (Hg (Hs - g Hs) ltac:(lia)) as E2.
    pose proof (Hg (Hs - g (Hs - g Hs)) ltac:(lia)) as E3. pose proof (Hg a ltac:(lia)) as E4.
    clearbody a Hs.
    destruct Hpq as [-> | (Hw & (Hd & Hm & Hr))].
    - destruct (Hs <? w), (Hs - g Hs <? w), (Hs - g (Hs - g Hs) <? w), (a <? w); lia.
    - destruct (Hs <? w) eqn:C1; rewrite E1 in *;
      destruct (Hs - _ <? w) eqn:C2 in E2; rewrite E2 in *;
      destruct (Hs - _ <? w) eqn:C3 in E3; rewrite E3;
      destruct (a <? w) eqn:C4; rewrite E4 in *;
      destruct Hd as [Hd | Hd]; dlia.
  Qed.
End Abstract.

(* ------------------------------------------------------------------------------------ *)
(* pure arithmetic of the increments when a benign jump may sit at the end of the cell   *)

Definition jump_at (A d : Z) : Prop :=
  d = 0 \/ ((d = 3600 \/ d = -3600) /\ A mod 3600 = 0 /\
            3600 <= Z.min A (A + d) mod 86400 <= 79200).

Lemma arith_sec_d L d : jump_at (L + 1) d ->
  let L' := L + 1 + d in
  (L' mod 60 = (L + 1) mod 60) /\
  (L' / 60 <> L / 60 -> L' mod 60 = 0) /\
  (L' / 3600 <> L / 3600 -> L' mod 3600 = 0) /\
  (L' / 86400 <> L / 86400 -> L' mod 86400 = 0 /\ L' / 86400 = L / 86400 + 1) /\
  (L' mod 60 <> 0 -> d = 0).
Proof. unfold jump_at. cbv zeta. intros [-> | ([-> | ->] & H1 & H2)]; repeat split; intros; dlia. Qed.

Lemma arith_min_d L d : jump_at (L / 60 * 60 + 60) d ->
  let L' := L / 60 * 60 + 60 + d in
  L' mod 60 = 0 /\
  (L' / 3600 <> L / 3600 -> L' mod 3600 = 0) /\
  (L' / 86400 <> L / 86400 -> L' mod 86400 = 0 /\ L' / 86400 = L / 86400 + 1) /\
  ((L' / 60) mod 60 <> 0 -> d = 0).
Proof. unfold jump_at. cbv zeta. intros [-> | ([-> | ->] & H1 & H2)]; repeat split; intros; dlia. Qed.

Lemma arith_hour_d L d : jump_at (L / 3600 * 3600 + 3600) d ->
  let L' := L / 3600 * 3600 + 3600 + d in
  L' mod 60 = 0 /\ L' mod 3600 = 0 /\
  (L' / 86400 <> L / 86400 -> L' mod 86400 = 0 /\ L' / 86400 = L / 86400 + 1) /\
  ((L' / 3600) mod 24 <> 0 -> L' / 86400 = L / 86400) /\
  L' <= L + 7200.
Proof. unfold jump_at. cbv zeta. intros [-> | ([-> | ->] & H1 & H2)]; repeat split; intros; dlia. Qed.

(* ------------------------------------------------------------------------------------ *)
(* M. the step machine on a benign table                                                 *)

Section Machine.
  Variable b : bits6.
  Variable z : zone.
  Hypothesis Hben : dst_benign z = true.

  Let g := offset_at z.
  Let Bg : benign_fun g := dst_benign_fun z Hben.

  Lemma z_sorted : zone_sorted z = true.
  Proof.
    pose proof Hben as H. unfold dst_benign, zone_ok in H. apply andb_true_iff in H as [H _].
    apply andb_true_iff in H as [H _]. apply andb_true_iff in H as [H _]. exact H.
  Qed.

  Definition Lz (u : Z) : Z := Lo g u.

  Lemma fields_L u : fields z u = wall_of_local (Lz u).
  Proof. reflexivity. Qed.

  Lemma go_date_pre y mo d h : 1 <= mo <= 12 -> 0 <= h < 24 ->
    go_date z y mo d h 0 0 = pre g (days_of_civil y mo d * 86400 + h * 3600).
  Proof. intros Hm Hh. rewrite go_date_resolve by assumption. apply resolve_g. apply z_sorted. Qed.

  (* time.Date of the start of the wall-clock hour / day / month of a local reading *)
  Lemma go_date_hour_pre L :
    go_date z (cy (L / 86400)) (cm (L / 86400)) (cd (L / 86400)) ((L / 3600) mod 24) 0 0 =
    pre g (L - L mod 3600).
  Proof.
    rewrite go_date_pre by (try apply cm_range; dlia). rewrite days_of_civil_c. f_equal. dlia.
  Qed.

  Lemma go_date_day_pre D :
    go_date z (cy D) (cm D) (cd D) 0 0 0 = pre g (D * 86400).
  Proof. rewrite go_date_pre by (try apply cm_range; lia). rewrite days_of_civil_c. f_equal. lia. Qed.

  Lemma go_date_month_pre D :
    go_date z (cy D) (cm D) 1 0 0 0 = pre g (month_start (mkey D) * 86400).
  Proof.
    rewrite go_date_pre by (try apply cm_range; lia).
    rewrite (days_of_civil_index _ _ 1 (cm_range _)). fold (mkey D). f_equal. lia.
  Qed.

  (* AddDate(0,0,1) from the local midnight of day D *)
  Lemma add_date_day_pre a D : Lz a = D * 86400 ->
    add_date z a 0 0 1 = pre g ((D + 1) * 86400).
  Proof.
    intros Ha. unfold add_date. rewrite fields_L, Ha.
    rewrite w_year_local, w_month_local, w_day_local, w_hour_local, w_min_local, w_sec_local.
    rewrite Z.div_mul by lia.
    replace ((D * 86400 / 3600) mod 24) with 0 by dlia.
    replace ((D * 86400 / 60) mod 60) with 0 by dlia.
    replace (D * 86400 mod 60) with 0 by dlia.
    rewrite !Z.add_0_r. rewrite go_date_pre by (try apply cm_range; lia).
    pose proof (days_of_civil_day (cy D) (cm D) (cd D + 1)) as E1.
    pose proof (days_of_civil_day (cy D) (cm D) (cd D)) as E2. rewrite days_of_civil_c in E2.
    f_equal. lia.
  Qed.

  (* AddDate(0,1,0) from the local midnight of the first day of month k *)
  Lemma add_date_month_pre a k : Lz a = month_start k * 86400 ->
    add_date z a 0 1 0 = pre g (month_start (k + 1) * 86400).
  Proof.
    intros Ha. unfold add_date. rewrite fields_L, Ha.
    rewrite w_year_local, w_month_local, w_day_local, w_hour_local, w_min_local, w_sec_local.
    rewrite Z.div_mul by lia.
    replace ((month_start k * 86400 / 3600) mod 24) with 0 by dlia.
    replace ((month_start k * 86400 / 60) mod 60) with 0 by dlia.
    replace (month_start k * 86400 mod 60) with 0 by dlia.
    rewrite !Z.add_0_r.
    pose proof (month_len_range k) as Hlen.
    destruct (in_month_cell k (month_start k) ltac:(lia)) as (Hy & Hm & Hd & Hk).
    replace (cd (month_start k)) with 1 by lia.
    assert (E : days_of_civil (fst (next_month (cy (month_start k)) (cm (month_start k))))
                  (snd (next_month (cy (month_start k)) (cm (month_start k)))) 1 =
                month_start (k + 1)).
    { rewrite (month_succ _ _ (cm_range _)), month_start_succ.
      pose proof (days_of_civil_index (cy (month_start k)) (cm (month_start k)) 1 (cm_range _)) as Hi.
      unfold mkey in Hk. rewrite Hk in Hi.
      rewrite <- (month_len_index _ _ (cm_range (month_start k))). rewrite Hk. lia. }
    rewrite go_date_resolve_next_month by apply cm_range. rewrite E.
    rewrite resolve_g by apply z_sorted. reflexivity.
  Qed.

End Machine.
