(* C04 / Proofs_Local.v — the wall clock as arithmetic on local seconds; time.Date and
   friends on fixed-offset zones. Lemmas used by Proofs_Next.v and Proofs_Ref.v. *)
From Kit.Lib Require Import Base.
From Kit.C04 Require Import Cal Zone Str Parse Next Spec Bridge.
From Coq Require Import ZArith NArith Lia Bool List ZifyBool.
Import ListNotations.
Open Scope Z_scope.

Ltac div_lia := Z.div_mod_to_equations; lia.

(* ------------------------------------------------------------------------------------ *)
(* projections of wall_of_local                                                          *)

Definition cy (D : Z) : Z := fst (fst (civil_of_days D)).
Definition cm (D : Z) : Z := snd (fst (civil_of_days D)).
Definition cd (D : Z) : Z := snd (civil_of_days D).

Lemma civil_eta D : civil_of_days D = (cy D, cm D, cd D).
Proof. unfold cy, cm, cd. destruct (civil_of_days D) as [[y m] d]. reflexivity. Qed.

Lemma wall_of_local_eq L :
  wall_of_local L =
  mkWall (cy (L / 86400)) (cm (L / 86400)) (cd (L / 86400))
         ((L / 3600) mod 24) ((L / 60) mod 60) (L mod 60) (weekday (L / 86400)).
Proof.
  unfold wall_of_local. rewrite (civil_eta (L / 86400)).
  f_equal; div_lia.
Qed.

Lemma w_year_local L : w_year (wall_of_local L) = cy (L / 86400).
Proof. rewrite wall_of_local_eq. reflexivity. Qed.
Lemma w_month_local L : w_month (wall_of_local L) = cm (L / 86400).
Proof. rewrite wall_of_local_eq. reflexivity. Qed.
Lemma w_day_local L : w_day (wall_of_local L) = cd (L / 86400).
Proof. rewrite wall_of_local_eq. reflexivity. Qed.
Lemma w_hour_local L : w_hour (wall_of_local L) = (L / 3600) mod 24.
Proof. rewrite wall_of_local_eq. reflexivity. Qed.
Lemma w_min_local L : w_min (wall_of_local L) = (L / 60) mod 60.
Proof. rewrite wall_of_local_eq. reflexivity. Qed.
Lemma w_sec_local L : w_sec (wall_of_local L) = L mod 60.
Proof. rewrite wall_of_local_eq. reflexivity. Qed.
Lemma w_wday_local L : w_wday (wall_of_local L) = weekday (L / 86400).
Proof. rewrite wall_of_local_eq. reflexivity. Qed.

Lemma cm_range D : 1 <= cm D <= 12.
Proof. pose proof (civil_of_days_spec D _ _ _ (civil_eta D)) as [[H _] _]. exact H. Qed.
Lemma cd_range D : 1 <= cd D <= days_in_month (cy D) (cm D).
Proof. pose proof (civil_of_days_spec D _ _ _ (civil_eta D)) as [[_ H] _]. exact H. Qed.
Lemma days_of_civil_c D : days_of_civil (cy D) (cm D) (cd D) = D.
Proof. pose proof (civil_of_days_spec D _ _ _ (civil_eta D)) as [_ H]. exact H. Qed.

(* month key of a day *)
Definition mkey (D : Z) : Z := month_index (cy D) (cm D).

Lemma mkey_cell D : month_start (mkey D) <= D < month_start (mkey D) + month_len (mkey D).
Proof. apply (civil_of_days_month D _ _ _ (civil_eta D)). Qed.

Lemma cd_mkey D : cd D = D - month_start (mkey D) + 1.
Proof. apply (civil_of_days_month D _ _ _ (civil_eta D)). Qed.

Lemma in_month_cell k D :
  month_start k <= D < month_start k + month_len k ->
  cy D = k / 12 /\ cm D = k mod 12 + 1 /\ cd D = D - month_start k + 1 /\ mkey D = k.
Proof.
  intros H. pose proof (civil_of_days_in_month k D H) as E.
  unfold mkey, cy, cm, cd. rewrite E. cbn [fst snd]. repeat split.
  unfold month_index. div_lia.
Qed.

Lemma mkey_div D : mkey D / 12 = cy D.
Proof. unfold mkey. apply month_index_div. apply cm_range. Qed.
Lemma mkey_mod D : mkey D mod 12 + 1 = cm D.
Proof. unfold mkey. apply month_index_mod. apply cm_range. Qed.

(* same month key => same year and month *)
Lemma mkey_same D D' : mkey D = mkey D' -> cy D = cy D' /\ cm D = cm D'.
Proof. intros H. rewrite <- !mkey_div, <- !mkey_mod, H. split; reflexivity. Qed.

(* the next day: same month unless it is day 1 *)
Lemma next_day D :
  (mkey (D + 1) = mkey D /\ cd (D + 1) = cd D + 1) \/
  (mkey (D + 1) = mkey D + 1 /\ cd (D + 1) = 1).
Proof.
  pose proof (mkey_cell D) as Hc.
  destruct (Z_lt_le_dec (D + 1) (month_start (mkey D) + month_len (mkey D))) as [Hlt | Hge].
  - left. destruct (in_month_cell (mkey D) (D + 1)) as (_ & _ & Hd & Hk); [lia|].
    split; [exact Hk|]. rewrite Hd, cd_mkey. lia.
  - right. pose proof (month_start_succ (mkey D)) as Hs.
    pose proof (month_len_range (mkey D + 1)).
    destruct (in_month_cell (mkey D + 1) (D + 1)) as (_ & _ & Hd & Hk); [lia|].
    split; [exact Hk | lia].
Qed.

(* first second of the year after [lim] *)
Definition wend (lim : Z) : Z := days_of_civil (lim + 1) 1 1 * 86400.

Lemma year_gt_iff lim L : lim < cy (L / 86400) <-> wend lim <= L.
Proof.
  unfold wend. pose proof (year_ge_iff (L / 86400) _ _ _ (lim + 1) (civil_eta (L / 86400))) as H.
  split; intro H1.
  - assert (days_of_civil (lim + 1) 1 1 <= L / 86400) by (apply H; lia). div_lia.
  - assert (lim + 1 <= cy (L / 86400)); [apply H; div_lia | lia].
Qed.

Lemma wend_month lim : days_of_civil (lim + 1) 1 1 = month_start (12 * (lim + 1)).
Proof.
  rewrite (days_of_civil_index (lim + 1) 1 1) by lia. unfold month_index.
  replace (12 * (lim + 1) + (1 - 1)) with (12 * (lim + 1)) by lia. lia.
Qed.

(* ------------------------------------------------------------------------------------ *)
(* fixed-offset zones                                                                    *)

Lemma lookup_fixed off u : lookup (fixed_zone off) u = (off, alpha, omega).
Proof. reflexivity. Qed.

Lemma offset_at_fixed off u : offset_at (fixed_zone off) u = off.
Proof. reflexivity. Qed.

Lemma fields_fixed off u : fields (fixed_zone off) u = wall_of_local (u + off).
Proof. reflexivity. Qed.

Lemma resolve_fixed off unix : resolve (fixed_zone off) unix = unix - off.
Proof.
  unfold resolve. rewrite lookup_fixed.
  destruct (off =? 0) eqn:E; [lia|].
  rewrite lookup_fixed. cbn [fst].
  destruct ((unix - off <? alpha) || (omega <=? unix - off)); reflexivity.
Qed.

Lemma norm_in_range hi lo base : 0 <= lo < base -> norm hi lo base = (hi, lo).
Proof.
  intros H. unfold norm.
  replace (lo <? 0) with false by lia. replace (base <=? lo) with false by lia. reflexivity.
Qed.

Lemma norm_month y m : 1 <= m <= 12 ->
  norm y (m + 1 - 1) 12 = (fst (next_month y m), snd (next_month y m) - 1).
Proof.
  intros H. unfold norm, next_month.
  replace (m + 1 - 1 <? 0) with false by lia.
  destruct (m =? 12) eqn:E.
  - replace (12 <=? m + 1 - 1) with true by lia. cbn [fst snd]. f_equal; div_lia.
  - replace (12 <=? m + 1 - 1) with false by lia. cbn [fst snd]. f_equal; lia.
Qed.

(* time.Date with in-range month, hour; minute = second = 0; any day *)
Lemma go_date_fixed off y mo d h :
  1 <= mo <= 12 -> 0 <= h < 24 ->
  go_date (fixed_zone off) y mo d h 0 0 = days_of_civil y mo d * 86400 + h * 3600 - off.
Proof.
  intros Hm Hh. unfold go_date.
  rewrite (norm_in_range y (mo - 1) 12) by lia.
  rewrite (norm_in_range 0 0 60) by lia.
  rewrite (norm_in_range h 0 60) by lia.
  rewrite (norm_in_range d h 24) by lia.
  rewrite resolve_fixed. rewrite (days_of_civil_day y mo d).
  replace (mo - 1 + 1) with mo by lia. lia.
Qed.

(* time.Date(y, m+1, 1, 0, 0, 0): the first instant of the following month *)
Lemma go_date_fixed_next_month off y m :
  1 <= m <= 12 ->
  go_date (fixed_zone off) y (m + 1) 1 0 0 0 =
  days_of_civil (fst (next_month y m)) (snd (next_month y m)) 1 * 86400 - off.
Proof.
  intros Hm. unfold go_date. rewrite (norm_month y m Hm).
  rewrite (norm_in_range 0 0 60) by lia.
  rewrite (norm_in_range 0 0 60) by lia.
  rewrite (norm_in_range 1 0 24) by lia.
  rewrite resolve_fixed.
  replace (snd (next_month y m) - 1 + 1) with (snd (next_month y m)) by lia. lia.
Qed.

(* ------------------------------------------------------------------------------------ *)
(* pure arithmetic of the second / minute / hour / day increments                        *)

Lemma arith_sec L :
  ((L + 1) / 60 <> L / 60 -> (L + 1) mod 60 = 0) /\
  ((L + 1) / 3600 <> L / 3600 -> (L + 1) mod 3600 = 0) /\
  ((L + 1) / 86400 <> L / 86400 -> (L + 1) mod 86400 = 0 /\ (L + 1) / 86400 = L / 86400 + 1) /\
  ((L + 1) mod 60 <> 0 ->
     (L + 1) / 60 = L / 60 /\ (L + 1) / 3600 = L / 3600 /\ (L + 1) / 86400 = L / 86400).
Proof. repeat split; intros; div_lia. Qed.

Lemma arith_min L :
  let L' := L / 60 * 60 + 60 in
  L / 60 * 60 <= L < L' /\ L' mod 60 = 0 /\
  (L' / 3600 <> L / 3600 -> L' mod 3600 = 0) /\
  (L' / 86400 <> L / 86400 -> L' mod 86400 = 0 /\ L' / 86400 = L / 86400 + 1) /\
  ((L' / 60) mod 60 <> 0 -> L' / 3600 = L / 3600 /\ L' / 86400 = L / 86400) /\
  (forall x, L / 60 * 60 <= x < L' -> x / 60 = L / 60).
Proof. cbv zeta. repeat split; intros; div_lia. Qed.

Lemma arith_hour L :
  let L' := L / 3600 * 3600 + 3600 in
  L / 3600 * 3600 <= L < L' /\ L' mod 60 = 0 /\ L' mod 3600 = 0 /\
  (L' / 86400 <> L / 86400 -> L' mod 86400 = 0 /\ L' / 86400 = L / 86400 + 1) /\
  ((L' / 3600) mod 24 <> 0 -> L' / 86400 = L / 86400) /\
  (forall x, L / 3600 * 3600 <= x < L' -> x / 3600 = L / 3600).
Proof. cbv zeta. repeat split; intros; div_lia. Qed.

Lemma arith_day L :
  let L' := L / 86400 * 86400 + 86400 in
  L / 86400 * 86400 <= L < L' /\ L' mod 60 = 0 /\ L' mod 3600 = 0 /\ L' mod 86400 = 0 /\
  L' / 86400 = L / 86400 + 1 /\ (L' / 3600) mod 24 = 0 /\
  (forall x, L / 86400 * 86400 <= x < L' -> x / 86400 = L / 86400).
Proof. cbv zeta. repeat split; intros; div_lia. Qed.

(* staying below a day-aligned bound *)
Lemma below_aligned X L u L' :
  (u = 1 \/ u = 60 \/ u = 3600 \/ u = 86400) ->
  L < X * 86400 -> L' = L / u * u + u ->
  L' <= X * 86400 /\ (L' mod 86400 <> 0 -> L' < X * 86400).
Proof. intros [-> | [-> | [-> | ->]]] H1 ->; split; intros; div_lia. Qed.

Lemma aligned_div u L : (u = 60 \/ u = 3600 \/ u = 86400) -> L mod u = 0 -> L / u * u = L.
Proof. intros [-> | [-> | ->]] H; div_lia. Qed.

(* ------------------------------------------------------------------------------------ *)
(* months are at most 31 days: an upper bound on the length of the window                *)

Lemma month_start_upper k j : 0 <= j -> month_start (k + j) <= month_start k + 31 * j.
Proof.
  intros Hj. revert j Hj. apply natlike_ind.
  - replace (k + 0) with k by lia. lia.
  - intros j Hj IH. replace (k + Z.succ j) with (k + j + 1) by lia.
    rewrite month_start_succ. pose proof (month_len_range (k + j)). lia.
Qed.

(* from any second to the first second of the sixth following year: under 2233 days *)
Lemma window_length L :
  L < wend (cy (L / 86400) + 5) /\ wend (cy (L / 86400) + 5) - L <= 2233 * 86400.
Proof.
  set (lim := cy (L / 86400) + 5). split.
  - destruct (Z_lt_le_dec L (wend lim)) as [H | H]; [exact H|].
    apply year_gt_iff in H. unfold lim in H. lia.
  - unfold wend. rewrite wend_month.
    pose proof (mkey_cell (L / 86400)) as Hc.
    pose proof (mkey_div (L / 86400)) as Hd.
    set (k := mkey (L / 86400)) in *.
    assert (Hk : 12 * (lim + 1) <= k + 72) by (unfold lim; div_lia).
    pose proof (month_start_le _ _ Hk) as H1.
    pose proof (month_start_upper k 72 ltac:(lia)) as H2.
    div_lia.
Qed.

(* ------------------------------------------------------------------------------------ *)
(* least_in                                                                              *)

Lemma least_in_spec p k : forall lo,
  match least_in p lo k with
  | Some n => lo <= n < lo + 2 ^ Z.of_nat k /\ p n = true /\ (forall x, lo <= x < n -> p x = false)
  | None => forall x, lo <= x < lo + 2 ^ Z.of_nat k -> p x = false
  end.
Proof.
  induction k as [|k IH]; intros lo.
  - cbn [least_in]. change (2 ^ Z.of_nat 0) with 1. destruct (p lo) eqn:E.
    + split; [lia|]. split; [exact E|]. intros x Hx. lia.
    + intros x Hx. replace x with lo by lia. exact E.
  - cbn [least_in]. rewrite Nat2Z.inj_succ, Z.pow_succ_r by lia.
    pose proof (Z.pow_pos_nonneg 2 (Z.of_nat k) ltac:(lia) ltac:(lia)) as Hpos.
    specialize (IH lo) as IH1. destruct (least_in p lo k) as [n|].
    + destruct IH1 as (Hr & Hp & Hl). repeat split; try assumption; lia.
    + specialize (IH (lo + 2 ^ Z.of_nat k)) as IH2.
      destruct (least_in p (lo + 2 ^ Z.of_nat k) k) as [n|].
      * destruct IH2 as (Hr & Hp & Hl). repeat split; try assumption; try lia.
        intros x Hx. destruct (Z_lt_le_dec x (lo + 2 ^ Z.of_nat k)); [apply IH1 | apply Hl]; lia.
      * intros x Hx. destruct (Z_lt_le_dec x (lo + 2 ^ Z.of_nat k)); [apply IH1 | apply IH2]; lia.
Qed.

(* the least element is unique *)
Lemma least_in_unique p lo k u :
  lo <= u < lo + 2 ^ Z.of_nat k -> p u = true -> (forall x, lo <= x < u -> p x = false) ->
  least_in p lo k = Some u.
Proof.
  intros Hr Hp Hl. pose proof (least_in_spec p k lo) as H.
  destruct (least_in p lo k) as [n|].
  - destruct H as (Hrn & Hpn & Hln). f_equal.
    destruct (Z.lt_trichotomy n u) as [Hlt | [Heq | Hgt]]; [|exact Heq|].
    + rewrite Hl in Hpn by lia. discriminate.
    + rewrite Hln in Hp by lia. discriminate.
  - rewrite H in Hp by lia. discriminate.
Qed.
