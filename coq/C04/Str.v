(* C04 / Str.v — the pieces of Go's [strings] / [strconv] that cron/parser.go uses, on byte
   strings (list N). Definitions only. Neutral library semantics, shared by the model
   (Parse.v) and by the grammar reader of the specification (Spec.v). *)
From Kit.Lib Require Import Base.
From Coq Require Import ZArith NArith Lia Bool List Ascii String.
Import ListNotations.
Open Scope Z_scope.

(* byte string of a Coq string literal *)
Definition bs (s : string) : list N := List.map N_of_ascii (list_ascii_of_string s).

Definition len (s : list N) : Z := Z.of_nat (List.length s).

(* strings.Index(s, single-byte sep): first index or -1 *)
Fixpoint go_index_from (i : Z) (c : N) (s : list N) : Z :=
  match s with
  | [] => -1
  | x :: r => if (x =? c)%N then i else go_index_from (i + 1) c r
  end.
Definition go_index (c : N) (s : list N) : Z := go_index_from 0 c s.

(* s[lo:hi] with Go's run-time bounds check *)
Definition go_slice {E} (s : list N) (lo hi : Z) : result (list N) E :=
  if (0 <=? lo) && (lo <=? hi) && (hi <=? len s)
  then Ok (firstn (Z.to_nat (hi - lo)) (skipn (Z.to_nat lo) s))
  else Panic.

(* strings.Split(s, sep) for a one-byte separator: n occurrences give n+1 pieces *)
Fixpoint split_on (sep : N) (s : list N) : list (list N) :=
  match s with
  | [] => [[]]
  | c :: r =>
      if (c =? sep)%N then [] :: split_on sep r
      else match split_on sep r with
           | p :: ps => (c :: p) :: ps
           | [] => [[c]]                                    (* unreachable *)
           end
  end.

Definition nonempty (s : list N) : bool := match s with [] => false | _ => true end.

(* strings.FieldsFunc(s, func(r) bool { return r == sep }) for an ASCII separator:
   the maximal runs of non-separator bytes *)
Definition fields_on (sep : N) (s : list N) : list (list N) :=
  filter nonempty (split_on sep s).

(* Width in bytes of the white-space rune (unicode.IsSpace) at the head of s, 0 if none.
   The list was enumerated from Go 1.23's unicode tables: U+0009..000D, 0020, 0085, 00A0,
   1680, 2000..200A, 2028, 2029, 202F, 205F, 3000. A lead byte is never consumed as part of
   another rune by Go's decoder (an invalid sequence consumes one byte), so matching these
   encodings wherever they occur is exact. *)
Definition space_width (s : list N) : nat :=
  match s with
  | 9 :: _ | 10 :: _ | 11 :: _ | 12 :: _ | 13 :: _ | 32 :: _ => 1
  | 194 :: 133 :: _ | 194 :: 160 :: _ => 2
  | 225 :: 154 :: 128 :: _ => 3
  | 226 :: 128 :: c :: _ =>
      if ((128 <=? c) && (c <=? 138) || (c =? 168) || (c =? 169) || (c =? 175))%N
      then 3 else 0
  | 226 :: 129 :: 159 :: _ => 3
  | 227 :: 128 :: 128 :: _ => 3
  | _ => 0
  end%N.

(* the same test on a REVERSED string (for trimming on the right: Go decodes the last
   rune by walking back to the lead byte) *)
Definition space_width_rev (s : list N) : nat :=
  match s with
  | 9 :: _ | 10 :: _ | 11 :: _ | 12 :: _ | 13 :: _ | 32 :: _ => 1
  | 133 :: 194 :: _ | 160 :: 194 :: _ => 2
  | 128 :: 154 :: 225 :: _ => 3
  | 159 :: 129 :: 226 :: _ => 3
  | 128 :: 128 :: 227 :: _ => 3
  | c :: 128 :: 226 :: _ =>
      if ((128 <=? c) && (c <=? 138) || (c =? 168) || (c =? 169) || (c =? 175))%N
      then 3 else 0
  | _ => 0
  end%N.

Definition flush (cur : list N) : list (list N) :=
  match cur with [] => [] | _ => [rev cur] end.

(* strings.Fields *)
Fixpoint go_fields_aux (s : list N) (skip : nat) (cur : list N) : list (list N) :=
  match s with
  | [] => flush cur
  | c :: r =>
      match skip with
      | S k => go_fields_aux r k cur
      | O =>
          match space_width s with
          | O => go_fields_aux r O (c :: cur)
          | S k => flush cur ++ go_fields_aux r k []
          end
      end
  end.
Definition go_fields (s : list N) : list (list N) := go_fields_aux s O [].

Fixpoint trim_left_aux (width : list N -> nat) (s : list N) (skip : nat) : list N :=
  match s with
  | [] => []
  | _ :: r =>
      match skip with
      | S k => trim_left_aux width r k
      | O => match width s with
             | O => s
             | S k => trim_left_aux width r k
             end
      end
  end.

(* strings.TrimSpace *)
Definition trim_space (s : list N) : list N :=
  rev (trim_left_aux space_width_rev (rev (trim_left_aux space_width s O)) O).

(* Is strings.ToLower(s) equal to the ASCII key k?  ToLower maps exactly two non-ASCII
   runes to ASCII letters (U+0130 -> 'i', U+212A -> 'k'; enumerated from Go 1.23's
   unicode tables); every other non-ASCII or invalid byte yields non-ASCII output, which
   cannot equal an ASCII key. [lower_key] computes ToLower on the strings where the result
   is pure ASCII and leaves other bytes >= 128 in place. *)
Fixpoint lower_key (s : list N) : list N :=
  match s with
  | [] => []
  | (196 :: 176 :: r)%N => 105%N :: lower_key_skip r 0
  | (226 :: 132 :: 170 :: r)%N => 107%N :: lower_key_skip r 0
  | c :: r => (if (65 <=? c) && (c <=? 90) then c + 32 else c)%N :: lower_key r
  end
with lower_key_skip (s : list N) (k : nat) : list N := lower_key s.
