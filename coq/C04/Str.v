(* C04 / Str.v — the pieces of Go's [strings] / [strconv] that cron/parser.go uses, on byte
   strings (list N). Definitions only. Neutral library semantics, shared by the model
   (Parse.v) and by the grammar reader of the specification (Spec.v). *)
From Kit.Lib Require Import Base.
From Coq Require Import ZArith NArith Lia Bool List Ascii String.
Import ListNotations.
Open Scope Z_scope.

(* byte string of a Coq string literal *)
Definition bs (s : string) : list N := List.map N_of_ascii (list_ascii_of_string s).
Arguments bs s%string.

Definition len {A} (s : list A) : Z := Z.of_nat (List.length s).

(* strings.Index(s, single-byte sep): first index or -1 *)
Fixpoint go_index_from (i : Z) (c : N) (s : list N) : Z :=
  match s with
  | [] => -1
  | x :: r => if (x =? c)%N then i else go_index_from (i + 1) c r
  end.
Definition go_index (c : N) (s : list N) : Z := go_index_from 0 c s.

(* s[lo:hi] with Go's run-time bounds check *)
Definition go_slice {E} (s : list N) (lo hi : Z) : result (list N) E :=
  if (0 <=? lo) && (lo <=? hi) && (hi <=? len s)
  then Ok (firstn (Z.to_nat (hi - lo)) (skipn (Z.to_nat lo) s))
  else Panic.

(* strings.Split(s, sep) for a one-byte separator: n occurrences give n+1 pieces *)
Fixpoint split_on (sep : N) (s : list N) : list (list N) :=
  match s with
  | [] => [[]]
  | c :: r =>
      if (c =? sep)%N then [] :: split_on sep r
      else match split_on sep r with
           | p :: ps => (c :: p) :: ps
           | [] => [[c]]                                    (* unreachable *)
           end
  end.

Definition nonempty (s : list N) : bool := match s with [] => false | _ => true end.

(* strings.FieldsFunc(s, func(r) bool { return r == sep }) for an ASCII separator:
   the maximal runs of non-separator bytes *)
Definition fields_on (sep : N) (s : list N) : list (list N) :=
  filter nonempty (split_on sep s).

(* Width in bytes of the white-space rune (unicode.IsSpace) at the head of s, 0 if none.
   The list was enumerated from Go 1.23's unicode tables: U+0009..000D, 0020, 0085, 00A0,
   1680, 2000..200A, 2028, 2029, 202F, 205F, 3000. A lead byte is never consumed as part of
   another rune by Go's decoder (an invalid sequence consumes one byte), so matching these
   encodings wherever they occur is exact. *)
Definition space_width (s : list N) : nat :=
  match s with
  | 9 :: _ | 10 :: _ | 11 :: _ | 12 :: _ | 13 :: _ | 32 :: _ => 1%nat
  | 194 :: 133 :: _ | 194 :: 160 :: _ => 2%nat
  | 225 :: 154 :: 128 :: _ => 3%nat
  | 226 :: 128 :: c :: _ =>
      if ((128 <=? c) && (c <=? 138) || (c =? 168) || (c =? 169) || (c =? 175))%N
      then 3%nat else 0%nat
  | 226 :: 129 :: 159 :: _ => 3%nat
  | 227 :: 128 :: 128 :: _ => 3%nat
  | _ => 0%nat
  end%N.

(* the same test on a REVERSED string (for trimming on the right: Go decodes the last
   rune by walking back to the lead byte) *)
Definition space_width_rev (s : list N) : nat :=
  match s with
  | 9 :: _ | 10 :: _ | 11 :: _ | 12 :: _ | 13 :: _ | 32 :: _ => 1%nat
  | 133 :: 194 :: _ | 160 :: 194 :: _ => 2%nat
  | 128 :: 154 :: 225 :: _ => 3%nat
  | 159 :: 129 :: 226 :: _ => 3%nat
  | 128 :: 128 :: 227 :: _ => 3%nat
  | c :: 128 :: 226 :: _ =>
      if ((128 <=? c) && (c <=? 138) || (c =? 168) || (c =? 169) || (c =? 175))%N
      then 3%nat else 0%nat
  | _ => 0%nat
  end%N.

Definition flush (cur : list N) : list (list N) :=
  match cur with [] => [] | _ => [rev cur] end.

(* strings.Fields *)
Fixpoint go_fields_aux (s : list N) (skip : nat) (cur : list N) : list (list N) :=
  match s with
  | [] => flush cur
  | c :: r =>
      match skip with
      | S k => go_fields_aux r k cur
      | O =>
          match space_width s with
          | O => go_fields_aux r O (c :: cur)
          | S k => flush cur ++ go_fields_aux r k []
          end
      end
  end.
Definition go_fields (s : list N) : list (list N) := go_fields_aux s O [].

Fixpoint trim_left_aux (width : list N -> nat) (s : list N) (skip : nat) : list N :=
  match s with
  | [] => []
  | _ :: r =>
      match skip with
      | S k => trim_left_aux width r k
      | O => match width s with
             | O => s
             | S k => trim_left_aux width r k
             end
      end
  end.

(* strings.TrimSpace *)
Definition trim_space (s : list N) : list N :=
  rev (trim_left_aux space_width_rev (rev (trim_left_aux space_width s O)) O).

(* Is strings.ToLower(s) equal to the ASCII key k?  ToLower maps exactly two non-ASCII
   runes to ASCII letters (U+0130 -> 'i', U+212A -> 'k'; enumerated from Go 1.23's
   unicode tables); every other non-ASCII or invalid byte yields non-ASCII output, which
   cannot equal an ASCII key. [lower_key] computes ToLower on the strings where the result
   is pure ASCII and leaves other bytes >= 128 in place. *)
Definition lower1 (c : N) : N := (if (65 <=? c) && (c <=? 90) then c + 32 else c)%N.

Fixpoint lower_key (s : list N) : list N :=
  match s with
  | [] => []
  | c :: r =>
      match c, r with
      | 196%N, 176%N :: r2 => 105%N :: lower_key r2
      | 226%N, 132%N :: 170%N :: r3 => 107%N :: lower_key r3
      | _, _ => lower1 c :: lower_key r
      end
  end.

(* strconv.Atoi on a 64-bit platform: optional sign, at least one decimal digit, nothing
   else (no underscores in base 10), and an int64 range check. None = error. *)
Definition is_digit (c : N) : bool := ((48 <=? c) && (c <=? 57))%N.

Fixpoint digits_val (acc : Z) (s : list N) : option Z :=
  match s with
  | [] => Some acc
  | c :: r => if is_digit c then digits_val (acc * 10 + (Z.of_N c - 48)) r else None
  end.

Definition atoi (s : list N) : option Z :=
  let '(neg, body) :=
    match s with
    | 43%N :: r => (false, r)
    | 45%N :: r => (true, r)
    | _ => (false, s)
    end in
  match body with
  | [] => None
  | _ =>
      match digits_val 0 body with
      | None => None
      | Some n =>
          let v := if neg then - n else n in
          if (- 2 ^ 63 <=? v) && (v <=? 2 ^ 63 - 1) then Some v else None
      end
  end.

Example str_ex1 : split_on 45 (bs "1-5") = [bs "1"; bs "5"]. Proof. reflexivity. Qed.
Example str_ex2 : split_on 45 (bs "") = [[]]. Proof. reflexivity. Qed.
Example str_ex3 : fields_on 44 (bs "1,,2,") = [bs "1"; bs "2"]. Proof. reflexivity. Qed.
Example str_ex4 : go_fields (bs "  a b	c ") = [bs "a"; bs "b"; bs "c"]. Proof. reflexivity. Qed.
Example str_ex5 : go_fields ([42; 194; 160; 42])%N = [[42]; [42]]%N. Proof. reflexivity. Qed.
Example str_ex6 : trim_space (bs " a b  ") = bs "a b". Proof. reflexivity. Qed.
Example str_ex7 : trim_space ([32; 97; 226; 128; 168])%N = [97%N]. Proof. reflexivity. Qed.
Example str_ex8 : atoi (bs "+05") = Some 5. Proof. reflexivity. Qed.
Example str_ex9 : atoi (bs "-0") = Some 0. Proof. reflexivity. Qed.
Example str_ex10 : atoi (bs "9223372036854775808") = None. Proof. reflexivity. Qed.
Example str_ex11 : atoi (bs "-9223372036854775808") = Some (- 2 ^ 63). Proof. reflexivity. Qed.
Example str_ex12 : atoi (bs "+") = None. Proof. reflexivity. Qed.
Example str_ex13 : atoi (bs "1_0") = None. Proof. reflexivity. Qed.
Example str_ex14 : lower_key (bs "FR" ++ [196; 176])%N = bs "fri". Proof. reflexivity. Qed.
Example str_ex15 : go_slice (E:=unit) (bs "TZ=UTC") 3 (-1) = Panic. Proof. reflexivity. Qed.
Example str_ex16 : go_index 32 (bs "TZ=UTC") = -1. Proof. reflexivity. Qed.
