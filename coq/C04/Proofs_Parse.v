(* C04 / Proofs_Parse.v — theorems about the parser model: Every, panics, rejections. *)
From Kit.Lib Require Import Base.
From Kit.C04 Require Import Cal Zone Str Parse Next Spec Bridge.
From Coq Require Import ZArith NArith Lia Bool List String ZifyBool.
Import ListNotations.
Open Scope Z_scope.

Ltac div_lia := Z.div_mod_to_equations; lia.

(* ------------------------------------------------------------------------------------ *)
(* Every                                                                                 *)

(* '@every d' yields t truncated to the second plus d truncated to the second, at least 1 s *)
Lemma every_next_law d sec nanos :
  0 <= nanos < ns_per_s ->
  every_next (every d) (sec, nanos) = (sec + Z.max 1 (d / ns_per_s), 0).
Proof.
  intros Hn. unfold every_next, every, ns_per_s in *.
  destruct (d <? 1000000000) eqn:E; f_equal; div_lia.
Qed.

Lemma every_whole_seconds d : every d mod ns_per_s = 0 /\ ns_per_s <= every d.
Proof. unfold every, ns_per_s. destruct (d <? 1000000000) eqn:E; split; div_lia. Qed.

(* ------------------------------------------------------------------------------------ *)
(* The TZ= panic                                                                         *)

Lemma parse_tz_panic_refuted :
  exists spec, parse Original standard_opts (fun _ => Some (fixed_zone 0)) (fun _ => None) spec = Panic.
Proof. exists (bs "TZ=UTC"). vm_compute. reflexivity. Qed.

Lemma go_index_from_bounds c s : forall i,
  go_index_from i c s = -1 \/ i <= go_index_from i c s < i + len s.
Proof.
  induction s as [|x s IH]; intros i; cbn [go_index_from].
  - left; reflexivity.
  - unfold len in *. cbn [List.length]. destruct (x =? c)%N.
    + right. lia.
    + destruct (IH (i + 1)) as [H | H]; [left; exact H | right; lia].
Qed.

Lemma len_app {A} (a b : list A) : len (a ++ b) = len a + len b.
Proof. unfold len. rewrite app_length. lia. Qed.

Lemma tz_prefix_indices spec :
  has_tz_prefix spec = true ->
  let i := go_index 32 spec in
  let eq := go_index 61 spec in
  0 <= eq /\ (i = -1 \/ (eq + 1 <= i /\ i < len spec)).
Proof.
  unfold has_tz_prefix. intros H. apply orb_true_iff in H as [H | H];
    apply prefixb_spec in H as [c ->].
  - change (bs "TZ=") with [84; 90; 61]%N. unfold go_index. cbn [app go_index_from N.eqb Pos.eqb].
    cbn -[len]. pose proof (go_index_from_bounds 32%N c 3) as Hb.
    unfold len in *. cbn [List.length]. lia.
  - change (bs "CRON_TZ=") with [67; 82; 79; 78; 95; 84; 90; 61]%N.
    unfold go_index. cbn -[len]. pose proof (go_index_from_bounds 32%N c 8) as Hb.
    unfold len in *. cbn [List.length]. lia.
Qed.

Lemma go_slice_ok {E} (s : list N) lo hi :
  0 <= lo -> lo <= hi -> hi <= len s -> exists r, go_slice (E:=E) s lo hi = Ok r.
Proof.
  intros H1 H2 H3. unfold go_slice.
  replace ((0 <=? lo) && (lo <=? hi) && (hi <=? len s)) with true by lia.
  eexists; reflexivity.
Qed.

Lemma strip_tz_fixed_no_panic ll spec : strip_tz Fixed ll spec <> Panic.
Proof.
  unfold strip_tz. destruct (has_tz_prefix spec) eqn:Hp; [|discriminate].
  pose proof (tz_prefix_indices spec Hp) as [Heq Hi]. cbn zeta in Hi.
  cbn [is_fixed andb].
  destruct (go_index 32 spec <? 0) eqn:Hneg; [discriminate|].
  assert (Hi' : go_index 61 spec + 1 <= go_index 32 spec /\ go_index 32 spec < len spec) by lia.
  destruct (go_slice_ok (E:=perr) spec (go_index 61 spec + 1) (go_index 32 spec)) as [name ->];
    try lia.
  cbn [bind]. destruct (ll name); [|discriminate].
  destruct (go_slice_ok (E:=perr) spec (go_index 32 spec) (len spec)) as [rest ->]; try lia.
  cbn [bind]. discriminate.
Qed.

(* ------------------------------------------------------------------------------------ *)
(* getField never panics                                                                 *)

Lemma bind_no_panic {A B E} (r : result A E) (f : A -> result B E) :
  r <> Panic -> (forall a, f a <> Panic) -> bind r f <> Panic.
Proof. destruct r; cbn; intros; auto; congruence. Qed.

Lemma must_parse_int_no_panic s : must_parse_int s <> Panic.
Proof. unfold must_parse_int. destruct (atoi s); [destruct (_ <? 0)|]; discriminate. Qed.

Lemma parse_int_or_name_no_panic s n : parse_int_or_name s n <> Panic.
Proof.
  unfold parse_int_or_name. destruct (assoc _ _); [discriminate | apply must_parse_int_no_panic].
Qed.

Lemma get_range_no_panic e r : get_range e r <> Panic.
Proof.
  unfold get_range. apply bind_no_panic.
  - destruct (is_star_or_q _); [discriminate|].
    apply bind_no_panic; [apply parse_int_or_name_no_panic|].
    intros start. destruct (split_on 45 _) as [|a [|b [|c l]]]; try discriminate.
    apply bind_no_panic; [apply parse_int_or_name_no_panic | discriminate].
  - intros [[start end_] extra]. apply bind_no_panic.
    + destruct (split_on 47 e) as [|a [|b [|c l]]]; try discriminate.
      apply bind_no_panic; [apply must_parse_int_no_panic | discriminate].
    + intros [[step end2] extra2].
      repeat match goal with |- (if ?b then _ else _) <> _ => destruct b; try discriminate end.
Qed.

Lemma get_field_loop_no_panic l r : forall bits, get_field_loop l r bits <> Panic.
Proof.
  induction l as [|e l IH]; intros bits; cbn [get_field_loop]; [discriminate|].
  apply bind_no_panic; [apply get_range_no_panic | intros; apply IH].
Qed.

Lemma get_field_no_panic f r : get_field f r <> Panic.
Proof. apply get_field_loop_no_panic. Qed.

(* ------------------------------------------------------------------------------------ *)
(* normalizeFields                                                                       *)

Definition count_places (places : list (bool * list N)) : Z :=
  fold_right (fun p acc => b2z (fst p) + acc) 0 places.

Lemma count_places_cons p ps : count_places (p :: ps) = b2z (fst p) + count_places ps.
Proof. reflexivity. Qed.

Lemma count_places_nonneg ps : 0 <= count_places ps.
Proof.
  induction ps as [|[[|] d] ps IH]; [unfold count_places; cbn; lia| |];
    rewrite count_places_cons; cbn [fst b2z]; lia.
Qed.

Lemma len_cons {A} (x : A) l : len (x :: l) = 1 + len l.
Proof. unfold len. cbn [List.length]. lia. Qed.
Lemma len_nil {A} : len (@nil A) = 0.
Proof. reflexivity. Qed.

Lemma expand_ok places : forall fields,
  len fields = count_places places ->
  exists r, expand places fields = Ok r /\ List.length r = List.length places.
Proof.
  induction places as [|[[|] d] ps IH]; intros fields Hlen; cbn [expand].
  - exists []. split; reflexivity.
  - rewrite count_places_cons in Hlen. cbn [fst b2z] in Hlen.
    pose proof (count_places_nonneg ps) as Hnn.
    destruct fields as [|f fs].
    + exfalso. rewrite len_nil in Hlen. lia.
    + rewrite len_cons in Hlen. destruct (IH fs) as [r [-> Hr]]; [lia|].
      cbn [bind]. exists (f :: r). split; [reflexivity | cbn [List.length]; lia].
  - rewrite count_places_cons in Hlen. cbn [fst b2z] in Hlen.
    destruct (IH fields) as [r [-> Hr]]; [lia|].
    cbn [bind]. exists (d :: r). split; [reflexivity | cbn [List.length]; lia].
Qed.

Definition max_fields (o : Z) : Z :=
  b2z (has o o_second || has o o_second_opt) + b2z (has o o_minute) + b2z (has o o_hour) +
  b2z (has o o_dom) + b2z (has o o_month) + b2z (has o o_dow || has o o_dow_opt).
Definition min_fields (o : Z) : Z :=
  max_fields o - (b2z (has o o_second_opt) + b2z (has o o_dow_opt)).

(* the outcome of normalizeFields is an error or exactly six fields: the indexing
   [fields[0..5]] in Parse never panics *)
Lemma normalize_fields_six fields o :
  (exists e, normalize_fields fields o = Err e) \/
  (exists f0 f1 f2 f3 f4 f5, normalize_fields fields o = Ok [f0; f1; f2; f3; f4; f5]).
Proof.
  unfold normalize_fields.
  set (so := has o o_second_opt). set (dwo := has o o_dow_opt).
  destruct (1 <? b2z so + b2z dwo) eqn:Hopt; [left; eexists; reflexivity|].
  set (p_sec := has o o_second || so). set (p_dow := has o o_dow || dwo).
  set (mx := b2z p_sec + b2z (has o o_minute) + b2z (has o o_hour) + b2z (has o o_dom) +
             b2z (has o o_month) + b2z p_dow).
  destruct ((len fields <? mx - (b2z so + b2z dwo)) || (mx <? len fields)) eqn:Hcnt;
    [left; eexists; reflexivity|].
  set (places := [(p_sec, bs "0"); (has o o_minute, bs "0"); (has o o_hour, bs "0");
                  (has o o_dom, bs "*"); (has o o_month, bs "*"); (p_dow, bs "*")]).
  assert (Hcp : count_places places = mx).
  { unfold places. rewrite !count_places_cons. cbn [fst]. unfold count_places, mx. cbn [fold_right]. lia. }
  assert (Hfin : forall fs, len fs = mx ->
            exists f0 f1 f2 f3 f4 f5, expand places fs = Ok [f0; f1; f2; f3; f4; f5]).
  { intros fs Hfs. destruct (expand_ok places fs) as [r [Hr Hl]]; [lia|].
    rewrite Hr. cbn in Hl.
    destruct r as [|f0 [|f1 [|f2 [|f3 [|f4 [|f5 [|f6 r]]]]]]]; cbn in Hl; try lia.
    do 6 eexists; reflexivity. }
  destruct ((mx - (b2z so + b2z dwo) <? mx) && (len fields =? mx - (b2z so + b2z dwo))) eqn:Hadd.
  - destruct dwo eqn:Edwo.
    + cbn [bind]. right. apply Hfin. rewrite len_app, len_cons, len_nil.
      destruct so; cbn [b2z] in *; lia.
    + destruct so eqn:Eso.
      * cbn [bind]. right. apply Hfin. rewrite len_cons. cbn [b2z] in *. lia.
      * left; eexists; reflexivity.
  - cbn [bind]. right. apply Hfin.
    destruct so, dwo; cbn [b2z] in *; lia.
Qed.

Lemma normalize_fields_count fields o :
  new_parser_panics o = false ->
  (len fields < min_fields o \/ max_fields o < len fields) ->
  normalize_fields fields o = Err EFieldCount.
Proof.
  intros Hnp Hc. unfold normalize_fields, new_parser_panics, min_fields, max_fields in *.
  destruct (has o o_second_opt), (has o o_dow_opt); cbn [andb b2z Z.add] in *; try discriminate.
  all: match goal with |- (if ?b then _ else _) = _ => replace b with false by lia end.
  all: match goal with |- (if ?b then _ else _) = _ => replace b with true by lia end.
  all: reflexivity.
Qed.

(* ------------------------------------------------------------------------------------ *)
(* No panic on the fixed variant                                                         *)

Lemma parse_descriptor_no_panic pd d loc : parse_descriptor pd d loc <> Panic.
Proof.
  unfold parse_descriptor.
  repeat match goal with |- (if ?b then _ else _) <> _ => destruct b; try discriminate end.
  destruct (pd _); discriminate.
Qed.

Theorem parser_parse_fixed_no_panic o ll pd spec : parser_parse Fixed o ll pd spec <> Panic.
Proof.
  unfold parser_parse. destruct spec as [|c0 spec0]; [discriminate|].
  apply bind_no_panic; [apply strip_tz_fixed_no_panic|].
  intros [loc rest].
  destruct (prefixb (bs "@") rest).
  - destruct (negb _); [discriminate | apply parse_descriptor_no_panic].
  - destruct (normalize_fields_six (go_fields rest) o) as [[e ->] | (f0 & f1 & f2 & f3 & f4 & f5 & ->)];
      cbn [bind]; [discriminate|].
    repeat (apply bind_no_panic; [apply get_field_no_panic | intros ?]).
    discriminate.
Qed.

Theorem parse_fixed_no_panic o ll pd spec :
  new_parser_panics o = false -> parse Fixed o ll pd spec <> Panic.
Proof. intros H. unfold parse. rewrite H. apply parser_parse_fixed_no_panic. Qed.

(* on the pinned tree the TZ slicing is the only panic of Parser.Parse *)
Theorem parser_parse_original_panic_iff o ll pd spec :
  parser_parse Original o ll pd spec = Panic <->
  has_tz_prefix spec = true /\ go_index 32 spec = -1.
Proof.
  split.
  - intros H. destruct (has_tz_prefix spec) eqn:Hp.
    + split; [reflexivity|].
      pose proof (tz_prefix_indices spec Hp) as [Heq Hi]. cbn zeta in Hi.
      destruct Hi as [Hi | Hi]; [exact Hi|]. exfalso.
      (* with a space present the two variants coincide *)
      assert (Hsame : strip_tz Original ll spec = strip_tz Fixed ll spec).
      { unfold strip_tz. rewrite Hp. cbn [is_fixed andb].
        replace (go_index 32 spec <? 0) with false by lia. reflexivity. }
      revert H. unfold parser_parse. destruct spec as [|c0 s0]; [discriminate|].
      rewrite Hsame. apply (parser_parse_fixed_no_panic o ll pd (c0 :: s0)).
    + exfalso. revert H.
      assert (Hsame : strip_tz Original ll spec = strip_tz Fixed ll spec).
      { unfold strip_tz. rewrite Hp. reflexivity. }
      unfold parser_parse. destruct spec as [|c0 s0]; [discriminate|].
      rewrite Hsame. apply (parser_parse_fixed_no_panic o ll pd (c0 :: s0)).
  - intros [Hp Hi]. unfold parser_parse. destruct spec as [|c0 s0]; [discriminate|].
    unfold strip_tz. rewrite Hp, Hi. cbn [is_fixed andb].
    pose proof (tz_prefix_indices _ Hp) as [Heq _]. cbn zeta in Heq.
    unfold go_slice. replace ((0 <=? go_index 61 (c0 :: s0) + 1) && (go_index 61 (c0 :: s0) + 1 <=? -1) && (-1 <=? len (c0 :: s0))) with false by lia.
    reflexivity.
Qed.

(* ------------------------------------------------------------------------------------ *)
(* Rejections at the level of the whole spec                                             *)

(* wrong number of fields, any option set without the two optionals together *)
Theorem parse_rejects_field_count v o ll pd spec loc rest :
  new_parser_panics o = false ->
  spec <> [] ->
  strip_tz v ll spec = Ok (loc, rest) ->
  prefixb (bs "@") rest = false ->
  (len (go_fields rest) < min_fields o \/ max_fields o < len (go_fields rest)) ->
  parse v o ll pd spec = Err EFieldCount.
Proof.
  intros Hnp Hne Hs Hat Hc. unfold parse. rewrite Hnp. unfold parser_parse.
  destruct spec as [|c0 s0]; [congruence|]. rewrite Hs. cbn [bind]. rewrite Hat.
  rewrite (normalize_fields_count _ _ Hnp Hc). reflexivity.
Qed.

(* without a TZ prefix strip_tz is the identity *)
Lemma strip_tz_none v ll spec : has_tz_prefix spec = false -> strip_tz v ll spec = Ok (LocLocal, spec).
Proof. intros H. unfold strip_tz. rewrite H. reflexivity. Qed.

(* the option sets named by the property, with their field counts *)
Definition opts_standard : Z := 4 + 8 + 16 + 32 + 64 + 256.         (* 5 fields *)
Definition opts_seconds : Z := 1 + 4 + 8 + 16 + 32 + 64 + 256.      (* 6 fields *)
Definition opts_seconds_optional : Z := 2 + 4 + 8 + 16 + 32 + 64 + 256.   (* 5 or 6 *)
Definition opts_dow_optional : Z := 4 + 8 + 16 + 32 + 128 + 256.    (* 4 or 5 *)
Definition opts_no_descriptor : Z := 4 + 8 + 16 + 32 + 64.          (* 5 fields *)

Lemma field_counts :
  (min_fields opts_standard, max_fields opts_standard) = (5, 5) /\
  (min_fields opts_seconds, max_fields opts_seconds) = (6, 6) /\
  (min_fields opts_seconds_optional, max_fields opts_seconds_optional) = (5, 6) /\
  (min_fields opts_dow_optional, max_fields opts_dow_optional) = (4, 5) /\
  (min_fields opts_no_descriptor, max_fields opts_no_descriptor) = (5, 5).
Proof. vm_compute. repeat split; reflexivity. Qed.

Theorem parse_rejects_count_standard v ll pd spec :
  spec <> [] -> has_tz_prefix spec = false -> prefixb (bs "@") spec = false ->
  len (go_fields spec) <> 5 ->
  parse v opts_standard ll pd spec = Err EFieldCount.
Proof.
  intros Hne Hp Hat Hc.
  apply (parse_rejects_field_count v opts_standard ll pd spec LocLocal spec (eq_refl false) Hne
           (strip_tz_none v ll spec Hp) Hat).
  change (min_fields opts_standard) with 5. change (max_fields opts_standard) with 5. lia.
Qed.

Theorem parse_rejects_count_seconds v ll pd spec :
  spec <> [] -> has_tz_prefix spec = false -> prefixb (bs "@") spec = false ->
  len (go_fields spec) <> 6 ->
  parse v opts_seconds ll pd spec = Err EFieldCount.
Proof.
  intros Hne Hp Hat Hc.
  apply (parse_rejects_field_count v opts_seconds ll pd spec LocLocal spec (eq_refl false) Hne
           (strip_tz_none v ll spec Hp) Hat).
  change (min_fields opts_seconds) with 6. change (max_fields opts_seconds) with 6. lia.
Qed.

Theorem parse_rejects_count_seconds_optional v ll pd spec :
  spec <> [] -> has_tz_prefix spec = false -> prefixb (bs "@") spec = false ->
  (len (go_fields spec) < 5 \/ 6 < len (go_fields spec)) ->
  parse v opts_seconds_optional ll pd spec = Err EFieldCount.
Proof.
  intros Hne Hp Hat Hc.
  apply (parse_rejects_field_count v opts_seconds_optional ll pd spec LocLocal spec (eq_refl false) Hne
           (strip_tz_none v ll spec Hp) Hat).
  change (min_fields opts_seconds_optional) with 5.
  change (max_fields opts_seconds_optional) with 6. lia.
Qed.

Theorem parse_rejects_count_dow_optional v ll pd spec :
  spec <> [] -> has_tz_prefix spec = false -> prefixb (bs "@") spec = false ->
  (len (go_fields spec) < 4 \/ 5 < len (go_fields spec)) ->
  parse v opts_dow_optional ll pd spec = Err EFieldCount.
Proof.
  intros Hne Hp Hat Hc.
  apply (parse_rejects_field_count v opts_dow_optional ll pd spec LocLocal spec (eq_refl false) Hne
           (strip_tz_none v ll spec Hp) Hat).
  change (min_fields opts_dow_optional) with 4.
  change (max_fields opts_dow_optional) with 5. lia.
Qed.

(* non-vacuity: "* * * *" has four fields *)
Example parse_rejects_count_ex :
  parse Original opts_standard no_ll no_pd (bs "* * * *") = Err EFieldCount.
Proof. vm_compute. reflexivity. Qed.

(* descriptors *)
Definition known_descriptor (d : list N) : bool :=
  desc_is d "@yearly" || desc_is d "@annually" || desc_is d "@monthly" || desc_is d "@weekly" ||
  desc_is d "@daily" || desc_is d "@midnight" || desc_is d "@hourly".

Theorem parse_rejects_unknown_descriptor v o ll pd spec :
  new_parser_panics o = false ->
  has_tz_prefix spec = false ->
  prefixb (bs "@") spec = true ->
  known_descriptor spec = false ->
  prefixb (bs "@every ") spec = false ->
  exists e, parse v o ll pd spec = Err e.
Proof.
  intros Hnp Hp Hat Hk He. unfold parse. rewrite Hnp. unfold parser_parse.
  destruct spec as [|c0 s0]; [eexists; reflexivity|].
  rewrite (strip_tz_none _ _ _ Hp). cbn [bind]. rewrite Hat.
  destruct (negb (has o o_descriptor)); [eexists; reflexivity|].
  unfold known_descriptor in Hk. repeat (apply orb_false_iff in Hk as [Hk ?]).
  unfold parse_descriptor.
  repeat match goal with H : desc_is _ _ = false |- _ => rewrite H; clear H end.
  cbn [orb]. rewrite He. eexists; reflexivity.
Qed.

Theorem parse_rejects_descriptor_when_off v o ll pd spec :
  new_parser_panics o = false ->
  has_tz_prefix spec = false ->
  prefixb (bs "@") spec = true ->
  has o o_descriptor = false ->
  parse v o ll pd spec = Err EDescriptorsOff.
Proof.
  intros Hnp Hp Hat Hd. unfold parse. rewrite Hnp. unfold parser_parse.
  destruct spec as [|c0 s0]; [discriminate|].
  rewrite (strip_tz_none _ _ _ Hp). cbn [bind]. rewrite Hat, Hd. reflexivity.
Qed.

Theorem parse_rejects_bad_duration v o ll pd spec :
  new_parser_panics o = false ->
  has_tz_prefix spec = false ->
  prefixb (bs "@every ") spec = true ->
  pd (skipn 7 spec) = None ->
  exists e, parse v o ll pd spec = Err e.
Proof.
  intros Hnp Hp He Hd. unfold parse. rewrite Hnp. unfold parser_parse.
  destruct spec as [|c0 s0]; [eexists; reflexivity|].
  rewrite (strip_tz_none _ _ _ Hp). cbn [bind].
  destruct (prefixb (bs "@") (c0 :: s0)) eqn:Hat.
  2:{ apply prefixb_spec in He as [c Hc]. exfalso.
      assert (prefixb (bs "@") (c0 :: s0) = true); [|congruence].
      apply prefixb_spec. rewrite Hc. exists (bs "every " ++ c). reflexivity. }
  destruct (negb (has o o_descriptor)); [eexists; reflexivity|].
  unfold parse_descriptor.
  repeat match goal with |- context [desc_is ?a ?b] =>
    let E := fresh "E" in destruct (desc_is a b) eqn:E;
    [ exfalso; unfold desc_is in E; apply eqb_listN_spec in E; rewrite E in He;
      vm_compute in He; discriminate | ] end.
  cbn [orb]. rewrite He, Hd. eexists; reflexivity.
Qed.

(* unknown time zone *)
Theorem parse_rejects_unknown_zone v o pd spec :
  new_parser_panics o = false ->
  has_tz_prefix spec = true ->
  go_index 32 spec <> -1 ->
  exists e, parse v o (fun _ => None) pd spec = Err e.
Proof.
  intros Hnp Hp Hi. unfold parse. rewrite Hnp. unfold parser_parse.
  destruct spec as [|c0 s0]; [eexists; reflexivity|].
  unfold strip_tz. rewrite Hp.
  pose proof (tz_prefix_indices _ Hp) as [Heq Hi2]. cbn zeta in Hi2.
  destruct Hi2 as [Hi2 | Hi2]; [congruence|].
  replace (is_fixed v && (go_index 32 (c0 :: s0) <? 0)) with false
    by (destruct v; cbn [is_fixed andb]; lia).
  destruct (go_slice_ok (E:=perr) (c0 :: s0) (go_index 61 (c0 :: s0) + 1) (go_index 32 (c0 :: s0)))
    as [name ->]; try lia.
  cbn [bind]. eexists; reflexivity.
Qed.
