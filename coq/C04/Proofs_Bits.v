(* C04 / Proofs_Bits.v — field -> 64-bit set: what an ACCEPTED list item denotes.

   Whatever item getRange accepts for a field with bounds [min, max] (max <= 62) yields the
   bit set of a stepped range  lo, lo+s, lo+2s, ... <= hi  with  min <= lo <= hi <= max  and
   s >= 1 (plus, possibly, the star bit 63): values outside the bounds, inverted ranges and
   zero steps are never given a meaning. Bit-level facts about uint64 shifts are established
   by exhaustive computation over the 64 bit positions; the loop of getBits by induction. *)
From Kit.Lib Require Import Base.
From Kit.C04 Require Import Cal Zone Str Parse Next Spec Bridge.
From Coq Require Import ZArith NArith Lia Bool List String ZifyBool.
Import ListNotations.
Open Scope Z_scope.

(* ------------------------------------------------------------------------------------ *)
(* exhaustive checks over small ranges                                                   *)

Fixpoint range_all (f : Z -> bool) (lo : Z) (n : nat) : bool :=
  match n with O => true | S n' => f lo && range_all f (lo + 1) n' end.

Lemma range_all_spec f n : forall lo,
  range_all f lo n = true -> forall x, lo <= x < lo + Z.of_nat n -> f x = true.
Proof.
  induction n as [|n IH]; intros lo H x Hx; [lia|].
  cbn [range_all] in H. apply andb_true_iff in H as [H1 H2].
  destruct (Z.eq_dec x lo) as [-> | Hne]; [exact H1|]. apply (IH (lo + 1) H2). lia.
Qed.

Definition tb (s : N) (x : Z) : bool := N.testbit s (Z.to_N x).

(* 1 << i on uint64 has exactly bit i *)
Lemma shl1_bit i x : 0 <= i < 64 -> 0 <= x < 64 -> tb (shl64 1 i) x = (x =? i).
Proof.
  intros Hi Hx.
  assert (H : range_all (fun i => range_all (fun x => Bool.eqb (tb (shl64 1 i) x) (x =? i)) 0 64)
                0 64 = true) by (vm_compute; reflexivity).
  pose proof (range_all_spec _ _ _ H i ltac:(lia)) as H1. cbv beta in H1.
  pose proof (range_all_spec _ _ _ H1 x ltac:(lia)) as H2. cbv beta in H2.
  apply Bool.eqb_prop in H2. exact H2.
Qed.

(* step 1: the two shifts of getBits *)
Lemma step1_bits lo hi x :
  0 <= lo < 64 -> 0 <= hi < 64 -> 0 <= x < 64 ->
  tb (get_bits lo hi 1) x = (lo <=? x) && (x <=? hi).
Proof.
  intros Hl Hh Hx.
  assert (H : range_all (fun lo => range_all (fun hi => range_all (fun x =>
                Bool.eqb (tb (get_bits lo hi 1) x) ((lo <=? x) && (x <=? hi))) 0 64) 0 64) 0 64
              = true) by (vm_compute; reflexivity).
  pose proof (range_all_spec _ _ _ H lo ltac:(lia)) as H1. cbv beta in H1.
  pose proof (range_all_spec _ _ _ H1 hi ltac:(lia)) as H2. cbv beta in H2.
  pose proof (range_all_spec _ _ _ H2 x ltac:(lia)) as H3. cbv beta in H3.
  apply Bool.eqb_prop in H3. exact H3.
Qed.

(* ------------------------------------------------------------------------------------ *)
(* the loop of getBits                                                                   *)

Fixpoint loop_hit (fuel : nat) (i max step x : Z) : bool :=
  match fuel with
  | O => false
  | S f => (i <=? max) && ((x =? i) || loop_hit f (i + step) max step x)
  end.

Lemma bits_loop_tb x max step : 0 <= x < 64 -> max < 64 -> 0 <= step ->
  forall fuel i acc, 0 <= i ->
  tb (bits_loop fuel i max step acc) x = tb acc x || loop_hit fuel i max step x.
Proof.
  intros Hx Hmax Hstep. induction fuel as [|f IH]; intros i acc Hi; cbn [bits_loop loop_hit].
  - rewrite orb_false_r. reflexivity.
  - destruct (i <=? max) eqn:E; cbn [andb]; [|rewrite orb_false_r; reflexivity].
    rewrite IH by lia. unfold tb at 1. rewrite N.lor_spec. fold (tb acc x).
    fold (tb (shl64 1 i) x). rewrite shl1_bit by lia. rewrite orb_assoc. reflexivity.
Qed.

Lemma loop_hit_stepped x max step : 1 <= step ->
  forall fuel i, max - i < Z.of_nat fuel ->
  loop_hit fuel i max step x = stepped i max step x.
Proof.
  intros Hstep. unfold stepped. induction fuel as [|f IH]; intros i Hf; cbn [loop_hit].
  - lia.
  - destruct (i <=? max) eqn:E; cbn [andb].
    + rewrite IH by lia. destruct (x =? i) eqn:Ex; cbn [orb].
      * replace (x - i) with 0 by lia. rewrite Z.mod_0_l by lia. lia.
      * destruct (Z_lt_le_dec x (i + step)) as [Hlt | Hge].
        -- (* i < x < i + step or x < i: not on the progression *)
           replace (i + step <=? x) with false by lia. cbn [andb].
           destruct (i <=? x) eqn:E2; [|reflexivity]. cbn [andb].
           rewrite Z.mod_small by lia. destruct (x <=? max); cbn [andb]; [lia | reflexivity].
        -- replace (i + step <=? x) with true by lia. replace (i <=? x) with true by lia.
           cbn [andb]. f_equal.
           replace (x - i) with (x - (i + step) + 1 * step) by lia.
           rewrite Z_mod_plus_full. reflexivity.
    + destruct (i <=? x) eqn:E2; [|reflexivity]. cbn [andb].
      replace (x <=? max) with false by lia. reflexivity.
Qed.

(* getBits(lo, hi, step) is the stepped range, bit by bit (bit 63 is never set) *)
Theorem get_bits_denotes lo hi step x :
  0 <= lo -> lo <= hi -> hi <= 62 -> 1 <= step -> 0 <= x < 64 ->
  tb (get_bits lo hi step) x = stepped lo hi step x.
Proof.
  intros Hlo Hle Hhi Hstep Hx. unfold get_bits. destruct (step =? 1) eqn:E.
  - assert (step = 1) by lia. subst step. pose proof (step1_bits lo hi x) as H.
    unfold get_bits in H. cbn [Z.eqb Pos.eqb] in H. rewrite H by lia.
    unfold stepped. rewrite Z.mod_1_r. lia.
  - rewrite bits_loop_tb by lia.
    replace (tb 0%N x) with false by (unfold tb; rewrite N.bits_0; reflexivity).
    cbn [orb]. apply loop_hit_stepped; cbn [Z.of_nat Pos.of_succ_nat]; lia.
Qed.

(* ------------------------------------------------------------------------------------ *)
(* getRange: the shape of everything it accepts                                          *)

Lemma tb_lor a b x : tb (N.lor a b) x = tb a x || tb b x.
Proof. unfold tb. apply N.lor_spec. Qed.

Lemma tb_star_bit x : 0 <= x <= 62 -> tb star_bit x = false.
Proof.
  intros Hx. unfold tb, star_bit. rewrite N.pow2_bits_eqb. apply N.eqb_neq. lia.
Qed.

Lemma tb_zero x : tb 0%N x = false.
Proof. unfold tb. apply N.bits_0. Qed.

Lemma must_parse_int_nonneg s n : must_parse_int s = Ok n -> 0 <= n.
Proof.
  unfold must_parse_int. destruct (atoi s) as [m|]; [|discriminate].
  destruct (m <? 0) eqn:E; [discriminate|]. intros H. injection H as <-. lia.
Qed.

(* every accepted item is  lo-hi/st  inside the bounds, with or without the star bit *)
Theorem get_range_shape e r bits :
  get_range e r = Ok bits ->
  exists lo hi st (sb : bool),
    b_min r <= lo /\ lo <= hi /\ hi <= b_max r /\ 1 <= st /\
    bits = N.lor (get_bits lo hi st) (if sb then star_bit else 0%N).
Proof.
  unfold get_range.
  match goal with |- bind ?a _ = _ -> _ => destruct a as [[[start end_] extra] | |] eqn:E1 end;
    cbn [bind]; try discriminate.
  assert (Hextra : extra = star_bit \/ extra = 0%N).
  { revert E1. destruct (is_star_or_q _).
    - intros H. injection H as _ _ <-. left; reflexivity.
    - destruct (parse_int_or_name _ _) as [s0| |]; cbn [bind]; try discriminate.
      destruct (split_on 45 _) as [|a [|b [|c l]]]; try discriminate.
      + intros H. injection H as _ _ <-. right; reflexivity.
      + destruct (parse_int_or_name b _) as [e0| |]; cbn [bind]; try discriminate.
        intros H. injection H as _ _ <-. right; reflexivity. }
  match goal with |- bind ?a _ = _ -> _ => destruct a as [[[step end2] extra2] | |] eqn:E2 end;
    cbn [bind]; try discriminate.
  assert (Hstep : 0 <= step /\ (extra2 = extra \/ extra2 = 0%N)).
  { revert E2. destruct (split_on 47 e) as [|a [|b [|c l]]]; try discriminate.
    - intros H. injection H as <- _ <-. split; [lia | left; reflexivity].
    - destruct (must_parse_int b) as [n| |] eqn:En; cbn [bind]; try discriminate.
      intros H. injection H as <- _ <-. split; [exact (must_parse_int_nonneg _ _ En)|].
      destruct (1 <? n); [right | left]; reflexivity. }
  destruct Hstep as [Hstep Hex2].
  destruct (start <? b_min r) eqn:C1; [discriminate|].
  destruct (b_max r <? end2) eqn:C2; [discriminate|].
  destruct (end2 <? start) eqn:C3; [discriminate|].
  destruct (step =? 0) eqn:C4; [discriminate|].
  intros H. injection H as <-.
  assert (Hstar : extra2 = star_bit \/ extra2 = 0%N) by (destruct Hex2; subst; tauto).
  exists start, end2, step, (if N.eqb extra2 0 then false else true).
  repeat split; try lia.
  destruct Hstar as [-> | ->]; reflexivity.
Qed.

(* ... so, bit by bit: the value bits of an accepted item are exactly a stepped range inside
   the field's bounds - nothing outside [min, max] is ever set *)
Theorem item_denotes_range e r bits :
  0 <= b_min r -> b_max r <= 62 ->
  get_range e r = Ok bits ->
  exists lo hi st,
    b_min r <= lo /\ lo <= hi /\ hi <= b_max r /\ 1 <= st /\
    forall x, 0 <= x <= 62 -> tb bits x = stepped lo hi st x.
Proof.
  intros Hmin Hmax H. apply get_range_shape in H as (lo & hi & st & sb & H1 & H2 & H3 & H4 & ->).
  exists lo, hi, st. repeat split; try assumption.
  intros x Hx. rewrite tb_lor, get_bits_denotes by lia.
  destruct sb; [rewrite tb_star_bit by lia | rewrite tb_zero]; apply orb_false_r.
Qed.

(* a whole field (comma-separated list): every value bit lies within the bounds *)
Lemma get_field_loop_in_bounds r : 0 <= b_min r -> b_max r <= 62 ->
  forall items acc bits,
  (forall x, 0 <= x <= 62 -> tb acc x = true -> b_min r <= x <= b_max r) ->
  get_field_loop items r acc = Ok bits ->
  forall x, 0 <= x <= 62 -> tb bits x = true -> b_min r <= x <= b_max r.
Proof.
  intros Hmin Hmax. induction items as [|e items IH]; intros acc bits Hacc; cbn [get_field_loop].
  - intros H. injection H as <-. exact Hacc.
  - destruct (get_range e r) as [b| |] eqn:E; cbn [bind]; try discriminate.
    apply IH. intros x Hx. rewrite tb_lor. intros Ht. apply orb_true_iff in Ht as [Ht | Ht].
    + apply Hacc; assumption.
    + apply (item_denotes_range e r b Hmin Hmax) in E as (lo & hi & st & H1 & H2 & H3 & _ & Hd).
      rewrite (Hd x Hx) in Ht. unfold stepped in Ht. lia.
Qed.

Theorem field_bits_in_bounds field r bits :
  0 <= b_min r -> b_max r <= 62 ->
  get_field field r = Ok bits ->
  forall x, 0 <= x <= 62 -> tb bits x = true -> b_min r <= x <= b_max r.
Proof.
  intros Hmin Hmax H. unfold get_field in H.
  apply (get_field_loop_in_bounds r Hmin Hmax (fields_on 44 field) 0%N bits); [|exact H].
  intros x _ Ht. rewrite tb_zero in Ht. discriminate.
Qed.

(* the whole parser: every schedule it returns has its six sets inside the documented
   ranges (second, minute 0-59; hour 0-23; day of month 1-31; month 1-12; day of week 0-6) *)
Definition set_within (s : N) (lo hi : Z) : Prop :=
  forall x, 0 <= x <= 62 -> tb s x = true -> lo <= x <= hi.

Theorem parse_sets_in_bounds v o ll pd spec sec mi hr dm mo dw loc :
  prefixb (bs "@") (match strip_tz v ll spec with Ok (_, rest) => rest | _ => spec end) = false ->
  parse v o ll pd spec = Ok (SpecSched sec mi hr dm mo dw loc) ->
  set_within sec 0 59 /\ set_within mi 0 59 /\ set_within hr 0 23 /\
  set_within dm 1 31 /\ set_within mo 1 12 /\ set_within dw 0 6.
Proof.
  intros Hat. unfold parse. destruct (new_parser_panics o); [discriminate|].
  unfold parser_parse. destruct spec as [|c0 s0]; [discriminate|].
  destruct (strip_tz v ll (c0 :: s0)) as [[loc' rest]| |]; cbn [bind]; try discriminate.
  rewrite Hat.
  destruct (normalize_fields (go_fields rest) o) as [fields| |]; cbn [bind]; try discriminate.
  destruct fields as [|f0 [|f1 [|f2 [|f3 [|f4 [|f5 [|f6 l]]]]]]]; try discriminate.
  destruct (get_field f0 seconds) as [b0| |] eqn:E0; cbn [bind]; try discriminate.
  destruct (get_field f1 minutes) as [b1| |] eqn:E1; cbn [bind]; try discriminate.
  destruct (get_field f2 hours) as [b2| |] eqn:E2; cbn [bind]; try discriminate.
  destruct (get_field f3 dom) as [b3| |] eqn:E3; cbn [bind]; try discriminate.
  destruct (get_field f4 months) as [b4| |] eqn:E4; cbn [bind]; try discriminate.
  destruct (get_field f5 dow) as [b5| |] eqn:E5; cbn [bind]; try discriminate.
  intros H. injection H as <- <- <- <- <- <- _.
  split; [|split; [|split; [|split; [|split]]]]; intros y Hy Ht.
  - exact (field_bits_in_bounds f0 seconds b0 ltac:(cbn; lia) ltac:(cbn; lia) E0 y Hy Ht).
  - exact (field_bits_in_bounds f1 minutes b1 ltac:(cbn; lia) ltac:(cbn; lia) E1 y Hy Ht).
  - exact (field_bits_in_bounds f2 hours b2 ltac:(cbn; lia) ltac:(cbn; lia) E2 y Hy Ht).
  - exact (field_bits_in_bounds f3 dom b3 ltac:(cbn; lia) ltac:(cbn; lia) E3 y Hy Ht).
  - exact (field_bits_in_bounds f4 months b4 ltac:(cbn; lia) ltac:(cbn; lia) E4 y Hy Ht).
  - exact (field_bits_in_bounds f5 dow b5 ltac:(cbn; lia) ltac:(cbn; lia) E5 y Hy Ht).
Qed.

(* non-vacuity: an accepted item and its stepped range *)
Example item_denotes_range_ex :
  get_range (bs "10-40/15") minutes = Ok (N.lor (get_bits 10 40 15) 0%N) /\
  tb (get_bits 10 40 15) 25 = true /\ tb (get_bits 10 40 15) 26 = false.
Proof. vm_compute. repeat split; reflexivity. Qed.
