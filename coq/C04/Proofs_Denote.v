(* C04 / Proofs_Denote.v — parse_denotes: from the CONCRETE SYNTAX of the documented grammar
   (Spec.read_field: numbers, month / day names in any capitalisation, '*', '?', ranges, steps,
   comma lists) to the six bit sets of the parser model.

   For every spec on which the documented grammar has an opinion (Check.parse_doc_out: no
   TZ prefix, not a descriptor, field count fitting the option set, every normalised field a
   list of documented items) the model of NewParser(o).Parse returns exactly the six denoted
   sets (bit 63 = the field is unrestricted) when every item is valid, and an error when
   some item is not (value out of range, inverted range, zero step). *)
From Kit.Lib Require Import Base.
From Kit.C04 Require Import Cal Zone Str Parse Next Spec Bridge Check Proofs_Parse Proofs_Bits.
From Coq Require Import ZArith NArith Lia Bool List String ZifyBool.
Import ListNotations.
Open Scope Z_scope.

(* ------------------------------------------------------------------------------------ *)
(* A. a uint64 is determined by its 64 bits                                              *)

Definition hi_zero (b : N) : Prop := forall n, (64 <= n)%N -> N.testbit b n = false.

Lemma hi_zero_0 : hi_zero 0%N.
Proof. intros n _. apply N.bits_0. Qed.

Lemma hi_zero_lor a b : hi_zero a -> hi_zero b -> hi_zero (N.lor a b).
Proof. intros Ha Hb n Hn. rewrite N.lor_spec, Ha, Hb by exact Hn. reflexivity. Qed.

Lemma mask64_ones : mask64 = N.ones 64.
Proof. vm_compute. reflexivity. Qed.

Lemma hi_zero_land_mask a : hi_zero (N.land a mask64).
Proof.
  intros n Hn. rewrite N.land_spec, mask64_ones, N.ones_spec_high by exact Hn. apply andb_false_r.
Qed.

Lemma hi_zero_land_r a b : hi_zero b -> hi_zero (N.land a b).
Proof. intros Hb n Hn. rewrite N.land_spec, Hb by exact Hn. apply andb_false_r. Qed.

Lemma hi_zero_shl64 x k : hi_zero (shl64 x k).
Proof. unfold shl64. destruct (64 <=? k); [apply hi_zero_0 | apply hi_zero_land_mask]. Qed.

Lemma hi_zero_star : hi_zero star_bit.
Proof.
  intros n Hn. unfold star_bit. rewrite N.pow2_bits_eqb. apply N.eqb_neq. lia.
Qed.

Lemma hi_zero_bits_loop max step : forall fuel i acc,
  hi_zero acc -> hi_zero (bits_loop fuel i max step acc).
Proof.
  induction fuel as [|f IH]; intros i acc Ha; cbn [bits_loop]; [exact Ha|].
  destruct (i <=? max); [|exact Ha]. apply IH. apply hi_zero_lor; [exact Ha | apply hi_zero_shl64].
Qed.

Lemma hi_zero_get_bits lo hi st : hi_zero (get_bits lo hi st).
Proof.
  unfold get_bits. destruct (st =? 1).
  - apply hi_zero_land_r. apply hi_zero_shl64.
  - apply hi_zero_bits_loop. apply hi_zero_0.
Qed.

Lemma bits64_ext a b :
  hi_zero a -> hi_zero b -> (forall x, 0 <= x < 64 -> tb a x = tb b x) -> a = b.
Proof.
  intros Ha Hb H. apply N.bits_inj. intros n.
  destruct (N.lt_ge_cases n 64) as [Hlt | Hge].
  - specialize (H (Z.of_N n) ltac:(lia)). unfold tb in H. rewrite N2Z.id in H. exact H.
  - rewrite Ha, Hb by exact Hge. reflexivity.
Qed.

(* ------------------------------------------------------------------------------------ *)
(* B. set_of                                                                             *)

Lemma set_of_fold (p : Z -> bool) l : forall acc n,
  N.testbit (fold_left (fun acc k => let x := Z.of_nat k in
                          if p x then N.lor acc (N.shiftl 1 (Z.to_N x)) else acc) l acc) n =
  N.testbit acc n || existsb (fun k => (N.of_nat k =? n)%N && p (Z.of_nat k)) l.
Proof.
  induction l as [|k l IH]; intros acc n; cbn [fold_left existsb].
  - rewrite orb_false_r. reflexivity.
  - rewrite IH. cbv zeta.
    replace (Z.to_N (Z.of_nat k)) with (N.of_nat k) by (rewrite <- nat_N_Z, N2Z.id; reflexivity).
    destruct (p (Z.of_nat k)).
    + rewrite N.lor_spec, N.shiftl_1_l, N.pow2_bits_eqb, andb_true_r.
      rewrite orb_assoc. reflexivity.
    + rewrite andb_false_r. reflexivity.
Qed.

Lemma set_of_spec p n : N.testbit (set_of p) n = (n <? 63)%N && p (Z.of_N n).
Proof.
  unfold set_of. rewrite set_of_fold, N.bits_0. cbn [orb].
  apply Bool.eq_iff_eq_true. rewrite existsb_exists, andb_true_iff. split.
  - intros (k & Hin & Hk). apply in_seq in Hin. apply andb_true_iff in Hk as [H1 H2].
    apply N.eqb_eq in H1. subst n. rewrite nat_N_Z. split; [apply N.ltb_lt; lia | exact H2].
  - intros [H1 H2]. apply N.ltb_lt in H1. exists (N.to_nat n). split.
    + apply in_seq. lia.
    + rewrite N2Nat.id, N.eqb_refl. cbn [andb]. rewrite <- (N2Nat.id n) in H2 at 1.
      rewrite nat_N_Z in H2. exact H2.
Qed.

(* ------------------------------------------------------------------------------------ *)
(* C. "bits denotes the set q, with star flag st"                                         *)

Definition bits_denote (bits : N) (q : Z -> bool) (st : bool) : Prop :=
  hi_zero bits /\ (forall x, 0 <= x <= 62 -> tb bits x = q x) /\ tb bits 63 = st.

Lemma bits_denote_unique b1 b2 q1 q2 st :
  bits_denote b1 q1 st -> bits_denote b2 q2 st -> (forall x, 0 <= x <= 62 -> q1 x = q2 x) ->
  b1 = b2.
Proof.
  intros (H1 & H2 & H3) (K1 & K2 & K3) Hq. apply bits64_ext; try assumption.
  intros x Hx. destruct (Z.eq_dec x 63) as [-> | Hne]; [congruence|].
  rewrite H2, K2 by lia. apply Hq. lia.
Qed.

Lemma tb_star_63 : tb star_bit 63 = true.
Proof. vm_compute. reflexivity. Qed.

Lemma doc_bits_denote q (st : bool) :
  bits_denote (N.lor (set_of q) (if st then star_bit else 0%N)) q st.
Proof.
  split; [|split].
  - apply hi_zero_lor.
    + intros n Hn. rewrite set_of_spec. replace (n <? 63)%N with false by lia. reflexivity.
    + destruct st; [apply hi_zero_star | apply hi_zero_0].
  - intros x Hx. rewrite tb_lor. unfold tb at 1. rewrite set_of_spec.
    replace (Z.to_N x <? 63)%N with true by lia. rewrite Z2N.id by lia. cbn [andb].
    destruct st; [rewrite tb_star_bit by lia | rewrite tb_zero]; apply orb_false_r.
  - rewrite tb_lor. unfold tb at 1. rewrite set_of_spec.
    replace (Z.to_N 63 <? 63)%N with false by lia. cbn [andb orb].
    destruct st; [apply tb_star_63 | apply tb_zero].
Qed.

Lemma bits_denote_0 : bits_denote 0%N (fun _ => false) false.
Proof. split; [apply hi_zero_0|]. split; [intros; apply tb_zero | apply tb_zero]. Qed.

Lemma bits_denote_lor a b qa qb sa sb :
  bits_denote a qa sa -> bits_denote b qb sb ->
  bits_denote (N.lor a b) (fun x => qa x || qb x) (sa || sb).
Proof.
  intros (H1 & H2 & H3) (K1 & K2 & K3). split; [apply hi_zero_lor; assumption|]. split.
  - intros x Hx. rewrite tb_lor, H2, K2 by lia. reflexivity.
  - rewrite tb_lor, H3, K3. reflexivity.
Qed.

(* ------------------------------------------------------------------------------------ *)
(* D. strings: names and numbers                                                         *)

Lemma spec_assoc_assoc k tbl : spec_assoc k tbl = assoc k tbl.
Proof. induction tbl as [|[k' v] tbl IH]; cbn; [reflexivity|]. rewrite IH. reflexivity. Qed.

Lemma assoc_in k tbl v : assoc k tbl = Some v -> In (k, v) tbl.
Proof.
  induction tbl as [|[k' v'] tbl IH]; cbn [assoc]; [discriminate|].
  destruct (eqb_listN k k') eqn:E.
  - intros H. injection H as <-. apply eqb_listN_spec in E. subst. left; reflexivity.
  - intros H. right. apply IH. exact H.
Qed.

Definition ascii (s : list N) : bool := forallb (fun c => (c <? 128)%N) s.

(* strings.ToLower on ASCII input is the byte-wise map *)
Lemma lower_key_cons c r : (c <? 128)%N = true -> lower_key (c :: r) = lower1 c :: lower_key r.
Proof.
  intros H. rewrite <- (N2Nat.id c). assert (Hn : (N.to_nat c < 128)%nat) by lia.
  revert Hn. generalize (N.to_nat c). intros n Hn.
  do 128 (destruct n as [|n]; [reflexivity|]). lia.
Qed.

Lemma lower_key_ascii s : ascii s = true -> lower_key s = List.map lower1 s.
Proof.
  induction s as [|c s IH]; [reflexivity|]. cbn [ascii forallb]. intros H.
  apply andb_true_iff in H as [H1 H2]. rewrite lower_key_cons by exact H1.
  cbn [List.map]. f_equal. apply IH. exact H2.
Qed.

Lemma lower1_ascii_inv s : ascii (List.map lower1 s) = true -> ascii s = true.
Proof.
  induction s as [|c s IH]; [reflexivity|]. cbn [List.map ascii forallb]. intros H.
  apply andb_true_iff in H as [H1 H2]. apply andb_true_iff. split; [|apply IH; exact H2].
  unfold lower1 in H1. revert H1. destruct ((65 <=? c) && (c <=? 90))%N eqn:E; [|tauto].
  intros _. apply N.ltb_lt. apply andb_true_iff in E as [_ E]. apply N.leb_le in E. clear - E. lia.
Qed.

Lemma digits_ascii s : forallb is_digit s = true -> ascii s = true /\ List.map lower1 s = s.
Proof.
  induction s as [|c s IH]; [split; reflexivity|]. cbn [forallb]. intros H.
  apply andb_true_iff in H as [H1 H2]. destruct (IH H2) as [I1 I2].
  unfold is_digit in H1. split.
  - cbn [ascii forallb]. apply andb_true_iff. split; [lia | exact I1].
  - cbn [List.map]. rewrite I2. f_equal. unfold lower1.
    replace ((65 <=? c) && (c <=? 90))%N with false by lia. reflexivity.
Qed.

Lemma digits_val_digits s : forall acc n, digits_val acc s = Some n -> forallb is_digit s = true.
Proof.
  induction s as [|c s IH]; intros acc n; cbn [digits_val forallb]; [reflexivity|].
  destruct (is_digit c); [|discriminate]. intros H. apply (IH _ _ H).
Qed.

Lemma digits_val_nonneg s : forall acc n, 0 <= acc -> digits_val acc s = Some n -> 0 <= n.
Proof.
  induction s as [|c s IH]; intros acc n Ha; cbn [digits_val].
  - intros H. injection H as <-. exact Ha.
  - destruct (is_digit c) eqn:E; [|discriminate]. apply IH. unfold is_digit in E. lia.
Qed.

(* a documented number is what strconv.Atoi reads *)
Lemma read_num_atoi s n : read_num s = Some n -> atoi s = Some n /\ 0 <= n /\ forallb is_digit s = true.
Proof.
  unfold read_num. destruct s as [|c s]; [discriminate|].
  destruct (digits_val 0 (c :: s)) as [m|] eqn:E; [|discriminate].
  destruct (m <? 2 ^ 63) eqn:Em; [|discriminate]. intros H. injection H as <-.
  pose proof (digits_val_nonneg (c :: s) 0 m ltac:(lia) E) as Hnn.
  pose proof (digits_val_digits _ _ _ E) as Hd.
  split; [|split; assumption].
  assert (Hc : is_digit c = true) by (cbn [forallb] in Hd; apply andb_true_iff in Hd; tauto).
  unfold is_digit in Hc.
  assert (Hcases : (c = 48 \/ c = 49 \/ c = 50 \/ c = 51 \/ c = 52 \/ c = 53 \/ c = 54 \/ c = 55 \/
                    c = 56 \/ c = 57)%N) by lia.
  unfold atoi.
  repeat (destruct Hcases as [-> | Hcases]; [rewrite E; replace ((- 2 ^ 63 <=? m) && (m <=? 2 ^ 63 - 1)) with true by lia; reflexivity|]).
  subst c. rewrite E. replace ((- 2 ^ 63 <=? m) && (m <=? 2 ^ 63 - 1)) with true by lia. reflexivity.
Qed.

Lemma read_num_must_parse_int s n : read_num s = Some n -> must_parse_int s = Ok n /\ 0 <= n.
Proof.
  intros H. apply read_num_atoi in H as (H1 & H2 & _). unfold must_parse_int. rewrite H1.
  replace (n <? 0) with false by lia. split; [reflexivity | exact H2].
Qed.

(* name tables: ASCII keys, non-negative values, no key is "", "*" or "?" *)
Definition names_okb (names : list (list N * Z)) : bool :=
  forallb (fun p => ascii (fst p) && (0 <=? snd p) && negb (forallb is_digit (fst p))) names &&
  match assoc [] names, assoc [42%N] names, assoc [63%N] names with
  | None, None, None => true
  | _, _, _ => false
  end.

Lemma names_ok_in names k v : names_okb names = true -> In (k, v) names -> ascii k = true /\ 0 <= v.
Proof.
  unfold names_okb. intros H Hin. apply andb_true_iff in H as [H _].
  rewrite forallb_forall in H. specialize (H _ Hin). cbn [fst snd] in H.
  apply andb_true_iff in H as [H _]. lia.
Qed.

Lemma names_ok_digits names s : names_okb names = true -> forallb is_digit s = true ->
  assoc s names = None.
Proof.
  unfold names_okb. intros H Hd. apply andb_true_iff in H as [H _].
  induction names as [|[k v] names IH]; [reflexivity|]. cbn [forallb fst snd] in H.
  apply andb_true_iff in H as [Hk H]. cbn [assoc].
  destruct (eqb_listN s k) eqn:E; [|apply IH; exact H].
  apply eqb_listN_spec in E. subst k. rewrite Hd in Hk. cbn in Hk. lia.
Qed.

Lemma is_star_or_q_cases a : is_star_or_q a = true -> a = [42%N] \/ a = [63%N].
Proof.
  unfold is_star_or_q. destruct a as [|c a']; [discriminate|].
  destruct c as [|p]; [destruct a'; discriminate|].
  do 7 (try (destruct p as [p|p|]; try (destruct a'; discriminate))).
  all: destruct a'; try discriminate; intros _; auto.
Qed.

(* a documented value is what parseIntOrName reads *)
Lemma read_value_parse f a v :
  names_okb (f_names f) = true -> read_value f a = Some v ->
  parse_int_or_name a (f_names f) = Ok v /\ 0 <= v /\ is_star_or_q a = false.
Proof.
  intros Hok. unfold read_value, parse_int_or_name. rewrite spec_assoc_assoc.
  assert (Hstar : is_star_or_q a = true -> assoc (List.map lower1 a) (f_names f) = None /\ read_num a = None).
  { unfold names_okb in Hok. apply andb_true_iff in Hok as [_ Hok].
    destruct (assoc [] (f_names f)); [discriminate|].
    destruct (assoc [42%N] (f_names f)) eqn:E1; [discriminate|].
    destruct (assoc [63%N] (f_names f)) eqn:E2; [discriminate|].
    intros Hs. destruct (is_star_or_q_cases a Hs) as [-> | ->];
      (split; [assumption | reflexivity]). }
  destruct (assoc (List.map lower1 a) (f_names f)) as [v'|] eqn:E.
  - intros H. injection H as <-. pose proof (assoc_in _ _ _ E) as Hin.
    destruct (names_ok_in _ _ _ Hok Hin) as [Hasc Hv].
    apply lower1_ascii_inv in Hasc. rewrite (lower_key_ascii a Hasc), E.
    split; [reflexivity|]. split; [exact Hv|].
    destruct (is_star_or_q a) eqn:Es; [|reflexivity]. destruct (Hstar eq_refl). congruence.
  - intros H. pose proof (read_num_atoi a v H) as (Ha & Hv & Hd).
    destruct (digits_ascii a Hd) as [Hasc Hmap].
    rewrite (lower_key_ascii a Hasc), E.
    destruct (read_num_must_parse_int a v H) as [Hm _]. rewrite Hm.
    split; [reflexivity|]. split; [exact Hv|].
    destruct (is_star_or_q a) eqn:Es; [|reflexivity]. destruct (Hstar eq_refl). congruence.
Qed.

(* ------------------------------------------------------------------------------------ *)
(* E. one list item                                                                      *)

Record fr_ok (f : fspec) (r : bounds) : Prop := mkFrOk {
  fr_lo : f_lo f = b_min r; fr_hi : f_hi f = b_max r; fr_names : f_names f = b_names r;
  fr_lo0 : 0 <= f_lo f; fr_le : f_lo f <= f_hi f; fr_hi62 : f_hi f <= 62;
  fr_nok : names_okb (f_names f) = true }.

Definition read_range_generic (f : fspec) (s : list N) : option rng :=
  match split_on 45 s with
  | [a] => option_map RVal (read_value f a)
  | [a; b2] =>
      match read_value f a, read_value f b2 with
      | Some v, Some w => Some (RRange v w)
      | _, _ => None
      end
  | _ => None
  end.

Lemma read_range_unfold f s :
  read_range f s =
  if is_star_or_q s
  then (if eqb_listN s [42%N] then Some RAll else if f_q f then Some RAll else None)
  else read_range_generic f s.
Proof.
  unfold read_range, read_range_generic, is_star_or_q.
  destruct s as [|c a']; [reflexivity|].
  destruct c as [|p]; [destruct a'; reflexivity|].
  do 7 (try (destruct p as [p|p|]; try (destruct a'; reflexivity))).
  all: destruct a'; reflexivity.
Qed.

Lemma item_bits_denote s e st (sb : bool) q :
  0 <= s -> s <= e -> e <= 62 -> 1 <= st ->
  (forall x, 0 <= x <= 62 -> stepped s e st x = q x) ->
  bits_denote (N.lor (get_bits s e st) (if sb then star_bit else 0%N)) q sb.
Proof.
  intros H1 H2 H3 H4 Hq. split; [|split].
  - apply hi_zero_lor; [apply hi_zero_get_bits | destruct sb; [apply hi_zero_star | apply hi_zero_0]].
  - intros x Hx. rewrite tb_lor, get_bits_denotes by lia. rewrite Hq by lia.
    destruct sb; [rewrite tb_star_bit by lia | rewrite tb_zero]; apply orb_false_r.
  - rewrite tb_lor, get_bits_denotes by lia. unfold stepped.
    replace (63 <=? e) with false by lia. rewrite andb_false_r. cbn [andb orb].
    destruct sb; [apply tb_star_63 | apply tb_zero].
Qed.

Ltac checks_ok :=
  repeat match goal with
         | |- context [if ?c then Err _ else _] => replace c with false by lia
         end.

Ltac checks_err :=
  repeat match goal with
         | |- exists err, (if ?c then Err _ else _) = Err err =>
             let E := fresh "C" in destruct c eqn:E; [eexists; reflexivity|]
         end;
  exfalso; lia.

(* the item of the documented grammar, read by getRange *)
Theorem item_denotes f r e tm :
  fr_ok f r -> read_item f e = Some tm ->
  if term_valid f tm
  then exists bits, get_range e r = Ok bits /\ bits_denote bits (denote_term f tm) (wildcard tm)
  else exists err, get_range e r = Err err.
Proof.
  intros [Hlo Hhi Hnm Hlo0 Hle Hhi62 Hnok]. unfold read_item, get_range.
  destruct (split_on 47 e) as [|rs [|st [|x l]]]; try discriminate; cbn [hd].
  - (* no step *)
    rewrite read_range_unfold. destruct (is_star_or_q rs) eqn:Es.
    + (* "*" or "?" *)
      destruct (is_star_or_q_cases rs Es) as [-> | ->]; cbn [eqb_listN N.eqb Pos.eqb andb].
      * intros H. injection H as <-. cbn [term_valid]. cbn -[get_bits star_bit Z.ltb Z.eqb].
        checks_ok. eexists. split; [reflexivity|].
        apply (item_bits_denote _ _ _ true); try lia.
        intros x Hx. unfold stepped, denote_term. rewrite Z.mod_1_r. lia.
      * destruct (f_q f); [|discriminate].
        intros H. injection H as <-. cbn [term_valid]. cbn -[get_bits star_bit Z.ltb Z.eqb].
        checks_ok. eexists. split; [reflexivity|].
        apply (item_bits_denote _ _ _ true); try lia.
        intros x Hx. unfold stepped, denote_term. rewrite Z.mod_1_r. lia.
    + unfold read_range_generic.
      destruct (split_on 45 rs) as [|a [|b [|y l]]]; try discriminate; cbn [hd].
      * destruct (read_value f a) as [v|] eqn:Ea; [|discriminate].
        destruct (read_value_parse f a v Hnok Ea) as (Pa & Hv & Sa).
        intros H. injection H as <-. rewrite Sa, <- Hnm, Pa. cbn [bind].
        destruct (term_valid f (TVal v)) eqn:V; cbn [term_valid] in V.
        -- checks_ok. eexists. split; [reflexivity|].
           apply (item_bits_denote _ _ _ false); try lia.
           intros x Hx. unfold stepped, denote_term. rewrite Z.mod_1_r. lia.
        -- checks_err.
      * destruct (read_value f a) as [v|] eqn:Ea; [|discriminate].
        destruct (read_value f b) as [w|] eqn:Eb; [|discriminate].
        destruct (read_value_parse f a v Hnok Ea) as (Pa & Hv & Sa).
        destruct (read_value_parse f b w Hnok Eb) as (Pb & Hw & _).
        intros H. injection H as <-. rewrite Sa, <- Hnm, Pa. cbn [bind]. rewrite Pb. cbn [bind].
        destruct (term_valid f (TRange v w)) eqn:V; cbn [term_valid] in V.
        -- checks_ok. eexists. split; [reflexivity|].
           apply (item_bits_denote _ _ _ false); try lia.
           intros x Hx. unfold stepped, denote_term. rewrite Z.mod_1_r. lia.
        -- checks_err.
  - (* with a step *)
    destruct (read_num st) as [s|] eqn:Est; [|discriminate].
    destruct (read_num_must_parse_int st s Est) as [Ps Hs].
    rewrite read_range_unfold. destruct (is_star_or_q rs) eqn:Es.
    + assert (Hall : (if eqb_listN rs [42%N] then Some RAll else if f_q f then Some RAll else None)
                     = Some RAll \/
                     (if eqb_listN rs [42%N] then Some RAll else if f_q f then Some RAll else None)
                     = None).
      { destruct (eqb_listN rs [42%N]); [left; reflexivity|]. destruct (f_q f); auto. }
      destruct Hall as [-> | ->]; [|discriminate].
      intros H. injection H as <-.
      assert (Hsplit : split_on 45 rs = [rs])
        by (destruct (is_star_or_q_cases rs Es) as [-> | ->]; reflexivity).
      rewrite Hsplit. cbn [hd]. rewrite Es. cbn [bind]. rewrite Ps. cbn [bind].
      destruct (term_valid f (TAllStep s)) eqn:V; cbn [term_valid] in V.
      * checks_ok. eexists. split; [reflexivity|].
        replace (if 1 <? s then 0%N else star_bit) with (if s =? 1 then star_bit else 0%N)
          by (destruct (1 <? s) eqn:A, (s =? 1) eqn:B; try reflexivity; lia).
        cbn [wildcard]. apply item_bits_denote; try lia.
        intros x Hx. unfold denote_term. rewrite Hlo, Hhi. reflexivity.
      * checks_err.
    + unfold read_range_generic.
      destruct (split_on 45 rs) as [|a [|b [|y l]]]; try discriminate; cbn [hd].
      * destruct (read_value f a) as [v|] eqn:Ea; [|discriminate].
        destruct (read_value_parse f a v Hnok Ea) as (Pa & Hv & Sa).
        cbn [option_map]. intros H. injection H as <-. rewrite Sa, <- Hnm, Pa. cbn [bind].
        rewrite Ps. cbn [bind].
        destruct (term_valid f (TValStep v s)) eqn:V; cbn [term_valid] in V.
        -- checks_ok. eexists. split; [reflexivity|].
           replace (if 1 <? s then 0%N else 0%N) with 0%N by (destruct (1 <? s); reflexivity).
           cbn [wildcard]. apply (item_bits_denote _ _ _ false); try lia.
           intros x Hx. unfold denote_term. rewrite Hhi. reflexivity.
        -- checks_err.
      * destruct (read_value f a) as [v|] eqn:Ea; [|discriminate].
        destruct (read_value f b) as [w|] eqn:Eb; [|discriminate].
        destruct (read_value_parse f a v Hnok Ea) as (Pa & Hv & Sa).
        destruct (read_value_parse f b w Hnok Eb) as (Pb & Hw & _).
        intros H. injection H as <-. rewrite Sa, <- Hnm, Pa. cbn [bind]. rewrite Pb. cbn [bind].
        rewrite Ps. cbn [bind].
        destruct (term_valid f (TRangeStep v w s)) eqn:V; cbn [term_valid] in V.
        -- checks_ok. eexists. split; [reflexivity|].
           replace (if 1 <? s then 0%N else 0%N) with 0%N by (destruct (1 <? s); reflexivity).
           cbn [wildcard]. apply (item_bits_denote _ _ _ false); try lia.
           intros x Hx. reflexivity.
        -- checks_err.
Qed.

(* ------------------------------------------------------------------------------------ *)
(* F. a field: comma-separated list of items                                             *)

Lemma read_item_nonempty f : names_okb (f_names f) = true -> read_item f [] = None.
Proof.
  intros Hok. unfold read_item. cbn [split_on]. rewrite read_range_unfold. cbn [is_star_or_q].
  unfold read_range_generic. cbn [split_on]. unfold read_value. cbn [List.map].
  rewrite spec_assoc_assoc. unfold names_okb in Hok. apply andb_true_iff in Hok as [_ Hok].
  destruct (assoc [] (f_names f)); [discriminate|]. reflexivity.
Qed.

Lemma read_items_nonempty f items tms :
  names_okb (f_names f) = true -> read_items f items = Some tms -> filter nonempty items = items.
Proof.
  intros Hok. revert tms. induction items as [|it items IH]; intros tms; [reflexivity|].
  cbn [read_items filter]. destruct (read_item f it) as [tm|] eqn:E; [|discriminate].
  destruct (read_items f items) as [tms'|]; [|discriminate]. intros _.
  destruct it as [|c it']; [rewrite (read_item_nonempty f Hok) in E; discriminate|].
  cbn [nonempty]. f_equal. apply (IH tms'). reflexivity.
Qed.

Lemma items_denote f r : fr_ok f r -> forall items tms,
  read_items f items = Some tms ->
  if forallb (term_valid f) tms
  then forall acc q0 st0, bits_denote acc q0 st0 ->
       exists bits, get_field_loop items r acc = Ok bits /\
                    bits_denote bits (fun x => q0 x || denote_field f tms x) (st0 || unrestricted tms)
  else forall acc, exists err, get_field_loop items r acc = Err err.
Proof.
  intros Hfr. induction items as [|it items IH]; intros tms; cbn [read_items].
  - intros H. injection H as <-. cbn [forallb]. intros acc q0 st0 Ha. exists acc.
    split; [reflexivity|]. destruct Ha as (H1 & H2 & H3). split; [exact H1|]. split.
    + intros x Hx. rewrite H2 by exact Hx. cbn. rewrite orb_false_r. reflexivity.
    + rewrite H3. cbn. rewrite orb_false_r. reflexivity.
  - destruct (read_item f it) as [tm|] eqn:E; [|discriminate].
    destruct (read_items f items) as [tms'|] eqn:E'; [|discriminate].
    intros H. injection H as <-. specialize (IH tms' eq_refl).
    pose proof (item_denotes f r it tm Hfr E) as Hit. cbn [forallb get_field_loop].
    destruct (term_valid f tm).
    + destruct Hit as (b & Hb & Hd). cbn [andb].
      destruct (forallb (term_valid f) tms').
      * intros acc q0 st0 Ha. rewrite Hb. cbn [bind].
        destruct (IH (N.lor acc b) _ _ (bits_denote_lor _ _ _ _ _ _ Ha Hd)) as (bits & Hg & Hbd).
        exists bits. split; [exact Hg|].
        destruct Hbd as (K1 & K2 & K3). split; [exact K1|]. split.
        -- intros x Hx. rewrite K2 by exact Hx. cbn [denote_field existsb].
           rewrite orb_assoc. reflexivity.
        -- rewrite K3. cbn [unrestricted existsb]. rewrite orb_assoc. reflexivity.
      * intros acc. rewrite Hb. cbn [bind]. apply IH.
    + cbn [andb]. intros acc. destruct Hit as (err & ->). cbn [bind]. eexists; reflexivity.
Qed.

(* a whole field of the documented grammar, read by getField *)
Theorem field_denotes f r s :
  fr_ok f r ->
  match doc_field f s with
  | Some (Some bits) => get_field s r = Ok bits
  | Some None => exists err, get_field s r = Err err
  | None => True
  end.
Proof.
  intros Hfr. unfold doc_field, read_field, get_field, fields_on.
  destruct (read_items f (split_on 44 s)) as [tms|] eqn:E; [|exact I].
  rewrite (read_items_nonempty f _ tms (fr_nok f r Hfr) E).
  pose proof (items_denote f r Hfr _ _ E) as H.
  destruct (forallb (term_valid f) tms).
  - destruct (H 0%N _ _ bits_denote_0) as (bits & Hg & Hbd). rewrite Hg. f_equal.
    apply (bits_denote_unique _ _ _ _ _ Hbd (doc_bits_denote (denote_field f tms) (unrestricted tms))).
    intros x Hx. reflexivity.
  - apply H.
Qed.

(* ------------------------------------------------------------------------------------ *)
(* F2. items the documentation refuses by name are refused by getRange                   *)

Lemma atoi_unsigned c r : c <> 43%N -> c <> 45%N ->
  atoi (c :: r) =
  match digits_val 0 (c :: r) with
  | None => None
  | Some n => if (- 2 ^ 63 <=? n) && (n <=? 2 ^ 63 - 1) then Some n else None
  end.
Proof.
  unfold atoi. destruct c as [|p]; [reflexivity|].
  do 7 (try (destruct p as [p|p|]; try reflexivity)).
  all: intros H1 H2; try reflexivity; congruence.
Qed.

Lemma digits_val_none s : forall acc, forallb is_digit s = false -> digits_val acc s = None.
Proof.
  induction s as [|c s IH]; intros acc; cbn [forallb digits_val]; [discriminate|].
  destruct (is_digit c); [apply IH | reflexivity].
Qed.

Lemma is_alnum_facts c : is_alnum c = true -> (c <? 128)%N = true /\ c <> 43%N /\ c <> 45%N.
Proof. unfold is_alnum, is_digit. intros H. repeat split; lia. Qed.

Lemma word_facts s : word s = true ->
  ascii s = true /\ is_star_or_q s = false /\ exists c r, s = c :: r /\ c <> 43%N /\ c <> 45%N.
Proof.
  unfold word. intros H. apply andb_true_iff in H as [Hne Hall]. split; [|split].
  - unfold ascii. rewrite forallb_forall in *. intros c Hc. apply is_alnum_facts. apply Hall. exact Hc.
  - destruct (is_star_or_q s) eqn:E; [|reflexivity].
    destruct (is_star_or_q_cases s E) as [-> | ->]; vm_compute in Hall; discriminate.
  - destruct s as [|c r]; [discriminate|]. exists c, r. split; [reflexivity|].
    cbn [forallb] in Hall. apply andb_true_iff in Hall as [Hc _].
    destruct (is_alnum_facts c Hc) as (_ & H1 & H2). tauto.
Qed.

Lemma not_number_parse s : word s = true -> not_number s = true ->
  must_parse_int s = Err EParseInt.
Proof.
  intros Hw Hn. destruct (word_facts s Hw) as (_ & _ & c & r & -> & H1 & H2).
  unfold must_parse_int. rewrite (atoi_unsigned c r H1 H2).
  unfold not_number in Hn. apply negb_true_iff in Hn. rewrite (digits_val_none _ 0 Hn). reflexivity.
Qed.

Lemma bad_value_parse f s : word s = true -> bad_value f s = true ->
  parse_int_or_name s (f_names f) = Err EParseInt.
Proof.
  intros Hw Hb. unfold bad_value in Hb. apply andb_true_iff in Hb as [Hn Ha].
  destruct (word_facts s Hw) as (Hasc & _ & _).
  unfold parse_int_or_name. rewrite (lower_key_ascii s Hasc), <- spec_assoc_assoc.
  destruct (spec_assoc (List.map lower1 s) (f_names f)); [discriminate|].
  apply not_number_parse; assumption.
Qed.

Lemma pion_cases a names :
  (exists v, parse_int_or_name a names = Ok v) \/ (exists e, parse_int_or_name a names = Err e).
Proof.
  pose proof (parse_int_or_name_no_panic a names) as H.
  destruct (parse_int_or_name a names) as [v|e|]; [left | right | contradiction]; eexists; reflexivity.
Qed.

Ltac err_now := eexists; reflexivity.

(* an empty or over-long operand is read by nobody *)
Lemma unparsable_facts names s : names_okb names = true -> unparsable s = true ->
  parse_int_or_name s names = Err EParseInt /\ must_parse_int s = Err EParseInt /\
  is_star_or_q s = false.
Proof.
  intros Hok Hu. unfold unparsable in Hu. apply orb_true_iff in Hu as [Hu | Hu].
  - destruct s as [|c s']; [|discriminate]. unfold parse_int_or_name. cbn [lower_key].
    assert (Hn : assoc [] names = None).
    { unfold names_okb in Hok. apply andb_true_iff in Hok as [_ Hok].
      destruct (assoc [] names); [discriminate | reflexivity]. }
    rewrite Hn. repeat split; reflexivity.
  - unfold huge in Hu. apply andb_true_iff in Hu as [Hu Hbig]. apply andb_true_iff in Hu as [Hne Hd].
    destruct (digits_val 0 s) as [n|] eqn:En; [|discriminate].
    destruct s as [|c s']; [discriminate|].
    assert (Hc : is_digit c = true) by (cbn [forallb] in Hd; apply andb_true_iff in Hd; tauto).
    assert (Hc2 : c <> 43%N /\ c <> 45%N) by (unfold is_digit in Hc; lia).
    assert (Hm : must_parse_int (c :: s') = Err EParseInt).
    { unfold must_parse_int. rewrite (atoi_unsigned c s' (proj1 Hc2) (proj2 Hc2)), En.
      replace ((- 2 ^ 63 <=? n) && (n <=? 2 ^ 63 - 1)) with false by lia. reflexivity. }
    destruct (digits_ascii _ Hd) as [Hasc Hmap].
    split; [|split; [exact Hm|]].
    + unfold parse_int_or_name. rewrite (lower_key_ascii _ Hasc), Hmap.
      rewrite (names_ok_digits names _ Hok Hd). exact Hm.
    + destruct (is_star_or_q (c :: s')) eqn:Es; [|reflexivity].
      destruct (is_star_or_q_cases _ Es) as [E | E]; injection E as -> _; discriminate.
Qed.

Theorem refused_shape_rejected f r e :
  fr_ok f r -> refused_shape e = true -> exists err, get_range e r = Err err.
Proof.
  intros [Hlo Hhi Hnm Hlo0 Hle Hhi62 Hnok]. pose proof (get_range_no_panic e r) as NP.
  unfold refused_shape. intros H. apply andb_true_iff in H as [_ H]. revert H NP.
  unfold get_range.
  destruct (split_on 47 e) as [|rg rest]; [discriminate|]. cbn [hd].
  destruct (split_on 45 rg) as [|a more]; [discriminate|]. cbn [hd].
  intros H NP. apply orb_true_iff in H as [H | H]; [apply orb_true_iff in H as [H | H]|].
  - (* the first operand *)
    destruct (unparsable_facts _ a Hnok H) as (P & _ & S). rewrite S, <- Hnm, P. cbn [bind]. err_now.
  - (* the second operand *)
    apply andb_true_iff in H as [S H]. apply negb_true_iff in S.
    destruct more as [|b [|c l]]; try discriminate.
    destruct (unparsable_facts _ b Hnok H) as (P & _ & _). rewrite S, <- Hnm.
    destruct (pion_cases a (f_names f)) as [[v ->] | [er ->]]; cbn [bind]; [|err_now].
    rewrite P. cbn [bind]. err_now.
  - (* the step *)
    destruct rest as [|st [|x l]]; try discriminate.
    destruct (unparsable_facts _ st Hnok H) as (_ & P & _).
    revert NP. match goal with |- bind ?s1 _ <> _ -> _ => destruct s1 as [[[start end_] extra]|er|] end;
      cbn [bind]; intros NP; [|err_now | congruence].
    rewrite P. cbn [bind]. err_now.
Qed.


Theorem refused_words_rejected f r e :
  fr_ok f r -> refused_words f e = true -> exists err, get_range e r = Err err.
Proof.
  intros [Hlo Hhi Hnm Hlo0 Hle Hhi62 Hnok]. unfold refused_words, get_range.
  destruct (split_on 47 e) as [|rg [|st [|x l]]]; try discriminate; cbn [hd].
  - destruct (split_on 45 rg) as [|a [|b [|y l]]]; try discriminate; cbn [hd].
    + intros H. apply andb_true_iff in H as [Wa Ba].
      destruct (word_facts a Wa) as (_ & -> & _). rewrite <- Hnm, (bad_value_parse f a Wa Ba).
      cbn [bind]. err_now.
    + intros H. apply andb_true_iff in H as [H Bab]. apply andb_true_iff in H as [Wa Wb].
      destruct (word_facts a Wa) as (_ & -> & _). rewrite <- Hnm.
      destruct (bad_value f a) eqn:Ba; [rewrite (bad_value_parse f a Wa Ba); cbn [bind]; err_now|].
      destruct (pion_cases a (f_names f)) as [[v ->] | [er ->]]; cbn [bind]; [|err_now].
      cbn [orb] in Bab. rewrite (bad_value_parse f b Wb Bab). cbn [bind]. err_now.
  - intros H. apply andb_true_iff in H as [Wst H].
    destruct (split_on 45 rg) as [|a [|b [|y l]]]; try discriminate; cbn [hd].
    + apply andb_true_iff in H as [Wa Bs]. destruct (word_facts a Wa) as (_ & -> & _).
      rewrite <- Hnm.
      destruct (bad_value f a) eqn:Ba; [rewrite (bad_value_parse f a Wa Ba); cbn [bind]; err_now|].
      destruct (pion_cases a (f_names f)) as [[v ->] | [er ->]]; cbn [bind]; [|err_now].
      cbn [orb] in Bs. rewrite (not_number_parse st Wst Bs). cbn [bind]. err_now.
    + apply andb_true_iff in H as [H Bs]. apply andb_true_iff in H as [Wa Wb].
      destruct (word_facts a Wa) as (_ & -> & _). rewrite <- Hnm.
      destruct (bad_value f a) eqn:Ba; [rewrite (bad_value_parse f a Wa Ba); cbn [bind]; err_now|].
      destruct (pion_cases a (f_names f)) as [[v ->] | [er ->]]; cbn [bind]; [|err_now].
      destruct (bad_value f b) eqn:Bb; [rewrite (bad_value_parse f b Wb Bb); cbn [bind]; err_now|].
      destruct (pion_cases b (f_names f)) as [[w ->] | [er ->]]; cbn [bind]; [|err_now].
      cbn [orb] in Bs. rewrite (not_number_parse st Wst Bs). cbn [bind]. err_now.
Qed.

Theorem refused_item_rejected f r e :
  fr_ok f r -> refused_item f e = true -> exists err, get_range e r = Err err.
Proof.
  intros Hfr H. unfold refused_item in H. apply orb_true_iff in H as [H | H];
    [apply (refused_words_rejected f r e Hfr H) | apply (refused_shape_rejected f r e Hfr H)].
Qed.

Lemma loop_err r e : (exists err, get_range e r = Err err) -> forall items, In e items ->
  forall acc, exists err, get_field_loop items r acc = Err err.
Proof.
  intros He. induction items as [|h items IH]; intros Hin acc; [contradiction|].
  cbn [get_field_loop]. pose proof (get_range_no_panic h r) as Hnp.
  destruct (get_range h r) as [b|er|] eqn:E; cbn [bind]; [|err_now | contradiction].
  destruct Hin as [-> | Hin]; [destruct He as (er & He); congruence|]. apply IH. exact Hin.
Qed.

Theorem refused_field_rejected f r s :
  fr_ok f r -> refused_field f s = true -> exists err, get_field s r = Err err.
Proof.
  intros Hfr H. unfold refused_field in H. apply existsb_exists in H as (e & Hin & He).
  unfold get_field, fields_on. apply (loop_err r e (refused_item_rejected f r e Hfr He)).
  apply filter_In. split; [exact Hin|].
  destruct e as [|c e']; [vm_compute in He; discriminate | reflexivity].
Qed.

(* ------------------------------------------------------------------------------------ *)
(* G. the whole spec                                                                     *)

Lemma fr_second : fr_ok fs_second seconds.
Proof. constructor; try reflexivity; cbn; lia. Qed.
Lemma fr_minute : fr_ok fs_minute minutes.
Proof. constructor; try reflexivity; cbn; lia. Qed.
Lemma fr_hour : fr_ok fs_hour hours.
Proof. constructor; try reflexivity; cbn; lia. Qed.
Lemma fr_dom : fr_ok fs_dom dom.
Proof. constructor; try reflexivity; cbn; lia. Qed.
Lemma fr_month : fr_ok fs_month months.
Proof. constructor; try reflexivity; cbn; lia. Qed.
Lemma fr_dow : fr_ok fs_dow dow.
Proof. constructor; try reflexivity; cbn; lia. Qed.

(* the part of Parser.Parse after the TZ prefix and the descriptor test *)
Definition fields_model (o : Z) (rest : list N) (loc : sched_loc) : result schedule perr :=
  bind (normalize_fields (go_fields rest) o) (fun fields =>
    match fields with
    | [f0; f1; f2; f3; f4; f5] =>
        bind (get_field f0 seconds) (fun second =>
        bind (get_field f1 minutes) (fun minute =>
        bind (get_field f2 hours) (fun hour =>
        bind (get_field f3 dom) (fun dayofmonth =>
        bind (get_field f4 months) (fun month =>
        bind (get_field f5 dow) (fun dayofweek =>
          Ok (SpecSched second minute hour dayofmonth month dayofweek loc)))))))
    | _ => Panic
    end).

Lemma parser_after_strip v o ll pd spec loc rest :
  spec <> [] -> strip_tz v ll spec = Ok (loc, rest) ->
  parser_parse v o ll pd spec =
  if prefixb (bs "@") rest
  then (if negb (has o o_descriptor) then Err EDescriptorsOff else parse_descriptor pd rest loc)
  else fields_model o rest loc.
Proof.
  intros Hne Hs. unfold parser_parse. destruct spec as [|c0 s0]; [congruence|].
  rewrite Hs. reflexivity.
Qed.

(* field lists *)
Lemma fields_denote o rest loc :
  match doc_fields_out o rest with
  | Some (ObsOk a b c d e f) => fields_model o rest loc = Ok (SpecSched a b c d e f loc)
  | Some ObsErr => exists err, fields_model o rest loc = Err err
  | Some _ => False
  | None => True
  end.
Proof.
  unfold doc_fields_out, fields_model.
  destruct (normalize_fields (go_fields rest) o) as [fields|er|] eqn:En; cbn [bind];
    [|eexists; reflexivity | exact I].
  destruct fields as [|f0 [|f1 [|f2 [|f3 [|f4 [|f5 [|f6 l]]]]]]]; try exact I.
  destruct (refused_field fs_second f0 || refused_field fs_minute f1 || refused_field fs_hour f2 ||
            refused_field fs_dom f3 || refused_field fs_month f4 || refused_field fs_dow f5) eqn:R.
  { (* some field holds an item the documentation refuses by name *)
    pose proof (get_field_no_panic f0 seconds) as N0. pose proof (get_field_no_panic f1 minutes) as N1.
    pose proof (get_field_no_panic f2 hours) as N2. pose proof (get_field_no_panic f3 dom) as N3.
    pose proof (get_field_no_panic f4 months) as N4. pose proof (get_field_no_panic f5 dow) as N5.
    assert (Hone : (exists er, get_field f0 seconds = Err er) \/ (exists er, get_field f1 minutes = Err er) \/
                   (exists er, get_field f2 hours = Err er) \/ (exists er, get_field f3 dom = Err er) \/
                   (exists er, get_field f4 months = Err er) \/ (exists er, get_field f5 dow = Err er)).
    { repeat (apply orb_true_iff in R as [R | R]).
      - left. apply (refused_field_rejected _ _ _ fr_second R).
      - right; left. apply (refused_field_rejected _ _ _ fr_minute R).
      - right; right; left. apply (refused_field_rejected _ _ _ fr_hour R).
      - right; right; right; left. apply (refused_field_rejected _ _ _ fr_dom R).
      - right; right; right; right; left. apply (refused_field_rejected _ _ _ fr_month R).
      - right; right; right; right; right. apply (refused_field_rejected _ _ _ fr_dow R). }
    destruct (get_field f0 seconds) as [x0|e0|]; cbn [bind]; [|err_now | contradiction].
    destruct (get_field f1 minutes) as [x1|e1|]; cbn [bind]; [|err_now | contradiction].
    destruct (get_field f2 hours) as [x2|e2|]; cbn [bind]; [|err_now | contradiction].
    destruct (get_field f3 dom) as [x3|e3|]; cbn [bind]; [|err_now | contradiction].
    destruct (get_field f4 months) as [x4|e4|]; cbn [bind]; [|err_now | contradiction].
    destruct (get_field f5 dow) as [x5|e5|]; cbn [bind]; [|err_now | contradiction].
    exfalso. destruct Hone as [[er H]|[[er H]|[[er H]|[[er H]|[[er H]|[er H]]]]]]; discriminate. }
  pose proof (field_denotes fs_second seconds f0 fr_second) as H0.
  pose proof (field_denotes fs_minute minutes f1 fr_minute) as H1.
  pose proof (field_denotes fs_hour hours f2 fr_hour) as H2.
  pose proof (field_denotes fs_dom dom f3 fr_dom) as H3.
  pose proof (field_denotes fs_month months f4 fr_month) as H4.
  pose proof (field_denotes fs_dow dow f5 fr_dow) as H5.
  destruct (doc_field fs_second f0) as [a|]; [|exact I].
  destruct (doc_field fs_minute f1) as [b|]; [|exact I].
  destruct (doc_field fs_hour f2) as [c|]; [|exact I].
  destruct (doc_field fs_dom f3) as [d|]; [|exact I].
  destruct (doc_field fs_month f4) as [e|]; [|exact I].
  destruct (doc_field fs_dow f5) as [f|]; [|exact I].
  destruct a as [a|]; [rewrite H0; cbn [bind] | destruct H0 as (err & ->); eexists; reflexivity].
  destruct b as [b|]; [rewrite H1; cbn [bind] | destruct H1 as (err & ->); destruct c, d, e, f; eexists; reflexivity].
  destruct c as [c|]; [rewrite H2; cbn [bind] | destruct H2 as (err & ->); destruct d, e, f; eexists; reflexivity].
  destruct d as [d|]; [rewrite H3; cbn [bind] | destruct H3 as (err & ->); destruct e, f; eexists; reflexivity].
  destruct e as [e|]; [rewrite H4; cbn [bind] | destruct H4 as (err & ->); destruct f; eexists; reflexivity].
  destruct f as [f|]; [rewrite H5; cbn [bind]; reflexivity | destruct H5 as (err & ->); eexists; reflexivity].
Qed.


Lemma doc_every_eq d : doc_every d = every d.
Proof.
  unfold doc_every, every, ns_per_s. destruct (d <? 1000000000) eqn:E; Z.div_mod_to_equations; lia.
Qed.

(* descriptors *)
Lemma descriptor_denote du pd d loc : pd (skipn 7 d) = du ->
  match doc_descriptor du d with
  | ObsOk a b c d' e f => parse_descriptor pd d loc = Ok (SpecSched a b c d' e f loc)
  | ObsEvery n => parse_descriptor pd d loc = Ok (EverySched n)
  | ObsErr => exists err, parse_descriptor pd d loc = Err err
  | ObsPanic => False
  end.
Proof.
  intros Hpd. unfold doc_descriptor, parse_descriptor, desc_is.
  destruct (eqb_listN d (bs "@yearly") || eqb_listN d (bs "@annually")); [vm_compute; reflexivity|].
  destruct (eqb_listN d (bs "@monthly")); [vm_compute; reflexivity|].
  destruct (eqb_listN d (bs "@weekly")); [vm_compute; reflexivity|].
  destruct (eqb_listN d (bs "@daily") || eqb_listN d (bs "@midnight")); [vm_compute; reflexivity|].
  destruct (eqb_listN d (bs "@hourly")); [vm_compute; reflexivity|].
  destruct (prefixb (bs "@every ") d); [|eexists; reflexivity].
  rewrite Hpd. destruct du as [ns|]; [rewrite doc_every_eq; reflexivity | eexists; reflexivity].
Qed.

(* the spec after the optional TZ prefix *)
Lemma body_denote v o ll pd du spec loc rest :
  spec <> [] -> strip_tz v ll spec = Ok (loc, rest) -> pd (skipn 7 rest) = du ->
  match parse_doc_body o du rest with
  | Some (ObsOk a b c d e f) => parser_parse v o ll pd spec = Ok (SpecSched a b c d e f loc)
  | Some (ObsEvery n) => parser_parse v o ll pd spec = Ok (EverySched n)
  | Some ObsErr => exists err, parser_parse v o ll pd spec = Err err
  | Some ObsPanic => False
  | None => True
  end.
Proof.
  intros Hne Hs Hpd. rewrite (parser_after_strip v o ll pd spec loc rest Hne Hs).
  unfold parse_doc_body. destruct (prefixb (bs "@") rest).
  - destruct (has o o_descriptor); cbn [negb]; [|eexists; reflexivity].
    apply (descriptor_denote du pd rest loc Hpd).
  - pose proof (fields_denote o rest loc) as H.
    destruct (doc_fields_out o rest) as [[a b' c d e f| n | |]|]; try exact H. contradiction.
Qed.

(* PARSE_DENOTES. Whenever the documented grammar has an opinion on a spec - field lists,
   descriptors, with or without a TZ=/CRON_TZ= prefix - the model of NewParser(o).Parse(spec)
   does exactly what it says. [zo], [du]: the answers of time.LoadLocation and
   time.ParseDuration (None = error). With a TZ prefix the statement is for the current tree
   (before the fix a prefix with no following field panicked). *)
Theorem parse_denotes v o zo du spec :
  v = Fixed \/ has_tz_prefix spec = false ->
  match parse_doc_out o zo du spec with
  | Some (ObsOk a b c d e f) =>
      exists loc, parse v o (fun _ => zo) (fun _ => du) spec = Ok (SpecSched a b c d e f loc)
  | Some (ObsEvery n) => parse v o (fun _ => zo) (fun _ => du) spec = Ok (EverySched n)
  | Some ObsErr => exists err, parse v o (fun _ => zo) (fun _ => du) spec = Err err
  | Some ObsPanic => False
  | None => True
  end.
Proof.
  intros Hv. unfold parse_doc_out, parse.
  destruct (new_parser_panics o); [exact I|].
  destruct spec as [|c0 s0]; [eexists; reflexivity|]. set (spec := c0 :: s0) in *.
  assert (Hne : spec <> []) by discriminate.
  assert (Hbody : forall loc rest, strip_tz v (fun _ => zo) spec = Ok (loc, rest) ->
            match parse_doc_body o du rest with
            | Some (ObsOk a b c d e f) =>
                exists loc, parser_parse v o (fun _ => zo) (fun _ => du) spec = Ok (SpecSched a b c d e f loc)
            | Some (ObsEvery n) => parser_parse v o (fun _ => zo) (fun _ => du) spec = Ok (EverySched n)
            | Some ObsErr => exists err, parser_parse v o (fun _ => zo) (fun _ => du) spec = Err err
            | Some ObsPanic => False
            | None => True
            end).
  { intros loc rest Hs.
    pose proof (body_denote v o (fun _ => zo) (fun _ => du) du spec loc rest Hne Hs eq_refl) as H.
    destruct (parse_doc_body o du rest) as [[a b c d e f| n | |]|]; try exact H.
    exists loc. exact H. }
  destruct (has_tz_prefix spec) eqn:Htz.
  - destruct Hv as [-> | Hv]; [|congruence].
    destruct (strip_tz Fixed (fun _ => zo) spec) as [[loc rest]|er|] eqn:Hs; [|idtac|exact I].
    + apply (Hbody loc rest eq_refl).
    + exists er. unfold parser_parse, spec. fold spec. rewrite Hs. reflexivity.
  - apply (Hbody LocLocal spec). apply strip_tz_none. exact Htz.
Qed.

(* the same, in the words of the correspondence check: the parse oracle of Check.v and the
   model never disagree (a verdict 2 of a parse case is a disagreement of the IMPLEMENTATION
   with both) *)
Corollary parse_doc_model_agree v o spec zo du obs0 obs :
  v = Fixed \/ has_tz_prefix spec = false ->
  parse_doc_out o zo du spec = Some obs ->
  parse_obs_eqb obs (parse_model_out (mkParseCase v o spec zo du obs0)) = true.
Proof.
  intros Hv H. pose proof (parse_denotes v o zo du spec Hv) as P.
  rewrite H in P. unfold parse_model_out. cbn [pc_variant pc_opts pc_zone pc_dur pc_spec].
  destruct obs as [a b c d e f| n | |]; try contradiction.
  - destruct P as (loc & ->). cbn [parse_obs_eqb]. rewrite !N.eqb_refl. reflexivity.
  - rewrite P. cbn [parse_obs_eqb]. apply Z.eqb_refl.
  - destruct P as (err & ->). reflexivity.
Qed.

(* non-vacuity: names in mixed case, a stepped star, '?', a list *)
Example parse_denotes_ex :
  exists a b c d e f,
    parse_doc_out 380 None None (bs "*/15 0-6,22 ? JAN-mar,Dec mon-FRI") = Some (ObsOk a b c d e f) /\
    star d = true /\ star f = false /\ tb e 12 = true /\ tb e 4 = false /\ tb b 45 = true.
Proof. vm_compute. repeat eexists. Qed.
Example parse_denotes_ex_invalid :
  parse_doc_out 380 None None (bs "* * * * 7") = Some ObsErr /\
  parse_doc_out 380 None None (bs "* 5-2 * * *") = Some ObsErr /\
  parse_doc_out 380 None None (bs "*/0 * * * *") = Some ObsErr /\
  parse_doc_out 380 None None (bs "0 0 * Mayhem *") = Some ObsErr /\
  parse_doc_out 380 None None (bs "+5 0 * jan-marble *") = Some ObsErr /\
  parse_doc_out 380 None None (bs "0 0 * * mon/x2") = Some ObsErr /\
  parse_doc_out 380 None None (bs "0 0 * * jan") = Some ObsErr /\
  parse_doc_out 380 None None (bs "-5 * * * *") = Some ObsErr /\
  parse_doc_out 380 None None (bs "/15 * * * *") = Some ObsErr /\
  parse_doc_out 380 None None (bs "5- * * * *") = Some ObsErr /\
  parse_doc_out 380 None None (bs "5/ * * * *") = Some ObsErr /\
  parse_doc_out 380 None None (bs "* * * * -FRI") = Some ObsErr /\
  parse_doc_out 380 None None (bs "18446744073709551621 * * * *") = Some ObsErr /\
  parse_doc_out 380 None None (bs "*/18446744073709551631 * * * *") = Some ObsErr /\
  parse_doc_out 380 None None (bs "1-9223372036854775808 * * * *") = Some ObsErr /\
  parse_doc_out 380 None None (bs "4294967301 * * * *") = Some ObsErr /\
  parse_doc_out 380 None None (bs "5 1,,2 * * *") = None /\
  parse_doc_out 380 None None (bs "0000000000000000000005 * * * *") =
    parse_doc_out 380 None None (bs "5 * * * *").
Proof. vm_compute. repeat split; reflexivity. Qed.

(* ------------------------------------------------------------------------------------ *)
(* H. TZ= / CRON_TZ= prefixes: the rest of the spec is parsed as if given alone, and the     *)
(*    schedule carries the loaded location                                               *)

Definition with_loc (loc : sched_loc) (r : result schedule perr) : result schedule perr :=
  match r with
  | Ok (SpecSched a b c d e f _) => Ok (SpecSched a b c d e f loc)
  | other => other
  end.

Lemma parse_descriptor_loc pd d loc :
  parse_descriptor pd d loc = with_loc loc (parse_descriptor pd d LocLocal).
Proof.
  unfold parse_descriptor.
  repeat match goal with |- context [if ?c then _ else _] => destruct c; try reflexivity end.
  destruct (pd (skipn 7 d)); reflexivity.
Qed.

Theorem parse_after_tz v o ll pd spec loc rest :
  new_parser_panics o = false -> spec <> [] ->
  strip_tz v ll spec = Ok (loc, rest) -> has_tz_prefix rest = false -> rest <> [] ->
  parse v o ll pd spec = with_loc loc (parse v o ll pd rest).
Proof.
  intros Hnp Hne Hs Htz Hne'. unfold parse. rewrite Hnp. unfold parser_parse.
  destruct spec as [|c0 s0]; [congruence|]. destruct rest as [|c1 s1]; [congruence|].
  rewrite Hs, (strip_tz_none v ll (c1 :: s1) Htz). cbn [bind].
  destruct (prefixb (bs "@") (c1 :: s1)).
  - destruct (negb (has o o_descriptor)); [reflexivity | apply parse_descriptor_loc].
  - destruct (normalize_fields (go_fields (c1 :: s1)) o) as [fields| |]; cbn [bind]; try reflexivity.
    destruct fields as [|f0 [|f1 [|f2 [|f3 [|f4 [|f5 [|f6 l]]]]]]]; try reflexivity.
    repeat match goal with
           | |- context [bind (get_field ?x ?y) _] =>
               destruct (get_field x y); cbn [bind with_loc]; try reflexivity
           end.
Qed.

(* descriptors: whole spec only; words after a descriptor, a second duration word, an unknown
   zone and a prefix without fields are refused *)
Example parse_denotes_descriptors :
  (exists a b c d e f, parse_doc_out 380 None None (bs "@monthly") = Some (ObsOk a b c d e f)) /\
  parse_doc_out 380 None (Some 5400000000000) (bs "@every 1h30m") = Some (ObsEvery 5400000000000) /\
  parse_doc_out 380 None None (bs "@every 1h 30m") = Some ObsErr /\
  parse_doc_out 380 None None (bs "@daily 5 * * * *") = Some ObsErr /\
  parse_doc_out 380 None None (bs "@yearly @monthly") = Some ObsErr /\
  parse_doc_out 380 (Some (fixed_zone 0)) None (bs "TZ=UTC @monthly 15") = Some ObsErr /\
  (exists a b c d e f,
     parse_doc_out 380 (Some (fixed_zone 0)) None (bs "TZ=UTC @monthly") = Some (ObsOk a b c d e f)) /\
  parse_doc_out 380 None None (bs "TZ=Nowhere * * * * *") = Some ObsErr /\
  parse_doc_out 380 (Some (fixed_zone 0)) None (bs "TZ=UTC") = Some ObsErr /\
  parse_doc_out 124 None None (bs "@daily") = Some ObsErr /\
  parse_doc_out 380 None None (bs "* * * *") = Some ObsErr.
Proof. vm_compute. repeat split; try reflexivity; repeat eexists. Qed.
