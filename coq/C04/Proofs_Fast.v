(* C04 / Proofs_Fast.v — oracle soundness: the executable reference [next_ref_fast] (what
   Check.v evaluates on every observation) equals the specification's reference [next_ref]
   for every zone table that is sorted and has offsets of at most a day ([zone_ok]). *)
From Kit.Lib Require Import Base.
From Kit.C04 Require Import Cal Zone Str Parse Next Spec Bridge Proofs_Local.
From Coq Require Import ZArith NArith Lia Bool List ZifyBool.
Import ListNotations.
Open Scope Z_scope.

(* [r] is the least x in [lo, hi) with P x, or None if there is none *)
Definition least_spec (P : Z -> bool) (lo hi : Z) (r : option Z) : Prop :=
  match r with
  | Some x => lo <= x < hi /\ P x = true /\ forall y, lo <= y < x -> P y = false
  | None => forall y, lo <= y < hi -> P y = false
  end.

Lemma least_spec_ext P P' lo hi r :
  (forall x, P x = P' x) -> least_spec P lo hi r -> least_spec P' lo hi r.
Proof.
  intros E. destruct r as [x|]; cbn.
  - intros (H1 & H2 & H3). rewrite <- E. split; [exact H1|]. split; [exact H2|].
    intros y Hy. rewrite <- E. apply H3. exact Hy.
  - intros H y Hy. rewrite <- E. apply H. exact Hy.
Qed.

(* ------------------------------------------------------------------------------------ *)
(* find_cells                                                                            *)

Section FindCells.
  Variable unit : Z.
  Hypothesis Hunit : 0 < unit.
  Variable cell_ok : Z -> bool.
  Variable Q : Z -> bool.
  Variable inner : Z -> Z -> option Z.
  Hypothesis Hinner : forall a b, a < b -> least_spec Q a b (inner a b).

  Definition PQ (x : Z) : bool := cell_ok (x / unit) && Q x.

  Lemma in_cell c y : c * unit <= y < (c + 1) * unit -> y / unit = c.
  Proof. intros H. symmetry. apply (Z.div_unique_pos y unit c (y - c * unit)); lia. Qed.

  Lemma cell_of y : (y / unit) * unit <= y < (y / unit + 1) * unit.
  Proof.
    pose proof (Z.div_mod y unit ltac:(lia)) as E.
    pose proof (Z.mod_pos_bound y unit Hunit) as B. lia.
  Qed.

  Lemma scan_cells_spec lo hi n : forall c,
    lo < hi -> lo / unit <= c -> c + Z.of_nat n = (hi - 1) / unit + 1 ->
    (forall y, lo <= y < hi -> y < c * unit -> PQ y = false) ->
    least_spec PQ lo hi
      (scan_cells n c
         (fun c => if cell_ok c then inner (Z.max lo (c * unit)) (Z.min hi ((c + 1) * unit))
                   else None)).
  Proof.
    induction n as [|n IH]; intros c Hlh Hc Hn Hbelow.
    - cbn [scan_cells least_spec]. intros y Hy. apply Hbelow; [exact Hy|].
      pose proof (cell_of (hi - 1)) as Hcell. replace c with ((hi - 1) / unit + 1) by lia. lia.
    - cbn [scan_cells].
      assert (Hc1 : c <= (hi - 1) / unit) by lia.
      pose proof (cell_of (hi - 1)) as Hh. pose proof (cell_of lo) as Hl.
      assert (Hlt : Z.max lo (c * unit) < Z.min hi ((c + 1) * unit)) by nia.
      assert (Hnext : forall y, lo <= y < hi -> y < (c + 1) * unit ->
                (forall y', Z.max lo (c * unit) <= y' < Z.min hi ((c + 1) * unit) -> PQ y' = false) ->
                PQ y = false).
      { intros y Hy Hyc Hcellf. destruct (Z_lt_le_dec y (c * unit)) as [Hb | Hb];
          [apply Hbelow; assumption | apply Hcellf; lia]. }
      destruct (cell_ok c) eqn:Eok.
      + pose proof (Hinner _ _ Hlt) as Hi.
        destruct (inner (Z.max lo (c * unit)) (Z.min hi ((c + 1) * unit))) as [x|].
        * cbn [least_spec] in *. destruct Hi as (Hx & HQ & Hmin).
          assert (Hxc : x / unit = c) by (apply in_cell; lia).
          split; [lia|]. split; [unfold PQ; rewrite Hxc, Eok, HQ; reflexivity|].
          intros y Hy. destruct (Z_lt_le_dec y (c * unit)) as [Hb | Hb];
            [apply Hbelow; lia|]. unfold PQ. rewrite Hmin by lia. apply andb_false_r.
        * cbn [least_spec] in Hi. apply IH; try lia.
          intros y Hy Hyc. apply Hnext; [exact Hy | lia |].
          intros y' Hy'. unfold PQ. rewrite Hi by lia. apply andb_false_r.
      + apply IH; try lia.
        intros y Hy Hyc. apply Hnext; [exact Hy | lia |].
        intros y' Hy'. unfold PQ. rewrite (in_cell c y') by lia. rewrite Eok. reflexivity.
  Qed.

  Lemma find_cells_spec lo hi :
    least_spec PQ lo hi (find_cells unit cell_ok inner lo hi).
  Proof.
    unfold find_cells. destruct (hi <=? lo) eqn:E.
    - cbn [least_spec]. intros y Hy. lia.
    - apply scan_cells_spec; try lia.
      + pose proof (cell_of (hi - 1)). pose proof (cell_of lo).
        assert (lo / unit <= (hi - 1) / unit) by (apply Z.div_le_mono; lia).
        rewrite Z2Nat.id by lia. lia.
      + intros y Hy Hyc. pose proof (cell_of lo). lia.
  Qed.
End FindCells.

(* ------------------------------------------------------------------------------------ *)
(* first_local                                                                           *)

Section FirstLocal.
  Variable d : dsched.

  Definition p_sec (x : Z) : bool := d_sec d (x mod 60).
  Definition p_min (x : Z) : bool := d_min d ((x / 60) mod 60) && p_sec x.
  Definition p_hour (x : Z) : bool := d_hour d ((x / 3600) mod 24) && p_min x.
  Definition p_day (x : Z) : bool := day_cell_ok d (x / 86400) && p_hour x.

  Lemma find_second_spec lo hi : least_spec p_sec lo hi (find_second d lo hi).
  Proof.
    unfold find_second.
    apply (least_spec_ext (PQ 1 (fun c => d_sec d (c mod 60)) (fun _ => true))).
    - intros x. unfold PQ, p_sec. rewrite Z.div_1_r. apply andb_true_r.
    - apply find_cells_spec; [lia|]. intros a b Hab. cbn [least_spec].
      split; [lia|]. split; [reflexivity|]. intros y Hy. lia.
  Qed.

  Lemma find_minute_spec lo hi : least_spec p_min lo hi (find_minute d lo hi).
  Proof.
    unfold find_minute.
    apply (least_spec_ext (PQ 60 (fun c => d_min d (c mod 60)) p_sec)).
    - intros x. reflexivity.
    - apply find_cells_spec; [lia|]. intros a b _. apply find_second_spec.
  Qed.

  Lemma find_hour_spec lo hi : least_spec p_hour lo hi (find_hour d lo hi).
  Proof.
    unfold find_hour.
    apply (least_spec_ext (PQ 3600 (fun c => d_hour d (c mod 24)) p_min)).
    - intros x. reflexivity.
    - apply find_cells_spec; [lia|]. intros a b _. apply find_minute_spec.
  Qed.

  Lemma p_day_local x : p_day x = local_match d x.
  Proof.
    unfold p_day, p_hour, p_min, p_sec, local_match, matches_wall, day_cell_ok.
    rewrite wall_of_local_eq. rewrite (civil_eta (x / 86400)).
    cbn [w_sec w_min w_hour w_month w_day w_wday].
    destruct (d_sec d (x mod 60)), (d_min d ((x / 60) mod 60)), (d_hour d ((x / 3600) mod 24)),
      (d_month d (cm (x / 86400))), (day_rule d (cd (x / 86400)) (weekday (x / 86400)));
      reflexivity.
  Qed.

  Lemma first_local_spec lo hi : least_spec (local_match d) lo hi (first_local d lo hi).
  Proof.
    unfold first_local.
    apply (least_spec_ext (PQ 86400 (day_cell_ok d) p_hour)).
    - intros x. apply p_day_local.
    - apply find_cells_spec; [lia|]. intros a b _. apply find_hour_spec.
  Qed.
End FirstLocal.

(* ------------------------------------------------------------------------------------ *)
(* the offset in force, as a plain scan of the table                                     *)

Fixpoint off_at (off : Z) (tr : list (Z * Z)) (u : Z) : Z :=
  match tr with
  | [] => off
  | (w, o) :: rest => if u <? w then off else off_at o rest u
  end.

Lemma lookup_from_off tr : forall off s u, fst (fst (lookup_from off s tr u)) = off_at off tr u.
Proof.
  induction tr as [|[w o] rest IH]; intros off s u; cbn [lookup_from off_at]; [reflexivity|].
  destruct (u <? w); [reflexivity | apply IH].
Qed.

Lemma offset_at_off z u : offset_at z u = off_at (z_init z) (z_trans z) u.
Proof. unfold offset_at, lookup. apply lookup_from_off. Qed.

Definition offs_small (off : Z) (tr : list (Z * Z)) : Prop :=
  Z.abs off <= 86400 /\ Forall (fun p => Z.abs (snd p) <= 86400) tr.

Lemma off_at_small tr : forall off u, offs_small off tr -> Z.abs (off_at off tr u) <= 86400.
Proof.
  induction tr as [|[w o] rest IH]; intros off u [H1 H2]; cbn [off_at]; [exact H1|].
  destruct (u <? w); [exact H1|]. apply IH. inversion H2; subst. split; assumption.
Qed.

Lemma zone_offsets_small_spec z :
  zone_offsets_small z = true -> offs_small (z_init z) (z_trans z).
Proof.
  unfold zone_offsets_small, offs_small. intros H. apply andb_true_iff in H as [H1 H2].
  split; [lia|]. rewrite forallb_forall in H2. apply Forall_forall. intros p Hp.
  specialize (H2 p Hp). lia.
Qed.

(* ------------------------------------------------------------------------------------ *)
(* fast_scan: first instant from lo on that matches or leaves the window                 *)

Section FastScan.
  Variable d : dsched.
  Variable W : Z.        (* first local second after the window *)

  (* the predicate the naive scan of [next_ref] tests, on the remaining table *)
  Definition pz (off : Z) (tr : list (Z * Z)) (x : Z) : bool :=
    local_match d (x + off_at off tr x) || (W <=? x + off_at off tr x).

  Definition scan_result (off : Z) (tr : list (Z * Z)) (lo : Z) (r : option Z) : Prop :=
    match r with
    | Some u => lo <= u /\ local_match d (u + off_at off tr u) = true /\
                u + off_at off tr u < W /\ (forall x, lo <= x < u -> pz off tr x = false)
    | None => exists u, lo <= u <= Z.max lo (W + 86400) /\ W <= u + off_at off tr u /\
                (forall x, lo <= x < u -> pz off tr x = false)
    end.

  Lemma fast_scan_spec tr : forall off lo,
    offs_small off tr -> scan_result off tr lo (fast_scan d W off tr lo).
  Proof.
    induction tr as [|[w o] rest IH]; intros off lo Hsm.
    - (* last period, unbounded *)
      cbn [fast_scan]. unfold piece. destruct Hsm as [Hoff _].
      destruct (W <=? lo + off) eqn:E1.
      + cbn [scan_result]. exists lo. cbn [off_at]. split; [lia|]. split; [lia|]. intros x Hx. lia.
      + pose proof (first_local_spec d (lo + off) W) as Hf.
        destruct (first_local d (lo + off) W) as [L|]; cbn [least_spec scan_result off_at] in *.
        * destruct Hf as (Hr & Hm & Hl). replace (L - off + off) with L by lia.
          split; [lia|]. split; [exact Hm|]. split; [lia|].
          intros x Hx. unfold pz. cbn [off_at]. rewrite Hl by lia. cbn [orb]. lia.
        * exists (W - off). split; [lia|]. split; [lia|].
          intros x Hx. unfold pz. cbn [off_at]. rewrite Hf by lia. cbn [orb]. lia.
    - cbn [fast_scan].
      assert (Hsm' : offs_small o rest).
      { destruct Hsm as [_ H2]. inversion H2; subst. split; assumption. }
      destruct Hsm as [Hoff _].
      destruct (w <=? lo) eqn:Ew.
      + (* the transition is already behind lo *)
        specialize (IH o lo Hsm').
        assert (Hsame : forall x, lo <= x -> off_at off ((w, o) :: rest) x = off_at o rest x).
        { intros x Hx. cbn [off_at]. replace (x <? w) with false by lia. reflexivity. }
        destruct (fast_scan d W o rest lo) as [u|]; cbn [scan_result] in *.
        * destruct IH as (H1 & H2 & H3 & H4). rewrite (Hsame u H1).
          split; [exact H1|]. split; [exact H2|]. split; [exact H3|].
          intros x Hx. unfold pz. rewrite (Hsame x) by lia. apply H4. exact Hx.
        * destruct IH as (u & H1 & H2 & H3). exists u. rewrite (Hsame u) by lia.
          split; [exact H1|]. split; [exact H2|].
          intros x Hx. unfold pz. rewrite (Hsame x) by lia. apply H3. exact Hx.
      + (* the period [lo, w) with offset off *)
        assert (Hin : forall x, x < w -> off_at off ((w, o) :: rest) x = off).
        { intros x Hx. cbn [off_at]. replace (x <? w) with true by lia. reflexivity. }
        assert (Hout : forall x, w <= x -> off_at off ((w, o) :: rest) x = off_at o rest x).
        { intros x Hx. cbn [off_at]. replace (x <? w) with false by lia. reflexivity. }
        unfold piece. destruct (W <=? lo + off) eqn:E1.
        * cbn [scan_result]. exists lo. rewrite (Hin lo) by lia.
          split; [lia|]. split; [lia|]. intros x Hx. lia.
        * pose proof (first_local_spec d (lo + off) (Z.min (w + off) W)) as Hf.
          destruct (first_local d (lo + off) (Z.min (w + off) W)) as [L|];
            cbn [least_spec] in Hf.
          -- destruct Hf as (Hr & Hm & Hl). cbn [scan_result].
             rewrite (Hin (L - off)) by lia. replace (L - off + off) with L by lia.
             split; [lia|]. split; [exact Hm|]. split; [lia|].
             intros x Hx. unfold pz. rewrite (Hin x) by lia. rewrite Hl by lia. cbn [orb]. lia.
          -- destruct (W <? w + off) eqn:E2.
             ++ cbn [scan_result]. exists (W - off). rewrite (Hin (W - off)) by lia.
                split; [lia|]. split; [lia|].
                intros x Hx. unfold pz. rewrite (Hin x) by lia. rewrite Hf by lia. cbn [orb]. lia.
             ++ (* nothing in this period: go on from w *)
                specialize (IH o w Hsm').
                assert (Hpre : forall x, lo <= x < w -> pz off ((w, o) :: rest) x = false).
                { intros x Hx. unfold pz. rewrite (Hin x) by lia. rewrite Hf by lia.
                  cbn [orb]. lia. }
                destruct (fast_scan d W o rest w) as [u|]; cbn [scan_result] in *.
                ** destruct IH as (H1 & H2 & H3 & H4). rewrite (Hout u H1).
                   split; [lia|]. split; [exact H2|]. split; [exact H3|].
                   intros x Hx. destruct (Z_lt_le_dec x w) as [Hb | Hb]; [apply Hpre; lia|].
                   unfold pz. rewrite (Hout x Hb). apply H4. lia.
                ** destruct IH as (u & H1 & H2 & H3). exists u. rewrite (Hout u) by lia.
                   split; [lia|]. split; [exact H2|].
                   intros x Hx. destruct (Z_lt_le_dec x w) as [Hb | Hb]; [apply Hpre; lia|].
                   unfold pz. rewrite (Hout x Hb). apply H3. lia.
  Qed.
End FastScan.

(* ------------------------------------------------------------------------------------ *)
(* the theorem                                                                           *)

Theorem next_ref_fast_correct d z t :
  zone_offsets_small z = true -> next_ref_fast d z t = next_ref d z t.
Proof.
  intros Hz. apply zone_offsets_small_spec in Hz.
  unfold next_ref_fast, next_ref.
  set (lim := year_limit z t). fold (wend lim). set (W := wend lim).
  set (g := off_at (z_init z) (z_trans z)).
  set (p := fun u => matches d z u || (lim <? w_year (fields z u))).
  assert (Hg : forall x, Z.abs (g x) <= 86400) by (intros x; apply off_at_small; exact Hz).
  assert (Hfields : forall x, fields z x = wall_of_local (x + g x)).
  { intros x. unfold fields. rewrite offset_at_off. reflexivity. }
  assert (Hyear : forall x, (lim <? w_year (fields z x)) = (W <=? x + g x)).
  { intros x. rewrite Hfields, w_year_local.
    destruct (lim <? cy ((x + g x) / 86400)) eqn:E1; destruct (W <=? x + g x) eqn:E2;
      try reflexivity; exfalso.
    - assert (W <= x + g x) by (apply year_gt_iff; lia). lia.
    - assert (lim < cy ((x + g x) / 86400)) by (apply year_gt_iff; lia). lia. }
  assert (Hp : forall x, p x = pz d W (z_init z) (z_trans z) x).
  { intros x. unfold p, pz. fold g. rewrite Hyear. unfold matches. rewrite Hfields. reflexivity. }
  (* the window is shorter than the cap of the naive scan *)
  assert (Hlim : lim = cy ((t + 1 + g (t + 1)) / 86400) + 5).
  { unfold lim, year_limit. rewrite Hfields, w_year_local. reflexivity. }
  pose proof (window_length (t + 1 + g (t + 1))) as [HltW HlenW].
  rewrite <- Hlim in HltW, HlenW. fold W in HltW, HlenW.
  pose proof (Hg (t + 1)) as Hg0.
  pose proof (fast_scan_spec d W (z_trans z) (z_init z) (t + 1) Hz) as H.
  change (2 ^ Z.of_nat scan_log) with 268435456 in *.
  destruct (fast_scan d W (z_init z) (z_trans z) (t + 1)) as [u|]; cbn [scan_result] in H.
  - destruct H as (H1 & H2 & H3 & H4). fold g in H2, H3. pose proof (Hg u) as Hgu.
    rewrite (least_in_unique p (t + 1) scan_log u).
    + rewrite Hyear. replace (W <=? u + g u) with false by lia. reflexivity.
    + change (2 ^ Z.of_nat scan_log) with 268435456. lia.
    + rewrite Hp. unfold pz. fold g. rewrite H2. reflexivity.
    + intros x Hx. rewrite Hp. apply H4. exact Hx.
  - destruct H as (u & H1 & H2 & H3). fold g in H2. pose proof (Hg u) as Hgu.
    rewrite (least_in_unique p (t + 1) scan_log u).
    + rewrite Hyear. replace (W <=? u + g u) with true by lia. reflexivity.
    + change (2 ^ Z.of_nat scan_log) with 268435456. lia.
    + rewrite Hp. unfold pz. fold g. replace (W <=? u + g u) with true by lia. apply orb_true_r.
    + intros x Hx. rewrite Hp. apply H3. exact Hx.
Qed.

(* the oracle of Check.v, stated on a case: it accepts an observation exactly when the
   observation is the specification's reference value *)
Corollary next_oracle_sound_zone d z t obs :
  zone_ok z = true ->
  (match obs, next_ref_fast d z t with
   | Some a, Some b => a =? b | None, None => true | _, _ => false end) = true <->
  obs = next_ref d z t.
Proof.
  intros Hz. unfold zone_ok in Hz. apply andb_true_iff in Hz as [_ Hz].
  rewrite (next_ref_fast_correct d z t Hz).
  destruct obs as [a|], (next_ref d z t) as [b|]; split; intros H;
    try discriminate; try reflexivity.
  - f_equal. lia.
  - injection H as ->. lia.
Qed.
