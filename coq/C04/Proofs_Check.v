(* C04 / Proofs_Check.v — the shortcuts Check.v takes when it runs the model are sound:
   a result reached with the reduced fuel is next_model's result; a model found stuck
   never returns. *)
From Kit.Lib Require Import Base.
From Kit.C04 Require Import Cal Zone Str Parse Next Spec Bridge Check Proofs_Ref.
From Coq Require Import ZArith NArith Lia Bool List.
Import ListNotations.
Open Scope Z_scope.

Lemma iter_mono b z lim s r n :
  iter_pow2 b z lim n s = inr r -> forall m, (n <= m)%nat -> iter_pow2 b z lim m s = inr r.
Proof.
  intros H m Hm. induction Hm as [|m Hm IH]; [exact H|]. cbn [iter_pow2]. rewrite IH. reflexivity.
Qed.

Theorem next_model_fuel_result n b z t r :
  (n <= next_fuel)%nat -> next_model_fuel n b z t = r -> r <> OutOfFuel ->
  next_model b z t = r.
Proof.
  unfold next_model_fuel, next_model. intros Hn H Hr.
  destruct (iter_pow2 b z _ n _) as [s|r'] eqn:E; [congruence|].
  rewrite (iter_mono _ _ _ _ _ _ E next_fuel Hn). exact H.
Qed.

Lemma st_eqb_eq a b : st_eqb a b = true -> a = b.
Proof.
  destruct a as [pa ta aa], b as [pb tb ab]. unfold st_eqb. cbn [s_pc s_t s_added].
  intros H. apply andb_true_iff in H as [H H3]. apply andb_true_iff in H as [H1 H2].
  apply Z.eqb_eq in H2. apply Bool.eqb_prop in H3. subst.
  destruct pa, pb; try discriminate; reflexivity.
Qed.

(* a call the model finds stuck never returns in the model *)
Theorem model_stuck_sound b z t : model_stuck b z t = true -> next_model b z t = OutOfFuel.
Proof.
  unfold model_stuck, next_model. set (lim := w_year (fields z (t + 1)) + 5).
  destruct (iter_pow2 b z lim stuck_fuel _) as [s|r] eqn:E; [|discriminate].
  destruct (step b z lim s) as [s'|r] eqn:Es; [|discriminate].
  intros H. apply st_eqb_eq in H. subst s'.
  rewrite (iter_reach_stuck b z lim _ s stuck_fuel E Es next_fuel); [reflexivity|].
  unfold stuck_fuel, next_fuel. lia.
Qed.

(* non-vacuity: the Pacific/Apia witness is found stuck *)
Example model_stuck_ex : model_stuck bits_0_0_31_12 apia 1325239140 = true.
Proof. vm_compute. reflexivity. Qed.
