(* C04 / Proofs_Next.v — SpecSchedule.Next on fixed-offset zones (offset a whole number of
   minutes): the model terminates within its fuel, and returns exactly the least matching
   second after t inside the five-year window (or the zero time if there is none).

   Plan (DESIGN.md, C04): work in local seconds L = unix + off. Invariant of the step
   machine: no match in [L0, L); if [added] then every unmatched level of L is aligned
   (Q); the levels above the current loop match at L. *)
From Kit.Lib Require Import Base.
From Kit.C04 Require Import Cal Zone Str Parse Next Spec Bridge Proofs_Local.
From Coq Require Import ZArith NArith Lia Bool List ZifyBool.
Import ListNotations.
Open Scope Z_scope.

Ltac inv_split := split; [|split; [|split; [|split]]].

Section FixedOffset.
  Variable b : bits6.
  Variable off : Z.
  Hypothesis Hoff : off mod 60 = 0.

  Let z := fixed_zone off.

  (* the five tests of the loops, as functions of the local second / day number *)
  Definition ms_ (L : Z) : bool := bit_set (sb_sec b) (L mod 60).
  Definition mm_ (L : Z) : bool := bit_set (sb_min b) ((L / 60) mod 60).
  Definition mh_ (L : Z) : bool := bit_set (sb_hour b) ((L / 3600) mod 24).
  Definition mo_ (D : Z) : bool := bit_set (sb_month b) (cm D).
  Definition md_ (D : Z) : bool :=
    if star (sb_dom b) || star (sb_dow b)
    then bit_set (sb_dom b) (cd D) && bit_set (sb_dow b) (weekday D)
    else bit_set (sb_dom b) (cd D) || bit_set (sb_dow b) (weekday D).

  Definition M (L : Z) : bool :=
    ms_ L && mm_ L && mh_ L && mo_ (L / 86400) && md_ (L / 86400).

  Lemma M_local L : local_match (dsched_of_bits b) L = M L.
  Proof.
    unfold local_match, matches_wall, day_rule, M, ms_, mm_, mh_, mo_, md_.
    rewrite wall_of_local_eq. cbn [w_sec w_min w_hour w_month w_day w_wday dsched_of_bits
      d_sec d_min d_hour d_month d_dom d_dow d_dom_star d_dow_star]. reflexivity.
  Qed.

  Lemma day_matches_local L : day_matches b (wall_of_local L) = md_ (L / 86400).
  Proof. unfold day_matches, md_. rewrite w_day_local, w_wday_local. reflexivity. Qed.

  (* month / day tests only depend on coarser keys *)
  Lemma mo_same D D' : mkey D = mkey D' -> mo_ D = mo_ D'.
  Proof. intros H. unfold mo_. destruct (mkey_same D D' H) as [_ ->]. reflexivity. Qed.

  Lemma mh_same L L' : L / 3600 = L' / 3600 -> mh_ L = mh_ L'.
  Proof. intros H. unfold mh_. rewrite H. reflexivity. Qed.
  Lemma mm_same L L' : L / 60 = L' / 60 -> mm_ L = mm_ L'.
  Proof. intros H. unfold mm_. rewrite H. reflexivity. Qed.

  Lemma M_false_ms L : ms_ L = false -> M L = false.
  Proof. intros H. unfold M. rewrite H. reflexivity. Qed.
  Lemma M_false_mm L : mm_ L = false -> M L = false.
  Proof. intros H. unfold M. rewrite H. apply andb_false_iff. left. apply andb_false_iff. left.
         apply andb_false_iff. left. apply andb_false_r. Qed.
  Lemma M_false_mh L : mh_ L = false -> M L = false.
  Proof. intros H. unfold M. rewrite H. rewrite andb_false_r. reflexivity. Qed.
  Lemma M_false_mo L : mo_ (L / 86400) = false -> M L = false.
  Proof. intros H. unfold M. rewrite H. rewrite andb_false_r. reflexivity. Qed.
  Lemma M_false_md L : md_ (L / 86400) = false -> M L = false.
  Proof. intros H. unfold M. rewrite H. rewrite andb_false_r. reflexivity. Qed.

  (* ---------------------------------------------------------------------------------- *)
  (* AddDate on aligned instants                                                        *)

  Lemma fields_z t : fields z t = wall_of_local (t + off).
  Proof. apply fields_fixed. Qed.

  Lemma add_date_day L1 :
    L1 mod 86400 = 0 -> add_date z (L1 - off) 0 0 1 + off = L1 + 86400.
  Proof.
    intros Ha. unfold add_date. rewrite fields_z. replace (L1 - off + off) with L1 by lia.
    rewrite w_year_local, w_month_local, w_day_local, w_hour_local, w_min_local, w_sec_local.
    replace ((L1 / 3600) mod 24) with 0 by div_lia.
    replace ((L1 / 60) mod 60) with 0 by div_lia.
    replace (L1 mod 60) with 0 by div_lia.
    rewrite !Z.add_0_r. unfold z.
    rewrite go_date_fixed by (try apply cm_range; lia).
    pose proof (days_of_civil_day (cy (L1 / 86400)) (cm (L1 / 86400)) (cd (L1 / 86400) + 1)) as E1.
    pose proof (days_of_civil_day (cy (L1 / 86400)) (cm (L1 / 86400)) (cd (L1 / 86400))) as E2.
    rewrite days_of_civil_c in E2. rewrite E1. div_lia.
  Qed.

  Lemma add_date_month L1 :
    L1 mod 86400 = 0 -> cd (L1 / 86400) = 1 ->
    add_date z (L1 - off) 0 1 0 + off = month_start (mkey (L1 / 86400) + 1) * 86400.
  Proof.
    intros Ha Hd. unfold add_date. rewrite fields_z. replace (L1 - off + off) with L1 by lia.
    rewrite w_year_local, w_month_local, w_day_local, w_hour_local, w_min_local, w_sec_local.
    replace ((L1 / 3600) mod 24) with 0 by div_lia.
    replace ((L1 / 60) mod 60) with 0 by div_lia.
    replace (L1 mod 60) with 0 by div_lia.
    rewrite !Z.add_0_r, Hd. unfold z.
    rewrite go_date_fixed_next_month by apply cm_range.
    pose proof (month_succ (cy (L1 / 86400)) (cm (L1 / 86400)) (cm_range _)) as Hs.
    rewrite Hs. rewrite month_start_succ.
    pose proof (days_of_civil_index (cy (L1 / 86400)) (cm (L1 / 86400)) 1 (cm_range _)) as Hi.
    fold (mkey (L1 / 86400)) in Hi. rewrite Hi.
    rewrite <- (month_len_index (cy (L1 / 86400)) (cm (L1 / 86400)) (cm_range _)).
    fold (mkey (L1 / 86400)). lia.
  Qed.

  (* time.Date(y, m, 1, 0,0,0) and time.Date(y, m, d, 0,0,0), time.Date(y,m,d,h,0,0) of L *)
  Lemma go_date_month_start L :
    go_date z (cy (L / 86400)) (cm (L / 86400)) 1 0 0 0 + off =
    month_start (mkey (L / 86400)) * 86400.
  Proof.
    unfold z. rewrite go_date_fixed by (try apply cm_range; lia).
    rewrite (days_of_civil_index _ _ 1 (cm_range _)). fold (mkey (L / 86400)). lia.
  Qed.

  Lemma go_date_day_start L :
    go_date z (cy (L / 86400)) (cm (L / 86400)) (cd (L / 86400)) 0 0 0 + off = L / 86400 * 86400.
  Proof.
    unfold z. rewrite go_date_fixed by (try apply cm_range; lia).
    rewrite days_of_civil_c. lia.
  Qed.

  Lemma go_date_hour_start L :
    go_date z (cy (L / 86400)) (cm (L / 86400)) (cd (L / 86400)) ((L / 3600) mod 24) 0 0 + off =
    L / 3600 * 3600.
  Proof.
    unfold z. rewrite go_date_fixed by (try apply cm_range; div_lia).
    rewrite days_of_civil_c. div_lia.
  Qed.

  Lemma truncate_minute_local t : truncate_minute t + off = (t + off) / 60 * 60.
  Proof. unfold truncate_minute. div_lia. Qed.

  (* ---------------------------------------------------------------------------------- *)
  (* Invariant                                                                          *)

  Variable L0 : Z.       (* local second of the upcoming second t+1 *)
  Variable lim : Z.      (* yearLimit *)

  Let W := wend lim.

  Definition nomatch (hi : Z) : Prop := forall x, L0 <= x < hi -> M x = false.

  Definition Q (L : Z) : Prop :=
    (mm_ L = false -> L mod 60 = 0) /\
    (mh_ L = false -> L mod 3600 = 0) /\
    (md_ (L / 86400) = false -> L mod 86400 = 0) /\
    (mo_ (L / 86400) = false -> L mod 86400 = 0 /\ cd (L / 86400) = 1).

  Definition pcinv (p : pc) (L : Z) : Prop :=
    match p with
    | PWrap => True
    | PMonth => L < W
    | PDay => L < W /\ mo_ (L / 86400) = true
    | PHour => L < W /\ mo_ (L / 86400) = true /\ md_ (L / 86400) = true
    | PMinute => L < W /\ mo_ (L / 86400) = true /\ md_ (L / 86400) = true /\ mh_ L = true
    | PSecond => L < W /\ mo_ (L / 86400) = true /\ md_ (L / 86400) = true /\ mh_ L = true /\
                 mm_ L = true
    end.

  Definition Inv (s : st) : Prop :=
    let L := s_t s + off in
    L0 <= L <= W /\ nomatch L /\
    (s_added s = false -> L = L0) /\
    (s_added s = true -> Q L) /\
    pcinv (s_pc s) L.

  Definition rank (p : pc) : Z :=
    match p with PWrap => 5 | PMonth => 4 | PDay => 3 | PHour => 2 | PMinute => 1 | PSecond => 0 end.

  Definition mu (s : st) : Z := 6 * (W - (s_t s + off)) + rank (s_pc s).

  Definition Good (r : next_result) : Prop :=
    match r with
    | NextAt u => L0 <= u + off < W /\ M (u + off) = true /\ nomatch (u + off)
    | NextZero => nomatch W
    | OutOfFuel => False
    end.

  Definition step_ok (s : st) : Prop :=
    match step b z lim s with
    | inl s' => Inv s' /\ mu s' + 1 <= mu s
    | inr r => Good r
    end.

  Lemma W_aligned : exists X, W = X * 86400.
  Proof. unfold W, wend. eexists; reflexivity. Qed.

  (* assembling the invariant of a state reached by an increment *)
  Lemma mk_inv p' t' L' :
    t' + off = L' -> L0 <= L' <= W -> nomatch L' -> Q L' -> pcinv p' L' ->
    Inv (mkSt p' t' true).
  Proof.
    intros E Hr Hn Hq Hp. unfold Inv. cbn [s_pc s_t s_added]. rewrite E.
    inv_split; try assumption; [discriminate | intros _; exact Hq].
  Qed.

  Lemma mu_dec p t added p' t' :
    t + off < t' + off -> mu (mkSt p' t' true) + 1 <= mu (mkSt p t added).
  Proof. unfold mu. cbn [s_pc s_t]. destruct p, p'; cbn [rank]; lia. Qed.

  Lemma nomatch_extend L L1 L' (P : Z -> Prop) :
    nomatch L -> L1 <= L ->
    (forall x, L1 <= x < L' -> M x = false) -> nomatch L'.
  Proof.
    intros Hn H1 Hc x Hx. destruct (Z_lt_le_dec x L) as [Hlt | Hge]; [apply Hn; lia|].
    apply Hc. lia.
  Qed.

  (* day and month parts of Q after an increment that changes the day at most by one *)
  Lemma Q_daypart L L' :
    mo_ (L / 86400) = true -> md_ (L / 86400) = true ->
    (L' / 86400 <> L / 86400 -> L' mod 86400 = 0 /\ L' / 86400 = L / 86400 + 1) ->
    (md_ (L' / 86400) = false -> L' mod 86400 = 0) /\
    (mo_ (L' / 86400) = false -> L' mod 86400 = 0 /\ cd (L' / 86400) = 1).
  Proof.
    intros Hmo Hmd Hk. split; intros Hf.
    - assert (Hne : L' / 86400 <> L / 86400) by (intro Hc; rewrite Hc in Hf; congruence).
      apply Hk in Hne. tauto.
    - assert (Hne : L' / 86400 <> L / 86400) by (intro Hc; rewrite Hc in Hf; congruence).
      apply Hk in Hne as [Ha HD]. split; [exact Ha|].
      rewrite HD in *. destruct (next_day (L / 86400)) as [[Hkk _] | [_ Hd]]; [|exact Hd].
      apply mo_same in Hkk. congruence.
  Qed.

  (* --- WRAP ------------------------------------------------------------------------- *)
  Lemma step_wrap t added : Inv (mkSt PWrap t added) -> step_ok (mkSt PWrap t added).
  Proof.
    unfold Inv, step_ok, step. cbn [s_pc s_t s_added].
    intros (Hr & Hn & Ha & Hq & _). rewrite fields_z, w_year_local.
    set (L := t + off) in *.
    destruct (lim <? cy (L / 86400)) eqn:E.
    - cbn [Good]. assert (W <= L) by (apply year_gt_iff; lia).
      intros x Hx. apply Hn. lia.
    - assert (~ W <= L) by (intro Hc; apply year_gt_iff in Hc; lia).
      unfold Inv, mu. cbn [s_pc s_t s_added rank pcinv]. fold L.
      split; [inv_split|]; try assumption; try lia.
  Qed.

  (* --- second loop ------------------------------------------------------------------ *)
  Lemma step_second t added : Inv (mkSt PSecond t added) -> step_ok (mkSt PSecond t added).
  Proof.
    unfold Inv, step_ok, step. cbn [s_pc s_t s_added pcinv].
    intros (Hr & Hn & Ha & Hq & HW & Hmo & Hmd & Hmh & Hmm).
    rewrite fields_z, w_sec_local. set (L := t + off) in *. fold (ms_ L).
    destruct (ms_ L) eqn:Ems.
    - cbn [Good]. fold L. split; [lia|]. split; [|exact Hn].
      unfold M. rewrite Ems, Hmm, Hmh, Hmo, Hmd. reflexivity.
    - unfold truncate_second, add.
      replace (if added then t else t) with t by (destruct added; reflexivity).
      rewrite fields_z, w_sec_local. replace (t + 1 + off) with (L + 1) by (unfold L; lia).
      destruct W_aligned as [X HX].
      pose proof (arith_sec L) as (A60 & A3600 & AD & Asame).
      assert (Hn' : nomatch (L + 1)).
      { apply (nomatch_extend L L (L + 1) (fun _ => True)); [exact Hn | lia |].
        intros x Hx. replace x with L by lia. apply M_false_ms; exact Ems. }
      assert (HQ : Q (L + 1)).
      { unfold Q. split; [|split].
        - intros Hf. apply A60. intro Hc. apply mm_same in Hc. congruence.
        - intros Hf. apply A3600. intro Hc. apply mh_same in Hc. congruence.
        - apply (Q_daypart L (L + 1) Hmo Hmd AD). }
      assert (Ht : t + 1 + off = L + 1) by (unfold L; lia).
      assert (HrW : L0 <= L + 1 <= W) by lia.
      destruct ((L + 1) mod 60 =? 0) eqn:E0.
      + split; [apply (mk_inv PWrap (t + 1) (L + 1)); try assumption; exact I|].
        apply mu_dec. lia.
      + destruct Asame as (S60 & S3600 & SD); [lia|].
        split; [|apply mu_dec; lia].
        apply (mk_inv PSecond (t + 1) (L + 1)); try assumption.
        cbn [pcinv]. rewrite SD, (mh_same _ _ S3600), (mm_same _ _ S60).
        repeat split; try assumption.
        pose proof (below_aligned X L 1 (L + 1) ltac:(tauto) ltac:(lia) ltac:(clear; div_lia)) as [_ Hlt].
        apply Z.lt_le_trans with (m := W); [|lia]. rewrite HX. apply Hlt. div_lia.
  Qed.

  (* --- minute loop ------------------------------------------------------------------ *)
  Lemma step_minute t added : Inv (mkSt PMinute t added) -> step_ok (mkSt PMinute t added).
  Proof.
    unfold Inv, step_ok, step. cbn [s_pc s_t s_added pcinv].
    intros (Hr & Hn & Ha & Hq & HW & Hmo & Hmd & Hmh).
    rewrite fields_z, w_min_local. set (L := t + off) in *. fold (mm_ L).
    destruct (mm_ L) eqn:Emm.
    - unfold Inv, mu. cbn [s_pc s_t s_added rank pcinv]. fold L.
      split; [inv_split|]; try assumption; try lia; try tauto.
    - unfold add. rewrite fields_z, w_min_local.
      set (t1 := if added then t else truncate_minute t).
      pose proof (arith_min L) as (Acell & A60 & A3600 & AD & Asame & Ain). cbv zeta in *.
      set (L' := L / 60 * 60 + 60) in *.
      assert (Ht1 : t1 + off = L / 60 * 60).
      { unfold t1. destruct added.
        - destruct (Hq eq_refl) as (q1 & _). fold L. symmetry. apply aligned_div; [tauto|]. apply q1. exact Emm.
        - apply truncate_minute_local. }
      assert (Ht : t1 + 60 + off = L') by (unfold L'; lia).
      rewrite Ht.
      destruct W_aligned as [X HX].
      pose proof (below_aligned X L 60 L' ltac:(tauto) ltac:(lia) eq_refl) as [HleW HltW].
      assert (Hn' : nomatch L').
      { apply (nomatch_extend L (L / 60 * 60) L' (fun _ => True)); [exact Hn | lia |].
        intros x Hx. apply M_false_mm. rewrite (mm_same x L (Ain x Hx)). exact Emm. }
      assert (HQ : Q L').
      { unfold Q. split; [|split].
        - intros _. exact A60.
        - intros Hf. apply A3600. intro Hc. apply mh_same in Hc. congruence.
        - apply (Q_daypart L L' Hmo Hmd AD). }
      assert (HrW : L0 <= L' <= W) by lia.
      destruct ((L' / 60) mod 60 =? 0) eqn:E0.
      + split; [apply (mk_inv PWrap (t1 + 60) L'); try assumption; exact I|].
        apply mu_dec. fold L. lia.
      + destruct Asame as (S3600 & SD); [lia|].
        split; [|apply mu_dec; fold L; lia].
        apply (mk_inv PMinute (t1 + 60) L'); try assumption.
        cbn [pcinv]. rewrite SD, (mh_same _ _ S3600).
        repeat split; try assumption.
        apply Z.lt_le_trans with (m := W); [|lia]. rewrite HX. apply HltW. div_lia.
  Qed.

  (* --- hour loop -------------------------------------------------------------------- *)
  Lemma step_hour t added : Inv (mkSt PHour t added) -> step_ok (mkSt PHour t added).
  Proof.
    unfold Inv, step_ok, step. cbn [s_pc s_t s_added pcinv].
    intros (Hr & Hn & Ha & Hq & HW & Hmo & Hmd).
    rewrite fields_z, w_hour_local, w_year_local, w_month_local, w_day_local.
    set (L := t + off) in *. fold (mh_ L).
    destruct (mh_ L) eqn:Emh.
    - unfold Inv, mu. cbn [s_pc s_t s_added rank pcinv]. fold L.
      split; [inv_split|]; try assumption; try lia; try tauto.
    - unfold add. rewrite fields_z, w_hour_local.
      set (t1 := if added then t else go_date z _ _ _ _ 0 0).
      pose proof (arith_hour L) as (Acell & A60 & A3600 & AD & Asame & Ain). cbv zeta in *.
      set (L' := L / 3600 * 3600 + 3600) in *.
      assert (Ht1 : t1 + off = L / 3600 * 3600).
      { unfold t1. destruct added.
        - destruct (Hq eq_refl) as (_ & q2 & _). fold L. symmetry. apply aligned_div; [tauto|].
          apply q2. exact Emh.
        - apply go_date_hour_start. }
      assert (Ht : t1 + 3600 + off = L') by (unfold L'; lia).
      rewrite Ht.
      destruct W_aligned as [X HX].
      pose proof (below_aligned X L 3600 L' ltac:(tauto) ltac:(lia) eq_refl) as [HleW HltW].
      assert (Hn' : nomatch L').
      { apply (nomatch_extend L (L / 3600 * 3600) L' (fun _ => True)); [exact Hn | lia |].
        intros x Hx. apply M_false_mh. rewrite (mh_same x L (Ain x Hx)). exact Emh. }
      assert (HQ : Q L').
      { unfold Q. split; [|split].
        - intros _. exact A60.
        - intros _. exact A3600.
        - apply (Q_daypart L L' Hmo Hmd AD). }
      assert (HrW : L0 <= L' <= W) by lia.
      destruct ((L' / 3600) mod 24 =? 0) eqn:E0.
      + split; [apply (mk_inv PWrap (t1 + 3600) L'); try assumption; exact I|].
        apply mu_dec. fold L. lia.
      + assert (SD : L' / 86400 = L / 86400) by (apply Asame; lia).
        split; [|apply mu_dec; fold L; lia].
        apply (mk_inv PHour (t1 + 3600) L'); try assumption.
        cbn [pcinv]. rewrite SD.
        repeat split; try assumption.
        apply Z.lt_le_trans with (m := W); [|lia]. rewrite HX. apply HltW. div_lia.
  Qed.

  (* --- day loop --------------------------------------------------------------------- *)
  Lemma step_day t added : Inv (mkSt PDay t added) -> step_ok (mkSt PDay t added).
  Proof.
    unfold Inv, step_ok, step. cbn [s_pc s_t s_added pcinv].
    intros (Hr & Hn & Ha & Hq & HW & Hmo).
    rewrite fields_z, day_matches_local, w_year_local, w_month_local, w_day_local.
    set (L := t + off) in *.
    destruct (md_ (L / 86400)) eqn:Emd.
    - unfold Inv, mu. cbn [s_pc s_t s_added rank pcinv]. fold L.
      split; [inv_split|]; try assumption; try lia; try tauto.
    - cbv zeta. set (t1 := if added then t else go_date z _ _ _ 0 0 0).
      pose proof (arith_day L) as (Acell & A60 & A3600 & A86400 & AD & Ah & Ain). cbv zeta in *.
      set (L' := L / 86400 * 86400 + 86400) in *.
      assert (Ht1 : t1 + off = L / 86400 * 86400).
      { unfold t1. destruct added.
        - destruct (Hq eq_refl) as (_ & _ & q3 & _). fold L. symmetry. apply aligned_div; [tauto|].
          apply q3. exact Emd.
        - apply go_date_day_start. }
      assert (Ht2 : add_date z t1 0 0 1 + off = L').
      { replace t1 with (L / 86400 * 86400 - off) by lia.
        rewrite add_date_day by div_lia. reflexivity. }
      assert (Hh : w_hour (fields z (add_date z t1 0 0 1)) = 0)
        by (rewrite fields_z, w_hour_local, Ht2; exact Ah).
      rewrite Hh. cbn [Z.eqb].
      rewrite fields_z, w_day_local, Ht2.
      destruct W_aligned as [X HX].
      pose proof (below_aligned X L 86400 L' ltac:(tauto) ltac:(lia) eq_refl) as [HleW HltW].
      assert (Hn' : nomatch L').
      { apply (nomatch_extend L (L / 86400 * 86400) L' (fun _ => True)); [exact Hn | lia |].
        intros x Hx. apply M_false_md. rewrite (Ain x Hx). exact Emd. }
      assert (Hnd : (mkey (L' / 86400) = mkey (L / 86400) /\ cd (L' / 86400) = cd (L / 86400) + 1) \/
                    (mkey (L' / 86400) = mkey (L / 86400) + 1 /\ cd (L' / 86400) = 1)).
      { rewrite AD. apply next_day. }
      assert (HQ : Q L').
      { unfold Q. split; [|split; [|split]]; try (intros _; assumption).
        intros Hf. split; [exact A86400|].
        destruct Hnd as [[Hk _] | [_ Hd]]; [|exact Hd].
        apply mo_same in Hk. congruence. }
      assert (HrW : L0 <= L' <= W) by lia.
      assert (Hlt : t + off < add_date z t1 0 0 1 + off) by (rewrite Ht2; fold L; lia).
      destruct (cd (L' / 86400) =? 1) eqn:E1.
      + split; [apply (mk_inv PWrap _ L'); try assumption; exact I|].
        apply mu_dec. exact Hlt.
      + split; [|apply mu_dec; exact Hlt].
        apply (mk_inv PDay _ L'); try assumption.
        cbn [pcinv].
        destruct Hnd as [[Hk _] | [_ Hd]]; [|lia].
        split; [|rewrite (mo_same _ _ Hk); exact Hmo].
        (* L' is not the window end: that one is a 1st of January *)
        destruct (Z.eq_dec L' W) as [EW | NW]; [|lia]. exfalso.
        assert (Hcd : cd (L' / 86400) = 1).
        { rewrite EW. unfold W, wend. rewrite Z.div_mul by lia.
          unfold cd. rewrite civil_of_days_of_civil; [reflexivity|].
          split; [lia|]. pose proof (days_in_month_range (lim + 1) 1). lia. }
        lia.
  Qed.

  (* --- month loop ------------------------------------------------------------------- *)
  Lemma step_month t added : Inv (mkSt PMonth t added) -> step_ok (mkSt PMonth t added).
  Proof.
    unfold Inv, step_ok, step. cbn [s_pc s_t s_added pcinv].
    intros (Hr & Hn & Ha & Hq & HW).
    rewrite fields_z, w_year_local, w_month_local.
    set (L := t + off) in *. fold (mo_ (L / 86400)).
    destruct (mo_ (L / 86400)) eqn:Emo.
    - unfold Inv, mu. cbn [s_pc s_t s_added rank pcinv]. fold L.
      split; [inv_split|]; try assumption; try lia; try tauto.
    - cbv zeta. set (t1 := if added then t else go_date z _ _ 1 0 0 0).
      set (k := mkey (L / 86400)).
      pose proof (mkey_cell (L / 86400)) as Hcell. fold k in Hcell.
      pose proof (month_len_range k) as Hlen.
      assert (Ht1 : t1 + off = month_start k * 86400).
      { unfold t1. destruct added.
        - destruct (Hq eq_refl) as (_ & _ & _ & q4). destruct (q4 Emo) as [qa qd].
          fold L. pose proof (cd_mkey (L / 86400)) as Hc. fold k in Hc. div_lia.
        - apply go_date_month_start. }
      set (L' := month_start (k + 1) * 86400).
      assert (Hcs : cy (month_start k) = k / 12 /\ cm (month_start k) = k mod 12 + 1 /\
                    cd (month_start k) = month_start k - month_start k + 1 /\
                    mkey (month_start k) = k) by (apply in_month_cell; lia).
      destruct Hcs as (_ & _ & Hcd & Hmk).
      assert (Ht2 : add_date z t1 0 1 0 + off = L').
      { replace t1 with (month_start k * 86400 - off) by lia.
        rewrite add_date_month.
        - rewrite Z.div_mul by lia. rewrite Hmk. reflexivity.
        - apply Z.mod_mul. lia.
        - rewrite Z.div_mul by lia. lia. }
      rewrite fields_z, w_month_local, Ht2.
      pose proof (month_start_succ k) as Hsucc.
      assert (HD' : L' / 86400 = month_start (k + 1)) by (unfold L'; apply Z.div_mul; lia).
      pose proof (month_len_range (k + 1)) as Hlen'.
      assert (Hcs' : cy (month_start (k + 1)) = (k + 1) / 12 /\
                     cm (month_start (k + 1)) = (k + 1) mod 12 + 1 /\
                     cd (month_start (k + 1)) = month_start (k + 1) - month_start (k + 1) + 1 /\
                     mkey (month_start (k + 1)) = k + 1) by (apply in_month_cell; lia).
      destruct Hcs' as (_ & Hcm' & Hcd' & _).
      (* the window end is the start of month 12*(lim+1) *)
      assert (HWm : W = month_start (12 * (lim + 1)) * 86400).
      { unfold W, wend. rewrite wend_month. reflexivity. }
      assert (Hk : k < 12 * (lim + 1)).
      { destruct (Z_lt_le_dec k (12 * (lim + 1))) as [Hlt | Hge]; [exact Hlt|]. exfalso.
        pose proof (month_start_le _ _ Hge). div_lia. }
      assert (HleW : L' <= W).
      { rewrite HWm. unfold L'. pose proof (month_start_le (k + 1) (12 * (lim + 1)) ltac:(lia)). lia. }
      assert (HLL' : L < L') by (unfold L'; div_lia).
      assert (Hn' : nomatch L').
      { apply (nomatch_extend L (month_start k * 86400) L' (fun _ => True)); [exact Hn | div_lia |].
        intros x Hx. apply M_false_mo.
        assert (Hxc : month_start k <= x / 86400 < month_start k + month_len k) by (unfold L' in Hx; div_lia).
        destruct (in_month_cell k (x / 86400) Hxc) as (_ & _ & _ & Hxk).
        rewrite (mo_same (x / 86400) (L / 86400)); [exact Emo | rewrite Hxk; reflexivity]. }
      assert (Hal : L' mod 86400 = 0) by (unfold L'; apply Z.mod_mul; lia).
      assert (HQ : Q L').
      { unfold Q. split; [|split; [|split]]; intros _; try div_lia.
        split; [exact Hal|]. rewrite HD'. lia. }
      assert (HrW : L0 <= L' <= W) by lia.
      assert (Hlt : t + off < add_date z t1 0 1 0 + off) by (rewrite Ht2; fold L; lia).
      rewrite HD', Hcm'.
      destruct ((k + 1) mod 12 + 1 =? 1) eqn:E1.
      + split; [apply (mk_inv PWrap _ L'); try assumption; exact I|].
        apply mu_dec. exact Hlt.
      + split; [|apply mu_dec; exact Hlt].
        apply (mk_inv PMonth _ L'); try assumption.
        cbn [pcinv].
        assert (k + 1 < 12 * (lim + 1)) by div_lia.
        pose proof (month_start_lt (k + 1) (12 * (lim + 1)) ltac:(lia)). rewrite HWm. unfold L'. lia.
  Qed.

  Lemma step_inv s : Inv s -> step_ok s.
  Proof.
    destruct s as [[] t added]; [apply step_wrap | apply step_month | apply step_day |
      apply step_hour | apply step_minute | apply step_second].
  Qed.

  (* --- running the machine ---------------------------------------------------------- *)
  Lemma iter_inv n : forall s,
    Inv s ->
    match iter_pow2 b z lim n s with
    | inl s' => Inv s' /\ mu s' + 2 ^ Z.of_nat n <= mu s
    | inr r => Good r
    end.
  Proof.
    induction n as [|n IH]; intros s Hs.
    - cbn [iter_pow2]. change (2 ^ Z.of_nat 0) with 1. apply (step_inv s Hs).
    - cbn [iter_pow2]. rewrite Nat2Z.inj_succ, Z.pow_succ_r by lia.
      specialize (IH s Hs) as IH1. destruct (iter_pow2 b z lim n s) as [s1 | r]; [|exact IH1].
      destruct IH1 as [Hs1 Hm1]. specialize (IH s1 Hs1) as IH2.
      destruct (iter_pow2 b z lim n s1) as [s2 | r]; [|exact IH2].
      destruct IH2 as [Hs2 Hm2]. split; [exact Hs2 | lia].
  Qed.

  Lemma mu_nonneg s : Inv s -> 0 <= mu s.
  Proof.
    intros (Hr & _). unfold mu. destruct (s_pc s); cbn [rank]; lia.
  Qed.
End FixedOffset.

(* ------------------------------------------------------------------------------------ *)
(* The theorems                                                                          *)

Section Theorems.
  Variable b : bits6.
  Variable off : Z.
  Hypothesis Hoff : off mod 60 = 0.
  Variable t : Z.

  Let z := fixed_zone off.
  Let L0 := t + 1 + off.
  Let lim := cy (L0 / 86400) + 5.

  Lemma year_limit_fixed : year_limit z t = lim.
  Proof. unfold year_limit, z. rewrite fields_fixed, w_year_local. reflexivity. Qed.

  Lemma init_inv : Inv b off L0 lim (mkSt PWrap (t + 1) false).
  Proof.
    unfold Inv. cbn [s_pc s_t s_added pcinv]. fold L0.
    pose proof (window_length L0) as [Hlt _]. fold lim in Hlt.
    inv_split; try lia; try exact I; try discriminate; try (intros x Hx; lia); try reflexivity.
  Qed.

  Lemma next_model_good : Good b off L0 lim (next_model b z t).
  Proof.
    unfold next_model. fold z.
    replace (w_year (fields z (t + 1)) + 5) with lim
      by (unfold z; rewrite fields_fixed, w_year_local; reflexivity).
    pose proof (iter_inv b off Hoff L0 lim next_fuel _ init_inv) as H. fold z in H.
    destruct (iter_pow2 b z lim next_fuel _) as [s' | r]; [|exact H].
    exfalso. destruct H as [Hs' Hm].
    pose proof (mu_nonneg b off L0 lim s' Hs') as Hnn.
    pose proof (window_length L0) as [_ Hlen]. fold lim in Hlen.
    unfold mu in Hm at 2. cbn [s_pc s_t rank] in Hm. fold L0 in Hm.
    change (2 ^ Z.of_nat next_fuel) with 17179869184 in Hm. lia.
  Qed.

  (* (c) the fuel suffices *)
  Theorem next_terminates_fixed : next_model b z t <> OutOfFuel.
  Proof. pose proof next_model_good as H. destruct (next_model b z t); cbn in H; congruence. Qed.

  Lemma matches_fixed u : matches (dsched_of_bits b) z u = M b (u + off).
  Proof. unfold matches, z. rewrite fields_fixed. apply M_local. Qed.

  (* (b) soundness: a returned instant is later than t and matches *)
  Theorem next_sound_fixed u :
    next_model b z t = NextAt u -> t < u /\ matches_bits b z u = true.
  Proof.
    intros E. pose proof next_model_good as H. rewrite E in H. cbn [Good] in H.
    destruct H as (Hr & HM & _). unfold matches_bits. rewrite matches_fixed.
    split; [unfold L0 in Hr; lia | exact HM].
  Qed.

  (* (d) full equality with the reference *)
  Theorem next_fixed_offset :
    next_model b z t = result_of_option (next_ref (dsched_of_bits b) z t).
  Proof.
    pose proof next_model_good as H.
    unfold next_ref. rewrite year_limit_fixed.
    set (p := fun u => matches (dsched_of_bits b) z u || (lim <? w_year (fields z u))).
    assert (Hp : forall u, p u = M b (u + off) || (wend lim <=? u + off)).
    { intros u. unfold p. rewrite matches_fixed. f_equal.
      unfold z. rewrite fields_fixed, w_year_local.
      destruct (lim <? cy ((u + off) / 86400)) eqn:E1; destruct (wend lim <=? u + off) eqn:E2;
        try reflexivity; exfalso.
      - assert (wend lim <= u + off) by (apply year_gt_iff; lia). lia.
      - assert (lim < cy ((u + off) / 86400)) by (apply year_gt_iff; lia). lia. }
    pose proof (window_length L0) as [Hlt Hlen]. fold lim in Hlt, Hlen.
    destruct (next_model b z t) as [u | |]; cbn [Good] in H.
    - destruct H as (Hr & HM & Hn).
      rewrite (least_in_unique p (t + 1) scan_log u).
      + replace (lim <? w_year (fields z u)) with false; [reflexivity|].
        unfold z. rewrite fields_fixed, w_year_local. symmetry. apply Z.ltb_ge.
        destruct (Z_lt_le_dec lim (cy ((u + off) / 86400))) as [Hc | Hc]; [|lia].
        apply year_gt_iff in Hc. lia.
      + change (2 ^ Z.of_nat scan_log) with 268435456. unfold L0 in *. lia.
      + rewrite Hp, HM. reflexivity.
      + intros x Hx. rewrite Hp. rewrite Hn by (unfold L0; lia).
        cbn [orb]. apply Z.leb_gt. lia.
    - rewrite (least_in_unique p (t + 1) scan_log (wend lim - off)).
      + replace (lim <? w_year (fields z (wend lim - off))) with true; [reflexivity|].
        unfold z. rewrite fields_fixed, w_year_local. symmetry. apply Z.ltb_lt.
        apply year_gt_iff. lia.
      + change (2 ^ Z.of_nat scan_log) with 268435456. unfold L0 in *. lia.
      + rewrite Hp. replace (wend lim <=? wend lim - off + off) with true by lia.
        apply orb_true_r.
      + intros x Hx. rewrite Hp. rewrite H by (unfold L0; lia).
        cbn [orb]. apply Z.leb_gt. lia.
    - contradiction.
  Qed.
End Theorems.

(* non-vacuity: a whole-minute offset, a schedule, an instant, a returned value *)
Example next_sound_fixed_ex :
  19800 mod 60 = 0 /\
  next_model every_minute (fixed_zone 19800) 1709210096 = NextAt 1709210100.
Proof. split; vm_compute; reflexivity. Qed.
