(* C04 / Next.v — model of SpecSchedule.Next (cron/spec.go:75-193) and
   ConstantDelaySchedule.Next (cron/constantdelay.go).

   The Go function is a goto-program: label WRAP followed by five loops (month, day, hour,
   minute, second), each of which may jump back to WRAP. It is transcribed as a flat step
   machine over (program counter, t, added), one step per loop test, and run by a doubling
   combinator on binary fuel: [iter_pow2 n] performs up to 2^n steps and yields [OutOfFuel]
   — distinct from every result of the Go code — if no result was reached.

   Times are unix seconds. Next first moves to the upcoming whole second
   ([t.Add(1s - nanos)]), after which every operation keeps nanoseconds at 0, so the model
   takes the instant's unix second (floor) and ignores its nanoseconds. The zone [z] is the
   effective location [loc] of the Go code: the schedule's Location, or the Location of the
   argument when the schedule has none (time.Local); the final [t.In(origLocation)] does not
   change the instant.

   Definitions only (plus closed Examples). *)
From Kit.Lib Require Import Base.
From Kit.C04 Require Import Cal Zone Str Parse.
From Coq Require Import ZArith NArith Lia Bool List.
Import ListNotations.
Open Scope Z_scope.

Record bits6 := mkBits {
  sb_sec : N; sb_min : N; sb_hour : N; sb_dom : N; sb_month : N; sb_dow : N }.

Inductive next_result :=
| NextAt (u : Z)      (* the Go code returns this instant *)
| NextZero            (* the Go code returns the zero time.Time *)
| OutOfFuel.          (* the model ran out of fuel; not a behaviour of the Go code *)

Inductive pc := PWrap | PMonth | PDay | PHour | PMinute | PSecond.

Record st := mkSt { s_pc : pc; s_t : Z; s_added : bool }.

(* [1<<uint(v) & set == 0] negated; v is a calendar field, 0 <= v < 64 *)
Definition bit_set (set : N) (v : Z) : bool := N.testbit set (Z.to_N v).

Definition star (set : N) : bool := N.testbit set 63.

(* dayMatches *)
Definition day_matches (b : bits6) (w : wall) : bool :=
  let dom_match := bit_set (sb_dom b) (w_day w) in
  let dow_match := bit_set (sb_dow b) (w_wday w) in
  if star (sb_dom b) || star (sb_dow b) then dom_match && dow_match
  else dom_match || dow_match.

Section Machine.
  Variable b : bits6.
  Variable z : zone.
  Variable year_limit : Z.

  (* one loop test (and, if it fails, one loop body) of the Go code *)
  Definition step (s : st) : st + next_result :=
    let t := s_t s in
    let added := s_added s in
    let w := fields z t in
    match s_pc s with
    | PWrap =>
        (* WRAP: if t.Year() > yearLimit { return time.Time{} } *)
        if year_limit <? w_year w then inr NextZero else inl (mkSt PMonth t added)
    | PMonth =>
        (* for 1<<uint(t.Month())&s.Month == 0 { ... } *)
        if bit_set (sb_month b) (w_month w) then inl (mkSt PDay t added)
        else
          let t1 := if added then t else go_date z (w_year w) (w_month w) 1 0 0 0 in
          let t2 := add_date z t1 0 1 0 in
          if w_month (fields z t2) =? 1 then inl (mkSt PWrap t2 true)
          else inl (mkSt PMonth t2 true)
    | PDay =>
        (* for !dayMatches(s, t) { ... } *)
        if day_matches b w then inl (mkSt PHour t added)
        else
          let t1 := if added then t else go_date z (w_year w) (w_month w) (w_day w) 0 0 0 in
          let t2 := add_date z t1 0 0 1 in
          (* Notice if the hour is no longer midnight due to DST. *)
          let h := w_hour (fields z t2) in
          let t3 :=
            if h =? 0 then t2
            else if 12 <? h then add t2 ((24 - h) * 3600)
            else add t2 (- h * 3600) in
          if w_day (fields z t3) =? 1 then inl (mkSt PWrap t3 true)
          else inl (mkSt PDay t3 true)
    | PHour =>
        if bit_set (sb_hour b) (w_hour w) then inl (mkSt PMinute t added)
        else
          let t1 := if added then t
                    else go_date z (w_year w) (w_month w) (w_day w) (w_hour w) 0 0 in
          let t2 := add t1 3600 in
          if w_hour (fields z t2) =? 0 then inl (mkSt PWrap t2 true)
          else inl (mkSt PHour t2 true)
    | PMinute =>
        if bit_set (sb_min b) (w_min w) then inl (mkSt PSecond t added)
        else
          let t1 := if added then t else truncate_minute t in
          let t2 := add t1 60 in
          if w_min (fields z t2) =? 0 then inl (mkSt PWrap t2 true)
          else inl (mkSt PMinute t2 true)
    | PSecond =>
        if bit_set (sb_sec b) (w_sec w) then inr (NextAt t)
        else
          let t1 := if added then t else truncate_second t in
          let t2 := add t1 1 in
          if w_sec (fields z t2) =? 0 then inl (mkSt PWrap t2 true)
          else inl (mkSt PSecond t2 true)
    end.

  (* up to 2^n steps *)
  Fixpoint iter_pow2 (n : nat) (s : st) : st + next_result :=
    match n with
    | O => step s
    | S n' =>
        match iter_pow2 n' s with
        | inl s' => iter_pow2 n' s'
        | inr r => inr r
        end
    end.
End Machine.

(* 2^34 steps: more than one step per second of the six-year window plus the outer loops *)
Definition next_fuel : nat := 34.

(* SpecSchedule.Next for an argument whose unix second (floor) is t *)
Definition next_model (b : bits6) (z : zone) (t : Z) : next_result :=
  let t1 := t + 1 in
  let year_limit := w_year (fields z t1) + 5 in
  match iter_pow2 b z year_limit next_fuel (mkSt PWrap t1 false) with
  | inl _ => OutOfFuel
  | inr r => r
  end.

(* ConstantDelaySchedule.Next on (unix second, nanosecond):
   t.Add(Delay - t.Nanosecond()) *)
Definition every_next (delay_ns : Z) (t : Z * Z) : Z * Z :=
  let '(sec, nanos) := t in
  let total := sec * ns_per_s + nanos + (delay_ns - nanos) in
  (total / ns_per_s, total mod ns_per_s).

(* Schedule.Next; [t_zone] is the Location of the argument *)
Definition effective_zone (loc : sched_loc) (t_zone : zone) : zone :=
  match loc with LocLocal => t_zone | LocZone z => z end.

(* ------------------------------------------------------------------------------------ *)
(* Examples                                                                              *)

(* "* * * * *" with second 0: bit sets as produced by the parser *)
Definition every_minute : bits6 :=
  mkBits 1 0x8fffffffffffffff 0x8000000000ffffff 0x80000000fffffffe 0x8000000000001ffe
         0x800000000000007f.

Example next_ex1 : next_model every_minute (fixed_zone 0) 1709210096 = NextAt 1709210100.
Proof. vm_compute. reflexivity. Qed.

(* "0 0 30 2 *" never matches: zero time after the five-year window *)
Example next_ex2 :
  next_model (mkBits 1 1 1 (2 ^ 30) 4 0x800000000000007f) (fixed_zone 0) 1709210096 = NextZero.
Proof. vm_compute. reflexivity. Qed.
