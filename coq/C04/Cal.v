(* C04 / Cal.v — proleptic Gregorian calendar on Z (days since 1970-01-01).

   Algorithms: Howard Hinnant's era-based [days_from_civil] / [civil_from_days].
   The inverse lemma on day numbers is proved by a DECLARED SWEEP: [vm_compute] over one
   146097-day cycle (about 25 s + the same again at Qed), lifted to all of Z by the
   periodicity lemmas. Everything else is [lia] on the era arithmetic.

   No axioms. *)
From Kit.Lib Require Import Base.
From Coq Require Import ZArith Lia Bool List.
Open Scope Z_scope.

(* ------------------------------------------------------------------------------------ *)
(* Definitions                                                                           *)

Definition is_leap (y : Z) : bool :=
  (y mod 4 =? 0) && (negb (y mod 100 =? 0) || (y mod 400 =? 0)).

Definition days_in_month (y m : Z) : Z :=
  if m =? 2 then (if is_leap y then 29 else 28)
  else if (m =? 4) || (m =? 6) || (m =? 9) || (m =? 11) then 30
  else 31.

(* day number of the civil date y-m-d; linear in d, so out-of-range d "normalises" exactly
   like Go's time.Date does. m must be in 1..12. *)
Definition days_of_civil (y m d : Z) : Z :=
  let y' := if m <=? 2 then y - 1 else y in
  let era := y' / 400 in
  let yoe := y' - era * 400 in
  let mp := if 2 <? m then m - 3 else m + 9 in
  let doy := (153 * mp + 2) / 5 + d - 1 in
  let doe := yoe * 365 + yoe / 4 - yoe / 100 + doy in
  era * 146097 + doe - 719468.

Definition civil_of_days (n : Z) : Z * Z * Z :=
  let z := n + 719468 in
  let era := z / 146097 in
  let doe := z - era * 146097 in
  let yoe := (doe - doe / 1460 + doe / 36524 - doe / 146096) / 365 in
  let y := yoe + era * 400 in
  let doy := doe - (365 * yoe + yoe / 4 - yoe / 100) in
  let mp := (5 * doy + 2) / 153 in
  let d := doy - (153 * mp + 2) / 5 + 1 in
  let m := if mp <? 10 then mp + 3 else mp - 9 in
  ((if m <=? 2 then y + 1 else y), m, d).

(* 0 = Sunday ... 6 = Saturday; day 0 (1970-01-01) was a Thursday. *)
Definition weekday (n : Z) : Z := (n + 4) mod 7.

Definition next_month (y m : Z) : Z * Z :=
  if m =? 12 then (y + 1, 1) else (y, m + 1).

Definition valid_date (y m d : Z) : Prop :=
  1 <= m <= 12 /\ 1 <= d <= days_in_month y m.

(* sanity *)
Example cal_ex1 : civil_of_days 0 = (1970, 1, 1). Proof. reflexivity. Qed.
Example cal_ex2 : days_of_civil 2024 2 29 = 19782. Proof. reflexivity. Qed.
Example cal_ex3 : civil_of_days 19782 = (2024, 2, 29). Proof. reflexivity. Qed.
Example cal_ex4 : weekday 19782 = 4. Proof. reflexivity. Qed. (* 2024-02-29 was a Thursday *)
Example cal_ex5 : civil_of_days (-1) = (1969, 12, 31). Proof. reflexivity. Qed.

(* ------------------------------------------------------------------------------------ *)
(* Elementary facts by lia                                                               *)

Lemma weekday_range n : 0 <= weekday n <= 6.
Proof. unfold weekday. pose proof (Z.mod_pos_bound (n + 4) 7). lia. Qed.

Lemma days_in_month_range y m : 28 <= days_in_month y m <= 31.
Proof.
  unfold days_in_month.
  destruct (m =? 2); [destruct (is_leap y); lia|].
  destruct ((m =? 4) || (m =? 6) || (m =? 9) || (m =? 11)); lia.
Qed.

Lemma days_of_civil_day y m d : days_of_civil y m d = days_of_civil y m 1 + (d - 1).
Proof. unfold days_of_civil. lia. Qed.

Lemma is_leap_shift y k : is_leap (y + 400 * k) = is_leap y.
Proof.
  unfold is_leap.
  replace (y + 400 * k) with (y + (100 * k) * 4) at 1 by lia.
  replace (y + 400 * k) with (y + (4 * k) * 100) at 1 by lia.
  replace (y + 400 * k) with (y + k * 400) at 1 by lia.
  rewrite !Z.mod_add by lia. reflexivity.
Qed.

Lemma days_in_month_shift y m k : days_in_month (y + 400 * k) m = days_in_month y m.
Proof. unfold days_in_month. rewrite is_leap_shift. reflexivity. Qed.

Lemma days_of_civil_shift y m d k :
  days_of_civil (y + 400 * k) m d = days_of_civil y m d + 146097 * k.
Proof.
  unfold days_of_civil.
  set (y' := if m <=? 2 then y - 1 else y).
  replace (if m <=? 2 then y + 400 * k - 1 else y + 400 * k) with (y' + k * 400)
    by (unfold y'; destruct (m <=? 2); lia).
  rewrite Z.div_add by lia.
  set (era := y' / 400).
  replace (y' + k * 400 - (era + k) * 400) with (y' - era * 400) by lia.
  lia.
Qed.

Lemma civil_of_days_shift n k :
  civil_of_days (n + 146097 * k) =
  let '(y, m, d) := civil_of_days n in (y + 400 * k, m, d).
Proof.
  unfold civil_of_days.
  replace (n + 146097 * k + 719468) with (n + 719468 + k * 146097) by lia.
  rewrite Z.div_add by lia.
  set (z := n + 719468). set (era := z / 146097).
  replace (z + k * 146097 - (era + k) * 146097) with (z - era * 146097) by lia.
  set (doe := z - era * 146097).
  set (yoe := (doe - doe / 1460 + doe / 36524 - doe / 146096) / 365).
  set (doy := doe - (365 * yoe + yoe / 4 - yoe / 100)).
  set (mp := (5 * doy + 2) / 153).
  destruct ((if mp <? 10 then mp + 3 else mp - 9) <=? 2); f_equal; f_equal; lia.
Qed.

From Coq Require Import ZifyBool.
Ltac div_lia := Z.div_mod_to_equations; lia.

(* reduce [if b then _ else _] whose test is a closed boolean *)
Ltac closed_ifs :=
  repeat match goal with
  | |- context [if ?b then _ else _] =>
      let v := eval vm_compute in b in
      match v with
      | true => change b with true; cbv iota
      | false => change b with false; cbv iota
      end
  end.

(* The first day of the following month is [days_in_month] days later. *)
Lemma month_succ y m :
  1 <= m <= 12 ->
  days_of_civil (fst (next_month y m)) (snd (next_month y m)) 1 =
  days_of_civil y m 1 + days_in_month y m.
Proof.
  intros Hm.
  assert (Hc : m = 1 \/ m = 2 \/ m = 3 \/ m = 4 \/ m = 5 \/ m = 6 \/ m = 7 \/ m = 8 \/
               m = 9 \/ m = 10 \/ m = 11 \/ m = 12) by lia.
  unfold next_month, days_of_civil, days_in_month, is_leap.
  repeat (destruct Hc as [Hc | Hc]); subst m; closed_ifs; cbn [fst snd]; closed_ifs.
  all: try (destruct (y mod 4 =? 0) eqn:E4; destruct (y mod 100 =? 0) eqn:E100;
            destruct (y mod 400 =? 0) eqn:E400; cbn [andb orb negb]).
  all: div_lia.
Qed.

(* ------------------------------------------------------------------------------------ *)
(* The sweep                                                                              *)

(* [all_below f lo k]: f holds on [lo, lo + 2^k). Doubling recursion, k is small. *)
Fixpoint all_below (f : Z -> bool) (lo : Z) (k : nat) : bool :=
  match k with
  | O => f lo
  | S k' => all_below f lo k' && all_below f (lo + 2 ^ Z.of_nat k') k'
  end.

Lemma all_below_spec f k : forall lo,
  all_below f lo k = true -> forall n, lo <= n < lo + 2 ^ Z.of_nat k -> f n = true.
Proof.
  induction k as [|k IH]; intros lo H n Hn.
  - cbn in H. change (2 ^ Z.of_nat 0) with 1 in Hn. replace n with lo by lia. exact H.
  - cbn [all_below] in H. apply andb_true_iff in H as [H1 H2].
    rewrite Nat2Z.inj_succ, Z.pow_succ_r in Hn by lia.
    destruct (Z_lt_le_dec n (lo + 2 ^ Z.of_nat k)) as [Hlt | Hge].
    + apply (IH lo H1). lia.
    + apply (IH _ H2). lia.
Qed.

Definition day_ok (n : Z) : bool :=
  let '(y, m, d) := civil_of_days n in
  (1 <=? m) && (m <=? 12) && (1 <=? d) && (d <=? days_in_month y m) &&
  (days_of_civil y m d =? n).

(* DECLARED SWEEP: one full 400-year cycle, 146097 <= 2^17 + 2^14 days. *)
Lemma day_ok_cycle :
  all_below day_ok (-719468) 17 && all_below day_ok (-719468 + 131072) 14 = true.
Proof. vm_compute. reflexivity. Qed.

Lemma day_ok_in_cycle n : -719468 <= n < -719468 + 146097 -> day_ok n = true.
Proof.
  intros Hn. pose proof day_ok_cycle as H. apply andb_true_iff in H as [H1 H2].
  destruct (Z_lt_le_dec n (-719468 + 131072)) as [Hlt | Hge].
  - apply (all_below_spec _ _ _ H1). change (2 ^ Z.of_nat 17) with 131072. lia.
  - apply (all_below_spec _ _ _ H2). change (2 ^ Z.of_nat 14) with 16384. lia.
Qed.

Lemma day_ok_all n : day_ok n = true.
Proof.
  set (k := (n + 719468) / 146097).
  set (n0 := n - 146097 * k).
  assert (Hn0 : -719468 <= n0 < -719468 + 146097) by (unfold n0, k; div_lia).
  pose proof (day_ok_in_cycle n0 Hn0) as H0.
  replace n with (n0 + 146097 * k) by (unfold n0; lia).
  unfold day_ok in *. rewrite civil_of_days_shift.
  destruct (civil_of_days n0) as [[y m] d].
  rewrite days_in_month_shift, days_of_civil_shift.
  repeat (apply andb_true_iff in H0 as [H0 ?]).
  repeat (apply andb_true_iff; split); try assumption.
  apply Z.eqb_eq. apply Z.eqb_eq in H. lia.
Qed.

Lemma civil_of_days_spec n y m d :
  civil_of_days n = (y, m, d) -> valid_date y m d /\ days_of_civil y m d = n.
Proof.
  intros E. pose proof (day_ok_all n) as H. unfold day_ok in H. rewrite E in H.
  repeat (apply andb_true_iff in H as [H ?]).
  unfold valid_date. lia.
Qed.

(* ------------------------------------------------------------------------------------ *)
(* Month index, monotonicity, injectivity                                                *)

(* first day of the month with index k = 12*y + (m-1) *)
Definition month_start (k : Z) : Z := days_of_civil (k / 12) (k mod 12 + 1) 1.
Definition month_len (k : Z) : Z := days_in_month (k / 12) (k mod 12 + 1).

Lemma month_start_succ k : month_start (k + 1) = month_start k + month_len k.
Proof.
  unfold month_start, month_len.
  assert (Hm : 1 <= k mod 12 + 1 <= 12) by div_lia.
  rewrite <- (month_succ (k / 12) (k mod 12 + 1) Hm).
  unfold next_month.
  destruct (k mod 12 + 1 =? 12) eqn:E; cbn [fst snd]; f_equal; div_lia.
Qed.

Lemma month_len_range k : 28 <= month_len k <= 31.
Proof. apply days_in_month_range. Qed.

Lemma month_start_mono_aux k j : 0 <= j -> month_start k + 28 * j <= month_start (k + j).
Proof.
  intros Hj. revert j Hj. apply natlike_ind.
  - replace (k + 0) with k by lia. lia.
  - intros j Hj IH. replace (k + Z.succ j) with (k + j + 1) by lia.
    rewrite month_start_succ. pose proof (month_len_range (k + j)). lia.
Qed.

Lemma month_start_lt k k' : k < k' -> month_start k + month_len k <= month_start k'.
Proof.
  intros Hlt. rewrite <- month_start_succ.
  pose proof (month_start_mono_aux (k + 1) (k' - k - 1) ltac:(lia)) as H.
  replace (k + 1 + (k' - k - 1)) with k' in H by lia. lia.
Qed.

Lemma month_start_le k k' : k <= k' -> month_start k <= month_start k'.
Proof.
  intros Hle. destruct (Z.eq_dec k k') as [-> | Hne]; [lia|].
  pose proof (month_start_lt k k' ltac:(lia)). pose proof (month_len_range k). lia.
Qed.

Definition month_index (y m : Z) : Z := 12 * y + (m - 1).

Lemma month_index_div y m : 1 <= m <= 12 -> month_index y m / 12 = y.
Proof. unfold month_index. intros. div_lia. Qed.
Lemma month_index_mod y m : 1 <= m <= 12 -> month_index y m mod 12 + 1 = m.
Proof. unfold month_index. intros. div_lia. Qed.

Lemma days_of_civil_index y m d :
  1 <= m <= 12 -> days_of_civil y m d = month_start (month_index y m) + (d - 1).
Proof.
  intros Hm. unfold month_start. rewrite month_index_div, month_index_mod by assumption.
  apply days_of_civil_day.
Qed.

Lemma month_len_index y m : 1 <= m <= 12 -> month_len (month_index y m) = days_in_month y m.
Proof.
  intros Hm. unfold month_len. rewrite month_index_div, month_index_mod by assumption.
  reflexivity.
Qed.

Lemma days_of_civil_inj y m d y' m' d' :
  valid_date y m d -> valid_date y' m' d' ->
  days_of_civil y m d = days_of_civil y' m' d' -> (y, m, d) = (y', m', d').
Proof.
  intros [Hm Hd] [Hm' Hd'] E.
  rewrite (days_of_civil_index y m d Hm), (days_of_civil_index y' m' d' Hm') in E.
  rewrite <- (month_len_index y m Hm) in Hd. rewrite <- (month_len_index y' m' Hm') in Hd'.
  set (k := month_index y m) in *. set (k' := month_index y' m') in *.
  assert (Hk : k = k').
  { destruct (Z.lt_trichotomy k k') as [Hlt | [Heq | Hgt]]; [|exact Heq|].
    - pose proof (month_start_lt k k' Hlt). lia.
    - pose proof (month_start_lt k' k ltac:(lia)). lia. }
  rewrite Hk in E.
  assert (y = y' /\ m = m') as [-> ->] by (unfold k, k', month_index in Hk; lia).
  f_equal. lia.
Qed.

Lemma civil_of_days_of_civil y m d :
  valid_date y m d -> civil_of_days (days_of_civil y m d) = (y, m, d).
Proof.
  intros Hv. destruct (civil_of_days (days_of_civil y m d)) as [[y' m'] d'] eqn:E.
  apply civil_of_days_spec in E as [Hv' E].
  apply days_of_civil_inj; assumption.
Qed.

(* master characterisation *)
Lemma civil_of_days_iff n y m d :
  civil_of_days n = (y, m, d) <-> valid_date y m d /\ days_of_civil y m d = n.
Proof.
  split; [apply civil_of_days_spec|].
  intros [Hv <-]. apply civil_of_days_of_civil. exact Hv.
Qed.

(* the days of month k are exactly [month_start k, month_start k + month_len k) *)
Lemma civil_of_days_month n y m d :
  civil_of_days n = (y, m, d) ->
  month_start (month_index y m) <= n < month_start (month_index y m) + month_len (month_index y m)
  /\ d = n - month_start (month_index y m) + 1.
Proof.
  intros E. apply civil_of_days_spec in E as [[Hm Hd] E].
  rewrite (days_of_civil_index y m d Hm) in E. rewrite month_len_index by assumption. lia.
Qed.

Lemma civil_of_days_in_month k n :
  month_start k <= n < month_start k + month_len k ->
  civil_of_days n = (k / 12, k mod 12 + 1, n - month_start k + 1).
Proof.
  intros Hn. apply civil_of_days_iff.
  assert (Hm : 1 <= k mod 12 + 1 <= 12) by div_lia.
  split.
  - split; [exact Hm|]. unfold month_len in Hn. lia.
  - rewrite days_of_civil_day. unfold month_start in *. lia.
Qed.

(* years are monotone in the day number *)
Lemma year_ge_iff n y m d y0 :
  civil_of_days n = (y, m, d) -> (y0 <= y <-> days_of_civil y0 1 1 <= n).
Proof.
  intros E. pose proof (civil_of_days_month n y m d E) as [Hr _].
  apply civil_of_days_spec in E as [[Hm Hd] E].
  assert (E0 : days_of_civil y0 1 1 = month_start (month_index y0 1)).
  { rewrite (days_of_civil_index y0 1 1) by lia. lia. }
  rewrite E0. set (k := month_index y m) in *. set (k0 := month_index y0 1).
  split; intro H.
  - assert (k0 <= k) by (unfold k0, k, month_index; lia).
    pose proof (month_start_le k0 k ltac:(assumption)). lia.
  - destruct (Z_lt_le_dec y y0) as [Hlt | Hge]; [|exact Hge].
    assert (k < k0) by (unfold k0, k, month_index; lia).
    pose proof (month_start_lt k k0 ltac:(assumption)). lia.
Qed.

(* successor day *)
Lemma civil_of_days_succ n y m d :
  civil_of_days n = (y, m, d) ->
  civil_of_days (n + 1) =
    if d <? days_in_month y m then (y, m, d + 1)
    else (fst (next_month y m), snd (next_month y m), 1).
Proof.
  intros E. apply civil_of_days_spec in E as [[Hm Hd] E].
  destruct (d <? days_in_month y m) eqn:Hlt.
  - apply civil_of_days_iff. split; [split; lia|].
    rewrite days_of_civil_day. rewrite days_of_civil_day in E. lia.
  - apply civil_of_days_iff.
    pose proof (month_succ y m Hm) as Hs.
    split.
    + unfold next_month. destruct (m =? 12) eqn:E12; cbn [fst snd]; split; try lia.
      * pose proof (days_in_month_range (y + 1) 1); lia.
      * pose proof (days_in_month_range y (m + 1)); lia.
    + rewrite Hs. rewrite days_of_civil_day in E. lia.
Qed.
