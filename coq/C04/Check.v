(* C04 / Check.v — executable correspondence interface (see README.md for the concrete
   syntax of cases and the cost per case).

   Two kinds of case.
   * parse case: the model's outcome of NewParser(opts).Parse(spec) against the observed
     one. Compared: the outcome class and, for schedules, the six bit sets / the delay;
     never error texts, never the Location.
   * next case: six bit sets, a zone table, an instant, and the observed result of
     SpecSchedule.Next. Verdict 2 if the observation is not what the SPECIFICATION demands
     ([next_ref_fast], proved equal to [next_ref]), else 1 if it differs from the MODEL
     ([next_model]), else 0. *)
From Kit.Lib Require Import Base.
From Kit.C04 Require Import Cal Zone Str Parse Next Spec Bridge Benign.
From Coq Require Import ZArith NArith Lia Bool List String.
Import ListNotations.
Open Scope Z_scope.

(* ------------------------------------------------------------------------------------ *)
(* parse cases                                                                           *)

Inductive parse_obs :=
| ObsOk (sec min hour dom month dow : N)     (* *SpecSchedule: the six uint64 *)
| ObsEvery (delay_ns : Z)                    (* ConstantDelaySchedule: Delay in ns *)
| ObsErr                                     (* a non-nil error *)
| ObsPanic.                                  (* NewParser or Parse panicked *)

Record parse_case := mkParseCase {
  pc_variant : variant;          (* Original = pinned tree, Fixed = after the TZ fix *)
  pc_opts : Z;                   (* the ParseOption bit mask *)
  pc_spec : list N;              (* the spec string, as bytes *)
  pc_zone : option zone;         (* oracle: time.LoadLocation(name); None = error/not asked *)
  pc_dur : option Z;             (* oracle: time.ParseDuration(arg) in ns; None = error/not asked *)
  pc_obs : parse_obs }.

Definition parse_model_out (c : parse_case) : parse_obs :=
  match parse (pc_variant c) (pc_opts c) (fun _ => pc_zone c) (fun _ => pc_dur c) (pc_spec c) with
  | Ok (SpecSched a b c d e f _) => ObsOk a b c d e f
  | Ok (EverySched d) => ObsEvery d
  | Err _ => ObsErr
  | Panic => ObsPanic
  end.

Definition parse_obs_eqb (x y : parse_obs) : bool :=
  match x, y with
  | ObsOk a b c d e f, ObsOk a' b' c' d' e' f' =>
      ((a =? a') && (b =? b') && (c =? c') && (d =? d') && (e =? e') && (f =? f'))%N
  | ObsEvery d, ObsEvery d' => d =? d'
  | ObsErr, ObsErr => true
  | ObsPanic, ObsPanic => true
  | _, _ => false
  end.

(* The SPECIFICATION's opinion on a spec ([parse_doc_out] below), from the documented grammar
   of Spec.v only ([read_field], [term_valid], [denote_field], [unrestricted]) - the bit-set
   code of the model is not used.
   Field lists: when the number of fields fits the option set and every one of the six
   (normalised) fields reads as a list of documented items, the parser must return the six
   denoted sets (bit 63 = the field is unrestricted) if every item is valid (values in range,
   ranges not inverted, steps positive), and an error otherwise. It also demands an error -
   whatever the other fields look like - when some field contains an item the documentation
   refuses by name ([refused_item]: unknown name, non-numeric value), and when the number of
   fields does not fit. Descriptors: the whole spec, see [doc_descriptor]. TZ prefix: unknown
   zone or nothing after it: an error; else the rest of the spec. [None] = no opinion (syntax
   outside the documented grammar, e.g. "*-5", "+5", an empty list item: there only the model
   is compared). Proofs_Denote.parse_denotes: the model agrees wherever there is an opinion. *)
Definition set_of (p : Z -> bool) : N :=
  fold_left (fun acc k => let x := Z.of_nat k in
                          if p x then N.lor acc (N.shiftl 1 (Z.to_N x)) else acc)
            (seq 0 63) 0%N.

(* None: not documented syntax; Some None: documented but invalid; Some (Some bits) *)
Definition doc_field (f : fspec) (s : list N) : option (option N) :=
  match read_field f s with
  | None => None
  | Some tms =>
      if forallb (term_valid f) tms
      then Some (Some (N.lor (set_of (denote_field f tms))
                             (if unrestricted tms then star_bit else 0%N)))
      else Some None
  end.

(* Items the documentation REFUSES by name: "non-numeric values" and "unknown names". An item
   whose pieces (around '/' and '-') are all plain words (ASCII letters and digits, not empty)
   is refused when a value piece is neither a number nor a name of the field ("Mayhem",
   "janx", "1e1", a month name in the day-of-week field), or the step is not a number. Items
   with other characters ("*-5", "+5", an empty piece, non-ASCII bytes) are left to
   [read_item]: documented syntax or no opinion. *)
Definition is_alnum (c : N) : bool :=
  (is_digit c || ((65 <=? c) && (c <=? 90)) || ((97 <=? c) && (c <=? 122)))%N.
Definition word (s : list N) : bool := nonempty s && forallb is_alnum s.
Definition not_number (s : list N) : bool := negb (forallb is_digit s).
Definition bad_value (f : fspec) (s : list N) : bool :=
  not_number s &&
  match spec_assoc (List.map lower1 s) (f_names f) with Some _ => false | None => true end.

Definition refused_words (f : fspec) (e : list N) : bool :=
  match split_on 47 e with
  | [rg] =>
      match split_on 45 rg with
      | [a] => word a && bad_value f a
      | [a; b] => word a && word b && (bad_value f a || bad_value f b)
      | _ => false
      end
  | [rg; st] =>
      word st &&
      match split_on 45 rg with
      | [a] => word a && (bad_value f a || not_number st)
      | [a; b] => word a && word b && (bad_value f a || bad_value f b || not_number st)
      | _ => false
      end
  | _ => false
  end.

(* Operands no reader of integers can accept: the EMPTY operand ("-5", "5-", "/15", "5/": a
   number is missing before or after the separator) and decimal numerals that do not fit a
   machine integer (2^63 and above: "9223372036854775808", "18446744073709551621") - out of
   every field's range whatever they are reduced to. Such an operand is refused as the first
   operand of the range part, as its second operand unless the first is '*' or '?' (the code
   then ignores the rest of the range part - outside the documented grammar, no opinion), and
   as the step. *)
Definition huge (s : list N) : bool :=
  nonempty s && forallb is_digit s &&
  match digits_val 0 s with Some n => 2 ^ 63 <=? n | None => false end.
Definition unparsable (s : list N) : bool := negb (nonempty s) || huge s.

Definition refused_shape (e : list N) : bool :=
  nonempty e &&      (* empty list items ("1,,2") are skipped by the code: no opinion *)
  match split_on 47 e with
  | rg :: rest =>
      match split_on 45 rg with
      | a :: more =>
          unparsable a ||
          (negb (is_star_or_q a) && match more with [b] => unparsable b | _ => false end) ||
          match rest with [st] => unparsable st | _ => false end
      | [] => false
      end
  | [] => false
  end.

Definition refused_item (f : fspec) (e : list N) : bool := refused_words f e || refused_shape e.

Definition refused_field (f : fspec) (s : list N) : bool :=
  existsb (refused_item f) (split_on 44 s).

(* a field list (what is left after the optional TZ prefix, not a descriptor) *)
Definition doc_fields_out (opts : Z) (rest : list N) : option parse_obs :=
  match normalize_fields (go_fields rest) opts with
  | Ok [f0; f1; f2; f3; f4; f5] =>
      if refused_field fs_second f0 || refused_field fs_minute f1 ||
         refused_field fs_hour f2 || refused_field fs_dom f3 ||
         refused_field fs_month f4 || refused_field fs_dow f5
      then Some ObsErr
      else
      match doc_field fs_second f0, doc_field fs_minute f1, doc_field fs_hour f2,
            doc_field fs_dom f3, doc_field fs_month f4, doc_field fs_dow f5 with
      | Some a, Some b, Some c, Some d, Some e, Some f =>
          match a, b, c, d, e, f with
          | Some a', Some b', Some c', Some d', Some e', Some f' =>
              Some (ObsOk a' b' c' d' e' f')
          | _, _, _, _, _, _ => Some ObsErr
          end
      | _, _, _, _, _, _ => None
      end
  | Ok _ => None
  | Err _ => Some ObsErr          (* the wrong number of fields for the option set *)
  | Panic => None
  end.

(* '@every d': d truncated to whole seconds, at least one second (nanoseconds) *)
Definition doc_every (d_ns : Z) : Z := Z.max 1 (d_ns / ns_per_s) * ns_per_s.

(* A descriptor is the WHOLE remaining spec: one of the predefined names, each standing for
   the six-field expression doc.go lists for it, or "@every " followed by ONE duration as
   time.ParseDuration reads it (oracle [du]: its result on everything after "@every ").
   Anything else that starts with '@' - unknown names, other capitalisation, words after the
   descriptor, a second duration word - is refused. *)
Definition six_fields : Z := 1 + 4 + 8 + 16 + 32 + 64.
Definition doc_expr (e : list N) : parse_obs :=
  match doc_fields_out six_fields e with Some o => o | None => ObsErr end.

Definition doc_descriptor (du : option Z) (d : list N) : parse_obs :=
  if eqb_listN d (bs "@yearly") || eqb_listN d (bs "@annually") then doc_expr (bs "0 0 0 1 1 *")
  else if eqb_listN d (bs "@monthly") then doc_expr (bs "0 0 0 1 * *")
  else if eqb_listN d (bs "@weekly") then doc_expr (bs "0 0 0 * * 0")
  else if eqb_listN d (bs "@daily") || eqb_listN d (bs "@midnight") then doc_expr (bs "0 0 0 * * *")
  else if eqb_listN d (bs "@hourly") then doc_expr (bs "0 0 * * * *")
  else if prefixb (bs "@every ") d
       then match du with Some ns => ObsEvery (doc_every ns) | None => ObsErr end
  else ObsErr.

(* the spec after the optional TZ prefix *)
Definition parse_doc_body (opts : Z) (du : option Z) (rest : list N) : option parse_obs :=
  if prefixb (bs "@") rest
  then Some (if has opts o_descriptor then doc_descriptor du rest else ObsErr)
  else doc_fields_out opts rest.

(* The whole spec. [zo]: the result of time.LoadLocation on the name of the TZ=/CRON_TZ= prefix
   (None = unknown zone); a prefix with no following field list is refused (current tree). *)
Definition parse_doc_out (opts : Z) (zo : option zone) (du : option Z) (spec : list N)
  : option parse_obs :=
  if new_parser_panics opts then None
  else
    match spec with
    | [] => Some ObsErr
    | _ =>
        if has_tz_prefix spec then
          match strip_tz Fixed (fun _ => zo) spec with
          | Ok (_, rest) => parse_doc_body opts du rest
          | Err _ => Some ObsErr
          | Panic => None
          end
        else parse_doc_body opts du spec
    end.

(* 2: the observation is not what the documented grammar demands; else 1: it differs from
   the model; else 0 *)
Definition check_parse (c : parse_case) : Z :=
  match parse_doc_out (pc_opts c) (pc_zone c) (pc_dur c) (pc_spec c) with
  | Some o => if parse_obs_eqb o (pc_obs c)
              then (if parse_obs_eqb (parse_model_out c) (pc_obs c) then 0 else 1)
              else 2
  | None => if parse_obs_eqb (parse_model_out c) (pc_obs c) then 0 else 1
  end.

Definition check_parse_case (v : variant) (opts : Z) (spec : list N)
    (zone_oracle : option zone) (dur_oracle : option Z) (observed : parse_obs) : Z :=
  check_parse (mkParseCase v opts spec zone_oracle dur_oracle observed).

(* the argument the model passes to the LoadLocation / ParseDuration oracle, so that a
   harness can double-check it asked the right question (None = oracle not consulted) *)
Definition tz_name_asked (spec : list N) : option (list N) :=
  if has_tz_prefix spec then
    match go_slice (E:=unit) spec (go_index 61 spec + 1) (go_index 32 spec) with
    | Ok name => Some name
    | _ => None
    end
  else None.

Definition duration_asked (v : variant) (opts : Z) (zone_oracle : option zone) (spec : list N)
  : option (list N) :=
  match spec with
  | [] => None
  | _ =>
      match strip_tz v (fun _ => zone_oracle) spec with
      | Ok (_, rest) =>
          if has opts o_descriptor && prefixb (bs "@every ") rest then Some (skipn 7 rest)
          else None
      | _ => None
      end
  end.

(* ------------------------------------------------------------------------------------ *)
(* next cases                                                                            *)

Record next_case := mkNextCase {
  nc_bits : bits6;
  nc_zone : zone;
  nc_t : Z;                      (* unix second (floor) of the argument of Next *)
  nc_obs : option Z }.           (* unix second of the result; None = zero time *)

(* The model is run with 2^22 loop tests instead of next_model's 2^34: every result it
   reaches is next_model's result (Proofs_Ref.next_model_fuel_result), and a model that spins
   (day-skip shape) costs minutes instead of days. *)
Definition check_fuel : nat := 22.

Definition next_model_fuel (n : nat) (b : bits6) (z : zone) (t : Z) : next_result :=
  let t1 := t + 1 in
  match iter_pow2 b z (w_year (fields z t1) + 5) n (mkSt PWrap t1 false) with
  | inl _ => OutOfFuel
  | inr r => r
  end.

Definition next_model_out (c : next_case) : next_result :=
  next_model_fuel check_fuel (nc_bits c) (nc_zone c) (nc_t c).

Definition next_spec_out (c : next_case) : option Z :=
  next_ref_fast (dsched_of_bits (nc_bits c)) (nc_zone c) (nc_t c).

Definition option_Z_eqb (x y : option Z) : bool :=
  match x, y with
  | Some a, Some b => a =? b
  | None, None => true
  | _, _ => false
  end.

Definition next_result_eqb (x y : next_result) : bool :=
  match x, y with
  | NextAt a, NextAt b => a =? b
  | NextZero, NextZero => true
  | OutOfFuel, OutOfFuel => true
  | _, _ => false
  end.

(* the oracle: the observed value is what the documented meaning demands *)
Definition next_oracle (c : next_case) : bool := option_Z_eqb (nc_obs c) (next_spec_out c).

(* 0: the observation is the specification's value and the model's value.
   1: it is the specification's value but not the model's.
   2: it is NOT the specification's value, and the faithful model does the same as the
      implementation - the recorded defect as modelled (may match a known finding).
   3: it is NOT the specification's value and the model does something else - never a known
      finding. Also 3, whatever the model does, when the supplied table is BENIGN
      ([dst_benign], Benign.v): there the model is PROVED to return the specification's value
      (C04_next_dst_benign), so the recorded daylight-saving defects cannot be the cause. *)
Definition check_next (c : next_case) : Z :=
  let agrees := next_result_eqb (next_model_out c) (result_of_option (nc_obs c)) in
  if negb (next_oracle c) then (if agrees && negb (dst_benign (nc_zone c)) then 2 else 3)
  else if negb agrees then 1
  else 0.

Definition check_next_case (sec min hour dom month dow : N) (z : zone) (t : Z)
    (observed : option Z) : Z :=
  check_next (mkNextCase (mkBits sec min hour dom month dow) z t observed).

(* A call of Next that did NOT return (harness: no result within its deadline; the
   specification always demands a result or the zero time, so this is an oracle failure by
   itself). The model "does the same" when it reaches, within 2^15 loop tests, a state that
   one more test maps to itself - then it never leaves it and next_model is OutOfFuel
   (Proofs_Ref.model_stuck_sound). 2: the model is stuck too (the recorded day-skip defect as
   modelled); 3: it is not. *)
Definition st_eqb (a b : st) : bool :=
  (match s_pc a, s_pc b with
   | PWrap, PWrap | PMonth, PMonth | PDay, PDay | PHour, PHour | PMinute, PMinute
   | PSecond, PSecond => true
   | _, _ => false
   end) && (s_t a =? s_t b) && Bool.eqb (s_added a) (s_added b).

Definition stuck_fuel : nat := 15.

Definition model_stuck (b : bits6) (z : zone) (t : Z) : bool :=
  let t1 := t + 1 in
  let lim := w_year (fields z t1) + 5 in
  match iter_pow2 b z lim stuck_fuel (mkSt PWrap t1 false) with
  | inl s => match step b z lim s with inl s' => st_eqb s' s | inr _ => false end
  | inr _ => false
  end.

Definition check_next_hang_case (sec min hour dom month dow : N) (z : zone) (t : Z) : Z :=
  if model_stuck (mkBits sec min hour dom month dow) z t then 2 else 3.

(* the table conditions under which [next_ref_fast] is proved equal to [next_ref];
   a harness should assert this is [true] for every table it prints *)
Definition table_ok (z : zone) : bool := zone_ok z.
