(* C04 / Proofs_Dst2.v — SpecSchedule.Next on benign daylight-saving tables: the invariant of
   the step machine, termination, and the theorem (continues Proofs_Dst.v). *)
From Kit.Lib Require Import Base.
From Kit.C04 Require Import Cal Zone Str Parse Next Spec Bridge Benign Proofs_Local Proofs_Fast Proofs_Next.
From Kit.C04 Require Import Proofs_Ref Proofs_Dst.
From Coq Require Import ZArith NArith Lia Bool List ZifyBool.
Import ListNotations.
Open Scope Z_scope.

Ltac dlia := Z.div_mod_to_equations; lia.

Section Machine.
  Variable b : bits6.
  Variable z : zone.
  Hypothesis Hben : dst_benign z = true.

  Let g := offset_at z.
  Let Bg : benign_fun g := dst_benign_fun z Hben.
  Local Notation Lz := (Proofs_Dst.Lz z).

  Lemma fields_L u : fields z u = wall_of_local (Lz u).
  Proof. reflexivity. Qed.

  (* ---------------------------------------------------------------------------------- *)
  (* the invariant, in UTC order                                                        *)

  Variable t0 : Z.       (* the upcoming second *)
  Variable lim : Z.      (* yearLimit *)
  Let W := wend lim.     (* first LOCAL second after the window *)

  Definition nomatchD (hi : Z) : Prop := forall x, t0 <= x < hi -> M b (Lz x) = false.

  (* the one state below t0: the hour loop truncated into the earlier copy of a repeated
     hour and came back to the start of the later copy *)
  Definition early (s : st) : Prop :=
    s_pc s = PHour /\ s_added s = true /\ mh_ b (Lz (s_t s)) = false /\
    Lz (s_t s) mod 3600 = 0 /\ t0 <= s_t s + 3600.

  Definition pcinvD (p : pc) (L : Z) : Prop :=
    match p with
    | PWrap => True
    | PMonth => L < W
    | PDay => L < W /\ mo_ b (L / 86400) = true
    | PHour => L < W /\ mo_ b (L / 86400) = true /\ md_ b (L / 86400) = true
    | PMinute => L < W /\ mo_ b (L / 86400) = true /\ md_ b (L / 86400) = true /\ mh_ b L = true
    | PSecond => L < W /\ mo_ b (L / 86400) = true /\ md_ b (L / 86400) = true /\ mh_ b L = true /\
                 mm_ b L = true
    end.

  Definition InvD (s : st) : Prop :=
    let t := s_t s in
    let L := Lz t in
    (t0 <= t \/ early s) /\ L <= W + 32 * 86400 /\ nomatchD t /\
    (s_added s = false -> t = t0) /\
    (s_added s = true -> Q b L) /\
    pcinvD (s_pc s) L.

  Definition muD (s : st) : Z :=
    6 * (W + 34 * 86400 - s_t s) + rank (s_pc s) + (if s_added s then 0 else 21700).

  Definition GoodD (r : next_result) : Prop :=
    match r with
    | NextAt u => t0 <= u /\ Lz u < W /\ M b (Lz u) = true /\ nomatchD u
    | NextZero => exists t', t0 <= t' /\ W <= Lz t' /\ nomatchD t'
    | OutOfFuel => False
    end.

  Definition step_okD (s : st) : Prop :=
    match step b z lim s with
    | inl s' => InvD s' /\ muD s' + 1 <= muD s
    | inr r => GoodD r
    end.

  Lemma not_early p t added : p <> PHour -> InvD (mkSt p t added) -> t0 <= t.
  Proof.
    intros Hp (Hr & _). cbn [s_t] in Hr. destruct Hr as [Hr | (Hpc & _)]; [exact Hr|].
    cbn [s_pc] in Hpc. congruence.
  Qed.

  Lemma t_le_L u : u <= Lz u + 86400.
  Proof. pose proof (gsmall g Bg u) as H. unfold g in H. unfold Proofs_Dst.Lz, Lo. lia. Qed.

  Lemma nomatchD_extend t a t' :
    nomatchD t -> a <= t -> (forall x, a <= x < t' -> t0 <= x -> M b (Lz x) = false) -> nomatchD t'.
  Proof.
    intros Hn Ha Hc x Hx. destruct (Z_lt_le_dec x t) as [Hlt | Hge]; [apply Hn; lia|].
    apply Hc; lia.
  Qed.

  Lemma mk_invD p' t' :
    t0 <= t' -> Lz t' <= W + 32 * 86400 -> nomatchD t' -> Q b (Lz t') -> pcinvD p' (Lz t') ->
    InvD (mkSt p' t' true).
  Proof.
    intros H1 H2 H3 H4 H5. unfold InvD. cbn [s_pc s_t s_added].
    split; [left; exact H1|]. split; [exact H2|]. split; [exact H3|].
    split; [discriminate|]. split; [intros _; exact H4 | exact H5].
  Qed.

  (* --- WRAP ------------------------------------------------------------------------- *)
  Lemma stepD_wrap t added : InvD (mkSt PWrap t added) -> step_okD (mkSt PWrap t added).
  Proof.
    intros Hinv. pose proof (not_early PWrap t added ltac:(discriminate) Hinv) as Ht0.
    destruct Hinv as (_ & Hup & Hn & Ha & Hq & _). cbn [s_pc s_t s_added] in *.
    unfold step_okD, step. cbn [s_pc s_t s_added]. rewrite fields_L, w_year_local.
    set (L := Lz t) in *.
    destruct (lim <? cy (L / 86400)) eqn:E.
    - cbn [GoodD]. exists t. assert (W <= L) by (apply year_gt_iff; lia). tauto.
    - assert (~ W <= L) by (intro Hc; apply year_gt_iff in Hc; lia).
      unfold InvD, muD. cbn [s_pc s_t s_added rank pcinvD]. fold L.
      split; [|destruct added; lia].
      split; [left; exact Ht0|]. split; [exact Hup|]. split; [exact Hn|].
      split; [exact Ha|]. split; [exact Hq | lia].
  Qed.

  (* --- second loop ------------------------------------------------------------------ *)
  Lemma stepD_second t added : InvD (mkSt PSecond t added) -> step_okD (mkSt PSecond t added).
  Proof.
    intros Hinv. pose proof (not_early PSecond t added ltac:(discriminate) Hinv) as Ht0.
    destruct Hinv as (_ & Hup & Hn & Ha & Hq & HW & Hmo & Hmd & Hmh & Hmm).
    cbn [s_pc s_t s_added] in *.
    unfold step_okD, step. cbn [s_pc s_t s_added]. rewrite fields_L, w_sec_local.
    set (L := Lz t) in *. fold (ms_ b L).
    destruct (ms_ b L) eqn:Ems.
    - cbn [GoodD]. fold L. split; [exact Ht0|]. split; [exact HW|]. split; [|exact Hn].
      unfold M. rewrite Ems, Hmm, Hmh, Hmo, Hmd. reflexivity.
    - unfold truncate_second, add.
      replace (if added then t else t) with t by (destruct added; reflexivity).
      rewrite fields_L, w_sec_local.
      destruct (step_aligned g Bg 1 t ltac:(lia) ltac:(apply Z.mod_1_r)) as (d & HL' & Hd).
      change (Lo g (t + 1)) with (Lz (t + 1)) in HL'. change (Lo g t) with L in HL', Hd.
      pose proof (arith_sec_d L d Hd) as (A0 & A60 & A3600 & AD & Asame). cbv zeta in *.
      rewrite <- HL' in *. set (L' := Lz (t + 1)) in *.
      assert (Hn' : nomatchD (t + 1)).
      { apply (nomatchD_extend t t (t + 1) Hn); [lia|].
        intros x Hx _. replace x with t by lia. fold L. apply M_false_ms. exact Ems. }
      assert (HQ : Q b L').
      { unfold Q. split; [|split].
        - intros Hf. apply A60. intro Hc. apply (mm_same b) in Hc. congruence.
        - intros Hf. apply A3600. intro Hc. apply (mh_same b) in Hc. congruence.
        - apply (Q_daypart b L L' Hmo Hmd AD). }
      assert (Hup' : L' <= W + 32 * 86400) by (unfold jump_at in Hd; lia).
      destruct (L' mod 60 =? 0) eqn:E0.
      + split; [apply (mk_invD PWrap (t + 1)); try assumption; [lia | exact I]|].
        unfold muD. cbn [s_pc s_t s_added rank]. destruct added; lia.
      + assert (d = 0) by (apply Asame; lia). subst d.
        pose proof (arith_sec L) as (_ & _ & _ & Asame'). 
        destruct Asame' as (S60 & S3600 & SD); [lia|].
        replace (L + 1 + 0) with (L + 1) in HL' by lia.
        split; [|unfold muD; cbn [s_pc s_t s_added rank]; destruct added; lia].
        apply (mk_invD PSecond (t + 1)); try assumption; [lia|].
        cbn [pcinvD]. fold L'. rewrite HL', SD, (mh_same b _ _ S3600), (mm_same b _ _ S60).
        repeat split; try assumption.
        (* still inside the window: same day as L *)
        unfold W in *. pose proof (year_gt_iff lim L) as Y1. pose proof (year_gt_iff lim (L + 1)) as Y2.
        rewrite SD in Y2. lia.
  Qed.

  (* --- minute loop ------------------------------------------------------------------ *)
  Lemma stepD_minute t added : InvD (mkSt PMinute t added) -> step_okD (mkSt PMinute t added).
  Proof.
    intros Hinv. pose proof (not_early PMinute t added ltac:(discriminate) Hinv) as Ht0.
    destruct Hinv as (_ & Hup & Hn & Ha & Hq & HW & Hmo & Hmd & Hmh).
    cbn [s_pc s_t s_added] in *.
    unfold step_okD, step. cbn [s_pc s_t s_added]. rewrite fields_L, w_min_local.
    set (L := Lz t) in *. fold (mm_ b L).
    destruct (mm_ b L) eqn:Emm.
    - unfold InvD, muD. cbn [s_pc s_t s_added rank pcinvD]. fold L.
      split; [|lia]. split; [left; exact Ht0|]. split; [exact Hup|]. split; [exact Hn|].
      split; [exact Ha|]. split; [exact Hq | tauto].
    - unfold add. rewrite fields_L, w_min_local.
      set (t1 := if added then t else truncate_minute t).
      pose proof (g60 g Bg t) as G60. unfold g in G60.
      assert (HLt : L = t + offset_at z t) by reflexivity.
      assert (Ht1 : t1 = t - L mod 60).
      { unfold t1. destruct added.
        - destruct (Hq eq_refl) as (q1 & _). rewrite (q1 Emm). lia.
        - unfold truncate_minute. rewrite HLt. dlia. }
      assert (HL1 : Lz t1 = L / 60 * 60).
      { rewrite Ht1. change (Lz (t - L mod 60)) with (Lo g (t - Lo g t mod 60)).
        rewrite (cell_start g Bg 60 t ltac:(lia)). change (Lo g t) with L. dlia. }
      assert (Hal : Lo g t1 mod 60 = 0).
      { change (Lo g t1) with (Lz t1). rewrite HL1. apply Z.mod_mul. lia. }
      destruct (step_aligned g Bg 60 t1 ltac:(lia) Hal) as (d & HL' & Hd).
      change (Lo g (t1 + 60)) with (Lz (t1 + 60)) in HL'. change (Lo g t1) with (Lz t1) in HL', Hd.
      rewrite HL1 in HL', Hd. fold (jump_at (L / 60 * 60 + 60) d) in Hd.
      pose proof (arith_min_d L d Hd) as (A60 & A3600 & AD & Asame). cbv zeta in *.
      rewrite <- HL' in *. set (L' := Lz (t1 + 60)) in *.
      assert (Hle1 : t1 <= t) by dlia.
      assert (Hn' : nomatchD (t1 + 60)).
      { apply (nomatchD_extend t t1 (t1 + 60) Hn Hle1).
        intros x Hx _. apply M_false_mm.
        pose proof (cell_run g Bg 60 t1 ltac:(lia) Hal x Hx) as Hrun.
        change (Lo g x) with (Lz x) in Hrun. change (Lo g t1) with (Lz t1) in Hrun.
        rewrite HL1 in Hrun. rewrite (mm_same b (Lz x) L); [exact Emm | dlia]. }
      assert (HQ : Q b L').
      { unfold Q. split; [|split].
        - intros _. exact A60.
        - intros Hf. apply A3600. intro Hc. apply (mh_same b) in Hc. congruence.
        - apply (Q_daypart b L L' Hmo Hmd AD). }
      assert (Hup' : L' <= W + 32 * 86400) by (unfold jump_at in Hd; dlia).
      assert (Hgt : t < t1 + 60) by dlia.
      destruct ((L' / 60) mod 60 =? 0) eqn:E0.
      + split; [apply (mk_invD PWrap (t1 + 60)); try assumption; [lia | exact I]|].
        unfold muD. cbn [s_pc s_t s_added rank]. destruct added; lia.
      + assert (d = 0) by (apply Asame; lia). subst d.
        pose proof (arith_min L) as (_ & _ & _ & _ & Asame' & _). cbv zeta in Asame'.
        replace (L / 60 * 60 + 60 + 0) with (L / 60 * 60 + 60) in HL' by lia.
        destruct Asame' as (S3600 & SD); [rewrite <- HL'; lia|].
        split; [|unfold muD; cbn [s_pc s_t s_added rank]; destruct added; lia].
        apply (mk_invD PMinute (t1 + 60)); try assumption; [lia|].
        cbn [pcinvD]. fold L'. rewrite HL', SD, (mh_same b _ _ S3600).
        repeat split; try assumption.
        unfold W in *. pose proof (year_gt_iff lim L) as Y1.
        pose proof (year_gt_iff lim (L / 60 * 60 + 60)) as Y2. rewrite SD in Y2. lia.
  Qed.

  (* --- hour loop -------------------------------------------------------------------- *)
  Lemma stepD_hour t added : InvD (mkSt PHour t added) -> step_okD (mkSt PHour t added).
  Proof.
    intros (Hr & Hup & Hn & Ha & Hq & HW & Hmo & Hmd). cbn [s_pc s_t s_added] in *.
    unfold step_okD, step. cbn [s_pc s_t s_added].
    rewrite fields_L, w_hour_local, w_year_local, w_month_local, w_day_local.
    set (L := Lz t) in *. fold (mh_ b L).
    destruct (mh_ b L) eqn:Emh.
    - assert (Ht0 : t0 <= t).
      { destruct Hr as [H | (_ & _ & Hf & _)]; [exact H|]. cbn [s_t] in Hf. fold L in Hf. congruence. }
      unfold InvD, muD. cbn [s_pc s_t s_added rank pcinvD]. fold L.
      split; [|lia]. split; [left; exact Ht0|]. split; [exact Hup|]. split; [exact Hn|].
      split; [exact Ha|]. split; [exact Hq | tauto].
    - unfold add. rewrite fields_L, w_hour_local.
      set (t1 := if added then t else go_date z _ _ _ _ 0 0).
      set (a := t - L mod 3600). set (Hs := L - L mod 3600).
      assert (HsE : Hs = L / 3600 * 3600) by (unfold Hs; dlia).
      assert (HLa : Lz a = Hs).
      { unfold a, Hs. change (Lz (t - L mod 3600)) with (Lo g (t - Lo g t mod 3600)).
        rewrite (cell_start g Bg 3600 t ltac:(lia)). reflexivity. }
      assert (H1 : Lz t1 = Hs /\
                   (t1 = a \/ ((t1 = a - 3600 \/ t1 = a + 3600) /\ added = false /\
                               3600 <= Hs mod 86400 <= 79200))).
      { unfold t1. destruct added.
        - destruct (Hq eq_refl) as (_ & q2 & _). pose proof (q2 Emh) as Hal0.
          assert (a = t) by (unfold a; lia). split; [|left; lia].
          unfold Hs. fold L. lia.
        - rewrite (go_date_hour_pre z Hben L).
          destruct (hour_start g Bg t) as (P1 & P2). cbv zeta in P1, P2.
          change (Lo g t) with L in P1, P2. fold Hs in P1, P2. fold a in P2.
          split; [exact P1|]. destruct P2 as [P2 | (P2 & P3)]; [left; exact P2 | right; tauto]. }
      destruct H1 as (HL1 & Hcase).
      assert (Hal : Lo g t1 mod 3600 = 0).
      { change (Lo g t1) with (Lz t1). rewrite HL1, HsE. apply Z.mod_mul. lia. }
      assert (Hala : Lo g a mod 3600 = 0).
      { change (Lo g a) with (Lz a). rewrite HLa, HsE. apply Z.mod_mul. lia. }
      destruct (step_aligned g Bg 3600 t1 ltac:(lia) Hal) as (d & HL' & Hd).
      change (Lo g (t1 + 3600)) with (Lz (t1 + 3600)) in HL'.
      change (Lo g t1) with (Lz t1) in HL', Hd. rewrite HL1, HsE in HL', Hd.
      fold (jump_at (L / 3600 * 3600 + 3600) d) in Hd.
      pose proof (arith_hour_d L d Hd) as (A60 & A3600 & AD & Asame & Ale). cbv zeta in *.
      rewrite <- HL' in *. set (L' := Lz (t1 + 3600)) in *.
      assert (Hat : a <= t < a + 3600) by (unfold a; dlia).
      assert (Hn' : nomatchD (t1 + 3600)).
      { apply (nomatchD_extend t a (t1 + 3600) Hn ltac:(lia)).
        intros x Hx _. apply M_false_mh.
        destruct (Z_lt_le_dec x (a + 3600)) as [Hxa | Hxa].
        - pose proof (cell_run g Bg 3600 a ltac:(lia) Hala x ltac:(lia)) as Hrun.
          change (Lo g x) with (Lz x) in Hrun. change (Lo g a) with (Lz a) in Hrun.
          rewrite HLa, HsE in Hrun. rewrite (mh_same b (Lz x) L); [exact Emh | dlia].
        - assert (Ht1 : t1 = a + 3600) by (destruct Hcase as [-> | ([-> | ->] & _)]; lia).
          pose proof (cell_run g Bg 3600 t1 ltac:(lia) Hal x ltac:(lia)) as Hrun.
          change (Lo g x) with (Lz x) in Hrun. change (Lo g t1) with (Lz t1) in Hrun.
          rewrite HL1, HsE in Hrun. rewrite (mh_same b (Lz x) L); [exact Emh | dlia]. }
      assert (HQ : Q b L').
      { unfold Q. split; [|split].
        - intros _. exact A60.
        - intros _. exact A3600.
        - apply (Q_daypart b L L' Hmo Hmd AD). }
      assert (Hup' : L' <= W + 32 * 86400) by lia.
      (* where the new instant lies *)
      assert (Hrange : (t0 <= t1 + 3600 /\ (added = true -> t1 = t)) \/
                       (t1 = a - 3600 /\ added = false)).
      { destruct Hcase as [E | ([E | E] & Hadd & _)].
        - left. split.
          + destruct Hr as [H | (_ & _ & _ & Hal0 & H)]; [lia|]. cbn [s_t] in Hal0, H.
            fold L in Hal0. assert (a = t) by (unfold a; lia). lia.
          + intros Hadd. unfold t1. rewrite Hadd. reflexivity.
        - right. tauto.
        - left. split; [|congruence].
          destruct Hr as [H | (_ & Hadd' & _)]; [lia|]. cbn [s_added] in Hadd'. congruence. }
      assert (Hmu : forall p', rank p' <= 5 ->
                muD (mkSt p' (t1 + 3600) true) + 1 <= muD (mkSt PHour t added)).
      { intros p' Hp'. unfold muD. cbn [s_pc s_t s_added rank].
        destruct Hrange as [(_ & Hadd) | (E & Hadd)].
        - destruct added; [rewrite (Hadd eq_refl); lia|].
          destruct Hcase as [E | ([E | E] & _)]; lia.
        - rewrite Hadd. lia. }
      destruct ((L' / 3600) mod 24 =? 0) eqn:E0.
      + split; [|apply Hmu; cbn; lia].
        destruct Hrange as [(Hge & _) | (E & Hadd)].
        * apply (mk_invD PWrap (t1 + 3600)); try assumption. exact I.
        * (* impossible: the repeated hour is not the hour after midnight *)
          exfalso. destruct Hcase as [E' | (_ & _ & Hmid)]; [lia|].
          assert (L' = Hs) by (unfold L'; rewrite E; replace (a - 3600 + 3600) with a by lia; exact HLa).
          dlia.
      + assert (SD : L' / 86400 = L / 86400) by (apply Asame; lia).
        assert (HpcI : pcinvD PHour L').
        { cbn [pcinvD]. rewrite SD. repeat split; try assumption.
          unfold W in *. pose proof (year_gt_iff lim L) as Y1. pose proof (year_gt_iff lim L') as Y2.
          rewrite SD in Y2. lia. }
        split; [|apply Hmu; cbn; lia].
        destruct Hrange as [(Hge & _) | (E & Hadd)].
        * apply (mk_invD PHour (t1 + 3600)); assumption.
        * (* back at the start of the later copy of the repeated hour *)
          assert (EL : L' = Hs) by (unfold L'; rewrite E; replace (a - 3600 + 3600) with a by lia; exact HLa).
          unfold InvD. cbn [s_pc s_t s_added]. fold L'.
          split.
          { right. unfold early. cbn [s_pc s_t s_added]. fold L'.
            split; [reflexivity|]. split; [reflexivity|].
            split; [rewrite (mh_same b L' L); [exact Emh | rewrite EL; dlia]|].
            split; [exact A3600|]. rewrite (Ha Hadd) in Hat. lia. }
          split; [exact Hup'|]. split; [exact Hn'|]. split; [discriminate|].
          split; [intros _; exact HQ | exact HpcI].
  Qed.
End Machine.
