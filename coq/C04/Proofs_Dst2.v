(* C04 / Proofs_Dst2.v — SpecSchedule.Next on benign daylight-saving tables: the invariant of
   the step machine, termination, and the theorem (continues Proofs_Dst.v). *)
From Kit.Lib Require Import Base.
From Kit.C04 Require Import Cal Zone Str Parse Next Spec Bridge Benign Proofs_Local Proofs_Fast Proofs_Next.
From Kit.C04 Require Import Proofs_Ref Proofs_Dst.
From Coq Require Import ZArith NArith Lia Bool List ZifyBool.
Import ListNotations.
Open Scope Z_scope.

Ltac dlia := Z.div_mod_to_equations; lia.

Section Machine.
  Variable b : bits6.
  Variable z : zone.
  Hypothesis Hben : dst_benign z = true.

  Let g := offset_at z.
  Let Bg : benign_fun g := dst_benign_fun z Hben.
  Local Notation Lz := (Proofs_Dst.Lz z).

  Lemma fields_L u : fields z u = wall_of_local (Lz u).
  Proof. reflexivity. Qed.

  (* the date lemmas of Proofs_Dst.v, with the section's name for the offset function *)
  Lemma gd_hour L : go_date z (cy (L / 86400)) (cm (L / 86400)) (cd (L / 86400)) ((L / 3600) mod 24) 0 0 =
                    pre g (L - L mod 3600).
  Proof. exact (go_date_hour_pre z Hben L). Qed.
  Lemma gd_day D : go_date z (cy D) (cm D) (cd D) 0 0 0 = pre g (D * 86400).
  Proof. exact (go_date_day_pre z Hben D). Qed.
  Lemma gd_month D : go_date z (cy D) (cm D) 1 0 0 0 = pre g (month_start (mkey D) * 86400).
  Proof. exact (go_date_month_pre z Hben D). Qed.
  Lemma ad_day a D : Lz a = D * 86400 -> add_date z a 0 0 1 = pre g ((D + 1) * 86400).
  Proof. exact (add_date_day_pre z Hben a D). Qed.
  Lemma ad_month a k : Lz a = month_start k * 86400 ->
    add_date z a 0 1 0 = pre g (month_start (k + 1) * 86400).
  Proof. exact (add_date_month_pre z Hben a k). Qed.

  (* ---------------------------------------------------------------------------------- *)
  (* the invariant, in UTC order                                                        *)

  Variable t0 : Z.       (* the upcoming second *)
  Variable lim : Z.      (* yearLimit *)
  Let W := wend lim.     (* first LOCAL second after the window *)

  Definition nomatchD (hi : Z) : Prop := forall x, t0 <= x < hi -> M b (Lz x) = false.

  (* the one state below t0: the hour loop truncated into the earlier copy of a repeated
     hour and came back to the start of the later copy *)
  Definition early (s : st) : Prop :=
    s_pc s = PHour /\ s_added s = true /\ mh_ b (Lz (s_t s)) = false /\
    Lz (s_t s) mod 3600 = 0 /\ t0 <= s_t s + 3600.

  Definition pcinvD (p : pc) (L : Z) : Prop :=
    match p with
    | PWrap => True
    | PMonth => L < W
    | PDay => L < W /\ mo_ b (L / 86400) = true
    | PHour => L < W /\ mo_ b (L / 86400) = true /\ md_ b (L / 86400) = true
    | PMinute => L < W /\ mo_ b (L / 86400) = true /\ md_ b (L / 86400) = true /\ mh_ b L = true
    | PSecond => L < W /\ mo_ b (L / 86400) = true /\ md_ b (L / 86400) = true /\ mh_ b L = true /\
                 mm_ b L = true
    end.

  Definition InvD (s : st) : Prop :=
    let t := s_t s in
    let L := Lz t in
    (t0 <= t \/ early s) /\ L <= W + 32 * 86400 /\ nomatchD t /\
    (s_added s = false -> t = t0) /\
    (s_added s = true -> Q b L) /\
    pcinvD (s_pc s) L.

  Definition muD (s : st) : Z :=
    6 * (W + 34 * 86400 - s_t s) + rank (s_pc s) + (if s_added s then 0 else 21700).

  Definition GoodD (r : next_result) : Prop :=
    match r with
    | NextAt u => t0 <= u /\ Lz u < W /\ M b (Lz u) = true /\ nomatchD u
    | NextZero => exists t', t0 <= t' /\ W <= Lz t' /\ nomatchD t'
    | OutOfFuel => False
    end.

  Definition step_okD (s : st) : Prop :=
    match step b z lim s with
    | inl s' => InvD s' /\ muD s' + 1 <= muD s
    | inr r => GoodD r
    end.

  Lemma not_early p t added : p <> PHour -> InvD (mkSt p t added) -> t0 <= t.
  Proof.
    intros Hp (Hr & _). cbn [s_t] in Hr. destruct Hr as [Hr | (Hpc & _)]; [exact Hr|].
    cbn [s_pc] in Hpc. congruence.
  Qed.

  Lemma t_le_L u : u <= Lz u + 86400.
  Proof. pose proof (gsmall g Bg u) as H. unfold g in H. unfold Proofs_Dst.Lz, Lo. lia. Qed.

  Lemma nomatchD_extend t a t' :
    nomatchD t -> a <= t -> (forall x, a <= x < t' -> t0 <= x -> M b (Lz x) = false) -> nomatchD t'.
  Proof.
    intros Hn Ha Hc x Hx. destruct (Z_lt_le_dec x t) as [Hlt | Hge]; [apply Hn; lia|].
    apply Hc; lia.
  Qed.

  Lemma mk_invD p' t' :
    t0 <= t' -> Lz t' <= W + 32 * 86400 -> nomatchD t' -> Q b (Lz t') -> pcinvD p' (Lz t') ->
    InvD (mkSt p' t' true).
  Proof.
    intros H1 H2 H3 H4 H5. unfold InvD. cbn [s_pc s_t s_added].
    split; [left; exact H1|]. split; [exact H2|]. split; [exact H3|].
    split; [discriminate|]. split; [intros _; exact H4 | exact H5].
  Qed.

  (* --- WRAP ------------------------------------------------------------------------- *)
  Lemma stepD_wrap t added : InvD (mkSt PWrap t added) -> step_okD (mkSt PWrap t added).
  Proof.
    intros Hinv. pose proof (not_early PWrap t added ltac:(discriminate) Hinv) as Ht0.
    destruct Hinv as (_ & Hup & Hn & Ha & Hq & _). cbn [s_pc s_t s_added] in *.
    unfold step_okD, step. cbn [s_pc s_t s_added]. rewrite fields_L, w_year_local.
    set (L := Lz t) in *.
    destruct (lim <? cy (L / 86400)) eqn:E.
    - cbn [GoodD]. exists t. assert (W <= L) by (apply year_gt_iff; lia). tauto.
    - assert (~ W <= L) by (intro Hc; apply year_gt_iff in Hc; lia).
      unfold InvD, muD. cbn [s_pc s_t s_added rank pcinvD]. fold L.
      split; [|destruct added; lia].
      split; [left; exact Ht0|]. split; [exact Hup|]. split; [exact Hn|].
      split; [exact Ha|]. split; [exact Hq | lia].
  Qed.

  (* --- second loop ------------------------------------------------------------------ *)
  Lemma stepD_second t added : InvD (mkSt PSecond t added) -> step_okD (mkSt PSecond t added).
  Proof.
    intros Hinv. pose proof (not_early PSecond t added ltac:(discriminate) Hinv) as Ht0.
    destruct Hinv as (_ & Hup & Hn & Ha & Hq & HW & Hmo & Hmd & Hmh & Hmm).
    cbn [s_pc s_t s_added] in *.
    unfold step_okD, step. cbn [s_pc s_t s_added]. rewrite fields_L, w_sec_local.
    set (L := Lz t) in *. fold (ms_ b L).
    destruct (ms_ b L) eqn:Ems.
    - cbn [GoodD]. fold L. split; [exact Ht0|]. split; [exact HW|]. split; [|exact Hn].
      unfold M. rewrite Ems, Hmm, Hmh, Hmo, Hmd. reflexivity.
    - unfold truncate_second, add.
      replace (if added then t else t) with t by (destruct added; reflexivity).
      rewrite fields_L, w_sec_local.
      destruct (step_aligned g Bg 1 t ltac:(lia) ltac:(apply Z.mod_1_r)) as (d & HL' & Hd).
      change (Lo g (t + 1)) with (Lz (t + 1)) in HL'. change (Lo g t) with L in HL', Hd.
      pose proof (arith_sec_d L d Hd) as (A0 & A60 & A3600 & AD & Asame). cbv zeta in *.
      rewrite <- HL' in *. set (L' := Lz (t + 1)) in *.
      assert (Hn' : nomatchD (t + 1)).
      { apply (nomatchD_extend t t (t + 1) Hn); [lia|].
        intros x Hx _. replace x with t by lia. fold L. apply M_false_ms. exact Ems. }
      assert (HQ : Q b L').
      { unfold Q. split; [|split].
        - intros Hf. apply A60. intro Hc. apply (mm_same b) in Hc. congruence.
        - intros Hf. apply A3600. intro Hc. apply (mh_same b) in Hc. congruence.
        - apply (Q_daypart b L L' Hmo Hmd AD). }
      assert (Hup' : L' <= W + 32 * 86400) by (unfold jump_at in Hd; lia).
      destruct (L' mod 60 =? 0) eqn:E0.
      + split; [apply (mk_invD PWrap (t + 1)); try assumption; [lia | exact I]|].
        unfold muD. cbn [s_pc s_t s_added rank]. destruct added; lia.
      + assert (d = 0) by (apply Asame; lia). subst d.
        pose proof (arith_sec L) as (_ & _ & _ & Asame'). 
        destruct Asame' as (S60 & S3600 & SD); [lia|].
        replace (L + 1 + 0) with (L + 1) in HL' by lia.
        split; [|unfold muD; cbn [s_pc s_t s_added rank]; destruct added; lia].
        apply (mk_invD PSecond (t + 1)); try assumption; [lia|].
        cbn [pcinvD]. fold L'. rewrite HL', SD, (mh_same b _ _ S3600), (mm_same b _ _ S60).
        repeat split; try assumption.
        (* still inside the window: same day as L *)
        unfold W in *. pose proof (year_gt_iff lim L) as Y1. pose proof (year_gt_iff lim (L + 1)) as Y2.
        rewrite SD in Y2. lia.
  Qed.

  (* --- minute loop ------------------------------------------------------------------ *)
  Lemma stepD_minute t added : InvD (mkSt PMinute t added) -> step_okD (mkSt PMinute t added).
  Proof.
    intros Hinv. pose proof (not_early PMinute t added ltac:(discriminate) Hinv) as Ht0.
    destruct Hinv as (_ & Hup & Hn & Ha & Hq & HW & Hmo & Hmd & Hmh).
    cbn [s_pc s_t s_added] in *.
    unfold step_okD, step. cbn [s_pc s_t s_added]. rewrite fields_L, w_min_local.
    set (L := Lz t) in *. fold (mm_ b L).
    destruct (mm_ b L) eqn:Emm.
    - unfold InvD, muD. cbn [s_pc s_t s_added rank pcinvD]. fold L.
      split; [|lia]. split; [left; exact Ht0|]. split; [exact Hup|]. split; [exact Hn|].
      split; [exact Ha|]. split; [exact Hq | tauto].
    - unfold add. rewrite fields_L, w_min_local.
      set (t1 := if added then t else truncate_minute t).
      pose proof (g60 g Bg t) as G60. unfold g in G60.
      assert (HLt : L = t + offset_at z t) by reflexivity.
      assert (Ht1 : t1 = t - L mod 60).
      { unfold t1. destruct added.
        - destruct (Hq eq_refl) as (q1 & _). rewrite (q1 Emm). lia.
        - unfold truncate_minute. rewrite HLt. dlia. }
      assert (HL1 : Lz t1 = L / 60 * 60).
      { rewrite Ht1. change (Lz (t - L mod 60)) with (Lo g (t - Lo g t mod 60)).
        rewrite (cell_start g Bg 60 t ltac:(lia)). change (Lo g t) with L. dlia. }
      assert (Hal : Lo g t1 mod 60 = 0).
      { change (Lo g t1) with (Lz t1). rewrite HL1. apply Z.mod_mul. lia. }
      destruct (step_aligned g Bg 60 t1 ltac:(lia) Hal) as (d & HL' & Hd).
      change (Lo g (t1 + 60)) with (Lz (t1 + 60)) in HL'. change (Lo g t1) with (Lz t1) in HL', Hd.
      rewrite HL1 in HL', Hd. fold (jump_at (L / 60 * 60 + 60) d) in Hd.
      pose proof (arith_min_d L d Hd) as (A60 & A3600 & AD & Asame). cbv zeta in *.
      rewrite <- HL' in *. set (L' := Lz (t1 + 60)) in *.
      assert (Hle1 : t1 <= t) by dlia.
      assert (Hn' : nomatchD (t1 + 60)).
      { apply (nomatchD_extend t t1 (t1 + 60) Hn Hle1).
        intros x Hx _. apply M_false_mm.
        pose proof (cell_run g Bg 60 t1 ltac:(lia) Hal x Hx) as Hrun.
        change (Lo g x) with (Lz x) in Hrun. change (Lo g t1) with (Lz t1) in Hrun.
        rewrite HL1 in Hrun. rewrite (mm_same b (Lz x) L); [exact Emm | dlia]. }
      assert (HQ : Q b L').
      { unfold Q. split; [|split].
        - intros _. exact A60.
        - intros Hf. apply A3600. intro Hc. apply (mh_same b) in Hc. congruence.
        - apply (Q_daypart b L L' Hmo Hmd AD). }
      assert (Hup' : L' <= W + 32 * 86400) by (unfold jump_at in Hd; dlia).
      assert (Hgt : t < t1 + 60) by dlia.
      destruct ((L' / 60) mod 60 =? 0) eqn:E0.
      + split; [apply (mk_invD PWrap (t1 + 60)); try assumption; [lia | exact I]|].
        unfold muD. cbn [s_pc s_t s_added rank]. destruct added; lia.
      + assert (d = 0) by (apply Asame; lia). subst d.
        pose proof (arith_min L) as (_ & _ & _ & _ & Asame' & _). cbv zeta in Asame'.
        replace (L / 60 * 60 + 60 + 0) with (L / 60 * 60 + 60) in HL' by lia.
        destruct Asame' as (S3600 & SD); [rewrite <- HL'; lia|].
        split; [|unfold muD; cbn [s_pc s_t s_added rank]; destruct added; lia].
        apply (mk_invD PMinute (t1 + 60)); try assumption; [lia|].
        cbn [pcinvD]. fold L'. rewrite HL', SD, (mh_same b _ _ S3600).
        repeat split; try assumption.
        unfold W in *. pose proof (year_gt_iff lim L) as Y1.
        pose proof (year_gt_iff lim (L / 60 * 60 + 60)) as Y2. rewrite SD in Y2. lia.
  Qed.

  (* --- hour loop -------------------------------------------------------------------- *)
  Lemma stepD_hour t added : InvD (mkSt PHour t added) -> step_okD (mkSt PHour t added).
  Proof.
    intros (Hr & Hup & Hn & Ha & Hq & HW & Hmo & Hmd). cbn [s_pc s_t s_added] in *.
    unfold step_okD, step. cbn [s_pc s_t s_added].
    rewrite fields_L, w_hour_local, w_year_local, w_month_local, w_day_local.
    set (L := Lz t) in *. fold (mh_ b L).
    destruct (mh_ b L) eqn:Emh.
    - assert (Ht0 : t0 <= t).
      { destruct Hr as [H | (_ & _ & Hf & _)]; [exact H|]. cbn [s_t] in Hf. fold L in Hf. congruence. }
      unfold InvD, muD. cbn [s_pc s_t s_added rank pcinvD]. fold L.
      split; [|lia]. split; [left; exact Ht0|]. split; [exact Hup|]. split; [exact Hn|].
      split; [exact Ha|]. split; [exact Hq | tauto].
    - unfold add. rewrite fields_L, w_hour_local.
      set (t1 := if added then t else go_date z _ _ _ _ 0 0).
      set (a := t - L mod 3600). set (Hs := L - L mod 3600).
      assert (HsE : Hs = L / 3600 * 3600) by (unfold Hs; dlia).
      assert (HLa : Lz a = Hs).
      { unfold a, Hs. change (Lz (t - L mod 3600)) with (Lo g (t - Lo g t mod 3600)).
        rewrite (cell_start g Bg 3600 t ltac:(lia)). reflexivity. }
      assert (H1 : Lz t1 = Hs /\
                   (t1 = a \/ ((t1 = a - 3600 \/ t1 = a + 3600) /\ added = false /\
                               3600 <= Hs mod 86400 <= 79200))).
      { unfold t1. destruct added.
        - destruct (Hq eq_refl) as (_ & q2 & _). pose proof (q2 Emh) as Hal0.
          assert (a = t) by (unfold a; lia). split; [|left; lia].
          unfold Hs. fold L. lia.
        - rewrite (gd_hour L).
          destruct (hour_start g Bg t) as (P1 & P2). cbv zeta in P1, P2.
          change (Lo g t) with L in P1, P2. fold Hs in P1, P2. fold a in P2.
          split; [exact P1|]. destruct P2 as [P2 | (P2 & P3)]; [left; exact P2 | right; tauto]. }
      destruct H1 as (HL1 & Hcase).
      assert (Hal : Lo g t1 mod 3600 = 0).
      { change (Lo g t1) with (Lz t1). rewrite HL1, HsE. apply Z.mod_mul. lia. }
      assert (Hala : Lo g a mod 3600 = 0).
      { change (Lo g a) with (Lz a). rewrite HLa, HsE. apply Z.mod_mul. lia. }
      destruct (step_aligned g Bg 3600 t1 ltac:(lia) Hal) as (d & HL' & Hd).
      change (Lo g (t1 + 3600)) with (Lz (t1 + 3600)) in HL'.
      change (Lo g t1) with (Lz t1) in HL', Hd. rewrite HL1, HsE in HL', Hd.
      fold (jump_at (L / 3600 * 3600 + 3600) d) in Hd.
      pose proof (arith_hour_d L d Hd) as (A60 & A3600 & AD & Asame & Ale). cbv zeta in *.
      rewrite <- HL' in *. set (L' := Lz (t1 + 3600)) in *.
      assert (Hat : a <= t < a + 3600) by (unfold a; dlia).
      assert (Hn' : nomatchD (t1 + 3600)).
      { apply (nomatchD_extend t a (t1 + 3600) Hn ltac:(lia)).
        intros x Hx _. apply M_false_mh.
        destruct (Z_lt_le_dec x (a + 3600)) as [Hxa | Hxa].
        - pose proof (cell_run g Bg 3600 a ltac:(lia) Hala x ltac:(lia)) as Hrun.
          change (Lo g x) with (Lz x) in Hrun. change (Lo g a) with (Lz a) in Hrun.
          rewrite HLa, HsE in Hrun. rewrite (mh_same b (Lz x) L); [exact Emh | dlia].
        - assert (Ht1 : t1 = a + 3600) by (destruct Hcase as [-> | ([-> | ->] & _)]; lia).
          pose proof (cell_run g Bg 3600 t1 ltac:(lia) Hal x ltac:(lia)) as Hrun.
          change (Lo g x) with (Lz x) in Hrun. change (Lo g t1) with (Lz t1) in Hrun.
          rewrite HL1, HsE in Hrun. rewrite (mh_same b (Lz x) L); [exact Emh | dlia]. }
      assert (HQ : Q b L').
      { unfold Q. split; [|split].
        - intros _. exact A60.
        - intros _. exact A3600.
        - apply (Q_daypart b L L' Hmo Hmd AD). }
      assert (Hup' : L' <= W + 32 * 86400) by lia.
      (* where the new instant lies *)
      assert (Hrange : (t0 <= t1 + 3600 /\ (added = true -> t1 = t)) \/
                       (t1 = a - 3600 /\ added = false)).
      { destruct Hcase as [E | ([E | E] & Hadd & _)].
        - left. split.
          + destruct Hr as [H | (_ & _ & _ & Hal0 & H)]; [lia|]. cbn [s_t] in Hal0, H.
            fold L in Hal0. assert (a = t) by (unfold a; lia). lia.
          + intros Hadd. unfold t1. rewrite Hadd. reflexivity.
        - right. tauto.
        - left. split; [|congruence].
          destruct Hr as [H | (_ & Hadd' & _)]; [lia|]. cbn [s_added] in Hadd'. congruence. }
      assert (Hmu : forall p', rank p' <= 5 ->
                muD (mkSt p' (t1 + 3600) true) + 1 <= muD (mkSt PHour t added)).
      { intros p' Hp'. unfold muD. cbn [s_pc s_t s_added rank].
        destruct Hrange as [(_ & Hadd) | (E & Hadd)].
        - destruct added; [rewrite (Hadd eq_refl); lia|].
          destruct Hcase as [E | ([E | E] & _)]; lia.
        - rewrite Hadd. lia. }
      destruct ((L' / 3600) mod 24 =? 0) eqn:E0.
      + split; [|apply Hmu; cbn; lia].
        destruct Hrange as [(Hge & _) | (E & Hadd)].
        * apply (mk_invD PWrap (t1 + 3600)); try assumption. exact I.
        * (* impossible: the repeated hour is not the hour after midnight *)
          exfalso. destruct Hcase as [E' | (_ & _ & Hmid)]; [lia|].
          assert (L' = Hs) by (unfold L'; rewrite E; replace (a - 3600 + 3600) with a by lia; exact HLa).
          dlia.
      + assert (SD : L' / 86400 = L / 86400) by (apply Asame; lia).
        assert (HpcI : pcinvD PHour L').
        { cbn [pcinvD]. rewrite SD. repeat split; try assumption.
          unfold W in *. pose proof (year_gt_iff lim L) as Y1. pose proof (year_gt_iff lim L') as Y2.
          rewrite SD in Y2. lia. }
        split; [|apply Hmu; cbn; lia].
        destruct Hrange as [(Hge & _) | (E & Hadd)].
        * apply (mk_invD PHour (t1 + 3600)); assumption.
        * (* back at the start of the later copy of the repeated hour *)
          assert (EL : L' = Hs) by (unfold L'; rewrite E; replace (a - 3600 + 3600) with a by lia; exact HLa).
          unfold InvD. cbn [s_pc s_t s_added]. fold L'.
          split.
          { right. unfold early. cbn [s_pc s_t s_added]. fold L'.
            split; [reflexivity|]. split; [reflexivity|].
            split; [rewrite (mh_same b L' L); [exact Emh | rewrite EL; dlia]|].
            split; [exact A3600|]. rewrite (Ha Hadd) in Hat. lia. }
          split; [exact Hup'|]. split; [exact Hn'|]. split; [discriminate|].
          split; [intros _; exact HQ | exact HpcI].
  Qed.

  Lemma midnight_mod K' : K' mod 86400 = 0 ->
    K' mod 60 = 0 /\ K' mod 3600 = 0 /\ (K' / 3600) mod 24 = 0.
  Proof. intros H. repeat split; dlia. Qed.

  (* --- day loop --------------------------------------------------------------------- *)
  Lemma stepD_day t added : InvD (mkSt PDay t added) -> step_okD (mkSt PDay t added).
  Proof.
    intros Hinv. pose proof (not_early PDay t added ltac:(discriminate) Hinv) as Ht0.
    destruct Hinv as (_ & Hup & Hn & Ha & Hq & HW & Hmo). cbn [s_pc s_t s_added] in *.
    unfold step_okD, step. cbn [s_pc s_t s_added].
    rewrite fields_L, day_matches_local, w_year_local, w_month_local, w_day_local.
    set (L := Lz t) in *. set (D := L / 86400) in *.
    destruct (md_ b D) eqn:Emd.
    - unfold InvD, muD. cbn [s_pc s_t s_added rank pcinvD]. fold L. fold D.
      split; [|lia]. split; [left; exact Ht0|]. split; [exact Hup|]. split; [exact Hn|].
      split; [exact Ha|]. split; [exact Hq | tauto].
    - cbv zeta. set (t1 := if added then t else go_date z _ _ _ 0 0 0).
      set (K := D * 86400). set (K' := (D + 1) * 86400).
      assert (HK : K mod 86400 = 0) by (apply Z.mod_mul; lia).
      assert (HK' : K' mod 86400 = 0) by (apply Z.mod_mul; lia).
      pose proof (pre_midnight g Bg K HK) as PK. pose proof (pre_midnight g Bg K' HK') as PK'.
      pose proof (pre_mono g Bg K HK t) as MK. pose proof (pre_mono g Bg K' HK' t) as MK'.
      change (Lo g t) with L in MK, MK'.
      assert (HLD : K <= L < K') by (unfold K, K', D; dlia).
      assert (H1 : Lz t1 = K /\ pre g K <= t1 <= t).
      { unfold t1. destruct added.
        - destruct (Hq eq_refl) as (_ & _ & q3 & _). pose proof (q3 Emd) as Hal0.
          split; [fold L; unfold K, D; dlia | lia].
        - rewrite (gd_day D). fold K. split; [exact PK | lia]. }
      destruct H1 as (HL1 & Hr1).
      rewrite (ad_day t1 D HL1). fold K'.
      set (t2 := pre g K') in *.
      rewrite !fields_L. change (Lz t2) with (Lo g t2). rewrite PK'.
      destruct (midnight_mod K' HK') as (M60 & M3600 & Mh).
      rewrite w_hour_local, Mh. cbn [Z.eqb]. change (Lz t2) with (Lo g t2).
      rewrite PK', w_day_local. replace (K' / 86400) with (D + 1) by (unfold K'; rewrite Z.div_mul; lia).
      assert (Hlt : t < t2) by lia.
      assert (Hn' : nomatchD t2).
      { apply (nomatchD_extend t t t2 Hn ltac:(lia)). intros x Hx _. apply M_false_md.
        assert (Hc : pre g K <= x < pre g K') by (fold t2; lia).
        apply (day_cell g Bg D x) in Hc. change (Lo g x) with (Lz x) in Hc. rewrite Hc. exact Emd. }
      assert (Hnd : (mkey (D + 1) = mkey D /\ cd (D + 1) = cd D + 1) \/
                    (mkey (D + 1) = mkey D + 1 /\ cd (D + 1) = 1)) by apply next_day.
      assert (HLt2 : Lz t2 = K') by exact PK'.
      assert (HD' : K' / 86400 = D + 1) by (unfold K'; rewrite Z.div_mul; lia).
      assert (HQ : Q b (Lz t2)).
      { rewrite HLt2. unfold Q. rewrite HD'. split; [|split; [|split]]; try (intros _; assumption).
        intros Hf. split; [exact HK'|].
        destruct Hnd as [[Hk _] | [_ Hd]]; [|exact Hd].
        apply (mo_same b) in Hk. fold D in Hmo. congruence. }
      assert (HleW : K' <= W).
      { unfold W, wend in *. dlia. }
      assert (Hup' : Lz t2 <= W + 32 * 86400) by (rewrite HLt2; lia).
      assert (Hmu : forall p', rank p' <= 5 -> muD (mkSt p' t2 true) + 1 <= muD (mkSt PDay t added)).
      { intros p' Hp'. unfold muD. cbn [s_pc s_t s_added rank]. destruct added; lia. }
      destruct (cd (D + 1) =? 1) eqn:E1.
      + split; [apply (mk_invD PWrap t2); try assumption; [lia | exact I] | apply Hmu; cbn; lia].
      + split; [|apply Hmu; cbn; lia].
        apply (mk_invD PDay t2); try assumption; [lia|].
        cbn [pcinvD]. rewrite HLt2, HD'.
        destruct Hnd as [[Hk _] | [_ Hd]]; [|lia].
        split; [|rewrite (mo_same b _ _ Hk); exact Hmo].
        (* K' is not the window end: that one is a 1st of January *)
        destruct (Z.eq_dec K' W) as [EW | NW]; [|lia]. exfalso.
        assert (Hcd : cd (K' / 86400) = 1).
        { rewrite EW. unfold W, wend. rewrite Z.div_mul by lia.
          unfold cd. rewrite civil_of_days_of_civil; [reflexivity|].
          split; [lia|]. pose proof (days_in_month_range (lim + 1) 1). lia. }
        rewrite HD' in Hcd. lia.
  Qed.

  (* --- month loop ------------------------------------------------------------------- *)
  Lemma stepD_month t added : InvD (mkSt PMonth t added) -> step_okD (mkSt PMonth t added).
  Proof.
    intros Hinv. pose proof (not_early PMonth t added ltac:(discriminate) Hinv) as Ht0.
    destruct Hinv as (_ & Hup & Hn & Ha & Hq & HW). cbn [s_pc s_t s_added pcinvD] in *.
    unfold step_okD, step. cbn [s_pc s_t s_added].
    rewrite fields_L, w_year_local, w_month_local.
    set (L := Lz t) in *. set (D := L / 86400) in *. fold (mo_ b D).
    destruct (mo_ b D) eqn:Emo.
    - unfold InvD, muD. cbn [s_pc s_t s_added rank pcinvD]. fold L. fold D.
      split; [|lia]. split; [left; exact Ht0|]. split; [exact Hup|]. split; [exact Hn|].
      split; [exact Ha|]. split; [exact Hq | tauto].
    - cbv zeta. set (t1 := if added then t else go_date z _ _ 1 0 0 0).
      set (k := mkey D).
      pose proof (mkey_cell D) as Hcell. fold k in Hcell.
      pose proof (month_len_range k) as Hlen. pose proof (month_start_succ k) as Hsucc.
      set (K := month_start k * 86400). set (K' := month_start (k + 1) * 86400).
      assert (HK : K mod 86400 = 0) by (apply Z.mod_mul; lia).
      assert (HK' : K' mod 86400 = 0) by (apply Z.mod_mul; lia).
      pose proof (pre_midnight g Bg K HK) as PK. pose proof (pre_midnight g Bg K' HK') as PK'.
      pose proof (pre_mono g Bg K HK t) as MK. pose proof (pre_mono g Bg K' HK' t) as MK'.
      change (Lo g t) with L in MK, MK'.
      assert (HLD : K <= L < K') by (unfold K, K', D in *; dlia).
      assert (H1 : Lz t1 = K /\ pre g K <= t1 <= t).
      { unfold t1. destruct added.
        - destruct (Hq eq_refl) as (_ & _ & _ & q4). destruct (q4 Emo) as [qa qd].
          pose proof (cd_mkey D) as Hc. fold k in Hc. fold D in qd.
          split; [fold L; unfold K, D in *; dlia | lia].
        - rewrite (gd_month D). fold k. fold K. split; [exact PK | lia]. }
      destruct H1 as (HL1 & Hr1).
      rewrite (ad_month t1 k HL1). fold K'.
      set (t2 := pre g K') in *.
      rewrite fields_L. change (Lz t2) with (Lo g t2). rewrite PK', w_month_local.
      assert (HD' : K' / 86400 = month_start (k + 1)) by (unfold K'; rewrite Z.div_mul; lia).
      rewrite HD'.
      pose proof (month_len_range (k + 1)) as Hlen'.
      destruct (in_month_cell (k + 1) (month_start (k + 1)) ltac:(lia)) as (_ & Hcm' & Hcd' & _).
      rewrite Hcm'.
      assert (Hlt : t < t2) by lia.
      assert (Hn' : nomatchD t2).
      { apply (nomatchD_extend t t t2 Hn ltac:(lia)). intros x Hx _. apply M_false_mo.
        pose proof (pre_mono g Bg K HK x) as X1. pose proof (pre_mono g Bg K' HK' x) as X2.
        change (Lo g x) with (Lz x) in X1, X2. fold t2 in X2.
        assert (Hxc : month_start k <= Lz x / 86400 < month_start k + month_len k)
          by (unfold K, K' in *; dlia).
        destruct (in_month_cell k (Lz x / 86400) Hxc) as (_ & _ & _ & Hxk).
        rewrite (mo_same b (Lz x / 86400) D); [exact Emo | rewrite Hxk; reflexivity]. }
      assert (HLt2 : Lz t2 = K') by exact PK'.
      destruct (midnight_mod K' HK') as (M60 & M3600 & Mh).
      assert (HQ : Q b (Lz t2)).
      { rewrite HLt2. unfold Q. rewrite HD'. split; [|split; [|split]]; try (intros _; assumption).
        intros _. split; [exact HK' | lia]. }
      assert (HWm : W = month_start (12 * (lim + 1)) * 86400).
      { unfold W, wend. rewrite wend_month. reflexivity. }
      assert (Hk : k < 12 * (lim + 1)).
      { destruct (Z_lt_le_dec k (12 * (lim + 1))) as [Hlt' | Hge]; [exact Hlt'|]. exfalso.
        pose proof (month_start_le _ _ Hge). unfold K in *. lia. }
      assert (HleW : K' <= W).
      { rewrite HWm. unfold K'. pose proof (month_start_le (k + 1) (12 * (lim + 1)) ltac:(lia)). lia. }
      assert (Hup' : Lz t2 <= W + 32 * 86400) by (rewrite HLt2; lia).
      assert (Hmu : forall p', rank p' <= 5 -> muD (mkSt p' t2 true) + 1 <= muD (mkSt PMonth t added)).
      { intros p' Hp'. unfold muD. cbn [s_pc s_t s_added rank]. destruct added; lia. }
      destruct ((k + 1) mod 12 + 1 =? 1) eqn:E1.
      + split; [apply (mk_invD PWrap t2); try assumption; [lia | exact I] | apply Hmu; cbn; lia].
      + split; [|apply Hmu; cbn; lia].
        apply (mk_invD PMonth t2); try assumption; [lia|].
        cbn [pcinvD]. rewrite HLt2.
        assert (k + 1 < 12 * (lim + 1)) by dlia.
        pose proof (month_start_lt (k + 1) (12 * (lim + 1)) ltac:(lia)). rewrite HWm. unfold K'. lia.
  Qed.

  Lemma stepD_inv s : InvD s -> step_okD s.
  Proof.
    destruct s as [[] t added]; [apply stepD_wrap | apply stepD_month | apply stepD_day |
      apply stepD_hour | apply stepD_minute | apply stepD_second].
  Qed.

  Lemma iterD_inv n : forall s,
    InvD s ->
    match iter_pow2 b z lim n s with
    | inl s' => InvD s' /\ muD s' + 2 ^ Z.of_nat n <= muD s
    | inr r => GoodD r
    end.
  Proof.
    induction n as [|n IH]; intros s Hs.
    - cbn [iter_pow2]. change (2 ^ Z.of_nat 0) with 1. apply (stepD_inv s Hs).
    - cbn [iter_pow2]. rewrite Nat2Z.inj_succ, Z.pow_succ_r by lia.
      specialize (IH s Hs) as IH1. destruct (iter_pow2 b z lim n s) as [s1 | r]; [|exact IH1].
      destruct IH1 as [Hs1 Hm1]. specialize (IH s1 Hs1) as IH2.
      destruct (iter_pow2 b z lim n s1) as [s2 | r]; [|exact IH2].
      destruct IH2 as [Hs2 Hm2]. split; [exact Hs2 | lia].
  Qed.

  Lemma muD_nonneg s : InvD s -> 0 <= muD s.
  Proof.
    intros (_ & Hup & _). pose proof (t_le_L (s_t s)) as H. unfold muD.
    destruct (s_pc s), (s_added s); cbn [rank]; lia.
  Qed.

  (* enough fuel: the machine reaches a result *)
  Lemma run_goodD n s : InvD s -> muD s < 2 ^ Z.of_nat n ->
    match iter_pow2 b z lim n s with
    | inl _ => False
    | inr r => GoodD r
    end.
  Proof.
    intros Hs Hm. pose proof (iterD_inv n s Hs) as H.
    destruct (iter_pow2 b z lim n s) as [s' | r]; [|exact H].
    destruct H as [Hs' Hm']. pose proof (muD_nonneg s' Hs'). lia.
  Qed.
End Machine.

(* ------------------------------------------------------------------------------------ *)
(* F. the theorem                                                                        *)

Section TheoremDst.
  Variable b : bits6.
  Variable z : zone.
  Hypothesis Hben : dst_benign z = true.
  Variable t : Z.

  Let g := offset_at z.
  Let Bg : benign_fun g := dst_benign_fun z Hben.
  Local Notation Lz := (Proofs_Dst.Lz z).
  Let t0 := t + 1.
  Let lim := cy (Lz t0 / 86400) + 5.
  Let W := wend lim.

  Lemma year_limit_dst : year_limit z t = lim.
  Proof. unfold year_limit. rewrite (fields_L z), w_year_local. reflexivity. Qed.

  Lemma init_invD : InvD b z t0 lim (mkSt PWrap t0 false).
  Proof.
    unfold InvD. cbn [s_pc s_t s_added pcinvD].
    pose proof (window_length (Lz t0)) as [Hlt _]. fold lim in Hlt.
    split; [left; lia|]. split; [lia|]. split; [intros x Hx; lia|].
    split; [reflexivity|]. split; [discriminate | exact I].
  Qed.

  Lemma init_muD : muD lim (mkSt PWrap t0 false) < 2 ^ Z.of_nat next_fuel.
  Proof.
    pose proof (window_length (Lz t0)) as [_ Hlen]. fold lim in Hlen.
    pose proof (gsmall g Bg t0) as Hg. unfold g in Hg.
    assert (HL : Lz t0 = t0 + offset_at z t0) by reflexivity.
    assert (E2 : 2 ^ Z.of_nat next_fuel = 17179869184) by reflexivity.
    rewrite E2. unfold muD. cbn [s_pc s_t s_added rank]. lia.
  Qed.

  Lemma next_model_goodD : GoodD b z t0 lim (next_model b z t).
  Proof.
    pose proof (run_goodD b z Hben t0 lim next_fuel _ init_invD init_muD) as H.
    unfold next_model. fold t0.
    replace (w_year (fields z t0) + 5) with lim
      by (rewrite (fields_L z), w_year_local; reflexivity).
    destruct (iter_pow2 b z lim next_fuel _) as [s' | r]; [contradiction | exact H].
  Qed.

  Theorem next_terminates_benign : next_model b z t <> OutOfFuel.
  Proof. pose proof next_model_goodD as H. destruct (next_model b z t); cbn in H; congruence. Qed.

  Lemma matches_dst u : matches (dsched_of_bits b) z u = M b (Lz u).
  Proof. unfold matches. rewrite (fields_L z). apply M_local. Qed.

  (* a returned instant is later than t and matches *)
  Theorem next_sound_benign u :
    next_model b z t = NextAt u -> t < u /\ matches_bits b z u = true.
  Proof.
    intros E. pose proof next_model_goodD as H. rewrite E in H. cbn [GoodD] in H.
    destruct H as (Hr & _ & HM & _). unfold matches_bits. rewrite matches_dst.
    split; [unfold t0 in Hr; lia | exact HM].
  Qed.

  (* full equality with the reference *)
  Theorem next_dst_benign :
    next_model b z t = result_of_option (next_ref (dsched_of_bits b) z t).
  Proof.
    pose proof next_model_goodD as H.
    unfold next_ref. rewrite year_limit_dst. fold t0.
    set (p := fun u => matches (dsched_of_bits b) z u || (lim <? w_year (fields z u))).
    assert (HW : W mod 86400 = 0) by (unfold W, wend; apply Z.mod_mul; lia).
    assert (Hyear : forall u, (lim <? w_year (fields z u)) = (W <=? Lz u)).
    { intros u. rewrite (fields_L z), w_year_local.
      destruct (lim <? cy (Lz u / 86400)) eqn:E1; destruct (W <=? Lz u) eqn:E2;
        try reflexivity; exfalso.
      - assert (W <= Lz u) by (apply year_gt_iff; lia). lia.
      - assert (lim < cy (Lz u / 86400)) by (apply year_gt_iff; lia). lia. }
    assert (Hp : forall u, p u = M b (Lz u) || (W <=? Lz u)).
    { intros u. unfold p. rewrite matches_dst, Hyear. reflexivity. }
    pose proof (window_length (Lz t0)) as [Hlt Hlen]. fold lim in Hlt, Hlen. fold W in Hlt, Hlen.
    pose proof (pre_midnight g Bg W HW) as PW. set (r := pre g W) in *.
    assert (Hmono : forall x, x < r <-> Lz x < W) by (intros x; apply (pre_mono g Bg W HW x)).
    assert (Hsm : forall x, x - 86400 <= Lz x <= x + 86400).
    { intros x. pose proof (gsmall g Bg x) as Hg. unfold g in Hg.
      assert (Lz x = x + offset_at z x) by reflexivity. lia. }
    pose proof (Hsm t0) as S0.
    assert (E28 : 2 ^ Z.of_nat scan_log = 268435456) by reflexivity.
    destruct (next_model b z t) as [u | |]; cbn [GoodD] in H.
    - destruct H as (Hr & HuW & HM & Hn). pose proof (Hsm u) as Su.
      rewrite (least_in_unique p t0 scan_log u).
      + rewrite Hyear. replace (W <=? Lz u) with false by lia. reflexivity.
      + rewrite E28. lia.
      + rewrite Hp, HM. reflexivity.
      + intros x Hx. rewrite Hp. rewrite (Hn x Hx). cbn [orb].
        assert (x < r) by (pose proof (proj2 (Hmono u) HuW); lia).
        apply Z.leb_gt. apply Hmono. assumption.
    - destruct H as (t' & Ht' & HWt' & Hn).
      assert (Hr0 : t0 < r) by (apply Hmono; exact Hlt).
      assert (Hrt' : r <= t').
      { destruct (Z_lt_le_dec t' r) as [Hc | Hc]; [|exact Hc]. apply Hmono in Hc. lia. }
      pose proof (Hsm r) as Sr. change (Lz r) with (Lo g r) in Sr. rewrite PW in Sr.
      rewrite (least_in_unique p t0 scan_log r).
      + rewrite Hyear. change (Lz r) with (Lo g r). rewrite PW.
        replace (W <=? W) with true by lia. reflexivity.
      + rewrite E28. lia.
      + rewrite Hp. change (Lz r) with (Lo g r). rewrite PW.
        replace (W <=? W) with true by lia. apply orb_true_r.
      + intros x Hx. rewrite Hp. rewrite (Hn x ltac:(lia)). cbn [orb].
        apply Z.leb_gt. apply Hmono. lia.
    - contradiction.
  Qed.
End TheoremDst.

(* non-vacuity: Europe/Berlin 2023-2025 is benign, and across the change to summer time of
   2024-03-31 the model returns what the theorem says: "30 2 * * *" (02:30 does not exist on
   that day) asked on 30 March 12:00 CET fires on 1 April 02:30 CEST *)
Example next_dst_benign_ex :
  dst_benign berlin = true /\
  next_model (mkBits 1 1073741824 4 9223372041149743102 9223372036854783998 9223372036854775935)
             berlin 1711796400 = NextAt 1711931400.
Proof. split; vm_compute; reflexivity. Qed.
