(* C04 / Benign.v — the daylight-saving tables on which SpecSchedule.Next is correct.
   Definitions only (decidable predicate on zone tables); the theorem is in Proofs_Dst.v.

   A table is BENIGN when
   * it is sorted and its offsets are at most a day ([zone_ok]) and whole minutes;
   * every entry either keeps the offset (a period boundary that changes nothing) or changes it
     by exactly one hour ([jumpok]) at an instant that is a whole hour on the wall clock
     (before, hence also after), and the skipped or repeated wall-clock hour lies between
     01:00 and 23:00 of one day: neither 00:00 nor the hour before it is touched, so every
     local midnight exists exactly once;
   * two offset changes are at least three days apart.
   Europe and North America since the 1980s, most of the world today. The six shapes of the
   known findings (half-hour shifts, changes at 00:00 or 24:00, at 00:01, by several hours,
   skipped days) are all excluded. *)
From Kit.Lib Require Import Base.
From Kit.C04 Require Import Cal Zone Str Spec.
From Coq Require Import ZArith Lia Bool List.
Import ListNotations.
Open Scope Z_scope.

(* at instant w the offset changes from p to q *)
Definition jumpok (w p q : Z) : bool :=
  ((q - p =? 3600) || (q - p =? -3600)) &&
  ((w + p) mod 3600 =? 0) &&
  (3600 <=? (Z.min (w + p) (w + q)) mod 86400) &&
  ((Z.min (w + p) (w + q)) mod 86400 <=? 79200).

Definition spacing : Z := 3 * 86400.

(* off: the offset in force; lastc: the instant of the last offset CHANGE *)
Fixpoint benign_from (off : Z) (lastc : option Z) (tr : list (Z * Z)) : bool :=
  match tr with
  | [] => true
  | (w, o) :: rest =>
      if o =? off then benign_from off lastc rest
      else jumpok w off o &&
           (match lastc with None => true | Some c => c + spacing <=? w end) &&
           benign_from o (Some w) rest
  end.

Definition dst_benign (z : zone) : bool :=
  zone_ok z && (z_init z mod 60 =? 0) && benign_from (z_init z) None (z_trans z).

(* Europe/Berlin 2023-2025 as Time.ZoneBounds reports it: CET +1:00 / CEST +2:00, changes at
   01:00 UTC (02:00 -> 03:00 and 03:00 -> 02:00 on the wall clock) *)
Definition berlin : zone :=
  mkZone 3600 [ (1679792400, 7200); (1698541200, 3600); (1711846800, 7200); (1729990800, 3600);
                (1743296400, 7200); (1761440400, 3600) ].
(* America/New_York 2024-2025: EST -5:00 / EDT -4:00, changes at 02:00 wall clock *)
Definition new_york : zone :=
  mkZone (-18000) [ (1710054000, -14400); (1730613600, -18000); (1741503600, -14400);
                    (1762063200, -18000) ].

Example berlin_benign : dst_benign berlin = true.
Proof. vm_compute. reflexivity. Qed.
Example new_york_benign : dst_benign new_york = true.
Proof. vm_compute. reflexivity. Qed.
(* the zones of the known findings are not *)
Example lord_howe_not_benign : dst_benign lord_howe = false.
Proof. vm_compute. reflexivity. Qed.
Example havana_not_benign : dst_benign havana = false.
Proof. vm_compute. reflexivity. Qed.
