(* C04 / Bridge.v — from the code's bit sets to the sets of the specification.
   Definitions only. *)
From Kit.Lib Require Import Base.
From Kit.C04 Require Import Cal Zone Str Parse Next Spec.
From Coq Require Import ZArith NArith Lia Bool List.
Import ListNotations.
Open Scope Z_scope.

(* a 64-bit set read as a set of values; bit 63 is the star flag ("unrestricted") *)
Definition dsched_of_bits (b : bits6) : dsched :=
  mkDsched (bit_set (sb_sec b)) (bit_set (sb_min b)) (bit_set (sb_hour b))
           (bit_set (sb_dom b)) (bit_set (sb_month b)) (bit_set (sb_dow b))
           (star (sb_dom b)) (star (sb_dow b)).

(* bit-level matching = documented matching of the denoted sets *)
Definition matches_bits (b : bits6) (z : zone) (u : Z) : bool :=
  matches (dsched_of_bits b) z u.

Definition result_of_option (o : option Z) : next_result :=
  match o with Some u => NextAt u | None => NextZero end.

Definition bits_of_schedule (s : schedule) : option bits6 :=
  match s with
  | SpecSched a b c d e f _ => Some (mkBits a b c d e f)
  | EverySched _ => None
  end.
