(* C09 — refinement: the model, driven like a settled script, produces for EVERY script exactly
   the observations of the specification's reference (Spec.v section 1).  Stdlib style.  No axioms. *)
From Coq Require Import ZArith List Lia Bool ZifyBool.
From Kit Require Import C09.Spec C09.Model C09.Check C09.Proofs C09.Proofs_close.
Import ListNotations.
Open Scope Z_scope.

(* ------------------------------------------------------------------------------------- *)
(* helpers                                                                                  *)

Lemma new_log_app s s' l : olog s' = l ++ olog s -> new_log s s' = rev l.
Proof.
  intro H. unfold new_log. rewrite H, app_length.
  replace (length l + length (olog s) - length (olog s))%nat with (length l) by lia.
  rewrite firstn_app, firstn_all, Nat.sub_diag. cbn. rewrite app_nil_r. reflexivity.
Qed.

(* every signal goroutine hands its signal over *)
Definition delivered_all (s : state) : state :=
  mk (pending s) (tokens s) 0 (has_timer s) (deadline s) (cur_dur s) (backoff s)
     (closed s) (ctx_done s) (run s) (clo s) (clo2 s) (now s)
     (adds s) (dropped s) (covered s) (spawned s) (delivered s + inflight s) (exts s)
     (armed_at s) (olog s).

Lemma deliver_all_spec v c : forall n s, inflight s = Z.of_nat n ->
  deliver_all n v c s = delivered_all s.
Proof.
  induction n as [|n IH]; intros s Hn.
  - cbn [deliver_all]. unfold delivered_all. destruct s; cbn in *. subst. f_equal. lia.
  - cbn [deliver_all step]. replace (0 <? inflight s) with true by lia.
    rewrite IH by (cbn; lia). unfold delivered_all; cbn. f_equal; lia.
Qed.

Lemma drain_spec v c s : 0 <= inflight s -> drain v c s = delivered_all s.
Proof. intro H. unfold drain. apply deliver_all_spec. lia. Qed.

Lemma deliver_all_Inv v c : cfg_ok c -> forall n s, Inv c s -> Inv c (deliver_all n v c s).
Proof.
  intros Hc. induction n as [|n IH]; intros s HI; cbn [deliver_all]; [assumption|].
  destruct (step v c s Deliver) as [s'|] eqn:E; [|assumption].
  apply IH. eapply step_Inv; eassumption.
Qed.

Lemma delivered_all_Inv c s : cfg_ok c -> Inv c s -> Inv c (delivered_all s).
Proof.
  intros Hc HI. assert (H0 : 0 <= inflight s) by (destruct HI as ((_ & _ & P3 & _) & _); exact P3).
  rewrite <- (drain_spec Fixed c s H0). apply deliver_all_Inv; assumption.
Qed.

(* ------------------------------------------------------------------------------------- *)
(* the abstraction relation between a reference state and a settled model state             *)

Record Rel (slow : bool) (c : cfg) (r : ref) (s : state) : Prop := mkRel {
  rl_inv : Inv c s;
  rl_run : run s = R_select;
  rl_tok : tokens s = 0;
  rl_closed : closed s = false;
  rl_clo : clo s = C_idle;
  rl_clo2 : clo2 s = C_idle;
  rl_open : has_timer s = r_open r;
  rl_win : r_open r = true -> deadline s = r_end r /\ exts s = r_k r /\ now s < deadline s;
  rl_pend : pending s = r_pend r;
  rl_idle : r_open r = false -> pending s = 0;
  rl_now : now s = r_now r;
  rl_unread : inflight s = r_unread r;
  rl_prompt : slow = false -> r_unread r = 0
}.

Lemma Rel_start slow c : cfg_ok c -> Rel slow c ref_init (start1 c).
Proof.
  intro Hc. assert (HI : Inv c (start1 c)).
  { eapply (step_Inv Fixed c (init c) LoopTop); [assumption | apply Inv_init; assumption | reflexivity]. }
  constructor; try reflexivity; try assumption; cbn; intros; try discriminate; reflexivity.
Qed.

(* the state with one more Add counted and its token in the run loop's hand *)
Definition tok_in_hand (s : state) : state :=
  mk (pending s + 1) (tokens s + 1 - 1) (inflight s) (has_timer s) (deadline s) (cur_dur s)
     (backoff s) (closed s) (ctx_done s) R_input (clo s) (clo2 s) (now s)
     (adds s + 1) (dropped s) (covered s) (spawned s) (delivered s) (exts s) (armed_at s) (olog s).

Lemma lock_free_idle v s : clo s = C_idle -> clo2 s = C_idle -> lock_free v s = true.
Proof. intros A B. destruct v; cbn; [rewrite A, B|]; reflexivity. Qed.

Lemma run_fire s : run (fire s) = run s.
Proof. unfold fire. destruct (0 <? pending s); reflexivity. Qed.

Lemma run_handle_input c s : run (handle_input c s) = R_top.
Proof.
  unfold handle_input, handle_first, handle_extend.
  destruct (negb (has_timer s)); [rewrite run_fire; reflexivity|].
  destruct (cap_reached c (pending s)); [rewrite run_fire; reflexivity|].
  destruct (next_backoff c s); reflexivity.
Qed.

Lemma run_handle_timer c s : run (handle_timer c s) = R_top.
Proof. reflexivity. Qed.

Definition add_counted (s : state) : state :=
  mk (pending s + 1) (tokens s + 1) (inflight s) (has_timer s) (deadline s) (cur_dur s)
     (backoff s) (closed s) (ctx_done s) (run s) (clo s) (clo2 s) (now s)
     (adds s + 1) (dropped s) (covered s) (spawned s) (delivered s) (exts s) (armed_at s) (olog s).

Lemma exec_add v c s :
  run s = R_select -> tokens s = 0 -> closed s = false -> clo s = C_idle -> clo2 s = C_idle ->
  exec v c s [Model.Add; TakeToken; HandleToken; LoopTop] =
  Some (set_run (handle_input c (tok_in_hand s)) R_select).
Proof.
  intros Hrun Htok Hcl Hclo Hclo2.
  assert (E1 : step v c s Model.Add = Some (add_counted s)).
  { assert (Hf : is_fixed v && closed s = false) by (rewrite Hcl; apply andb_false_r).
    cbn [step]. rewrite (lock_free_idle v s Hclo Hclo2), Hf. reflexivity. }
  assert (E2 : step v c (add_counted s) TakeToken = Some (tok_in_hand s)).
  { cbn [step]. unfold add_counted at 1 2. proj. rewrite Hrun. cbn [rpc_eqb andb].
    replace (0 <? tokens s + 1) with true by lia. unfold add_counted, tok_in_hand. proj. reflexivity. }
  assert (E3 : step v c (tok_in_hand s) HandleToken = Some (handle_input c (tok_in_hand s))).
  { cbn [step]. replace (run (tok_in_hand s)) with R_input by reflexivity. cbn [rpc_eqb andb].
    rewrite (lock_free_idle v (tok_in_hand s)) by assumption. reflexivity. }
  assert (E4 : step v c (handle_input c (tok_in_hand s)) LoopTop =
               Some (set_run (handle_input c (tok_in_hand s)) R_select)).
  { cbn [step]. rewrite run_handle_input. cbn [rpc_eqb andb].
    rewrite (lock_free_idle v (handle_input c (tok_in_hand s)))
      by (rewrite ?clo_handle_input, ?clo2_handle_input; assumption).
    reflexivity. }
  cbn [exec]. rewrite E1, E2, E3, E4. reflexivity.
Qed.

Lemma exec_expiry v c s :
  run s = R_select -> timer_due s = true -> clo s = C_idle -> clo2 s = C_idle ->
  exec v c s [TakeTimer; TimerFire; LoopTop] = Some (set_run (handle_timer c (set_run s R_timer)) R_select).
Proof.
  intros Hrun Hdue Hclo Hclo2. cbn [exec step]. rewrite Hrun, Hdue. cbn [rpc_eqb andb].
  replace (run (set_run s R_timer)) with R_timer by reflexivity. cbn [rpc_eqb andb].
  rewrite (lock_free_idle v (set_run s R_timer)) by assumption.
  rewrite run_handle_timer. cbn [rpc_eqb andb].
  rewrite (lock_free_idle v (handle_timer c (set_run s R_timer)))
    by (rewrite ?clo_handle_timer, ?clo2_handle_timer; assumption).
  reflexivity.
Qed.


Lemma hi_first c s : has_timer s = false -> 0 <= pending s ->
  handle_input c (tok_in_hand s) =
  mk 0 (tokens s + 1 - 1) (inflight s + 1) true (now s + initial c) (cur_dur s) (backoff s)
     (closed s) (ctx_done s) R_top (clo s) (clo2 s) (now s) (adds s + 1) (dropped s)
     (covered s + (pending s + 1)) (spawned s + 1) (delivered s) 0 (now s)
     (OSig (now s) :: ONew (initial c) :: olog s).
Proof.
  intros Hh Hp. unfold handle_input. replace (has_timer (tok_in_hand s)) with (has_timer s) by reflexivity.
  rewrite Hh. cbn [negb]. unfold handle_first, fire, tok_in_hand. proj.
  replace (0 <? pending s + 1) with true by lia. reflexivity.
Qed.

Lemma hi_cap c s : has_timer s = true -> cap_reached c (pending s + 1) = true -> 0 <= pending s ->
  handle_input c (tok_in_hand s) =
  mk 0 (tokens s + 1 - 1) (inflight s + 1) true (deadline s) (cur_dur s) (backoff s)
     (closed s) (ctx_done s) R_top (clo s) (clo2 s) (now s) (adds s + 1) (dropped s)
     (covered s + (pending s + 1)) (spawned s + 1) (delivered s) (exts s) (armed_at s)
     (OSig (now s) :: olog s).
Proof.
  intros Hh Hcap Hp. unfold handle_input. replace (has_timer (tok_in_hand s)) with (has_timer s) by reflexivity.
  replace (pending (tok_in_hand s)) with (pending s + 1) by reflexivity.
  rewrite Hh, Hcap. cbn [negb]. unfold fire, set_run, tok_in_hand. proj.
  replace (0 <? pending s + 1) with true by lia. rewrite Hh. reflexivity.
Qed.

Lemma hi_ext c s : has_timer s = true -> cap_reached c (pending s + 1) = false ->
  handle_input c (tok_in_hand s) =
  mk (pending s + 1) (tokens s + 1 - 1) (inflight s) true (now s + snd (next_backoff c s))
     (snd (next_backoff c s)) (fst (next_backoff c s))
     (closed s) (ctx_done s) R_top (clo s) (clo2 s) (now s) (adds s + 1) (dropped s)
     (covered s) (spawned s) (delivered s) (exts s + 1) (now s)
     (OExt (snd (next_backoff c s)) :: olog s).
Proof.
  intros Hh Hcap. unfold handle_input. replace (has_timer (tok_in_hand s)) with (has_timer s) by reflexivity.
  replace (pending (tok_in_hand s)) with (pending s + 1) by reflexivity.
  rewrite Hh, Hcap. cbn [negb]. unfold handle_extend.
  replace (next_backoff c (tok_in_hand s)) with (next_backoff c s) by reflexivity.
  destruct (next_backoff c s) as [b d]. unfold tok_in_hand. proj. reflexivity.
Qed.

Lemma ht_expiry c s :
  handle_timer c (set_run s R_timer) =
  mk 0 (tokens s) (inflight s + (if 0 <? pending s then 1 else 0)) false (deadline s) (initial c) 1
     (closed s) (ctx_done s) R_top (clo s) (clo2 s) (now s) (adds s) (dropped s)
     (covered s + (if 0 <? pending s then pending s else 0))
     (spawned s + (if 0 <? pending s then 1 else 0)) (delivered s) 0 (armed_at s)
     (OExp :: (if 0 <? pending s then [OSig (now s)] else []) ++ olog s).
Proof.
  unfold handle_timer, fire, set_run. proj. destruct (0 <? pending s); proj; cbn [app]; f_equal; lia.
Qed.

(* after the operation a prompt consumer's buffer has taken every signal *)
Lemma settle_fields v c (slow : bool) s1 : cfg_ok c -> Inv c s1 ->
  let s' := if slow then s1 else drain v c s1 in
  Inv c s' /\ run s' = run s1 /\ tokens s' = tokens s1 /\ closed s' = closed s1 /\
  clo s' = clo s1 /\ clo2 s' = clo2 s1 /\ has_timer s' = has_timer s1 /\
  deadline s' = deadline s1 /\ exts s' = exts s1 /\ now s' = now s1 /\ pending s' = pending s1 /\
  inflight s' = (if slow then inflight s1 else 0).
Proof.
  intros Hc HI s'. subst s'. destruct slow.
  - split; [assumption|]. repeat split; reflexivity.
  - assert (H0 : 0 <= inflight s1) by (destruct HI as ((_ & _ & P3 & _) & _); exact P3).
    rewrite (drain_spec v c s1 H0). split; [apply delivered_all_Inv; assumption|].
    cbn. repeat split; reflexivity.
Qed.

(* the grouped observation of one operation *)
Definition gob (k : Z) (w : wobs) : gobs := (k, match w with WNone => [] | _ => [w] end).

Definition op_ok (op : sop) : Prop := match op with PAdv d => 0 <= d | _ => True end.

(* closes the goals of [Rel] for the state after an operation, given the settled state's fields
   in terms of the intermediate state's ([settle_fields]) and those in terms of the old state *)
Ltac rel_close HIs Hpr :=
  constructor; cbn [r_open r_end r_k r_pend r_now r_unread]; intros;
  first [ exact HIs | lia | congruence | discriminate | (repeat split; lia)
        | (apply Hpr; reflexivity) ].

(* the fields of the state after the operation, from the explicit form of the handler's result *)
Ltac fields_after s1 Hhi :=
  assert (G1 : run s1 = R_select) by reflexivity;
  assert (G2 : tokens s1 = _) by (unfold s1; rewrite Hhi; unfold set_run; proj; reflexivity);
  assert (G3 : closed s1 = _) by (unfold s1; rewrite Hhi; unfold set_run; proj; reflexivity);
  assert (G4 : clo s1 = _) by (unfold s1; rewrite Hhi; unfold set_run; proj; reflexivity);
  assert (G5 : clo2 s1 = _) by (unfold s1; rewrite Hhi; unfold set_run; proj; reflexivity);
  assert (G6 : has_timer s1 = _) by (unfold s1; rewrite Hhi; unfold set_run; proj; reflexivity);
  assert (G7 : deadline s1 = _) by (unfold s1; rewrite Hhi; unfold set_run; proj; reflexivity);
  assert (G8 : exts s1 = _) by (unfold s1; rewrite Hhi; unfold set_run; proj; reflexivity);
  assert (G9 : now s1 = _) by (unfold s1; rewrite Hhi; unfold set_run; proj; reflexivity);
  assert (G10 : pending s1 = _) by (unfold s1; rewrite Hhi; unfold set_run; proj; reflexivity);
  assert (G11 : inflight s1 = _) by (unfold s1; rewrite Hhi; unfold set_run; proj; reflexivity).

Lemma step_refines v c slow r s op : cfg_ok c -> Rel slow c r s -> op_ok op ->
  exists s', seq_model_step v c slow s op =
             Some (s', gob (fst (snd (ref_obs slow c r op))) (snd (snd (ref_obs slow c r op)))) /\
             Rel slow c (fst (ref_obs slow c r op)) s'.
Proof.
  intros Hc HR Hop. destruct HR as [HI Hrun Htok Hcl Hclo Hclo2 Hopen Hwin Hpend Hidle Hnow Hunr Hpr].
  assert (P1 : 0 <= pending s) by (destruct HI as ((X & _) & _); exact X).
  assert (P3 : 0 <= inflight s) by (destruct HI as ((_ & _ & X & _) & _); exact X).
  assert (P8 : 0 <= exts s) by (destruct HI as ((_ & _ & _ & _ & _ & _ & _ & X) & _); exact X).
  assert (IW : cur_dur s = window_len c (exts s)) by (destruct HI as (_ & _ & _ & _ & X & _); exact X).
  assert (IB : cur_dur s < maxd c -> backoff s = 2 ^ exts s) by (destruct HI as (_ & _ & _ & _ & _ & X & _); exact X).
  destruct op as [|d|].
  - (* PAdd *)
    unfold seq_model_step. rewrite (exec_add v c s Hrun Htok Hcl Hclo Hclo2).
    set (s1 := set_run (handle_input c (tok_in_hand s)) R_select).
    assert (HI1 : Inv c s1).
    { eapply exec_Inv; [exact Hc | exact HI | apply (exec_add v c s Hrun Htok Hcl Hclo Hclo2)]. }
    destruct (settle_fields v c slow s1 Hc HI1) as (HIs & Frun & Ftok & Fcl & Fclo & Fclo2 & Fh & Fdl & Fex & Fnow & Fp & Fin).
    clear HI1 HI.
    assert (Hh : has_timer s = r_open r) by exact Hopen.
    destruct (r_open r) eqn:Eo.
    + destruct (Hwin eq_refl) as (Wd & Wk & Wn).
      destruct (cap_reached c (r_pend r + 1)) eqn:Ecap.
      * (* the cap is reached *)
        assert (Ecap' : cap_reached c (pending s + 1) = true) by (rewrite Hpend; exact Ecap).
        pose proof (hi_cap c s Hh Ecap' P1) as Hhi.
        assert (Hlog : olog s1 = [OSig (now s)] ++ olog s) by (unfold s1; rewrite Hhi; reflexivity).
        fields_after s1 Hhi.
        clear Hhi. clearbody s1.
        eexists. split.
        -- f_equal. f_equal. unfold seq_obs. rewrite (new_log_app s s1 _ Hlog).
           unfold ref_obs, ref_step. rewrite Eo, Ecap. destruct slow; reflexivity.
        -- unfold ref_obs, ref_step. rewrite Eo, Ecap.
           destruct slow; cbn [fst snd negb r_open r_end r_k r_pend r_now r_unread]; rel_close HIs Hpr.
      * (* the window is extended *)
        assert (Ecap' : cap_reached c (pending s + 1) = false) by (rewrite Hpend; exact Ecap).
        pose proof (hi_ext c s Hh Ecap') as Hhi.
        pose proof (next_backoff_law c s Hc P8 IW IB) as (L1 & _).
        pose proof (window_len_pos c (exts s + 1) Hc ltac:(lia)) as Lpos.
        set (d := snd (next_backoff c s)) in *.
        assert (Hlog : olog s1 = [OExt d] ++ olog s) by (unfold s1; rewrite Hhi; reflexivity).
        fields_after s1 Hhi.
        clear Hhi. clearbody s1.
        eexists. split.
        -- f_equal. f_equal. unfold seq_obs. rewrite (new_log_app s s1 _ Hlog).
           unfold ref_obs, ref_step. rewrite Eo, Ecap. rewrite <- Wk, <- L1.
           destruct slow; reflexivity.
        -- unfold ref_obs, ref_step. rewrite Eo, Ecap. rewrite Wk in L1, Lpos, G8.
           destruct slow; cbn [fst snd negb r_open r_end r_k r_pend r_now r_unread]; rel_close HIs Hpr.
    + (* idle: the first Add *)
      assert (Hhf : has_timer s = false) by exact Hh.
      pose proof (hi_first c s Hhf P1) as Hhi.
      pose proof (window_len_0 c Hc) as L0.
      pose proof Hc as (Hipos & _).
      assert (Hlog : olog s1 = [OSig (now s); ONew (initial c)] ++ olog s) by (unfold s1; rewrite Hhi; reflexivity).
      fields_after s1 Hhi.
      clear Hhi. clearbody s1.
      eexists. split.
      * f_equal. f_equal. unfold seq_obs. rewrite (new_log_app s s1 _ Hlog).
        unfold ref_obs, ref_step. rewrite Eo. cbn [negb]. rewrite L0. destruct slow; reflexivity.
      * unfold ref_obs, ref_step. rewrite Eo. cbn [negb]. rewrite L0.
        destruct slow; cbn [fst snd negb r_open r_end r_k r_pend r_now r_unread]; rel_close HIs Hpr.
  - (* PAdv d *)
    cbn in Hop. unfold seq_model_step.
    set (s0 := mk (pending s) (tokens s) (inflight s) (has_timer s) (deadline s) (cur_dur s)
                  (backoff s) (closed s) (ctx_done s) (run s) (clo s) (clo2 s) (now s + d)
                  (adds s) (dropped s) (covered s) (spawned s) (delivered s) (exts s)
                  (armed_at s) (olog s)).
    assert (E0 : step v c s (Advance d) = Some s0).
    { cbn [step]. replace (0 <=? d) with true by lia. reflexivity. }
    rewrite E0.
    assert (HI0 : Inv c s0) by (eapply step_Inv; [exact Hc | exact HI | exact E0]).
    assert (Hh : has_timer s = r_open r) by exact Hopen.
    assert (Hdue : timer_due s0 = r_open r && (r_end r <=? r_now r + d)).
    { unfold timer_due, s0. proj. rewrite Hh, Hnow. destruct (r_open r) eqn:Eo; [|reflexivity].
      destruct (Hwin eq_refl) as (Wd & _). rewrite Wd. reflexivity. }
    destruct (r_open r && (r_end r <=? r_now r + d)) eqn:Edue.
    + (* the window ends *)
      rewrite Hdue.
      assert (R0 : run s0 = R_select) by exact Hrun.
      rewrite (exec_expiry v c s0 R0 Hdue Hclo Hclo2).
      set (s1 := set_run (handle_timer c (set_run s0 R_timer)) R_select).
      assert (HI1 : Inv c s1).
      { eapply exec_Inv; [exact Hc | exact HI0 | apply (exec_expiry v c s0 R0 Hdue Hclo Hclo2)]. }
      destruct (settle_fields v c slow s1 Hc HI1) as (HIs & Frun & Ftok & Fcl & Fclo & Fclo2 & Fh & Fdl & Fex & Fnow & Fp & Fin).
      clear HI1 HI HI0.
      pose proof (ht_expiry c s0) as Hhi.
      assert (Hlog : olog s1 = (OExp :: (if 0 <? pending s then [OSig (now s + d)] else [])) ++ olog s)
        by (unfold s1; rewrite Hhi; reflexivity).
      fields_after s1 Hhi.
      clear Hhi. clearbody s1. clear E0 R0 Hdue.
      assert (Z2 : tokens s0 = tokens s) by reflexivity. assert (Z3 : closed s0 = closed s) by reflexivity.
      assert (Z4 : clo s0 = clo s) by reflexivity. assert (Z5 : clo2 s0 = clo2 s) by reflexivity.
      assert (Z9 : now s0 = now s + d) by reflexivity. assert (Z10 : pending s0 = pending s) by reflexivity.
      assert (Z11 : inflight s0 = inflight s) by reflexivity.
      clearbody s0. rewrite Z10 in *.
      apply andb_true_iff in Edue as [Eo Ele].
      eexists. split.
      * f_equal. f_equal. unfold seq_obs. rewrite (new_log_app s s1 _ Hlog).
        unfold ref_obs, ref_step. rewrite Eo, Ele. cbn [andb]. rewrite <- Hpend.
        destruct slow; destruct (0 <? pending s); reflexivity.
      * unfold ref_obs, ref_step. rewrite Eo, Ele. cbn [andb]. rewrite <- Hpend.
        destruct slow; destruct (0 <? pending s);
          cbn [fst snd negb r_open r_end r_k r_pend r_now r_unread]; rel_close HIs Hpr.
    + (* nothing expires *)
      rewrite Hdue.
      destruct (settle_fields v c slow s0 Hc HI0) as (HIs & Frun & Ftok & Fcl & Fclo & Fclo2 & Fh & Fdl & Fex & Fnow & Fp & Fin).
      assert (Hlog : olog s0 = [] ++ olog s) by reflexivity.
      assert (G1 : run s0 = run s) by reflexivity. assert (G2 : tokens s0 = tokens s) by reflexivity.
      assert (G3 : closed s0 = closed s) by reflexivity. assert (G4 : clo s0 = clo s) by reflexivity.
      assert (G5 : clo2 s0 = clo2 s) by reflexivity. assert (G6 : has_timer s0 = has_timer s) by reflexivity.
      assert (G7 : deadline s0 = deadline s) by reflexivity. assert (G8 : exts s0 = exts s) by reflexivity.
      assert (G9 : now s0 = now s + d) by reflexivity. assert (G10 : pending s0 = pending s) by reflexivity.
      assert (G11 : inflight s0 = inflight s) by reflexivity.
      clear HI HI0 E0 Hdue. clearbody s0.
      eexists. split.
      * f_equal. f_equal. unfold seq_obs. rewrite (new_log_app s s0 _ Hlog).
        unfold ref_obs, ref_step. rewrite Edue. destruct slow; reflexivity.
      * unfold ref_obs, ref_step. rewrite Edue.
        destruct slow; cbn [fst snd negb r_open r_end r_k r_pend r_now r_unread];
          (constructor; cbn [r_open r_end r_k r_pend r_now r_unread]; intros;
           first [ exact HIs | lia | congruence | discriminate | (apply Hpr; reflexivity)
                 | (match goal with H : r_open r = true |- _ =>
                      rewrite H in Edue; cbn [andb] in Edue; destruct (Hwin H) as (Wd & Wk & Wn);
                      repeat split; lia end)
                 | (apply Hidle; assumption) ]).
  - (* PDrain *)
    unfold seq_model_step. rewrite (drain_spec v c s P3).
    pose proof (delivered_all_Inv c s Hc HI) as HId.
    eexists. split.
    + f_equal. f_equal. unfold ref_obs, ref_step, gob.
      destruct slow; cbn [fst snd]; [rewrite Hunr; reflexivity|].
      rewrite Hunr, (Hpr eq_refl). reflexivity.
    + unfold ref_obs, ref_step.
      destruct slow; cbn [fst snd r_open r_end r_k r_pend r_now r_unread];
        (constructor; unfold delivered_all; proj; cbn [r_open r_end r_k r_pend r_now r_unread]; intros;
         first [ exact HId | assumption | reflexivity | (apply Hwin; assumption) | (apply Hidle; assumption) | lia ]).
Qed.

(* ------------------------------------------------------------------------------------- *)
(* the refinement theorem                                                                   *)

Definition singletons (ops : list sop) : list (list sop) := map (fun o => [o]) ops.

Lemma ref_group_single slow c r op :
  ref_group slow c r [op] =
  (fst (ref_obs slow c r op),
   gob (fst (snd (ref_obs slow c r op))) (snd (snd (ref_obs slow c r op)))).
Proof.
  cbn [ref_group]. destruct (ref_obs slow c r op) as [r1 [k w]]. cbn [fst snd]. unfold gob.
  rewrite Z.add_0_r. reflexivity.
Qed.

Theorem seq_refines_from v c slow : cfg_ok c -> forall ops r s, Rel slow c r s -> Forall op_ok ops ->
  seq_model_run v c slow s ops = Some (ref_run_g slow c r (singletons ops)).
Proof.
  intros Hc. induction ops as [|op ops IH]; intros r s HR Hok; [reflexivity|].
  inversion Hok as [|? ? Hop Hrest]; subst.
  destruct (step_refines v c slow r s op Hc HR Hop) as (s' & E & HR').
  cbn [seq_model_run singletons map ref_run_g]. rewrite E.
  fold (singletons ops). rewrite ref_group_single.
  rewrite (IH _ _ HR' Hrest). reflexivity.
Qed.

(* For EVERY configuration NewCoalescing accepts, EVERY script of Adds, clock advances (by any
   non-negative amounts) and drains, and both consumers, the model driven one operation at a
   time produces exactly the observations of the specification's reference. *)
Theorem seq_refines v c slow ops : cfg_ok c -> Forall op_ok ops ->
  seq_model_run v c slow (start1 c) ops = Some (ref_run_g slow c ref_init (singletons ops)).
Proof. intros Hc Hok. apply seq_refines_from; [exact Hc | apply Rel_start; exact Hc | exact Hok]. Qed.

(* hence the spec oracle accepts an observation of a settled script exactly when it is the
   model's: sound AND complete with respect to the model *)
Theorem seq_oracle_iff_model v c slow ops obs : cfg_ok c -> Forall op_ok ops ->
  seqg_oracle slow c (singletons ops) obs = true <-> seq_model_run v c slow (start1 c) ops = Some obs.
Proof.
  intros Hc Hok. rewrite seqg_oracle_sound. unfold seqg_spec. rewrite (seq_refines v c slow ops Hc Hok).
  split; [intros ->; reflexivity | intro H; injection H as <-; reflexivity].
Qed.

(* non-vacuity / the defaults' doc comment "500ms, 1s, 2s, 4s, 5s, 5s": six Adds 1 ms apart *)
Example seq_refines_example :
  seq_model_run Fixed default_cfg false (start1 default_cfg)
    [PAdd; PAdv 1000000; PAdd; PAdd; PAdd; PAdd; PAdd; PAdv 4999999999; PAdv 1] =
  Some [(1, [WStart 500000000]); (0, []); (0, [WStart 1000000000]); (0, [WStart 2000000000]);
        (0, [WStart 4000000000]); (0, [WStart 5000000000]); (0, [WStart 5000000000]); (0, []);
        (1, [WEnd])].
Proof. vm_compute. reflexivity. Qed.

(* ------------------------------------------------------------------------------------- *)
(* "no later than the end of its quiet window": from a settled state with a window open, the  *)
(* passage of time to the window's end and the run loop's own two steps - nothing else - spawn *)
(* the signal AT the deadline, covering everything pending.                                   *)

Theorem signal_at_window_end v c s : cfg_ok c -> reachable v c s ->
  run s = R_select -> has_timer s = true -> now s <= deadline s -> clo s = C_idle -> clo2 s = C_idle ->
  exists s', exec v c s [Advance (deadline s - now s); TakeTimer; TimerFire] = Some s' /\
    now s' = deadline s /\ pending s' = 0 /\ has_timer s' = false /\
    covered s' = covered s + pending s /\
    spawned s' = spawned s + (if 0 <? pending s then 1 else 0) /\
    (0 < pending s -> In (OSig (deadline s)) (olog s')).
Proof.
  intros Hc Hr Hrun Hh Hle Hclo Hclo2.
  destruct (reachable_Inv v c s Hc Hr) as ((P1 & _) & _).
  set (d := deadline s - now s).
  set (s0 := mk (pending s) (tokens s) (inflight s) (has_timer s) (deadline s) (cur_dur s)
                (backoff s) (closed s) (ctx_done s) (run s) (clo s) (clo2 s) (now s + d)
                (adds s) (dropped s) (covered s) (spawned s) (delivered s) (exts s)
                (armed_at s) (olog s)).
  assert (E0 : step v c s (Advance d) = Some s0).
  { cbn [step]. replace (0 <=? d) with true by (unfold d; lia). reflexivity. }
  assert (Hdue : timer_due s0 = true).
  { unfold timer_due, s0. proj. rewrite Hh. cbn [andb]. unfold d. lia. }
  assert (E1 : step v c s0 TakeTimer = Some (set_run s0 R_timer)).
  { cbn [step]. replace (run s0) with (run s) by reflexivity. rewrite Hrun, Hdue. reflexivity. }
  assert (E2 : step v c (set_run s0 R_timer) TimerFire = Some (handle_timer c (set_run s0 R_timer))).
  { cbn [step]. replace (run (set_run s0 R_timer)) with R_timer by reflexivity. cbn [rpc_eqb andb].
    rewrite (lock_free_idle v (set_run s0 R_timer)) by assumption. reflexivity. }
  exists (handle_timer c (set_run s0 R_timer)).
  split; [cbn [exec]; rewrite E0, E1, E2; reflexivity|].
  rewrite (ht_expiry c s0). unfold s0. proj.
  repeat split; try (unfold d; lia).
  - destruct (0 <? pending s) eqn:E; lia.
  - intro Hp. replace (0 <? pending s) with true by lia. right. left. f_equal. unfold d. lia.
Qed.

Example signal_at_window_end_nonvacuous :
  holds_after Fixed ex_cfg
    [LoopTop; Model.Add; TakeToken; HandleToken; LoopTop; Model.Add; TakeToken; HandleToken; LoopTop;
     Advance 7]
    (fun s => rpc_eqb (run s) R_select && has_timer s && (now s <=? deadline s) && (0 <? pending s)) = true.
Proof. vm_compute. reflexivity. Qed.

(* the form the correspondence check evaluates: for a script of sequential steps the oracle's
   argument [map sops_of ks] and the model run's argument [flat_map sops_of ks] are the same
   script *)
Lemma seq_steps_singletons ks : forallb is_seq_step ks = true ->
  map sops_of ks = singletons (flat_map sops_of ks).
Proof.
  induction ks as [|k ks IH]; intro H; [reflexivity|].
  cbn [forallb] in H. apply andb_true_iff in H as [Hk H]. cbn [map flat_map].
  unfold singletons in *. rewrite map_app, <- (IH H).
  destruct k; try discriminate Hk; reflexivity.
Qed.

Definition step_ok (k : sstep) : Prop := match k with KAdv d => 0 <= d | _ => True end.

Theorem seq_check_link v c slow ks obs : cfg_ok c -> forallb is_seq_step ks = true ->
  Forall step_ok ks ->
  (seqg_oracle slow c (map sops_of ks) obs = true <->
   seq_model_run v c slow (start1 c) (flat_map sops_of ks) = Some obs).
Proof.
  intros Hc Hs Hok. rewrite (seq_steps_singletons ks Hs). apply seq_oracle_iff_model; [exact Hc|].
  clear Hs. induction ks as [|k ks IH]; [constructor|].
  inversion Hok as [|? ? Hk Hrest]; subst. cbn [flat_map]. apply Forall_app. split; [|apply IH; exact Hrest].
  destruct k; cbn; repeat constructor; exact Hk.
Qed.
