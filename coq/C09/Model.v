(* C09 — events/ratelimiting/coalescing.go as an event system.  Definitions only.

   Go code modelled (line numbers of coalescing.go, pinned tree):

     Run           106-144  wg.Add(1) under the lock; for { RLock; timerCh = timer.C() if hasTimer;
                            RUnlock; select { ctx.Done -> return | closeCh -> cancel; return |
                            inputCh -> handleInputCh | timerCh -> handleTimerFired } };
                            deferred: cancel(); wg.Done()
     handleInputCh 146-184  Lock; three branches:
                              no timer : timer = NewTimer(initial); hasTimer = true; fireEvent
                              cap      : maxPendingEvents set and pending >= it: fireEvent
                              extend   : Stop (+drain); if currentDur < maxDelay { factor *= 2;
                                         currentDur = Duration(float64(initial)*float64(factor));
                                         clamp to maxDelay }; timer.Reset(currentDur)
     handleTimerFired 186-191 Lock; fireEvent; reset
     fireEvent     193-208  if pending > 0 { pending = 0; wg.Add(1); go { select { ch <- | ctx.Done } } }
     reset         210-223  Stop (+non-blocking drain); pending = 0; currentDur = initial;
                            factor = 1; hasTimer = false
     Add           225-237  Lock; pending++; wg.Add(1); go { select { inputCh <- | closeCh } }
     Close         239-249  close(closeCh) once; then  Original: Lock; wg.Wait(); Unlock
                                                        Fixed   : Lock; Unlock; wg.Wait()
                            Fixed also: Add and Run return at once, under the lock, when the
                            limiter is already closed (so no wg.Add can race the Wait).

   Goroutines and their program counters:
     run loop  [rpc]: R_top    about to RLock at the top of an iteration (holds nothing)
                      R_select RLock/RUnlock done, in the select
                      R_input  the select received a token from inputCh; about to Lock
                      R_timer  the select received the timer's value; about to Lock
                      R_exited returned (cancel() and wg.Done() have run)
     Close     [cpc]: C_idle; C_called (closeCh closed, about to Lock); C_waiting (in wg.Wait();
                      Original: HOLDING the write lock); C_returned
     A second Close call [clo2] (overlapping the first, or after it) has the same stages
     ([Close2Call]: the CAS on [closed], closing closeCh if it wins; [Close2Lock]; [Close2Return]):
     every Close call runs the barrier and the wait, whoever won the CAS.
     token goroutines (one per Add, counted in [tokens]) block in their select until the run
     loop takes the token ([TakeToken]) or closeCh is closed ([TokenAbort]);
     signal goroutines (one per fireEvent, counted in [inflight]) block until the consumer takes
     the signal ([Deliver]) or the run loop's context is done ([SignalAbort]).

   Lock.  Every critical section other than Close's wait is a single event, so the only state in
   which the RWMutex is held ACROSS events is an Original Close call in wg.Wait().  [lock_free] says
   so; Add, LoopTop (RLock), HandleToken and TimerFire (Lock) are enabled only when it holds.

   Timer.  The timer is due when [deadline <= now].  The code stops it with
   "if !timer.Stop() { <-timer.C() }".  Two contracts (DESIGN.md section 3): Go >= 1.23 ([Go123]:
   Stop on an expired, unreceived timer returns true and discards the value) and the older /
   k8s FakeClock one ([Legacy]: Stop returns false, the value stays in the 1-slot buffer and the
   caller drains it).  [stop_result]/[drain_blocks] below make the difference explicit; both
   leave the timer stopped with an empty channel, so [step] does not depend on the contract.

   Back-off arithmetic.  The code computes initial*factor through float64.  [factor] is a power
   of two and the product is below [2*maxd], so under [float_exact] (2*maxd <= 2^53, about 52
   days) the float64 product and its conversion back are exact and the model uses integers.

   Ghost fields (never read by the code part of [step]): [adds dropped covered spawned delivered
   exts armed_at olog]. *)
From Kit Require Export C09.Spec.
Open Scope Z_scope.

(* the configuration NewCoalescing falls back to when the options are nil:
   initialDelay := time.Millisecond * 500, maxDelay := time.Second * 5, no MaxPendingEvents *)
Definition default_cfg : cfg := mkcfg 500000000 5000000000 None.

Definition float_exact (c : cfg) : Prop := 2 * maxd c <= 2 ^ 53.
Definition float_exactb (c : cfg) : bool := 2 * maxd c <=? 2 ^ 53.

Inductive rpc := R_top | R_select | R_input | R_timer | R_exited.
Inductive cpc := C_idle | C_called | C_waiting | C_returned.

(* what the run loop is seen to do on the injected clock, and the signals it spawns *)
Inductive oev :=
| ONew (d : Z)     (* clock.NewTimer(d) *)
| OExt (d : Z)     (* timer.Stop(); timer.Reset(d) *)
| OExp             (* timer.Stop() after its expiry was received (reset) *)
| OSig (t : Z).    (* a signal goroutine is spawned at time t *)

Record state := mk {
  pending : Z;        (* c.pendingEvents *)
  tokens : Z;         (* token goroutines not yet received/aborted *)
  inflight : Z;       (* signal goroutines not yet delivered/aborted *)
  has_timer : bool;   (* c.hasTimer *)
  deadline : Z;       (* when the timer expires *)
  cur_dur : Z;        (* c.currentDur *)
  backoff : Z;        (* c.backoffFactor *)
  closed : bool;      (* closeCh is closed *)
  ctx_done : bool;    (* the context given to Run is cancelled *)
  run : rpc;
  clo : cpc;          (* the first Close call *)
  clo2 : cpc;         (* a second, overlapping or later, Close call *)
  now : Z;
  (* ghost *)
  adds : Z;           (* Add calls so far *)
  dropped : Z;        (* Add calls that returned at once because the limiter was closed (Fixed) *)
  covered : Z;        (* Adds covered by a spawned signal *)
  spawned : Z;        (* signals spawned *)
  delivered : Z;      (* signals taken by the consumer *)
  exts : Z;           (* extensions of the open window *)
  armed_at : Z;       (* when the timer was last armed *)
  olog : list oev     (* newest first *)
}.

Inductive event :=
| Add            (* API: the whole of Add (it runs under the lock) *)
| LoopTop        (* run loop: RLock; read hasTimer/timer.C(); RUnlock *)
| TakeToken      (* run loop: select receives from inputCh (that token goroutine ends) *)
| HandleToken    (* run loop: handleInputCh *)
| TakeTimer      (* run loop: select receives the timer's value *)
| TimerFire      (* run loop: handleTimerFired (fireEvent; reset) *)
| RunExit        (* run loop: select sees ctx.Done / closeCh; cancel(); wg.Done() *)
| TokenAbort     (* a token goroutine sees closeCh closed *)
| SignalAbort    (* a signal goroutine sees the run loop's context done *)
| CloseCall      (* API: Close: close(closeCh) *)
| CloseLock      (* Close: takes the lock (Fixed: and releases it) and enters wg.Wait() *)
| CloseReturn    (* Close: wg.Wait() returns (Original: Unlock) *)
| Close2Call     (* API: a second Close call: CAS on closed (closes closeCh if it wins) *)
| Close2Lock     (* second Close: takes the lock (Fixed: and releases it), enters wg.Wait() *)
| Close2Return   (* second Close: wg.Wait() returns (Original: Unlock) *)
| Advance (d : Z)  (* environment: the clock moves *)
| Deliver        (* environment: the consumer takes a signal *)
| CtxCancel.     (* environment: the context given to Run is cancelled *)

Definition rpc_eqb (a b : rpc) : bool :=
  match a, b with
  | R_top, R_top | R_select, R_select | R_input, R_input | R_timer, R_timer
  | R_exited, R_exited => true
  | _, _ => false
  end.

Definition cpc_eqb (a b : cpc) : bool :=
  match a, b with
  | C_idle, C_idle | C_called, C_called | C_waiting, C_waiting | C_returned, C_returned => true
  | _, _ => false
  end.

(* sync.WaitGroup counter *)
Definition run_alive (s : state) : Z := if rpc_eqb (run s) R_exited then 0 else 1.
Definition wg (s : state) : Z := tokens s + inflight s + run_alive s.

(* the RWMutex is free (see the header) *)
Definition lock_free (v : variant) (s : state) : bool :=
  match v with
  | Original => negb (cpc_eqb (clo s) C_waiting) && negb (cpc_eqb (clo2 s) C_waiting)
  | Fixed => true
  end.

Definition timer_due (s : state) : bool := has_timer s && (deadline s <=? now s).

(* the context of the signal goroutines (derived by Run, cancelled when Run returns) is done *)
Definition sig_ctx_done (s : state) : bool := ctx_done s || rpc_eqb (run s) R_exited.

(* ---- timer contracts -------------------------------------------------------------------- *)
Inductive timer_contract := Go123 | Legacy.

(* Stop() on the window's timer in handleInputCh; [due] = expired, value not received *)
Definition stop_result (tc : timer_contract) (due : bool) : bool :=
  match tc with Go123 => true | Legacy => negb due end.

(* is a value sitting in the channel after that Stop()? *)
Definition value_after_stop (tc : timer_contract) (due : bool) : bool :=
  match tc with Go123 => false | Legacy => due end.

(* would "if !Stop() { <-C }" block for ever? *)
Definition drain_blocks (tc : timer_contract) (due : bool) : bool :=
  negb (stop_result tc due) && negb (value_after_stop tc due).

(* ---- pieces of the code ----------------------------------------------------------------- *)

(* fireEvent, at the run loop's pc [r] after it *)
Definition fire (s : state) : state :=
  if 0 <? pending s then
    mk 0 (tokens s) (inflight s + 1) (has_timer s) (deadline s) (cur_dur s) (backoff s)
       (closed s) (ctx_done s) (run s) (clo s) (clo2 s) (now s)
       (adds s) (dropped s) (covered s + pending s) (spawned s + 1) (delivered s) (exts s)
       (armed_at s) (OSig (now s) :: olog s)
  else s.

Definition set_run (s : state) (r : rpc) : state :=
  mk (pending s) (tokens s) (inflight s) (has_timer s) (deadline s) (cur_dur s) (backoff s)
     (closed s) (ctx_done s) r (clo s) (clo2 s) (now s)
     (adds s) (dropped s) (covered s) (spawned s) (delivered s) (exts s) (armed_at s) (olog s).

Definition set_clo (s : state) (k : cpc) : state :=
  mk (pending s) (tokens s) (inflight s) (has_timer s) (deadline s) (cur_dur s) (backoff s)
     (closed s) (ctx_done s) (run s) k (clo2 s) (now s)
     (adds s) (dropped s) (covered s) (spawned s) (delivered s) (exts s) (armed_at s) (olog s).

Definition set_clo2 (s : state) (k : cpc) : state :=
  mk (pending s) (tokens s) (inflight s) (has_timer s) (deadline s) (cur_dur s) (backoff s)
     (closed s) (ctx_done s) (run s) (clo s) k (now s)
     (adds s) (dropped s) (covered s) (spawned s) (delivered s) (exts s) (armed_at s) (olog s).

(* the back-off of the extend branch: (factor', currentDur') *)
Definition next_backoff (c : cfg) (s : state) : Z * Z :=
  if cur_dur s <? maxd c then
    let b := 2 * backoff s in
    let d := initial c * b in          (* float64 product, exact under [float_exact] *)
    (b, if maxd c <? d then maxd c else d)
  else (backoff s, cur_dur s).

(* handleInputCh, no-timer branch: NewTimer(initial); hasTimer = true; fireEvent *)
Definition handle_first (c : cfg) (s : state) : state :=
  fire (mk (pending s) (tokens s) (inflight s) true (now s + initial c) (cur_dur s) (backoff s)
           (closed s) (ctx_done s) R_top (clo s) (clo2 s) (now s)
           (adds s) (dropped s) (covered s) (spawned s) (delivered s) 0 (now s)
           (ONew (initial c) :: olog s)).

(* handleInputCh, extend branch: Stop; back-off; Reset(currentDur) *)
Definition handle_extend (c : cfg) (s : state) : state :=
  let '(b, d) := next_backoff c s in
  mk (pending s) (tokens s) (inflight s) true (now s + d) d b
     (closed s) (ctx_done s) R_top (clo s) (clo2 s) (now s)
     (adds s) (dropped s) (covered s) (spawned s) (delivered s) (exts s + 1) (now s)
     (OExt d :: olog s).

Definition handle_input (c : cfg) (s : state) : state :=
  if negb (has_timer s) then handle_first c s
  else if cap_reached c (pending s) then fire (set_run s R_top)
  else handle_extend c s.

(* handleTimerFired: fireEvent; reset *)
Definition handle_timer (c : cfg) (s : state) : state :=
  let s1 := fire s in
  mk 0 (tokens s1) (inflight s1) false (deadline s1) (initial c) 1
     (closed s1) (ctx_done s1) R_top (clo s1) (clo2 s1) (now s1)
     (adds s1) (dropped s1) (covered s1) (spawned s1) (delivered s1) 0 (armed_at s1)
     (OExp :: olog s1).

Definition step (v : variant) (c : cfg) (s : state) (e : event) : option state :=
  match e with
  | Add =>
      if negb (lock_free v s) then None
      else if is_fixed v && closed s then
        Some (mk (pending s) (tokens s) (inflight s) (has_timer s) (deadline s) (cur_dur s)
                 (backoff s) (closed s) (ctx_done s) (run s) (clo s) (clo2 s) (now s)
                 (adds s + 1) (dropped s + 1) (covered s) (spawned s) (delivered s) (exts s)
                 (armed_at s) (olog s))
      else
        Some (mk (pending s + 1) (tokens s + 1) (inflight s) (has_timer s) (deadline s)
                 (cur_dur s) (backoff s) (closed s) (ctx_done s) (run s) (clo s) (clo2 s) (now s)
                 (adds s + 1) (dropped s) (covered s) (spawned s) (delivered s) (exts s)
                 (armed_at s) (olog s))
  | LoopTop =>
      if rpc_eqb (run s) R_top && lock_free v s then Some (set_run s R_select) else None
  | TakeToken =>
      if rpc_eqb (run s) R_select && (0 <? tokens s) then
        Some (mk (pending s) (tokens s - 1) (inflight s) (has_timer s) (deadline s) (cur_dur s)
                 (backoff s) (closed s) (ctx_done s) R_input (clo s) (clo2 s) (now s)
                 (adds s) (dropped s) (covered s) (spawned s) (delivered s) (exts s)
                 (armed_at s) (olog s))
      else None
  | HandleToken =>
      if rpc_eqb (run s) R_input && lock_free v s then Some (handle_input c s) else None
  | TakeTimer =>
      if rpc_eqb (run s) R_select && timer_due s then Some (set_run s R_timer) else None
  | TimerFire =>
      if rpc_eqb (run s) R_timer && lock_free v s then Some (handle_timer c s) else None
  | RunExit =>
      if rpc_eqb (run s) R_select && (closed s || ctx_done s) then Some (set_run s R_exited)
      else None
  | TokenAbort =>
      if (0 <? tokens s) && closed s then
        Some (mk (pending s) (tokens s - 1) (inflight s) (has_timer s) (deadline s) (cur_dur s)
                 (backoff s) (closed s) (ctx_done s) (run s) (clo s) (clo2 s) (now s)
                 (adds s) (dropped s) (covered s) (spawned s) (delivered s) (exts s)
                 (armed_at s) (olog s))
      else None
  | SignalAbort =>
      if (0 <? inflight s) && sig_ctx_done s then
        Some (mk (pending s) (tokens s) (inflight s - 1) (has_timer s) (deadline s) (cur_dur s)
                 (backoff s) (closed s) (ctx_done s) (run s) (clo s) (clo2 s) (now s)
                 (adds s) (dropped s) (covered s) (spawned s) (delivered s) (exts s)
                 (armed_at s) (olog s))
      else None
  | CloseCall =>
      if cpc_eqb (clo s) C_idle then
        Some (mk (pending s) (tokens s) (inflight s) (has_timer s) (deadline s) (cur_dur s)
                 (backoff s) true (ctx_done s) (run s) C_called (clo2 s) (now s)
                 (adds s) (dropped s) (covered s) (spawned s) (delivered s) (exts s)
                 (armed_at s) (olog s))
      else None
  | CloseLock =>
      if cpc_eqb (clo s) C_called && lock_free v s then Some (set_clo s C_waiting) else None
  | CloseReturn =>
      if cpc_eqb (clo s) C_waiting && (wg s =? 0) then Some (set_clo s C_returned) else None
  | Close2Call =>
      if cpc_eqb (clo2 s) C_idle then
        Some (mk (pending s) (tokens s) (inflight s) (has_timer s) (deadline s) (cur_dur s)
                 (backoff s) true (ctx_done s) (run s) (clo s) C_called (now s)
                 (adds s) (dropped s) (covered s) (spawned s) (delivered s) (exts s)
                 (armed_at s) (olog s))
      else None
  | Close2Lock =>
      if cpc_eqb (clo2 s) C_called && lock_free v s then Some (set_clo2 s C_waiting) else None
  | Close2Return =>
      if cpc_eqb (clo2 s) C_waiting && (wg s =? 0) then Some (set_clo2 s C_returned) else None
  | Advance d =>
      if 0 <=? d then
        Some (mk (pending s) (tokens s) (inflight s) (has_timer s) (deadline s) (cur_dur s)
                 (backoff s) (closed s) (ctx_done s) (run s) (clo s) (clo2 s) (now s + d)
                 (adds s) (dropped s) (covered s) (spawned s) (delivered s) (exts s)
                 (armed_at s) (olog s))
      else None
  | Deliver =>
      if 0 <? inflight s then
        Some (mk (pending s) (tokens s) (inflight s - 1) (has_timer s) (deadline s) (cur_dur s)
                 (backoff s) (closed s) (ctx_done s) (run s) (clo s) (clo2 s) (now s)
                 (adds s) (dropped s) (covered s) (spawned s) (delivered s + 1) (exts s)
                 (armed_at s) (olog s))
      else None
  | CtxCancel =>
      Some (mk (pending s) (tokens s) (inflight s) (has_timer s) (deadline s) (cur_dur s)
               (backoff s) (closed s) true (run s) (clo s) (clo2 s) (now s)
               (adds s) (dropped s) (covered s) (spawned s) (delivered s) (exts s)
               (armed_at s) (olog s))
  end.

(* NewCoalescing + Run started (its wg.Add(1) done), nothing else yet *)
Definition init (c : cfg) : state :=
  mk 0 0 0 false 0 (initial c) 1 false false R_top C_idle C_idle 0 0 0 0 0 0 0 0 [].

Fixpoint exec (v : variant) (c : cfg) (s : state) (es : list event) : option state :=
  match es with
  | [] => Some s
  | e :: es' => match step v c s e with Some s' => exec v c s' es' | None => None end
  end.

(* a state of some execution: any schedule *)
Definition reachable (v : variant) (c : cfg) (s : state) : Prop :=
  exists es, exec v c (init c) es = Some s.

(* events of the limiter's own goroutines and of a Close already under way: what can happen
   without the callers, the consumer, the clock or the context doing anything *)
Definition internal (e : event) : bool :=
  match e with
  | LoopTop | TakeToken | HandleToken | TakeTimer | TimerFire | RunExit | TokenAbort
  | SignalAbort | CloseLock | CloseReturn | Close2Lock | Close2Return => true
  | Add | CloseCall | Close2Call | Advance _ | Deliver | CtxCancel => false
  end.

(* bound on the number of further internal events once the limiter is closed *)
Definition due_w (s : state) : Z := if timer_due s then 6 else 0.

Definition run_w (s : state) : Z :=
  match run s with
  | R_exited => 0
  | R_select => 1 + due_w s
  | R_top => 2 + due_w s
  | R_input => 4 + due_w s
  | R_timer => 6
  end.

Definition cpc_w (k : cpc) : Z :=
  match k with C_idle => 3 | C_called => 2 | C_waiting => 1 | C_returned => 0 end.

Definition clo_w (s : state) : Z := cpc_w (clo s) + cpc_w (clo2 s).

Definition measure (s : state) : Z := 5 * tokens s + inflight s + run_w s + clo_w s.

(* Close can never return from here: it waits for the run loop while holding the lock the run
   loop needs *)
Definition wedged (s : state) : Prop :=
  clo s = C_waiting /\ (run s = R_top \/ run s = R_input \/ run s = R_timer).
