(* C09 — invariants of the event system of Model.v and the theorems that follow from them.
   Stdlib style.  No axioms. *)
From Coq Require Import ZArith List Lia Bool ZifyBool.
From Kit Require Import C09.Spec C09.Model.
Import ListNotations.
Open Scope Z_scope.

(* ------------------------------------------------------------------------------------- *)
(* small facts                                                                              *)

Lemma rpc_eqb_eq a b : rpc_eqb a b = true <-> a = b.
Proof. destruct a, b; cbn; split; intro H; try reflexivity; discriminate. Qed.

Lemma cpc_eqb_eq a b : cpc_eqb a b = true <-> a = b.
Proof. destruct a, b; cbn; split; intro H; try reflexivity; discriminate. Qed.

Lemma rpc_eqb_neq a b : rpc_eqb a b = false <-> a <> b.
Proof. destruct a, b; cbn; split; intro H; try congruence; try discriminate; exfalso; apply H; reflexivity. Qed.

Lemma cpc_eqb_neq a b : cpc_eqb a b = false <-> a <> b.
Proof. destruct a, b; cbn; split; intro H; try congruence; try discriminate; exfalso; apply H; reflexivity. Qed.

Lemma exec_app v c s es1 es2 :
  exec v c s (es1 ++ es2) =
  match exec v c s es1 with Some s' => exec v c s' es2 | None => None end.
Proof.
  revert s; induction es1 as [|e es1 IH]; intro s; cbn [exec app]; [reflexivity|].
  destruct (step v c s e); [apply IH | reflexivity].
Qed.

Lemma pow2_pos k : 0 <= k -> 0 < 2 ^ k.
Proof. intro; apply Z.pow_pos_nonneg; lia. Qed.

(* the timer contract does not matter: "if !Stop() { <-C }" never blocks, and both contracts
   leave the channel empty afterwards *)
Lemma drain_never_blocks tc due : drain_blocks tc due = false.
Proof. destruct tc, due; reflexivity. Qed.

(* ------------------------------------------------------------------------------------- *)
(* the back-off law                                                                         *)

Lemma next_backoff_law c s :
  cfg_ok c -> 0 <= exts s ->
  cur_dur s = window_len c (exts s) ->
  (cur_dur s < maxd c -> backoff s = 2 ^ exts s) ->
  snd (next_backoff c s) = window_len c (exts s + 1) /\
  (snd (next_backoff c s) < maxd c -> fst (next_backoff c s) = 2 ^ (exts s + 1)).
Proof.
  intros (Hi & Him & _) Hk Hcur Hb.
  unfold next_backoff, window_len in *.
  rewrite (Z.pow_add_r 2 (exts s) 1) by lia. change (2 ^ 1) with 2.
  pose proof (pow2_pos (exts s) Hk) as Hp.
  set (p := 2 ^ exts s) in *.
  replace (initial c * (p * 2)) with (2 * (initial c * p)) by ring.
  assert (Hq : 0 < initial c * p) by (apply Z.mul_pos_pos; assumption).
  set (q := initial c * p) in *.
  destruct (cur_dur s <? maxd c) eqn:E; cbn [fst snd].
  - assert (Hlt : cur_dur s < maxd c) by lia. specialize (Hb Hlt). rewrite Hb.
    replace (initial c * (2 * p)) with (2 * q) by (unfold q; ring).
    destruct (maxd c <? 2 * q) eqn:E2; split; intros; lia.
  - split; intros; lia.
Qed.

(* ------------------------------------------------------------------------------------- *)
(* the invariant                                                                            *)

Definition Inv (c : cfg) (s : state) : Prop :=
  (0 <= pending s /\ 0 <= tokens s /\ 0 <= inflight s /\ 0 <= dropped s /\ 0 <= covered s /\
   0 <= spawned s /\ 0 <= delivered s /\ 0 <= exts s) /\
  adds s = covered s + pending s + dropped s /\
  spawned s <= covered s /\
  delivered s + inflight s <= spawned s /\
  cur_dur s = window_len c (exts s) /\
  (cur_dur s < maxd c -> backoff s = 2 ^ exts s) /\
  (has_timer s = false -> exts s = 0) /\
  (has_timer s = true -> deadline s = armed_at s + cur_dur s /\ armed_at s <= now s) /\
  (run s = R_timer -> has_timer s = true /\ deadline s <= now s) /\
  (closed s = false -> 0 < pending s -> 0 < tokens s \/ run s = R_input \/ has_timer s = true) /\
  (clo s <> C_idle -> closed s = true) /\
  (clo2 s <> C_idle -> closed s = true).

Lemma window_len_0 c : cfg_ok c -> window_len c 0 = initial c.
Proof. intros (Hi & Him & _). unfold window_len. cbn. lia. Qed.

Lemma Inv_init c : cfg_ok c -> Inv c (init c).
Proof.
  intro Hc. pose proof (window_len_0 c Hc) as Hw.
  unfold Inv, init; cbn.
  repeat split; intros; try lia; try discriminate; try reflexivity; auto.
Qed.

Ltac boolprops :=
  repeat match goal with
  | H : (_ && _) = true |- _ => apply andb_true_iff in H; destruct H
  | H : (_ || _) = false |- _ => apply orb_false_iff in H; destruct H
  | H : negb _ = true |- _ => apply negb_true_iff in H
  | H : negb _ = false |- _ => apply negb_false_iff in H
  | H : rpc_eqb _ _ = true |- _ => apply rpc_eqb_eq in H
  | H : cpc_eqb _ _ = true |- _ => apply cpc_eqb_eq in H
  | H : rpc_eqb _ _ = false |- _ => apply rpc_eqb_neq in H
  | H : cpc_eqb _ _ = false |- _ => apply cpc_eqb_neq in H
  end.

Ltac step_inv H :=
  repeat match type of H with
  | (if ?b then _ else _) = Some _ =>
      let E := fresh "E" in destruct b eqn:E; try discriminate H
  end;
  try (injection H as H; subst).

(* closes the side conditions of [step_Inv] *)
Ltac close IX IT IR IL IC IC2 :=
  first
  [ lia | discriminate | congruence | tauto | assumption | reflexivity
  | apply IX; assumption
  | apply IC; assumption
  | apply IC2; assumption
  | apply IC; congruence
  | apply IC2; congruence
  | apply IT; assumption
  | apply IR; assumption
  | match goal with H : has_timer _ = true |- _ => destruct (IT H); lia end
  | match goal with H : run _ = R_timer |- _ => destruct (IR H); first [lia | assumption] end
  | match goal with H1 : closed _ = false, H2 : 0 < pending _ |- _ =>
      destruct (IL H1 H2) as [L|[L|L]];
      first [ left; lia | right; left; congruence | right; right; assumption | congruence | lia ] end
  | right; right; assumption
  | right; right; reflexivity
  | left; lia ].

Lemma step_Inv v c s e s' : cfg_ok c -> Inv c s -> step v c s e = Some s' -> Inv c s'.
Proof.
  intros Hc HI H.
  pose proof (window_len_0 c Hc) as Hw0.
  destruct HI as ((P1 & P2 & P3 & P4 & P5 & P6 & P7 & P8) & IA & IS & ID & IW & IB & IX & IT & IR & IL & IC & IC2).
  destruct e; cbn [step] in H.
  - (* Add *)
    step_inv H; boolprops; unfold Inv; cbn; repeat split; intros; close IX IT IR IL IC IC2.
  - (* LoopTop *)
    step_inv H; boolprops; unfold Inv, set_run; cbn; repeat split; intros; close IX IT IR IL IC IC2.
  - (* TakeToken *)
    step_inv H; boolprops; unfold Inv; cbn; repeat split; intros; close IX IT IR IL IC IC2.
  - (* HandleToken *)
    step_inv H; boolprops. unfold handle_input.
    destruct (has_timer s) eqn:Eh; cbn [negb].
    + destruct (cap_reached c (pending s)) eqn:Ecap.
      * (* cap branch *)
        unfold fire, set_run; cbn. destruct (0 <? pending s) eqn:Ep;
          unfold Inv; cbn; repeat split; intros; close IX IT IR IL IC IC2.
      * (* extend branch *)
        pose proof (next_backoff_law c s Hc P8 IW IB) as (L1 & L2).
        unfold handle_extend. destruct (next_backoff c s) as [b d] eqn:Enb. cbn [fst snd] in L1, L2.
        unfold Inv; cbn. repeat split; intros; first [apply L2; assumption | close IX IT IR IL IC IC2].
    + (* first branch *)
      specialize (IX eq_refl). rewrite IX in IW, IB.
      unfold handle_first, fire; cbn. destruct (0 <? pending s) eqn:Ep;
        unfold Inv; cbn; repeat split; intros; close IX IT IR IL IC IC2.
  - (* TakeTimer *)
    step_inv H; boolprops; unfold timer_due in *; boolprops.
    unfold Inv, set_run; cbn; repeat split; intros; close IX IT IR IL IC IC2.
  - (* TimerFire *)
    step_inv H; boolprops. unfold handle_timer, fire.
    destruct (0 <? pending s) eqn:Ep; unfold Inv; cbn; repeat split; intros; close IX IT IR IL IC IC2.
  - (* RunExit *)
    step_inv H; boolprops; unfold Inv, set_run; cbn; repeat split; intros; close IX IT IR IL IC IC2.
  - (* TokenAbort *)
    step_inv H; boolprops; unfold Inv; cbn; repeat split; intros; close IX IT IR IL IC IC2.
  - (* SignalAbort *)
    step_inv H; boolprops; unfold Inv; cbn; repeat split; intros; close IX IT IR IL IC IC2.
  - (* CloseCall *)
    step_inv H; boolprops; unfold Inv; cbn; repeat split; intros; close IX IT IR IL IC IC2.
  - (* CloseLock *)
    step_inv H; boolprops; unfold Inv, set_clo; cbn; repeat split; intros; close IX IT IR IL IC IC2.
  - (* CloseReturn *)
    step_inv H; boolprops; unfold Inv, set_clo; cbn; repeat split; intros; close IX IT IR IL IC IC2.
  - (* Close2Call *)
    step_inv H; boolprops; unfold Inv; cbn; repeat split; intros; close IX IT IR IL IC IC2.
  - (* Close2Lock *)
    step_inv H; boolprops; unfold Inv, set_clo2; cbn; repeat split; intros; close IX IT IR IL IC IC2.
  - (* Close2Return *)
    step_inv H; boolprops; unfold Inv, set_clo2; cbn; repeat split; intros; close IX IT IR IL IC IC2.
  - (* Advance *)
    step_inv H; boolprops; unfold Inv; cbn; repeat split; intros; close IX IT IR IL IC IC2.
  - (* Deliver *)
    step_inv H; boolprops; unfold Inv; cbn; repeat split; intros; close IX IT IR IL IC IC2.
  - (* CtxCancel *)
    step_inv H; boolprops; unfold Inv; cbn; repeat split; intros; close IX IT IR IL IC IC2.
Qed.

Lemma exec_Inv v c es : forall s s', cfg_ok c -> Inv c s -> exec v c s es = Some s' -> Inv c s'.
Proof.
  induction es as [|e es IH]; intros s s' Hc HI H; cbn [exec] in H.
  - injection H as <-. assumption.
  - destruct (step v c s e) as [s1|] eqn:E; [|discriminate].
    eapply IH; [assumption | eapply step_Inv; eassumption | assumption].
Qed.

Lemma reachable_Inv v c s : cfg_ok c -> reachable v c s -> Inv c s.
Proof. intros Hc [es H]. eapply exec_Inv; [assumption | apply Inv_init; assumption | eassumption]. Qed.

Lemma reachable_step v c s e s' : reachable v c s -> step v c s e = Some s' -> reachable v c s'.
Proof.
  intros [es H] Hs. exists (es ++ [e]). rewrite exec_app, H. cbn. rewrite Hs. reflexivity.
Qed.

Lemma reachable_exec v c s es s' : reachable v c s -> exec v c s es = Some s' -> reachable v c s'.
Proof. intros [es0 H] Hs. exists (es0 ++ es). rewrite exec_app, H. assumption. Qed.

(* ------------------------------------------------------------------------------------- *)
(* C09_signals_le_adds                                                                      *)

Theorem signals_le_adds v c s : cfg_ok c -> reachable v c s ->
  adds s = covered s + pending s + dropped s /\
  spawned s <= covered s /\
  delivered s <= spawned s /\
  spawned s <= adds s.
Proof.
  intros Hc Hr. destruct (reachable_Inv v c s Hc Hr)
    as ((P1 & P2 & P3 & P4 & P5 & P6 & P7 & P8) & IA & IS & ID & _).
  repeat split; lia.
Qed.

(* how [spawned], [covered], [pending] move in one event *)
Definition fires (c : cfg) (s : state) (e : event) : bool :=
  match e with
  | HandleToken => if has_timer s then cap_reached c (pending s) else true
  | TimerFire => true
  | _ => false
  end.

Lemma step_spawn v c s e s' : step v c s e = Some s' ->
  spawned s' = spawned s + (if fires c s e && (0 <? pending s) then 1 else 0) /\
  (fires c s e = true -> 0 <= pending s -> pending s' = 0 /\ covered s' = covered s + pending s).
Proof.
  intro H. destruct e; cbn [step] in H; step_inv H; cbn [fires andb]; try (cbn; split; [lia | discriminate]).
  - (* HandleToken *)
    unfold handle_input. destruct (has_timer s) eqn:Eh; cbn [negb].
    + destruct (cap_reached c (pending s)) eqn:Ecap.
      * unfold fire, set_run; cbn. destruct (0 <? pending s) eqn:Ep; cbn; split; try lia.
        all: intros _ ?; split; lia.
      * unfold handle_extend. destruct (next_backoff c s). cbn. split; [lia | discriminate].
    + unfold handle_first, fire; cbn. destruct (0 <? pending s) eqn:Ep; cbn; split; try lia.
      all: intros _ ?; split; lia.
  - (* TimerFire *)
    unfold handle_timer, fire. destruct (0 <? pending s) eqn:Ep; cbn; split; try lia.
    all: intros _ ?; split; lia.
Qed.

(* ------------------------------------------------------------------------------------- *)
(* C09_no_add_lost                                                                          *)

Theorem no_add_lost v c s : cfg_ok c -> reachable v c s ->
  closed s = false -> 0 < pending s ->
  0 < tokens s \/ run s = R_input \/ has_timer s = true.
Proof.
  intros Hc Hr. destruct (reachable_Inv v c s Hc Hr) as (_ & _ & _ & _ & _ & _ & _ & _ & _ & IL & _).
  exact IL.
Qed.

(* the events that the disjuncts enable cover everything pending *)
Theorem firing_covers_pending v c s s' : cfg_ok c -> reachable v c s ->
  (has_timer s = false -> step v c s HandleToken = Some s' ->
     pending s' = 0 /\ covered s' = covered s + pending s) /\
  (step v c s TimerFire = Some s' -> pending s' = 0 /\ covered s' = covered s + pending s).
Proof.
  intros Hc Hr. destruct (reachable_Inv v c s Hc Hr) as ((P1 & _) & _).
  split.
  - intros Hh H. destruct (step_spawn _ _ _ _ _ H) as (_ & F).
    cbn [fires] in F. rewrite Hh in F. destruct (F eq_refl P1) as (F1 & F2).
    split; assumption.
  - intros H. destruct (step_spawn _ _ _ _ _ H) as (_ & F).
    destruct (F eq_refl P1) as (F1 & F2). split; assumption.
Qed.

(* an armed timer becomes due by the passage of time alone *)
Theorem timer_due_by_time v c s : has_timer s = true ->
  exists d s', 0 <= d /\ step v c s (Advance d) = Some s' /\ timer_due s' = true.
Proof.
  intro Hh. exists (Z.max 0 (deadline s - now s)). eexists. split; [lia|]. cbn [step].
  destruct (0 <=? Z.max 0 (deadline s - now s)) eqn:E; [|lia].
  split; [reflexivity|]. unfold timer_due; cbn. rewrite Hh. cbn. lia.
Qed.

(* ------------------------------------------------------------------------------------- *)
(* C09_first_immediate                                                                      *)

Theorem first_immediate v c s : cfg_ok c -> reachable v c s ->
  has_timer s = false -> run s = R_select -> tokens s = 0 -> closed s = false ->
  lock_free v s = true ->
  exists s', exec v c s [Model.Add; TakeToken; HandleToken] = Some s' /\
    spawned s' = spawned s + 1 /\ now s' = now s /\ pending s' = 0 /\
    covered s' = covered s + pending s + 1 /\
    has_timer s' = true /\ deadline s' = now s + initial c /\
    hd_error (olog s') = Some (OSig (now s)).
Proof.
  intros Hc Hr Hh Hrun Htok Hcl Hlf.
  destruct (reachable_Inv v c s Hc Hr) as ((P1 & _) & _).
  cbn [exec].
  destruct (step v c s Model.Add) as [s1|] eqn:E1.
  2:{ cbn [step] in E1. rewrite Hlf, Hcl, andb_false_r in E1. discriminate. }
  cbn [step] in E1. rewrite Hlf, Hcl, andb_false_r in E1. cbn [negb] in E1. injection E1 as <-.
  cbn [step run tokens]. rewrite Hrun, Htok. cbn [rpc_eqb andb].
  replace (0 <? 0 + 1) with true by lia.
  cbn [step run clo rpc_eqb andb].
  match goal with |- context [lock_free v ?x] =>
    assert (Hl : lock_free v x = true) by (destruct v; cbn in *; assumption); rewrite Hl end.
  unfold handle_input; cbn [has_timer]. rewrite Hh. cbn [negb].
  unfold handle_first, fire; cbn. replace (0 <? pending s + 1) with true by lia.
  eexists; split; [reflexivity|]. cbn. repeat split; lia.
Qed.

(* ------------------------------------------------------------------------------------- *)
(* C09_window_law                                                                           *)

Theorem window_law v c s : cfg_ok c -> reachable v c s ->
  cur_dur s = window_len c (exts s) /\
  (has_timer s = false -> exts s = 0 /\ cur_dur s = initial c) /\
  (has_timer s = true -> deadline s = armed_at s + window_len c (exts s) /\ armed_at s <= now s).
Proof.
  intros Hc Hr. destruct (reachable_Inv v c s Hc Hr)
    as (_ & _ & _ & _ & IW & _ & IX & IT & _).
  split; [assumption|]. split.
  - intro Hh. specialize (IX Hh). split; [assumption|]. rewrite IW, IX. apply window_len_0; assumption.
  - intro Hh. destruct (IT Hh). split; [congruence | assumption].
Qed.

(* each extension arms the timer now, for the next length of the law *)
Theorem extension_law v c s s' : cfg_ok c -> reachable v c s ->
  has_timer s = true -> cap_reached c (pending s) = false ->
  step v c s HandleToken = Some s' ->
  exts s' = exts s + 1 /\ armed_at s' = now s /\ now s' = now s /\
  deadline s' = now s + window_len c (exts s + 1) /\ has_timer s' = true /\
  spawned s' = spawned s /\ pending s' = pending s /\
  hd_error (olog s') = Some (OExt (window_len c (exts s + 1))).
Proof.
  intros Hc Hr Hh Hcap H.
  destruct (reachable_Inv v c s Hc Hr) as ((_ & _ & _ & _ & _ & _ & _ & P8) & _ & _ & _ & IW & IB & _).
  pose proof (next_backoff_law c s Hc P8 IW IB) as (L1 & _).
  cbn [step] in H. step_inv H. unfold handle_input. rewrite Hh, Hcap. cbn [negb].
  unfold handle_extend. destruct (next_backoff c s) as [b d]. cbn [snd] in L1. cbn.
  rewrite L1. repeat split; reflexivity.
Qed.

(* ------------------------------------------------------------------------------------- *)
(* C09_cap                                                                                  *)

Theorem cap_fires v c s s' m : cfg_ok c -> reachable v c s ->
  has_timer s = true -> cap c = Some m -> m <= pending s ->
  step v c s HandleToken = Some s' ->
  spawned s' = spawned s + 1 /\ pending s' = 0 /\ covered s' = covered s + pending s /\
  now s' = now s /\ deadline s' = deadline s /\ exts s' = exts s /\
  hd_error (olog s') = Some (OSig (now s)).
Proof.
  intros Hc Hr Hh Hcap Hm H.
  destruct Hc as (_ & _ & Hcp). rewrite Hcap in Hcp.
  cbn [step] in H. step_inv H. unfold handle_input. rewrite Hh. cbn [negb].
  unfold cap_reached. rewrite Hcap. replace (m <=? pending s) with true by lia.
  unfold fire, set_run; cbn. replace (0 <? pending s) with true by lia. cbn.
  repeat split; lia.
Qed.

(* ------------------------------------------------------------------------------------- *)
(* C09_burst_single                                                                         *)

Definition is_timer_fire (e : event) : bool := match e with TimerFire => true | _ => false end.

(* while the window stays open (no TimerFire) and the cap is unset, nothing is signalled *)
Theorem burst_no_signal v c : cap c = None ->
  forall es s s', has_timer s = true -> existsb is_timer_fire es = false ->
  exec v c s es = Some s' -> spawned s' = spawned s /\ has_timer s' = true.
Proof.
  intros Hcap. induction es as [|e es IH]; intros s s' Hh Hn H; cbn [exec] in H.
  - injection H as <-. split; [reflexivity | assumption].
  - cbn [existsb] in Hn. apply orb_false_iff in Hn as [Hn1 Hn2].
    destruct (step v c s e) as [s1|] eqn:E; [|discriminate].
    assert (spawned s1 = spawned s /\ has_timer s1 = true) as [A B].
    { destruct (step_spawn _ _ _ _ _ E) as (S1 & _).
      destruct e; cbn [step] in E; step_inv E; cbn in Hn1; try discriminate;
        cbn [fires] in S1; try (cbn in *; split; [lia | assumption]).
      rewrite Hh in S1. unfold cap_reached in S1. rewrite Hcap in S1. cbn in S1.
      split; [lia|]. unfold handle_input. rewrite Hh. unfold cap_reached. rewrite Hcap. cbn.
      unfold handle_extend. destruct (next_backoff c s). reflexivity. }
    destruct (IH s1 s' B Hn2 H) as [C D]. split; [lia | assumption].
Qed.

(* at the end of the window: exactly one signal iff something is pending; the window closes *)
Theorem window_end_signal v c s s' :
  step v c s TimerFire = Some s' ->
  spawned s' = spawned s + (if 0 <? pending s then 1 else 0) /\
  has_timer s' = false /\ pending s' = 0 /\ cur_dur s' = initial c /\ exts s' = 0.
Proof.
  intro H. destruct (step_spawn _ _ _ _ _ H) as (S1 & _). cbn [fires andb] in S1.
  split; [assumption|]. cbn [step] in H. step_inv H.
  unfold handle_timer. cbn. repeat split; reflexivity.
Qed.

(* ------------------------------------------------------------------------------------- *)
(* C09_close_waits                                                                          *)

Definition is_close_return (e : event) : bool :=
  match e with CloseReturn | Close2Return => true | _ => false end.

(* whichever Close call it is *)
Theorem close_waits v c s e s' : cfg_ok c -> reachable v c s ->
  is_close_return e = true -> step v c s e = Some s' ->
  tokens s = 0 /\ inflight s = 0 /\ run s = R_exited /\ closed s = true.
Proof.
  intros Hc Hr He H.
  destruct (reachable_Inv v c s Hc Hr) as ((_ & P2 & P3 & _) & _ & _ & _ & _ & _ & _ & _ & _ & _ & IC & IC2).
  destruct e; try discriminate He; cbn [step] in H; step_inv H; boolprops; unfold wg, run_alive in *;
    destruct (rpc_eqb (run s) R_exited) eqn:Er; try lia;
    apply rpc_eqb_eq in Er; repeat split; try lia; try assumption;
    first [apply IC; congruence | apply IC2; congruence].
Qed.

(* Fixed: after a Close call has returned no helper goroutine exists, now or later *)
Definition InvF (s : state) : Prop :=
  clo s = C_returned \/ clo2 s = C_returned -> tokens s = 0 /\ inflight s = 0 /\ run s = R_exited.

Lemma clo_fire s : clo (fire s) = clo s.
Proof. unfold fire. destruct (0 <? pending s); reflexivity. Qed.

Lemma clo2_fire s : clo2 (fire s) = clo2 s.
Proof. unfold fire. destruct (0 <? pending s); reflexivity. Qed.

Lemma clo_handle_input c s : clo (handle_input c s) = clo s.
Proof.
  unfold handle_input, handle_first, handle_extend.
  destruct (negb (has_timer s)); [rewrite clo_fire; reflexivity|].
  destruct (cap_reached c (pending s)); [rewrite clo_fire; reflexivity|].
  destruct (next_backoff c s); reflexivity.
Qed.

Lemma clo2_handle_input c s : clo2 (handle_input c s) = clo2 s.
Proof.
  unfold handle_input, handle_first, handle_extend.
  destruct (negb (has_timer s)); [rewrite clo2_fire; reflexivity|].
  destruct (cap_reached c (pending s)); [rewrite clo2_fire; reflexivity|].
  destruct (next_backoff c s); reflexivity.
Qed.

Lemma clo_handle_timer c s : clo (handle_timer c s) = clo s.
Proof. unfold handle_timer. cbn. apply clo_fire. Qed.

Lemma clo2_handle_timer c s : clo2 (handle_timer c s) = clo2 s.
Proof. unfold handle_timer. cbn. apply clo2_fire. Qed.

Lemma step_InvF c s e s' : cfg_ok c -> Inv c s -> InvF s -> step Fixed c s e = Some s' -> InvF s'.
Proof.
  intros Hc HI HF H.
  destruct HI as ((_ & P2 & P3 & _) & _ & _ & _ & _ & _ & _ & _ & _ & _ & IC & IC2).
  unfold InvF in *.
  destruct e; cbn [step] in H; step_inv H; boolprops; unfold set_run, set_clo, set_clo2; cbn; intro Hcl.
  all: rewrite ?clo_handle_input, ?clo_handle_timer, ?clo_fire,
               ?clo2_handle_input, ?clo2_handle_timer, ?clo2_fire in Hcl.
  (* a step of a closer itself *)
  all: try (assert (Hcl' : clo s = C_returned \/ clo2 s = C_returned)
              by (destruct Hcl as [Hcl|Hcl]; [first [left; exact Hcl | discriminate Hcl | congruence]
                                             | first [right; exact Hcl | discriminate Hcl | congruence]]);
            destruct (HF Hcl') as (A & B & C)).
  all: try solve [repeat split; first [lia | congruence | assumption]].
  all: try solve [exfalso; congruence].
  all: try solve [exfalso; lia].
  - (* Add, not closed *)
    exfalso. cbn in *. destruct (closed s) eqn:Ecl; [discriminate|].
    destruct Hcl' as [Hcl'|Hcl']; [assert (false = true) by (apply IC; congruence)
                                  | assert (false = true) by (apply IC2; congruence)]; discriminate.
  - (* CloseReturn *)
    unfold wg, run_alive in *. destruct (rpc_eqb (run s) R_exited) eqn:Er.
    + apply rpc_eqb_eq in Er. repeat split; first [lia | assumption].
    + exfalso; lia.
  - (* Close2Return *)
    unfold wg, run_alive in *. destruct (rpc_eqb (run s) R_exited) eqn:Er.
    + apply rpc_eqb_eq in Er. repeat split; first [lia | assumption].
    + exfalso; lia.
Qed.

Theorem close_returned_quiet c s : cfg_ok c -> reachable Fixed c s ->
  clo s = C_returned \/ clo2 s = C_returned ->
  tokens s = 0 /\ inflight s = 0 /\ run s = R_exited.
Proof.
  intros Hc [es H]. revert H.
  assert (G : forall es s0, Inv c s0 -> InvF s0 -> exec Fixed c s0 es = Some s -> InvF s).
  { clear es. induction es as [|e es IH]; intros s0 HI HF H; cbn [exec] in H.
    - injection H as <-. assumption.
    - destruct (step Fixed c s0 e) as [s1|] eqn:E; [|discriminate].
      eapply IH; [eapply step_Inv; eassumption | eapply step_InvF; eassumption | assumption]. }
  intro H. apply (G es (init c)); [apply Inv_init; assumption | | assumption].
  unfold InvF, init; cbn. intros [X|X]; discriminate.
Qed.
