(* C09 — what the property demands of the coalescing rate limiter, written from the property
   text and the doc comments of events/ratelimiting (OptionsCoalescing: "The rate limiter will
   not delay events less than the initial delay", "... longer than the max delay",
   "MaxPendingEvents is the maximum number of events that can pending on a rate limiter, before
   it fires an event anyway"; handleInputCh: "500ms, 1s, 2s, 4s, 5s, 5s, 5s, ..."; RateLimiter:
   "Close closes the rate limiter and waits for all resources to be released"), NOT from the
   code.  Time is [Z] nanoseconds of the injected clock. *)
From Kit Require Export Lib.Base.
Open Scope Z_scope.

(* ===================================================================================== *)
(* 0. Configuration: InitialDelay, MaxDelay, MaxPendingEvents (None = unset).              *)

Record cfg := mkcfg { initial : Z; maxd : Z; cap : option Z }.

(* what NewCoalescing accepts *)
Definition cfg_ok (c : cfg) : Prop :=
  0 < initial c /\ initial c <= maxd c /\ match cap c with Some m => 0 < m | None => True end.

Definition cfg_okb (c : cfg) : bool :=
  (0 <? initial c) && (initial c <=? maxd c) &&
  match cap c with Some m => 0 <? m | None => true end.

(* "the quiet window doubles from the initial delay up to the maximum while events keep
   arriving": its length after [k] further events *)
Definition window_len (c : cfg) (k : Z) : Z := Z.min (initial c * 2 ^ k) (maxd c).

Definition cap_reached (c : cfg) (pending : Z) : bool :=
  match cap c with Some m => m <=? pending | None => false end.

(* ===================================================================================== *)
(* 1. Settled timelines.  One caller issues one operation at a time and lets the limiter    *)
(*    finish what that operation caused before the next one.  Under that discipline the     *)
(*    property determines, for every operation, how many signals it causes and whether a    *)
(*    quiet window starts (and how long it is) or ends.                                     *)

Inductive sop :=
| PAdd            (* one Add at the current instant *)
| PAdv (d : Z)    (* the clock advances by d *)
| PDrain.         (* a slow consumer takes every signal that is waiting for it *)

(* what is seen of the window at one operation *)
Inductive wobs :=
| WNone           (* nothing *)
| WStart (d : Z)  (* a quiet window of length d starts now (first one, or re-started) *)
| WEnd.           (* the window ended *)

Record ref := mkref {
  r_open : bool;   (* a quiet window is open (not idle) *)
  r_end : Z;       (* when it ends *)
  r_k : Z;         (* how many times it has been extended *)
  r_pend : Z;      (* Adds not yet covered by a signal *)
  r_now : Z;
  r_unread : Z     (* slow consumer: signals waiting to be taken *)
}.

Definition ref_init : ref := mkref false 0 0 0 0 0.

(* the reference: (next state, signals caused now, window observation) *)
Definition ref_step (c : cfg) (r : ref) (op : sop) : ref * Z * wobs :=
  match op with
  | PAdd =>
      if negb (r_open r) then
        (* "the first Add after an idle period is signalled immediately"; the limiter then
           does "not delay events less than the initial delay" *)
        (mkref true (r_now r + window_len c 0) 0 0 (r_now r) (r_unread r), 1, WStart (window_len c 0))
      else
        let p := r_pend r + 1 in
        if cap_reached c p then
          (* "... or as soon as the pending-events cap is reached" *)
          (mkref true (r_end r) (r_k r) 0 (r_now r) (r_unread r), 1, WNone)
        else
          (* a later Add: covered at the end of its quiet window, which doubles *)
          let k := r_k r + 1 in
          (mkref true (r_now r + window_len c k) k p (r_now r) (r_unread r), 0, WStart (window_len c k))
  | PAdv d =>
      let t := r_now r + d in
      if r_open r && (r_end r <=? t) then
        (* end of the quiet window: "a burst inside one window yields a single signal";
           "the number of signals never exceeds the number of Adds" (none if nothing pending) *)
        (mkref false 0 0 0 t (r_unread r), if 0 <? r_pend r then 1 else 0, WEnd)
      else (mkref (r_open r) (r_end r) (r_k r) (r_pend r) t (r_unread r), 0, WNone)
  | PDrain => (mkref (r_open r) (r_end r) (r_k r) (r_pend r) (r_now r) 0, 0, WNone)
  end.

(* One observation per operation: (signals seen, window observation).  A prompt consumer sees
   the signals of an operation at that operation; a slow one sees nothing until it drains, and
   then everything that was waiting. *)
Definition sobs := (Z * wobs)%type.

Definition ref_obs (slow : bool) (c : cfg) (r : ref) (op : sop) : ref * sobs :=
  let '(r', k, w) := ref_step c r op in
  if slow then
    match op with
    | PDrain => (r', (r_unread r, w))
    | _ => (mkref (r_open r') (r_end r') (r_k r') (r_pend r') (r_now r') (r_unread r' + k), (0, w))
    end
  else (r', (k, w)).

Fixpoint ref_run (slow : bool) (c : cfg) (r : ref) (ops : list sop) : list sobs :=
  match ops with
  | [] => []
  | op :: ops' => let '(r', o) := ref_obs slow c r op in o :: ref_run slow c r' ops'
  end.

(* the settled-timeline requirement *)
Definition seq_spec (slow : bool) (c : cfg) (ops : list sop) (obs : list sobs) : Prop :=
  obs = ref_run slow c ref_init ops.

Definition wobs_eqb (a b : wobs) : bool :=
  match a, b with
  | WNone, WNone => true
  | WStart x, WStart y => x =? y
  | WEnd, WEnd => true
  | _, _ => false
  end.

Definition sobs_eqb (a b : sobs) : bool := (fst a =? fst b) && wobs_eqb (snd a) (snd b).

Fixpoint sobss_eqb (a b : list sobs) : bool :=
  match a, b with
  | [], [] => true
  | x :: a', y :: b' => sobs_eqb x y && sobss_eqb a' b'
  | _, _ => false
  end.

Definition seq_oracle (slow : bool) (c : cfg) (ops : list sop) (obs : list sobs) : bool :=
  sobss_eqb obs (ref_run slow c ref_init ops).

(* Grouped form.  One step of a script may stand for SEVERAL operations whose order is known
   although the caller did not wait in between: an Add issued from inside a callback the
   limiter's own goroutine makes while it handles an expiry (or another Add's hand-over) cannot
   be counted before that handling is over, so the step is "the expiry, then the Add".  Per
   step the signals are summed and the window observations listed in order ([WNone] left out). *)
Definition gobs := (Z * list wobs)%type.

Fixpoint ref_group (slow : bool) (c : cfg) (r : ref) (ops : list sop) : ref * gobs :=
  match ops with
  | [] => (r, (0, []))
  | op :: ops' =>
      let '(r1, (k, w)) := ref_obs slow c r op in
      let '(r2, (k2, ws)) := ref_group slow c r1 ops' in
      (r2, (k + k2, match w with WNone => ws | _ => w :: ws end))
  end.

Fixpoint ref_run_g (slow : bool) (c : cfg) (r : ref) (steps : list (list sop)) : list gobs :=
  match steps with
  | [] => []
  | ops :: rest => let '(r', o) := ref_group slow c r ops in o :: ref_run_g slow c r' rest
  end.

Definition seqg_spec (slow : bool) (c : cfg) (steps : list (list sop)) (obs : list gobs) : Prop :=
  obs = ref_run_g slow c ref_init steps.

Fixpoint wobss_eqb (a b : list wobs) : bool :=
  match a, b with
  | [], [] => true
  | x :: a', y :: b' => wobs_eqb x y && wobss_eqb a' b'
  | _, _ => false
  end.

Definition gobs_eqb (a b : gobs) : bool := (fst a =? fst b) && wobss_eqb (snd a) (snd b).

Fixpoint gobss_eqb (a b : list gobs) : bool :=
  match a, b with
  | [], [] => true
  | x :: a', y :: b' => gobs_eqb x y && gobss_eqb a' b'
  | _, _ => false
  end.

Definition seqg_oracle (slow : bool) (c : cfg) (steps : list (list sop)) (obs : list gobs) : bool :=
  gobss_eqb obs (ref_run_g slow c ref_init steps).

(* ===================================================================================== *)
(* 2. Any timeline (also Adds issued from several goroutines at one instant, whose order    *)
(*    against the limiter's own goroutine is not known): per operation, how many Adds were  *)
(*    issued and how many signals were seen.                                                *)

(* "the number of signals never exceeds the number of Adds", at every moment *)
Fixpoint counts_ok (adds sigs : Z) (tl : list (Z * Z)) : Prop :=
  match tl with
  | [] => True
  | (a, k) :: tl' => 0 <= k /\ sigs + k <= adds + a /\ counts_ok (adds + a) (sigs + k) tl'
  end.

Fixpoint counts_okb (adds sigs : Z) (tl : list (Z * Z)) : bool :=
  match tl with
  | [] => true
  | (a, k) :: tl' => (0 <=? k) && (sigs + k <=? adds + a) && counts_okb (adds + a) (sigs + k) tl'
  end.

(* "every Add is followed by a signal": in a timeline that was flushed (the clock was finally
   advanced past the longest possible window and a slow consumer drained), every operation
   that issued Adds is followed, at that operation or later, by a signal *)
Fixpoint followed (tl : list (Z * Z)) : Prop :=
  match tl with
  | [] => True
  | (a, k) :: tl' => (0 < a -> 0 < k \/ Exists (fun p => 0 < snd p) tl') /\ followed tl'
  end.

Fixpoint followedb (tl : list (Z * Z)) : bool :=
  match tl with
  | [] => true
  | (a, k) :: tl' =>
      (if 0 <? a then (0 <? k) || existsb (fun p => 0 <? snd p) tl' else true) && followedb tl'
  end.

(* "Close returns only when all helper goroutines have finished" (read as: Close returns, and
   only after ...; see DESIGN.md): the run loop has returned, Close has returned, and no
   goroutine of the limiter is left afterwards. *)
Definition end_spec (run_returned close_returned leak : bool) : Prop :=
  run_returned = true /\ close_returned = true /\ leak = false.

Definition end_oracle (run_returned close_returned leak : bool) : bool :=
  run_returned && close_returned && negb leak.

(* The cap clause for Adds whose order against the limiter's own goroutine is not known.
   [n] Adds are issued at one instant while at least [p] earlier Adds are known to be pending,
   and the limiter settles (every one of them has been handed over).  When the last of them is
   handed over all [n] have been counted, so unless a signal was sent meanwhile at least [p+n]
   are pending: if that reaches MaxPendingEvents the Add must be signalled "as soon as the
   pending-events cap is reached", i.e. before the limiter settles.  So with [p + n >= cap] at
   least one signal is seen at that step, whatever the interleaving.  (If no window is open the
   first of them is signalled immediately anyway.) *)
Definition cap_burst_spec (c : cfg) (p n sigs : Z) : Prop :=
  match cap c with Some m => m <= p + n -> 0 < sigs | None => True end.

Definition cap_burst_oracle (c : cfg) (p n sigs : Z) : bool :=
  match cap c with Some m => if m <=? p + n then 0 <? sigs else true | None => true end.

(* The first-Add clause for Adds in no known order: [n >= 1] Adds issued at one instant while
   the limiter is idle (no window open, nothing pending).  "The first Add after an idle period is
   signalled immediately": whichever of them is handed over first, a signal is seen at that
   step, with no clock advance. *)
Definition idle_burst_spec (n sigs : Z) : Prop := 0 < n -> 0 < sigs.

Definition idle_burst_oracle (n sigs : Z) : bool := (n <=? 0) || (0 <? sigs).

(* Overlapping Close calls while a helper goroutine is verifiably still running (the harness
   holds the run loop inside a callback of the injected clock): NO Close call may have returned
   while it was held ("Close returns only when all helper goroutines have finished" speaks of
   every call, not of the first); once it is let go, every Close call and Run return and
   nothing is left. *)
Definition park_spec (returned_while_held : Z) (all_closes_returned run_returned leak : bool) : Prop :=
  returned_while_held = 0 /\ end_spec run_returned all_closes_returned leak.

Definition park_oracle (returned_while_held : Z) (all_closes_returned run_returned leak : bool) : bool :=
  (returned_while_held =? 0) && end_oracle run_returned all_closes_returned leak.

Definition any_spec (flushed : bool) (tl : list (Z * Z)) (run_ret close_ret leak : bool) : Prop :=
  counts_ok 0 0 tl /\ (flushed = true -> followed tl) /\ end_spec run_ret close_ret leak.

Definition any_oracle (flushed : bool) (tl : list (Z * Z)) (run_ret close_ret leak : bool) : bool :=
  counts_okb 0 0 tl && (if flushed then followedb tl else true) && end_oracle run_ret close_ret leak.
