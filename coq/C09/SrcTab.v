(* C09 — source-table tie: harness/srctab09 regenerates, from the text of
   /repo/events/ratelimiting/coalescing.go, the defaults of NewCoalescing and the back-off
   arithmetic; tested against [default_cfg] (Model.v; the configuration of the wedge witness of
   Proofs_close.v) and against the numbers [init] / [next_backoff] / [handle_timer] compute with:
   those are inlined in the model, so they are named here and the lemmas show, by conversion and
   for every configuration and state, that the model's functions use the named values. *)
From Kit Require Import Lib.SrcTab C09.Spec C09.Model.
From Coq Require Import String.
Local Open Scope string_scope.
Local Open Scope Z_scope.

Definition initial_backoff : Z := 1.       (* &coalescing{backoffFactor: 1}; reset: c.backoffFactor = 1 *)
Definition backoff_multiplier : Z := 2.    (* handleInputCh: c.backoffFactor *= 2 *)

Lemma init_backoff c : backoff (init c) = initial_backoff.
Proof. reflexivity. Qed.

Lemma handle_timer_backoff c s : backoff (handle_timer c s) = initial_backoff.
Proof. reflexivity. Qed.

Lemma next_backoff_multiplier c s :
  next_backoff c s =
  if cur_dur s <? maxd c then
    let b := backoff_multiplier * backoff s in
    let d := initial c * b in
    (b, if maxd c <? d then maxd c else d)
  else (backoff s, cur_dur s).
Proof. reflexivity. Qed.

Definition table : list entry :=
  [ ("ratelimiting.NewCoalescing.initialDelay", eqv (TZ (initial default_cfg)));
    ("ratelimiting.NewCoalescing.maxDelay", eqv (TZ (maxd default_cfg)));
    ("ratelimiting.NewCoalescing.backoffFactor", eqv (TZ initial_backoff));
    ("ratelimiting.handleInputCh.backoffMultiplier", eqv (TZ backoff_multiplier));
    ("ratelimiting.reset.backoffFactor", eqv (TZ initial_backoff)) ].

Definition run_cases := run_tab table.
