(* C09 — executable correspondence interface.  The Go harness prints [case] terms holding the
   input AND what the implementation was observed to do; [check_case] asks whether SOME schedule
   of the model explains the observation and evaluates the spec oracle on the observation. *)
From Kit Require Export C09.Model C09.Spec Lib.CheckLib.
Open Scope Z_scope.

(* what the harness reads from the virtual clock's log *)
Inductive act :=
| ANew (d : Z)   (* NewTimer(d) *)
| AExt (d : Z)   (* Stop; Reset(d) *)
| AExp           (* Stop of the expired, received timer *)
| AOdd.          (* anything else (never produced by the model) *)

(* one step of a script; the limiter settles after it *)
Inductive sstep :=
| KAdd             (* one Add *)
| KBurst (n : Z)   (* n Adds, each from its own goroutine *)
| KAdv (d : Z)     (* the clock advances *)
| KRace (d : Z)    (* one Add and an advance of the clock, in no known order *)
| KDrain           (* slow consumer: take every waiting signal *)
| KAddH (d : Z) (fired : bool)
                   (* one Add; the clock jumps by d INSIDE the first call the run loop makes on the
                      clock while handling its token (NewTimer, or Stop of the window's timer);
                      fired = such a call was made *)
| KAdvH (d d2 : Z) (fired : bool)
| KAddA (on_reset fired : bool) (before : Z)
                   (* one Add; from INSIDE a call the run loop makes on the clock while handling its
                      token (the first NewTimer / Stop call, or - on_reset - the Reset call) a second
                      Add is issued on another goroutine; fired = such a call was made, i.e. the
                      second Add was issued; before = signals of this step already SEEN when the
                      second Add was issued (a lower bound) *)
| KAdvA (d : Z) (fired : bool) (before : Z).
                   (* the clock advances by d; if the window's timer expires, an Add is issued from
                      inside the Stop call of handleTimerFired's reset *)
                   (* the clock advances by d; if the window's timer expires, the clock jumps by d2
                      inside the Stop call of handleTimerFired's reset *)

Inductive fin :=
| FClose             (* Close *)
| FCancel (n : Z)    (* cancel the context, n more Adds, Close *)
| FClose2.           (* Close, and when it has returned a second Close *)

Inductive case :=
| CScript (c : cfg) (slow : bool) (steps : list (sstep * (list act * Z))) (f : fin)
          (obs_run_returned obs_close_returned obs_goroutines_left : bool)
| CStress (runs worst_signals_minus_adds : Z)
          (obs_run_returned obs_close_returned obs_goroutines_left : bool)
| CPark (c : cfg) (cancel : bool) (ncloses extra_adds : Z)
        (* one Add; the run loop is held inside handleInputCh (in NewTimer of the injected clock);
           meanwhile: [extra_adds] more Add calls, optionally the context is cancelled, and
           [ncloses] (1 or 2) Close calls are started; observed: how many Close calls returned
           while the run loop was held; after letting it go: all Close calls / Run returned,
           goroutines left *)
        (obs_closes_returned_while_held : Z)
        (obs_all_closes_returned obs_run_returned obs_goroutines_left : bool).

(* ------------------------------------------------------------------------------------- *)
(* the model's side                                                                         *)

(* one iteration of the run loop *)
Definition do_token (v : variant) (c : cfg) (s : state) : option state :=
  exec v c s [TakeToken; HandleToken; LoopTop].
Definition do_timer (v : variant) (c : cfg) (s : state) : option state :=
  exec v c s [TakeTimer; TimerFire; LoopTop].

(* every interleaving of [na] Adds and (optionally) one Advance with the run loop, up to the
   point where everything issued has been handled *)
Fixpoint explore (fuel : nat) (v : variant) (c : cfg) (s : state) (na : nat) (adv : option Z)
  : list state :=
  match fuel with
  | O => []
  | S f =>
      let here := match na, adv with
                  | O, None => if (tokens s =? 0) && negb (timer_due s) then [s] else []
                  | _, _ => []
                  end in
      let a := match na with
               | S na' => match step v c s Model.Add with
                          | Some s' => explore f v c s' na' adv
                          | None => []
                          end
               | O => []
               end in
      let d := match adv with
               | Some d => match step v c s (Advance d) with
                           | Some s' => explore f v c s' na None
                           | None => []
                           end
               | None => []
               end in
      let t := match do_token v c s with Some s' => explore f v c s' na adv | None => [] end in
      let x := match do_timer v c s with Some s' => explore f v c s' na adv | None => [] end in
      here ++ a ++ d ++ t ++ x
  end.

(* the buffered channel of a prompt consumer takes every signal at once *)
Fixpoint deliver_all (fuel : nat) (v : variant) (c : cfg) (s : state) : state :=
  match fuel with
  | O => s
  | S f => match step v c s Deliver with Some s' => deliver_all f v c s' | None => s end
  end.

Definition drain (v : variant) (c : cfg) (s : state) : state :=
  deliver_all (Z.to_nat (inflight s)) v c s.

Definition outcomes (v : variant) (c : cfg) (s : state) (k : sstep) : list state :=
  match k with
  | KAdd => explore 8 v c s 1 None
  | KBurst n => explore (3 * Z.to_nat n + 8) v c s (Z.to_nat n) None
  | KAdv d => explore 8 v c s 0 (Some d)
  | KRace d => explore 12 v c s 1 (Some d)
  | KDrain => [s]
  | KAddH d fired =>
      match exec v c s [Model.Add; TakeToken] with
      | Some s1 =>
          (* handleInputCh calls the clock unless it takes the cap branch *)
          let calls := negb (has_timer s1) || negb (cap_reached c (pending s1)) in
          if Bool.eqb calls fired then
            match exec v c s1 ((if fired then [Advance d] else []) ++ [HandleToken; LoopTop]) with
            | Some s2 => explore 8 v c s2 0 None
            | None => []
            end
          else []
      | None => []
      end
  | KAddA on_reset fired _ =>
      (* the nested Add waits for the lock the handler holds: it is counted after the handler *)
      match exec v c s [Model.Add; TakeToken] with
      | Some s1 =>
          let extend := has_timer s1 && negb (cap_reached c (pending s1)) in
          let calls := if on_reset then extend else negb (has_timer s1) || extend in
          if Bool.eqb calls fired then
            match exec v c s1 ([HandleToken; LoopTop] ++
                               (if fired then [Model.Add; TakeToken; HandleToken; LoopTop] else [])) with
            | Some s2 => explore 8 v c s2 0 None
            | None => []
            end
          else []
      | None => []
      end
  | KAdvA d fired _ =>
      match step v c s (Advance d) with
      | Some s1 =>
          if Bool.eqb (timer_due s1) fired then
            if fired then
              match exec v c s1 [TakeTimer; TimerFire; LoopTop; Model.Add; TakeToken; HandleToken; LoopTop] with
              | Some s2 => [s2]
              | None => []
              end
            else [s1]
          else []
      | None => []
      end
  | KAdvH d d2 fired =>
      match step v c s (Advance d) with
      | Some s1 =>
          if Bool.eqb (timer_due s1) fired then
            if fired then
              match exec v c s1 [TakeTimer; TimerFire; LoopTop; Advance d2] with
              | Some s2 => [s2]
              | None => []
              end
            else [s1]
          else []
      | None => []
      end
  end.

(* what the step showed: the entries added to [olog] (oldest first) *)
Definition new_log (s s' : state) : list oev :=
  rev (firstn (length (olog s') - length (olog s)) (olog s')).

Definition act_matches (o : oev) (a : act) : bool :=
  match o, a with
  | ONew d, ANew d' => d =? d'
  | OExt d, AExt d' => d =? d'
  | OExp, AExp => true
  | _, _ => false
  end.

Fixpoint acts_match (l : list oev) (a : list act) : bool :=
  match l, a with
  | [], [] => true
  | OSig _ :: l', _ => acts_match l' a
  | o :: l', x :: a' => act_matches o x && acts_match l' a'
  | _, _ => false
  end.

Definition count_sigs (l : list oev) : Z :=
  Z.of_nat (length (filter (fun o => match o with OSig _ => true | _ => false end) l)).

Definition explains (slow : bool) (k : sstep) (s s' : state) (oa : list act) (os : Z) : bool :=
  match k with
  | KDrain => match oa with [] => os =? inflight s | _ => false end
  | _ => acts_match (new_log s s') oa && (slow || (os =? count_sigs (new_log s s')))
  end.

Definition st_eqb (a b : state) : bool :=
  (pending a =? pending b) && (tokens a =? tokens b) && (inflight a =? inflight b) &&
  Bool.eqb (has_timer a) (has_timer b) && (deadline a =? deadline b) &&
  (cur_dur a =? cur_dur b) && (backoff a =? backoff b) && Bool.eqb (closed a) (closed b) &&
  Bool.eqb (ctx_done a) (ctx_done b) && rpc_eqb (run a) (run b) && cpc_eqb (clo a) (clo b) &&
  (now a =? now b).

Fixpoint dedupe (l : list state) : list state :=
  match l with
  | [] => []
  | s :: l' => s :: filter (fun x => negb (st_eqb s x)) (dedupe l')
  end.

Definition after_step (v : variant) (c : cfg) (slow : bool) (s' : state) (k : sstep) : state :=
  match k with
  | KDrain => drain v c s'
  | _ => if slow then s' else drain v c s'
  end.

(* the set of model states that explain the observations so far *)
Fixpoint sim (v : variant) (c : cfg) (slow : bool) (ss : list state)
         (steps : list (sstep * (list act * Z))) : list state :=
  match steps with
  | [] => ss
  | (k, (oa, os)) :: rest =>
      let next := flat_map (fun s =>
                    map (fun s' => after_step v c slow s' k)
                        (filter (fun s' => explains slow k s s' oa os) (outcomes v c s k))) ss in
      sim v c slow (dedupe next) rest
  end.

(* the end of the script, on the model: the schedule in which everything that can finish does *)
Definition end_schedule (s : state) (f : fin) : list event :=
  match f with
  | FClose =>
      [CloseCall; RunExit] ++ repeat SignalAbort (Z.to_nat (inflight s)) ++ [CloseLock; CloseReturn]
  | FCancel n =>
      [CtxCancel; RunExit] ++ repeat SignalAbort (Z.to_nat (inflight s)) ++
      repeat Model.Add (Z.to_nat n) ++ [CloseCall] ++ repeat TokenAbort (Z.to_nat n) ++
      [CloseLock; CloseReturn]
  | FClose2 =>
      [CloseCall; RunExit] ++ repeat SignalAbort (Z.to_nat (inflight s)) ++
      [CloseLock; CloseReturn; Close2Call; Close2Lock; Close2Return]
  end.

Definition model_ends (v : variant) (c : cfg) (s : state) (f : fin) : bool :=
  match exec v c s (end_schedule s f) with
  | Some s' =>
      cpc_eqb (clo s') C_returned && (wg s' =? 0) &&
      match f with FClose2 => cpc_eqb (clo2 s') C_returned | _ => cpc_eqb (clo2 s') C_idle end
  | None => false
  end.

(* the run loop held inside handleInputCh while Close calls are started *)
Definition enabled (v : variant) (c : cfg) (s : state) (e : event) : bool :=
  match step v c s e with Some _ => true | None => false end.

(* run the events that are enabled, skip the others *)
Fixpoint exec_try (v : variant) (c : cfg) (s : state) (es : list event) : state :=
  match es with
  | [] => s
  | e :: es' => match step v c s e with Some s' => exec_try v c s' es' | None => exec_try v c s es' end
  end.

Definition park_model (v : variant) (c : cfg) (cancel : bool) (ncloses extra : Z) : bool :=
  let two := 2 <=? ncloses in
  match exec v c (init c) ([LoopTop; Model.Add; TakeToken] ++ repeat Model.Add (Z.to_nat extra) ++
                           (if cancel then [CtxCancel] else []) ++
                           [CloseCall] ++ (if two then [Close2Call] else [])) with
  | Some s0 =>
      (* whatever the Close calls and the token goroutines do meanwhile ... *)
      let s1 := exec_try v c s0 ([CloseLock; Close2Lock] ++ repeat TokenAbort (Z.to_nat extra)) in
      (* ... no Close call can return: the run loop is alive *)
      negb (enabled v c s1 CloseReturn) && negb (enabled v c s1 Close2Return) &&
      (* let go: the run loop finishes its iteration and leaves; everything winds down *)
      match exec v c s1 [HandleToken; LoopTop; RunExit] with
      | Some s2 =>
          let s3 := exec_try v c s2 (repeat SignalAbort (Z.to_nat (inflight s2)) ++
                                     repeat TokenAbort (Z.to_nat (tokens s2)) ++
                                     [CloseLock; Close2Lock; CloseReturn; Close2Return]) in
          cpc_eqb (clo s3) C_returned && (wg s3 =? 0) &&
          (if two then cpc_eqb (clo2 s3) C_returned else cpc_eqb (clo2 s3) C_idle)
      | None => false
      end
  | None => false
  end.

(* the run loop settled after Run started *)
(* ------------------------------------------------------------------------------------- *)
(* the model driven like a settled script: one operation at a time, the run loop's iteration *)
(* spelled out (no search).  Proofs_seq.v proves that, for EVERY script, this run produces    *)
(* exactly the observations of the specification's reference [ref_run_g].                     *)

Definition wobs_of_log (l : list oev) : list wobs :=
  flat_map (fun o => match o with
                     | ONew d | OExt d => [WStart d]
                     | OExp => [WEnd]
                     | OSig _ => []
                     end) l.

Definition seq_obs (slow : bool) (s s1 : state) : gobs :=
  let l := new_log s s1 in ((if slow then 0 else count_sigs l), wobs_of_log l).

Definition seq_model_step (v : variant) (c : cfg) (slow : bool) (s : state) (op : sop)
  : option (state * gobs) :=
  match op with
  | PAdd =>
      match exec v c s [Model.Add; TakeToken; HandleToken; LoopTop] with
      | Some s1 => Some ((if slow then s1 else drain v c s1), seq_obs slow s s1)
      | None => None
      end
  | PAdv d =>
      match step v c s (Advance d) with
      | Some s0 =>
          match (if timer_due s0 then exec v c s0 [TakeTimer; TimerFire; LoopTop] else Some s0) with
          | Some s1 => Some ((if slow then s1 else drain v c s1), seq_obs slow s s1)
          | None => None
          end
      | None => None
      end
  | PDrain => Some (drain v c s, (inflight s, []))
  end.

Fixpoint seq_model_run (v : variant) (c : cfg) (slow : bool) (s : state) (ops : list sop)
  : option (list gobs) :=
  match ops with
  | [] => Some []
  | op :: ops' =>
      match seq_model_step v c slow s op with
      | Some (s', o) =>
          match seq_model_run v c slow s' ops' with
          | Some l => Some (o :: l)
          | None => None
          end
      | None => None
      end
  end.

Definition is_seq_step (k : sstep) : bool :=
  match k with KAdd | KAdv _ | KDrain => true | _ => false end.

(* the operations a sequential step stands for, in their order *)
Definition sops_of (k : sstep) : list sop :=
  match k with
  | KAdd => [PAdd]
  | KAdv d => [PAdv d]
  | KDrain => [PDrain]
  | _ => []
  end.

Definition wob_of (a : act) : option wobs :=
  match a with
  | ANew d | AExt d => Some (WStart d)
  | AExp => Some WEnd
  | AOdd => None
  end.

Fixpoint wobs_of (a : list act) : option (list wobs) :=
  match a with
  | [] => Some []
  | x :: a' => match wob_of x, wobs_of a' with
               | Some w, Some l => Some (w :: l)
               | _, _ => None
               end
  end.

Fixpoint gobs_of (steps : list (sstep * (list act * Z))) : option (list gobs) :=
  match steps with
  | [] => Some []
  | (_, (oa, os)) :: rest =>
      match wobs_of oa, gobs_of rest with
      | Some w, Some l => Some ((os, w) :: l)
      | _, _ => None
      end
  end.

(* the run loop parked in its select after Run started *)
Definition start1 (c : cfg) : state := set_run (init c) R_select.

Definition start (v : variant) (c : cfg) : list state :=
  match step v c (init c) LoopTop with Some s => [s] | None => [] end.

Definition model_agrees (v : variant) (k : case) : bool :=
  match k with
  | CScript c slow steps f rr cr leak =>
      cfg_okb c && float_exactb c &&
      existsb (fun s => model_ends v c s f) (sim v c slow (start v c) steps) &&
      (* a sequential script must also be what the spelled-out sequential run of the model
         produces (the function Proofs_seq.v proves equal to the specification's reference) *)
      (let ks := map fst steps in
       if forallb is_seq_step ks then
         match gobs_of steps, seq_model_run v c slow (start1 c) (flat_map sops_of ks) with
         | Some o, Some m => gobss_eqb o m
         | _, _ => false
         end
       else true) &&
      rr && cr && negb leak
  | CStress runs _ _ _ _ => 0 <? runs
  | CPark c cancel n extra held allc rr leak =>
      cfg_okb c && (1 <=? n) && (n <=? 2) && (0 <=? extra) &&
      park_model v c cancel n extra && (held =? 0) && allc && rr && negb leak
  end.

(* ------------------------------------------------------------------------------------- *)
(* the spec's side: oracles on the observation alone                                        *)

Definition adds_of (k : sstep) : Z :=
  match k with
  | KAdd | KRace _ => 1
  | KBurst n => n
  | KAddH _ _ => 1
  | KAddA _ fired _ => if fired then 2 else 1
  | KAdvA _ fired _ => if fired then 1 else 0
  | _ => 0
  end.

(* per step: (Adds issued, signals seen).  A step with a nested Add is split where that Add was
   issued: the signals already seen then cannot be the ones that "follow" it. *)
Definition timeline (steps : list (sstep * (list act * Z))) : list (Z * Z) :=
  flat_map (fun p =>
    let os := snd (snd p) in
    match fst p with
    | KAddA _ true b => let b' := Z.max 0 (Z.min b os) in [(1, b'); (1, os - b')]
    | KAdvA _ true b => let b' := Z.max 0 (Z.min b os) in [(0, b'); (1, os - b')]
    | k => [(adds_of k, os)]
    end) steps.

(* was the script flushed: since the last Add the clock advanced by at least the maximum delay
   (no window is longer), and a slow consumer drained after that *)
Fixpoint flushed_from (c : cfg) (since : Z) (drained : bool) (steps : list sstep) : Z * bool :=
  match steps with
  | [] => (since, drained)
  | k :: rest =>
      match k with
      | KAdv d => flushed_from c (since + d) drained rest
      | KDrain => flushed_from c since (drained || (maxd c <=? since)) rest
      | KAdvH d d2 fired => flushed_from c (since + d + (if fired then d2 else 0)) drained rest
      | KAdvA d fired _ => if fired then flushed_from c 0 false rest else flushed_from c (since + d) drained rest
      | _ => flushed_from c 0 false rest
      end
  end.

Definition flushedb (c : cfg) (slow : bool) (steps : list sstep) : bool :=
  let '(since, drained) := flushed_from c 0 false steps in
  (maxd c <=? since) && (negb slow || drained).

(* the cap clause and the first-Add clause on bursts (prompt consumer): the reference follows the script as long as it is
   sequential and supplies the number of Adds known to be pending when a burst starts (0 once
   the order of earlier steps is not known) *)
Fixpoint cap_walk (c : cfg) (st : option ref) (steps : list (sstep * (list act * Z))) : bool :=
  match steps with
  | [] => true
  | (k, (_, os)) :: rest =>
      match k with
      | KBurst n =>
          let p := match st with Some r => if r_open r then r_pend r else 0 | None => 0 end in
          let idle := match st with Some r => negb (r_open r) | None => false end in
          cap_burst_oracle c p n os && (if idle then idle_burst_oracle n os else true) &&
          cap_walk c None rest
      | KAdd | KAdv _ =>
          cap_walk c (option_map (fun r => fst (ref_group false c r (sops_of k))) st) rest
      | _ => cap_walk c None rest
      end
  end.

Definition oracle (k : case) : bool :=
  match k with
  | CScript c slow steps f rr cr leak =>
      let ks := map fst steps in
      (if forallb is_seq_step ks then
         match gobs_of steps with
         | Some obs => seqg_oracle slow c (map sops_of ks) obs
         | None => false
         end
       else true) &&
      (slow || cap_walk c (Some ref_init) steps) &&
      any_oracle (flushedb c slow ks) (timeline steps) rr cr leak
  | CStress _ worst rr cr leak => (worst <=? 0) && end_oracle rr cr leak
  | CPark _ _ _ _ held allc rr leak => park_oracle held allc rr leak
  end.

(* 0 = some schedule of the model explains the observation and the oracle holds; 1 = no
   schedule of the model explains it; 2 = the implementation's observed behaviour violates the
   spec.  The current tree is the [Fixed] variant. *)
Definition check_case (k : case) : Z :=
  if negb (oracle k) then 2 else if negb (model_agrees Fixed k) then 1 else 0.

Definition run_cases (cs : list (Z * case)) : list (Z * Z) := failures check_case cs.

(* ------------------------------------------------------------------------------------- *)
(* sanity: a settled timeline of the defaults' shape on the model                           *)
Example check_example :
  check_case (CScript (mkcfg 100 400 (Some 2)) false
     [(KAdd, ([ANew 100], 1)); (KAdv 99, ([], 0)); (KAdd, ([AExt 200], 0));
      (KAdd, ([], 1)); (KBurst 2, ([AExt 400], 1)); (KAdv 400, ([AExp], 0))]
     FClose true true false) = 0.
Proof. vm_compute. reflexivity. Qed.
