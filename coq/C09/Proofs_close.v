(* C09 — Close: the fixed code always returns (no-wedge lemma with a decreasing measure), the
   original code can wedge (witness schedule + closed invariant); soundness of the spec
   oracles.  Stdlib style.  No axioms. *)
From Coq Require Import ZArith List Lia Bool ZifyBool.
From Kit Require Import C09.Spec C09.Model C09.Proofs.
Import ListNotations.
Open Scope Z_scope.

(* ------------------------------------------------------------------------------------- *)
(* Fixed: progress and termination of a Close under way                                     *)

(* a Close call that has closed closeCh / lost the CAS and has not returned yet *)
Definition under_way (k : cpc) : Prop := k = C_called \/ k = C_waiting.

(* some Close call is under way *)
Definition closing (s : state) : Prop := under_way (clo s) \/ under_way (clo2 s).

Lemma under_way_dec k : {under_way k} + {~ under_way k}.
Proof.
  unfold under_way. destruct k; [right | left; left | left; right | right];
    try reflexivity; intros [X|X]; discriminate.
Qed.

Lemma closing_dec s : {closing s} + {~ closing s}.
Proof.
  unfold closing. destruct (under_way_dec (clo s)); [left; left; assumption|].
  destruct (under_way_dec (clo2 s)); [left; right; assumption|]. right; tauto.
Qed.

Lemma window_len_pos c k : cfg_ok c -> 0 <= k -> 0 < window_len c k.
Proof.
  intros (Hi & Him & _) Hk. unfold window_len. pose proof (pow2_pos k Hk).
  assert (0 < initial c * 2 ^ k) by (apply Z.mul_pos_pos; assumption). lia.
Qed.

Lemma closing_closed c s : Inv c s -> closing s -> closed s = true.
Proof.
  intros (_ & _ & _ & _ & _ & _ & _ & _ & _ & _ & IC & IC2) [[H|H]|[H|H]];
    first [apply IC; congruence | apply IC2; congruence].
Qed.

(* some internal event is enabled *)
Lemma progress c s : cfg_ok c -> Inv c s -> closing s ->
  exists e s', internal e = true /\ step Fixed c s e = Some s'.
Proof.
  intros Hc HI Hcl. pose proof (closing_closed c s HI Hcl) as Hclosed.
  destruct HI as ((P1 & P2 & P3 & _) & _).
  destruct (run s) eqn:Er.
  - exists LoopTop; eexists; split; [reflexivity|]. cbn [step]. rewrite Er. cbn. reflexivity.
  - exists RunExit; eexists; split; [reflexivity|]. cbn [step]. rewrite Er, Hclosed. cbn. reflexivity.
  - exists HandleToken; eexists; split; [reflexivity|]. cbn [step]. rewrite Er. cbn. reflexivity.
  - exists TimerFire; eexists; split; [reflexivity|]. cbn [step]. rewrite Er. cbn. reflexivity.
  - destruct (0 <? tokens s) eqn:Et.
    + exists TokenAbort; eexists; split; [reflexivity|]. cbn [step]. rewrite Et, Hclosed. cbn. reflexivity.
    + destruct (0 <? inflight s) eqn:Ei.
      * exists SignalAbort; eexists; split; [reflexivity|]. cbn [step]. unfold sig_ctx_done.
        rewrite Ei, Er. cbn. rewrite orb_true_r. reflexivity.
      * assert (Hwg : (wg s =? 0) = true) by (unfold wg, run_alive; rewrite Er; cbn [rpc_eqb]; lia).
        destruct Hcl as [[Hcl|Hcl]|[Hcl|Hcl]].
        -- exists CloseLock; eexists; split; [reflexivity|]. cbn [step lock_free]. rewrite Hcl. cbn. reflexivity.
        -- exists CloseReturn; eexists; split; [reflexivity|]. cbn [step]. rewrite Hcl, Hwg. cbn. reflexivity.
        -- exists Close2Lock; eexists; split; [reflexivity|]. cbn [step lock_free]. rewrite Hcl. cbn. reflexivity.
        -- exists Close2Return; eexists; split; [reflexivity|]. cbn [step]. rewrite Hcl, Hwg. cbn. reflexivity.
Qed.

Lemma measure_nonneg c s : Inv c s -> 0 <= measure s.
Proof.
  intros ((P1 & P2 & P3 & _) & _). unfold measure, run_w, clo_w, cpc_w, due_w.
  destruct (run s), (clo s), (clo2 s), (timer_due s); lia.
Qed.

Ltac proj :=
  cbn [pending tokens inflight has_timer deadline cur_dur backoff closed ctx_done run clo clo2 now
       adds dropped covered spawned delivered exts armed_at olog].

Ltac proj_in H :=
  cbn [pending tokens inflight has_timer deadline cur_dur backoff closed ctx_done run clo clo2 now
       adds dropped covered spawned delivered exts armed_at olog] in H.

Ltac mcrunch :=
  unfold measure, run_w, clo_w, cpc_w, due_w, timer_due, set_run, set_clo, set_clo2; proj;
  repeat match goal with H : run _ = _ |- _ => rewrite H end;
  repeat match goal with H : clo _ = _ |- _ => rewrite H end;
  repeat match goal with H : clo2 _ = _ |- _ => rewrite H end;
  repeat match goal with H : has_timer _ = _ |- _ => rewrite H end;
  repeat match goal with H : (_ <=? _) = _ |- _ => rewrite H end;
  lazy beta iota; cbn [andb];
  repeat match goal with
         | |- context [match clo ?x with _ => _ end] => destruct (clo x)
         | |- context [match clo2 ?x with _ => _ end] => destruct (clo2 x)
         | |- context [match run ?x with _ => _ end] => destruct (run x)
         | |- context [if ?b then _ else _] => destruct b
         end;
  lazy beta iota; lia.

(* every internal event strictly decreases the measure *)
Lemma decrease c s e s' : cfg_ok c -> Inv c s -> internal e = true ->
  step Fixed c s e = Some s' -> measure s' < measure s.
Proof.
  intros Hc HI Hint H.
  destruct HI as ((P1 & P2 & P3 & P4 & P5 & P6 & P7 & P8) & IA & IS & ID & IW & IB & IX & IT & IR & IL & IC & IC2).
  destruct e; try discriminate Hint; cbn [step] in H; step_inv H; boolprops.
  - (* LoopTop *) mcrunch.
  - (* TakeToken *) mcrunch.
  - (* HandleToken *)
    unfold handle_input. destruct (has_timer s) eqn:Eh; cbn [negb].
    + destruct (cap_reached c (pending s)) eqn:Ecap.
      * unfold fire, set_run; proj. destruct (0 <? pending s) eqn:Ep; mcrunch.
      * pose proof (next_backoff_law c s Hc P8 IW IB) as (L1 & _).
        pose proof (window_len_pos c (exts s + 1) Hc ltac:(lia)) as Hpos.
        unfold handle_extend. destruct (next_backoff c s) as [b d]. cbn [snd] in L1.
        assert (Hd : (now s + d <=? now s) = false) by lia.
        mcrunch.
    + pose proof Hc as (Hi & _).
      assert (Hd : (now s + initial c <=? now s) = false) by lia.
      unfold handle_first, fire; proj. destruct (0 <? pending s) eqn:Ep; mcrunch.
  - (* TakeTimer *)
    unfold measure, run_w, clo_w, due_w, set_run; proj. rewrite H, H0. lia.
  - (* TimerFire *)
    unfold handle_timer, fire. destruct (0 <? pending s) eqn:Ep; mcrunch.
  - (* RunExit *) mcrunch.
  - (* TokenAbort *) mcrunch.
  - (* SignalAbort *) mcrunch.
  - (* CloseLock *) mcrunch.
  - (* CloseReturn *) mcrunch.
  - (* Close2Lock *) mcrunch.
  - (* Close2Return *) mcrunch.
Qed.

(* a Close call's program counter only moves forward, and only by its own events *)
Definition pc_le (k k' : cpc) : Prop :=
  (k = C_idle -> k' = C_idle) /\ (k = C_returned -> k' = C_returned) /\
  (under_way k -> under_way k' \/ k' = C_returned).

Lemma pc_le_refl k : pc_le k k.
Proof. unfold pc_le. tauto. Qed.

Lemma pc_le_trans a b c : pc_le a b -> pc_le b c -> pc_le a c.
Proof. unfold pc_le. intros (A1 & A2 & A3) (B1 & B2 & B3). repeat split; intros; intuition. Qed.

Lemma pc_step c s e s' : internal e = true -> step Fixed c s e = Some s' ->
  pc_le (clo s) (clo s') /\ pc_le (clo2 s) (clo2 s').
Proof.
  intros Hint H.
  destruct e; try discriminate Hint; cbn [step] in H; step_inv H; boolprops;
    unfold set_run, set_clo, set_clo2; proj;
    rewrite ?clo_handle_input, ?clo_handle_timer, ?clo2_handle_input, ?clo2_handle_timer;
    try (split; apply pc_le_refl);
    split; try apply pc_le_refl; unfold pc_le, under_way;
    match goal with Hk : _ = _ |- _ => rewrite Hk end;
    repeat split; intros; try discriminate; auto;
    try (destruct H1; discriminate); try (destruct H2; discriminate).
Qed.

(* the step after which no Close call is under way any more is a return, with wg = 0 *)
Lemma last_step c s e s' : closing s -> internal e = true -> step Fixed c s e = Some s' ->
  ~ closing s' -> wg s' = 0.
Proof.
  intros Hcl Hint H Hn.
  destruct e; try discriminate Hint; cbn [step] in H; step_inv H; boolprops;
    unfold closing, set_run, set_clo, set_clo2 in *;
    try (exfalso; apply Hn; proj;
         rewrite ?clo_handle_input, ?clo_handle_timer, ?clo2_handle_input, ?clo2_handle_timer;
         first [exact Hcl | left; right; reflexivity | right; right; reflexivity]).
  - unfold wg, run_alive in *. proj. lia.
  - unfold wg, run_alive in *. proj. lia.
Qed.

(* any schedule of internal events is bounded by the measure *)
Theorem internal_bounded c : cfg_ok c -> forall es s s', Inv c s ->
  forallb internal es = true -> exec Fixed c s es = Some s' ->
  Z.of_nat (length es) <= measure s - measure s'.
Proof.
  intros Hc. induction es as [|e es IH]; intros s s' HI Hall H; cbn [exec] in H.
  - injection H as <-. cbn. lia.
  - cbn [forallb] in Hall. apply andb_true_iff in Hall as [Hi Hall].
    destruct (step Fixed c s e) as [s1|] eqn:E; [|discriminate].
    pose proof (decrease c s e s1 Hc HI Hi E).
    pose proof (IH s1 s' (step_Inv _ _ _ _ _ Hc HI E) Hall H).
    cbn [length]. lia.
Qed.

(* ... and internal events alone bring every Close call under way to its return *)
Theorem close_returns_inv c : cfg_ok c -> forall n s, Inv c s -> closing s ->
  measure s < Z.of_nat n ->
  exists es s', forallb internal es = true /\ exec Fixed c s es = Some s' /\
                ~ closing s' /\ pc_le (clo s) (clo s') /\ pc_le (clo2 s) (clo2 s') /\ wg s' = 0.
Proof.
  intros Hc. induction n as [|n IH]; intros s HI Hcl Hm.
  - pose proof (measure_nonneg c s HI). lia.
  - destruct (progress c s Hc HI Hcl) as (e & s1 & Hint & E).
    pose proof (decrease c s e s1 Hc HI Hint E) as Hd.
    pose proof (step_Inv _ _ _ _ _ Hc HI E) as HI1.
    destruct (pc_step c s e s1 Hint E) as (L1 & L2).
    destruct (closing_dec s1) as [Hcl1|Hn1].
    + destruct (IH s1 HI1 Hcl1 ltac:(lia)) as (es & s' & Hall & Hex & Hn & M1 & M2 & Hw).
      exists (e :: es), s'. cbn [forallb exec]. rewrite Hint, E. cbn [andb].
      split; [exact Hall|]. split; [exact Hex|]. split; [exact Hn|].
      split; [eapply pc_le_trans; eassumption|]. split; [eapply pc_le_trans; eassumption | exact Hw].
    + exists [e], s1. cbn [forallb exec]. rewrite Hint, E. cbn [andb].
      split; [reflexivity|]. split; [reflexivity|]. split; [exact Hn1|].
      split; [exact L1|]. split; [exact L2|]. eapply last_step; eassumption.
Qed.

Theorem close_returns c s : cfg_ok c -> reachable Fixed c s -> closing s ->
  (exists e s1, internal e = true /\ step Fixed c s e = Some s1) /\
  (forall e s1, internal e = true -> step Fixed c s e = Some s1 -> 0 <= measure s1 < measure s) /\
  (exists es s', forallb internal es = true /\ exec Fixed c s es = Some s' /\
                 (under_way (clo s) -> clo s' = C_returned) /\
                 (under_way (clo2 s) -> clo2 s' = C_returned) /\
                 wg s' = 0 /\ Z.of_nat (length es) <= measure s).
Proof.
  intros Hc Hr Hcl. pose proof (reachable_Inv _ _ _ Hc Hr) as HI.
  split; [apply progress; assumption|]. split.
  - intros e s1 Hint E. split; [|eapply decrease; eassumption].
    eapply measure_nonneg. eapply step_Inv; eassumption.
  - destruct (close_returns_inv c Hc (S (Z.to_nat (measure s))) s HI Hcl)
      as (es & s' & A & B & Hn & (_ & _ & M1) & (_ & _ & M2) & D).
    { pose proof (measure_nonneg c s HI). lia. }
    exists es, s'. split; [exact A|]. split; [exact B|]. split; [|split; [|split; [exact D|]]].
    + intro U. destruct (M1 U) as [X|X]; [exfalso; apply Hn; left; exact X | exact X].
    + intro U. destruct (M2 U) as [X|X]; [exfalso; apply Hn; right; exact X | exact X].
    + pose proof (internal_bounded c Hc es s s' HI A B).
      pose proof (measure_nonneg c s' (exec_Inv _ _ _ _ _ Hc HI B)). lia.
Qed.

(* non-vacuity: a reachable state with TWO Close calls under way, three Adds not yet handled *)
Example close_returns_nonvacuous :
  exists s, exec Fixed (mkcfg 100 400 None) (init (mkcfg 100 400 None))
              [Model.Add; Model.Add; LoopTop; TakeToken; Model.Add; CloseCall; Close2Call] = Some s /\
            under_way (clo s) /\ under_way (clo2 s).
Proof. eexists; split; [vm_compute; reflexivity | split; left; reflexivity]. Qed.

(* ------------------------------------------------------------------------------------- *)
(* Original: the wedge                                                                      *)

Lemma wedged_step c s e s' : Inv c s -> wedged s -> step Original c s e = Some s' -> wedged s'.
Proof.
  intros ((P1 & P2 & P3 & _) & _) (Hw & Hr) H. unfold wedged in *.
  assert (Hlf : lock_free Original s = false) by (cbn; rewrite Hw; reflexivity).
  destruct e; cbn [step] in H; rewrite ?Hlf, ?andb_false_r in H; cbn [negb] in H;
    try discriminate H; step_inv H; boolprops; unfold set_run, set_clo, set_clo2; cbn;
    try (split; assumption);
    try (exfalso; destruct Hr as [Hr|[Hr|Hr]]; congruence).
  (* CloseReturn *)
  exfalso. unfold wg, run_alive in *.
  destruct Hr as [Hr|[Hr|Hr]]; rewrite Hr in *; cbn [rpc_eqb] in *; lia.
Qed.

Lemma wedged_forever c : cfg_ok c -> forall es s s', Inv c s -> wedged s ->
  exec Original c s es = Some s' -> wedged s'.
Proof.
  intros Hc. induction es as [|e es IH]; intros s s' HI Hw H; cbn [exec] in H.
  - injection H as <-. assumption.
  - destruct (step Original c s e) as [s1|] eqn:E; [|discriminate].
    eapply IH; [eapply step_Inv; eassumption | eapply wedged_step; eassumption | assumption].
Qed.

(* Three Adds; the run loop handles the first; Close gets the lock between two iterations. *)
Definition wedge_cfg : cfg := default_cfg.   (* the package defaults *)
Definition wedge_schedule : list event :=
  [Model.Add; Model.Add; Model.Add; LoopTop; TakeToken; HandleToken; CloseCall; CloseLock].

Theorem close_wedge_refuted :
  exists c es s, cfg_ok c /\ exec Original c (init c) es = Some s /\
    clo s = C_waiting /\ closed s = true /\ 0 < wg s /\
    (* the run loop and Close can do nothing (the two unhandled token goroutines can still
       leave through closeCh, which does not help) ... *)
    (forall e, internal e = true -> e <> TokenAbort -> step Original c s e = None) /\
    (* ... and whatever anyone does afterwards, Close never returns *)
    (forall es' s', exec Original c s es' = Some s' -> clo s' <> C_returned).
Proof.
  exists wedge_cfg, wedge_schedule.
  destruct (exec Original wedge_cfg (init wedge_cfg) wedge_schedule) as [s|] eqn:E;
    [|vm_compute in E; discriminate].
  exists s.
  assert (Hc : cfg_ok wedge_cfg) by (unfold cfg_ok, wedge_cfg; cbn; lia).
  assert (HI : Inv wedge_cfg s)
    by (eapply exec_Inv; [exact Hc | apply Inv_init; exact Hc | exact E]).
  vm_compute in E. injection E as <-.
  split; [exact Hc|]. split; [reflexivity|]. split; [reflexivity|]. split; [reflexivity|].
  split; [vm_compute; reflexivity|]. split.
  - intros e Hint Hne. destruct e; try discriminate Hint; try congruence; vm_compute; reflexivity.
  - intros es' s' H.
    match type of HI with Inv _ ?st => assert (Hw : wedged st) by (split; [reflexivity | left; reflexivity]) end.
    destruct (wedged_forever wedge_cfg Hc es' _ s' HI Hw H) as (Hw' & _). congruence.
Qed.

(* the same schedule on the fixed code: Close is not stuck *)
Example fixed_not_wedged :
  exists s, exec Fixed wedge_cfg (init wedge_cfg) wedge_schedule = Some s /\
            step Fixed wedge_cfg s LoopTop <> None.
Proof. eexists; split; [vm_compute; reflexivity | vm_compute; discriminate]. Qed.

(* ------------------------------------------------------------------------------------- *)
(* oracle soundness                                                                         *)

Lemma wobs_eqb_eq a b : wobs_eqb a b = true <-> a = b.
Proof.
  destruct a, b; cbn; split; intro H; try reflexivity; try discriminate.
  - apply Z.eqb_eq in H. congruence.
  - injection H as ->. apply Z.eqb_refl.
Qed.

Lemma sobs_eqb_eq a b : sobs_eqb a b = true <-> a = b.
Proof.
  destruct a as [x w], b as [y w']. unfold sobs_eqb; cbn. rewrite andb_true_iff, Z.eqb_eq, wobs_eqb_eq.
  split; [intros [-> ->]; reflexivity | intro H; injection H as -> ->; auto].
Qed.

Lemma sobss_eqb_eq a b : sobss_eqb a b = true <-> a = b.
Proof.
  revert b; induction a as [|x a IH]; intros [|y b]; cbn; split; intro H;
    try reflexivity; try discriminate.
  - apply andb_true_iff in H as [H1 H2]. apply sobs_eqb_eq in H1. apply IH in H2. congruence.
  - injection H as -> ->. apply andb_true_iff; split; [apply sobs_eqb_eq | apply IH]; reflexivity.
Qed.

Theorem seq_oracle_sound slow c ops obs :
  seq_oracle slow c ops obs = true <-> seq_spec slow c ops obs.
Proof. unfold seq_oracle, seq_spec. apply sobss_eqb_eq. Qed.

Lemma wobss_eqb_eq a b : wobss_eqb a b = true <-> a = b.
Proof.
  revert b; induction a as [|x a IH]; intros [|y b]; cbn; split; intro H;
    try reflexivity; try discriminate.
  - apply andb_true_iff in H as [H1 H2]. apply wobs_eqb_eq in H1. apply IH in H2. congruence.
  - injection H as -> ->. apply andb_true_iff; split; [apply wobs_eqb_eq | apply IH]; reflexivity.
Qed.

Lemma gobs_eqb_eq a b : gobs_eqb a b = true <-> a = b.
Proof.
  destruct a as [x w], b as [y w']. unfold gobs_eqb; cbn. rewrite andb_true_iff, Z.eqb_eq, wobss_eqb_eq.
  split; [intros [-> ->]; reflexivity | intro H; injection H as -> ->; auto].
Qed.

Lemma gobss_eqb_eq a b : gobss_eqb a b = true <-> a = b.
Proof.
  revert b; induction a as [|x a IH]; intros [|y b]; cbn; split; intro H;
    try reflexivity; try discriminate.
  - apply andb_true_iff in H as [H1 H2]. apply gobs_eqb_eq in H1. apply IH in H2. congruence.
  - injection H as -> ->. apply andb_true_iff; split; [apply gobs_eqb_eq | apply IH]; reflexivity.
Qed.

Theorem seqg_oracle_sound slow c steps obs :
  seqg_oracle slow c steps obs = true <-> seqg_spec slow c steps obs.
Proof. unfold seqg_oracle, seqg_spec. apply gobss_eqb_eq. Qed.

Lemma counts_okb_sound tl : forall a k, counts_okb a k tl = true <-> counts_ok a k tl.
Proof.
  induction tl as [|[x y] tl IH]; intros a k; cbn; [tauto|].
  rewrite !andb_true_iff, IH. rewrite Z.leb_le, Z.leb_le. tauto.
Qed.

Lemma followedb_sound tl : followedb tl = true <-> followed tl.
Proof.
  induction tl as [|[x y] tl IH]; cbn; [tauto|].
  rewrite andb_true_iff, IH.
  assert (Hex : existsb (fun p : Z * Z => 0 <? snd p) tl = true <-> Exists (fun p => 0 < snd p) tl).
  { rewrite existsb_exists, Exists_exists. split; intros (p & Hin & Hp); exists p; split; auto; lia. }
  destruct (0 <? x) eqn:Ex.
  - rewrite orb_true_iff, Hex, Z.ltb_lt. split.
    + intros [H1 H2]. split; [intros _; exact H1 | exact H2].
    + intros [H1 H2]. split; [apply H1; lia | exact H2].
  - split.
    + intros [_ H2]. split; [intro; lia | exact H2].
    + intros [_ H2]. split; [reflexivity | exact H2].
Qed.

Theorem end_oracle_sound rr cr leak : end_oracle rr cr leak = true <-> end_spec rr cr leak.
Proof. unfold end_oracle, end_spec. destruct rr, cr, leak; cbn; intuition discriminate. Qed.

Theorem any_oracle_sound fl tl rr cr leak :
  any_oracle fl tl rr cr leak = true <-> any_spec fl tl rr cr leak.
Proof.
  unfold any_oracle, any_spec. rewrite !andb_true_iff, counts_okb_sound, end_oracle_sound.
  destruct fl.
  - rewrite followedb_sound. intuition.
  - intuition discriminate.
Qed.

(* ------------------------------------------------------------------------------------- *)
(* non-vacuity of the hypotheses of the implication-shaped theorems                         *)

Definition ex_cfg : cfg := mkcfg 100 400 (Some 2).

Lemma ex_cfg_ok : cfg_ok ex_cfg.
Proof. unfold cfg_ok, ex_cfg; cbn; lia. Qed.

Definition holds_after (v : variant) (c : cfg) (es : list event) (p : state -> bool) : bool :=
  match exec v c (init c) es with Some s => p s | None => false end.

Definition enabled (v : variant) (c : cfg) (s : state) (e : event) : bool :=
  match step v c s e with Some _ => true | None => false end.

(* first_immediate: a reachable idle state (a window was opened and has expired) *)
Example first_immediate_nonvacuous :
  holds_after Fixed ex_cfg
    [LoopTop; Model.Add; TakeToken; HandleToken; LoopTop; Advance 100; TakeTimer; TimerFire; LoopTop]
    (fun s => negb (has_timer s) && rpc_eqb (run s) R_select && (tokens s =? 0) &&
              negb (closed s) && lock_free Fixed s) = true.
Proof. vm_compute. reflexivity. Qed.

(* no_add_lost / cap_fires: a window is open, two Adds pending, the second token received: the
   cap (2) is reached and HandleToken is enabled *)
Example cap_nonvacuous :
  holds_after Original ex_cfg
    [LoopTop; Model.Add; TakeToken; HandleToken; LoopTop; Model.Add; TakeToken; HandleToken;
     LoopTop; Model.Add; TakeToken]
    (fun s => negb (closed s) && (0 <? pending s) && has_timer s && (2 <=? pending s) &&
              enabled Original ex_cfg s HandleToken) = true.
Proof. vm_compute. reflexivity. Qed.

(* extension_law: window open, cap not reached, HandleToken enabled *)
Example extension_nonvacuous :
  holds_after Original ex_cfg
    [LoopTop; Model.Add; TakeToken; HandleToken; LoopTop; Model.Add; TakeToken]
    (fun s => has_timer s && negb (cap_reached ex_cfg (pending s)) &&
              enabled Original ex_cfg s HandleToken) = true.
Proof. vm_compute. reflexivity. Qed.

(* burst_no_signal: cap unset, window open; a burst of three Adds is handled, the clock moves
   inside the window, no expiry: three Adds pending, still exactly one signal *)
Example burst_nonvacuous :
  holds_after Original (mkcfg 100 400 None)
    [LoopTop; Model.Add; TakeToken; HandleToken; LoopTop;
     Model.Add; Model.Add; TakeToken; HandleToken; LoopTop; Model.Add; TakeToken; HandleToken;
     LoopTop; Advance 50; TakeToken; HandleToken; LoopTop]
    (fun s => has_timer s && (pending s =? 3) && (spawned s =? 1)) = true.
Proof. vm_compute. reflexivity. Qed.

(* close_waits: a reachable state in which Close's wait ends *)
Example close_waits_nonvacuous :
  holds_after Original ex_cfg
    [LoopTop; Model.Add; TakeToken; HandleToken; LoopTop; Model.Add; CloseCall; RunExit;
     TokenAbort; SignalAbort; CloseLock]
    (fun s => enabled Original ex_cfg s CloseReturn) = true.
Proof. vm_compute. reflexivity. Qed.

(* ------------------------------------------------------------------------------------- *)
(* every Close call, while a helper goroutine is alive                                      *)

(* as long as the run loop has not returned (or a token / signal goroutine exists) NO Close
   call can return, whichever call it is and however many are under way *)
Theorem close_blocked_while_running v c s : cfg_ok c -> reachable v c s ->
  run s <> R_exited \/ 0 < tokens s \/ 0 < inflight s ->
  step v c s CloseReturn = None /\ step v c s Close2Return = None.
Proof.
  intros Hc Hr Hal. split.
  - destruct (step v c s CloseReturn) as [s'|] eqn:E; [|reflexivity]. exfalso.
    destruct (close_waits v c s CloseReturn s' Hc Hr eq_refl E) as (A & B & C & _).
    destruct Hal as [X|[X|X]]; [congruence | lia | lia].
  - destruct (step v c s Close2Return) as [s'|] eqn:E; [|reflexivity]. exfalso.
    destruct (close_waits v c s Close2Return s' Hc Hr eq_refl E) as (A & B & C & _).
    destruct Hal as [X|[X|X]]; [congruence | lia | lia].
Qed.

(* non-vacuity: the run loop inside handleInputCh, two Close calls under way, both waiting *)
Example close_blocked_nonvacuous :
  holds_after Fixed ex_cfg
    [LoopTop; Model.Add; TakeToken; CloseCall; Close2Call; CloseLock; Close2Lock]
    (fun s => cpc_eqb (clo s) C_waiting && cpc_eqb (clo2 s) C_waiting && rpc_eqb (run s) R_input &&
              negb (enabled Fixed ex_cfg s CloseReturn) && negb (enabled Fixed ex_cfg s Close2Return)) = true.
Proof. vm_compute. reflexivity. Qed.

Theorem park_oracle_sound held allc rr leak :
  park_oracle held allc rr leak = true <-> park_spec held allc rr leak.
Proof.
  unfold park_oracle, park_spec. rewrite andb_true_iff, Z.eqb_eq, end_oracle_sound. tauto.
Qed.

(* ------------------------------------------------------------------------------------- *)
(* the cap clause for Adds in no known order                                                *)

Theorem cap_burst_oracle_sound c p n sigs :
  cap_burst_oracle c p n sigs = true <-> cap_burst_spec c p n sigs.
Proof.
  unfold cap_burst_oracle, cap_burst_spec. destruct (cap c) as [m|]; [|tauto].
  destruct (m <=? p + n) eqn:E.
  - rewrite Z.ltb_lt. split; [intros H _; exact H | intro H; apply H; lia].
  - split; [intros _ H; lia | reflexivity].
Qed.

(* the events of a burst: Adds and the run loop handling tokens *)
Definition burst_ev (e : event) : bool :=
  match e with Model.Add | LoopTop | TakeToken | HandleToken => true | _ => false end.

(* tokens not yet handled: still to be received, or received and in the run loop's hand *)
Definition outstanding (s : state) : Z := tokens s + (if rpc_eqb (run s) R_input then 1 else 0).

Definition burst_inv (m p0 a0 sp0 : Z) (s : state) : Prop :=
  sp0 < spawned s \/
  (spawned s = sp0 /\ pending s = p0 + (adds s - a0) /\ has_timer s = true /\ closed s = false /\
   0 <= tokens s /\ (outstanding s = 0 -> adds s = a0 \/ pending s < m)).

Lemma burst_step v c m s e s' p0 a0 sp0 : cap c = Some m -> 0 < m ->
  burst_ev e = true -> step v c s e = Some s' ->
  burst_inv m p0 a0 sp0 s -> burst_inv m p0 a0 sp0 s'.
Proof.
  intros Hcap Hm He H [Hs|(Hsp & Hp & Hh & Hcl & Ht & Ho)].
  - left. destruct (step_spawn _ _ _ _ _ H) as (S1 & _).
    destruct (fires c s e && (0 <? pending s)); lia.
  - destruct e; try discriminate He; cbn [step] in H; step_inv H; boolprops.
    + (* Add, dropped: impossible, not closed *)
      rewrite Hcl in *. destruct (is_fixed v); discriminate.
    + (* Add *)
      right. unfold outstanding in *. cbn. repeat split; try assumption; try lia.
      intro X. destruct (rpc_eqb (run s) R_input); lia.
    + (* LoopTop *)
      right. unfold outstanding, set_run in *. cbn. rewrite H in Ho. cbn in Ho.
      repeat split; assumption.
    + (* TakeToken *)
      right. unfold outstanding in *. cbn. repeat split; try assumption; try lia.
    + (* HandleToken *)
      unfold handle_input. rewrite Hh. cbn [negb].
      destruct (cap_reached c (pending s)) eqn:Ecap.
      * left. unfold cap_reached in Ecap. rewrite Hcap in Ecap.
        unfold fire, set_run; cbn. replace (0 <? pending s) with true by lia. cbn. lia.
      * right. unfold cap_reached in Ecap. rewrite Hcap in Ecap.
        unfold handle_extend. destruct (next_backoff c s). unfold outstanding. cbn.
        repeat split; try assumption. intros _. right. lia.
Qed.

(* In ANY interleaving of n >= 1 Adds with the run loop, starting with a window open, nothing
   in flight and p Adds pending, and ending with every token handled: if p + n reaches the cap,
   a signal has been spawned. *)
Theorem cap_burst_signals v c m : cap c = Some m -> 0 < m ->
  forall es s s', has_timer s = true -> closed s = false -> tokens s = 0 -> run s <> R_input ->
  forallb burst_ev es = true -> exec v c s es = Some s' ->
  outstanding s' = 0 -> adds s < adds s' -> m <= pending s + (adds s' - adds s) ->
  spawned s < spawned s'.
Proof.
  intros Hcap Hm es s s' Hh Hcl Ht Hr Hall Hex Hout Hn Hreach.
  assert (G : forall es s1, burst_inv m (pending s) (adds s) (spawned s) s1 ->
              forallb burst_ev es = true -> exec v c s1 es = Some s' ->
              burst_inv m (pending s) (adds s) (spawned s) s').
  { clear es Hall Hex. induction es as [|e es IH]; intros s1 HI Hall Hex; cbn [exec] in Hex.
    - injection Hex as <-. exact HI.
    - cbn [forallb] in Hall. apply andb_true_iff in Hall as [He Hall].
      destruct (step v c s1 e) as [s2|] eqn:E; [|discriminate].
      eapply IH; [eapply burst_step; eassumption | exact Hall | exact Hex]. }
  assert (H0 : burst_inv m (pending s) (adds s) (spawned s) s).
  { right. repeat split; try assumption; try lia; try (intros _; left; reflexivity). }
  destruct (G es s H0 Hall Hex) as [X|(_ & Hp & _ & _ & _ & Ho)]; [exact X|].
  destruct (Ho Hout); lia.
Qed.

(* non-vacuity: cap 2, window open, three Adds all counted before the first token is handled *)
Example cap_burst_nonvacuous :
  holds_after Original ex_cfg
    [LoopTop; Model.Add; TakeToken; HandleToken; LoopTop;
     Model.Add; Model.Add; Model.Add; TakeToken; HandleToken; LoopTop; TakeToken; HandleToken; LoopTop;
     TakeToken; HandleToken; LoopTop]
    (fun s => (tokens s =? 0) && (spawned s =? 2) && (pending s =? 0)) = true.
Proof. vm_compute. reflexivity. Qed.

(* ------------------------------------------------------------------------------------- *)
(* the first-Add clause for Adds in no known order                                          *)

Theorem idle_burst_oracle_sound n sigs :
  idle_burst_oracle n sigs = true <-> idle_burst_spec n sigs.
Proof.
  unfold idle_burst_oracle, idle_burst_spec. rewrite orb_true_iff, Z.leb_le, Z.ltb_lt.
  split; [intros [H|H] ?; lia | intro H; destruct (Z_le_gt_dec n 0); [left; assumption | right; apply H; lia]].
Qed.

Definition idle_inv (a0 sp0 : Z) (s : state) : Prop :=
  sp0 < spawned s \/
  (spawned s = sp0 /\ has_timer s = false /\ closed s = false /\ 0 <= tokens s /\
   pending s = adds s - a0 /\ outstanding s = adds s - a0).

Lemma idle_step v c s e s' a0 sp0 :
  burst_ev e = true -> step v c s e = Some s' -> idle_inv a0 sp0 s -> idle_inv a0 sp0 s'.
Proof.
  intros He H [Hs|(Hsp & Hh & Hcl & Ht & Hp & Ho)].
  - left. destruct (step_spawn _ _ _ _ _ H) as (S1 & _).
    destruct (fires c s e && (0 <? pending s)); lia.
  - destruct e; try discriminate He; cbn [step] in H; step_inv H; boolprops.
    + rewrite Hcl in *. destruct (is_fixed v); discriminate.
    + right. unfold outstanding in *. cbn. repeat split; try assumption; lia.
    + right. unfold outstanding, set_run in *. cbn. rewrite H in Ho. cbn in Ho.
      repeat split; assumption.
    + right. unfold outstanding in *. cbn. rewrite H in Ho. cbn in Ho.
      repeat split; try assumption; lia.
    + (* HandleToken with no timer: at least this token's Add is pending: it fires *)
      left. unfold outstanding in Ho. rewrite H in Ho. cbn in Ho.
      unfold handle_input. rewrite Hh. cbn [negb]. unfold handle_first, fire; cbn.
      replace (0 <? pending s) with true by lia. cbn. lia.
Qed.

(* In ANY interleaving of n >= 1 Adds with the run loop, starting idle (no window, nothing
   pending or in flight) and ending with every token handled, a signal has been spawned - and no
   clock advance is among the events. *)
Theorem idle_burst_signals v c :
  forall es s s', has_timer s = false -> pending s = 0 -> closed s = false -> tokens s = 0 ->
  run s <> R_input -> forallb burst_ev es = true -> exec v c s es = Some s' ->
  outstanding s' = 0 -> adds s < adds s' -> spawned s < spawned s' /\ now s' = now s.
Proof.
  intros es s s' Hh Hp Hcl Ht Hr Hall Hex Hout Hn.
  assert (G : forall es s1, idle_inv (adds s) (spawned s) s1 /\ now s1 = now s ->
              forallb burst_ev es = true -> exec v c s1 es = Some s' ->
              idle_inv (adds s) (spawned s) s' /\ now s' = now s).
  { clear es Hall Hex. induction es as [|e es IH]; intros s1 HI Hall Hex; cbn [exec] in Hex.
    - injection Hex as <-. exact HI.
    - cbn [forallb] in Hall. apply andb_true_iff in Hall as [He Hall].
      destruct (step v c s1 e) as [s2|] eqn:E; [|discriminate].
      eapply IH; [|exact Hall | exact Hex]. destruct HI as [HI Hnow]. split.
      + eapply idle_step; eassumption.
      + rewrite <- Hnow. destruct e; try discriminate He; cbn [step] in E; step_inv E;
          unfold set_run, handle_input, handle_first, handle_extend, fire; cbn; try reflexivity.
        destruct (negb (has_timer s1)); [destruct (0 <? pending s1); reflexivity|].
        destruct (cap_reached c (pending s1)); [destruct (0 <? pending s1); reflexivity|].
        destruct (next_backoff c s1); reflexivity. }
  assert (H0 : idle_inv (adds s) (spawned s) s /\ now s = now s).
  { split; [|reflexivity]. right. unfold outstanding.
    destruct (rpc_eqb (run s) R_input) eqn:E; [apply rpc_eqb_eq in E; congruence|].
    repeat split; try assumption; lia. }
  destruct (G es s H0 Hall Hex) as [[X|(_ & _ & _ & _ & _ & Ho)] Hnow]; [split; assumption|].
  lia.
Qed.
