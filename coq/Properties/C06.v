(* C06 — queue.Processor: live items run exactly once, on time, in order; none stranded; Close clean.
   Statements only; every proof is [exact <lemma of C06/Proofs*.v>].

   Vocabulary (C06/Model.v): a schedule is a list of events — the locked bodies of Enqueue and
   Dequeue (atomic: they run under p.lock), the steps of the Close call that wins the
   CompareAndSwap and of any number of further Close calls, one step of the loop goroutine
   between two points where it releases the lock / blocks / reads the clock / touches a channel
   ([EvLoop c pick]: [c] = which ready select case is taken, [pick] = how the heap breaks a tie),
   the callback returning, wg.Done, and a clock advance.  [run v (init_at t) evs = Some s]: the
   schedule [evs] is possible from a fresh processor whose clock shows [t] and leads to [s].
   "for every schedule" = [forall evs]: any number of client goroutines, any interleaving, any
   length.  [v] is the version of the code: [Original] before the stranding fix, [Fixed] = the
   current tree.  [executed s] is the log of (item, clock when it was popped for its callback).
   [fresh_ids evs]: every Enqueue call hands over a distinct object. *)
From Kit Require Import C06.Model C06.Spec C06.Check C06.ProofsQueue C06.ProofsInv C06.Proofs
  C06.ProofsProgress C06.ProofsOracle C06.ProofsExamples C06.ProofsOnTime C06.ProofsLive C06.ProofsCheck.

(* Exactly once, and only live instances (both versions of the code).  Whatever happened before
   ([evs]), one more event [e] either leaves the execution log alone or appends exactly one entry
   (it, current clock), and then: [it] is the instance that the client calls made so far leave
   live for its key (it was enqueued and not dequeued or replaced since — [live_after] looks at
   Enqueue/Dequeue calls only), it has never been executed before, it was at the head of the
   queue, and the loop is now inside its callback.  The log never contains an id twice. *)
Theorem C06_exactly_once : forall v t evs s e s',
  fresh_ids (evs ++ [e]) -> run v (init_at t) evs = Some s -> step v s e = Some s' ->
  NoDup (map xid (executed s')) /\
  (executed s' = executed s \/
   exists it, executed s' = (it, clock s) :: executed s /\
              In it (live_after evs) /\
              ~ In (iid it) (map xid (executed s)) /\
              q_peek (q s) = Some it /\ loop s' = LCallback it).
Proof. exact exactly_once. Qed.
Print Assumptions C06_exactly_once.

(* What "live" means, from the calls alone: at most one live instance per key; right after
   Enqueue(r), r is live and is the only live instance of its key; right after Dequeue(k) no
   instance of key k is live. *)
Theorem C06_live_one_per_key : forall evs, NoDup (map ikey (live_after evs)).
Proof. exact live_after_key. Qed.
Print Assumptions C06_live_one_per_key.

Theorem C06_live_after_enqueue : forall evs r p it,
  In r (live_after (evs ++ [EvEnq r p])) /\
  (In it (live_after (evs ++ [EvEnq r p])) -> ikey it = ikey r -> it = r).
Proof. exact (fun evs r p it => conj (live_after_enq evs r p) (live_after_replaced evs r p it)). Qed.
Print Assumptions C06_live_after_enqueue.

Theorem C06_live_after_dequeue : forall evs k p it,
  In it (live_after (evs ++ [EvDeq k p])) -> ikey it <> k.
Proof. exact live_after_deq. Qed.
Print Assumptions C06_live_after_dequeue.

(* Never early (both versions): every logged execution happened less than 0.5 ms before the item's
   scheduled time, at a clock value the clock had really reached. *)
Theorem C06_not_early : forall v t evs s it tm,
  run v (init_at t) evs = Some s -> In (it, tm) (executed s) ->
  (idue it - half_ms < tm)%Z /\ (tm <= clock s)%Z.
Proof. exact not_early. Qed.
Print Assumptions C06_not_early.

(* In scheduled-time order (both versions): the item an event hands to the callback is in the queue
   at that moment and no entry of the queue at that moment is scheduled earlier. *)
Theorem C06_in_order : forall v t evs s e s' it tm,
  run v (init_at t) evs = Some s -> step v s e = Some s' ->
  executed s' = (it, tm) :: executed s ->
  tm = clock s /\ In it (q s) /\ forall x, In x (q s) -> (idue it <= idue x)%Z.
Proof. exact in_order. Qed.
Print Assumptions C06_in_order.

(* A stale peek always has a reset pending (both versions): while the loop works towards an item
   [r] it peeked (before/after Now(), before NewTimer(), or asleep on the timer) and [r] is no
   longer the head of the queue, the reset token is in its channel — the loop will look again. *)
Theorem C06_stale_wait_has_reset : forall v t evs s r,
  run v (init_at t) evs = Some s -> peeked (loop s) = Some r ->
  q_peek (q s) <> Some r -> reset s = true.
Proof. exact stale_wait_has_reset. Qed.
Print Assumptions C06_stale_wait_has_reset.

(* ... and a timer the loop sleeps on is never armed for earlier than the item's time. *)
Theorem C06_timer_not_before_due : forall v t evs s r dl,
  run v (init_at t) evs = Some s -> loop s = LWaiting r dl -> (idue r <= dl)%Z.
Proof. exact waiting_deadline. Qed.
Print Assumptions C06_timer_not_before_due.

(* Close (both versions): from the moment Close has taken the running token — and so in
   particular once it has returned — there is no loop goroutine, and whatever happens afterwards
   ([evs'], any events at all) there is still none and the execution log never grows: no callback
   is running or will run.  Once Close has returned it stays returned and every loop goroutine
   has finished (wg). *)
Theorem C06_close : forall v t evs s evs' s',
  run v (init_at t) evs = Some s -> close_holds_token s -> run v s evs' = Some s' ->
  loop s' = LNone /\ executed s' = executed s /\ close_holds_token s' /\
  (close s = CReturned -> close s' = CReturned /\ exiting s' = 0%nat).
Proof. exact close_final. Qed.
Print Assumptions C06_close.

(* The in-flight Enqueue (both versions): an Enqueue that got past the unlocked stopped test before
   Close was called and whose locked body runs only once Close holds the running token (e.g.
   after Close has returned): its item is put on the queue, and whatever happens afterwards no
   loop goroutine exists and the item is never handed to the callback. *)
Theorem C06_close_inflight_enqueue : forall v t evs s r p s1 evs' s',
  run v (init_at t) evs = Some s -> close_holds_token s ->
  step v s (EvEnq r p) = Some s1 -> run v s1 evs' = Some s' ->
  In r (q s1) /\ loop s' = LNone /\ executed s' = executed s.
Proof. exact close_inflight_enqueue. Qed.
Print Assumptions C06_close_inflight_enqueue.

(* Close, every further call (both versions).  A Close call that loses the CompareAndSwap only
   runs the deferred wg.Wait(); [EvClose2Ret] is that call returning.  At that moment no loop
   goroutine exists or is on its way out - so no callback is running - and none will run:
   unconditionally if the stop channel is already closed, and otherwise unless the locked body of
   an Enqueue/Dequeue that had passed the unlocked stopped test before Close was called runs
   afterwards (C06/Proofs.v, close2_inflight_enqueue, shows that this corner is real). *)
Theorem C06_close_every_call : forall v s s1 evs' s',
  step v s EvClose2Ret = Some s1 -> run v s1 evs' = Some s' ->
  loop s = LNone /\ exiting s = 0%nat /\ cret s1 = S (cret s) /\
  (stopch s = true -> executed s' = executed s) /\
  (Forall not_client evs' -> executed s' = executed s /\ loop s' = LNone).
Proof. exact close2_final. Qed.
Print Assumptions C06_close_every_call.

(* No stranding, code after the fix: in every reachable state in which Close has not been called
   and the queue is not empty, a loop goroutine exists and is on a path that looks at the queue
   again (it is not about to exit). *)
Theorem C06_no_stranding : forall t evs s,
  run Fixed (init_at t) evs = Some s -> stopped s = false -> q s <> [] -> serving s = true.
Proof. exact no_stranding. Qed.
Print Assumptions C06_no_stranding.

(* The same up to the instant Close closes the stop channel, and the running token is held. *)
Theorem C06_no_stranding_until_stop_signal : forall t evs s,
  run Fixed (init_at t) evs = Some s -> stopch s = false -> q s <> [] ->
  serving s = true /\ running s = true.
Proof. exact no_stranding_strong. Qed.
Print Assumptions C06_no_stranding_until_stop_signal.

(* Stranding, code before the fix: there is a schedule (Enqueue a; the loop runs a and sees the
   queue empty; Enqueue b lands before the loop has released its running token; the loop
   releases it and exits) after which b is live, due and queued, Close was never called, no loop
   serves the queue, no internal event is enabled, and b stays queued and un-executed however
   long one waits (any sequence of internal events and clock advances). *)
Theorem C06_stranding_refuted :
  exists evs s b,
    fresh_ids evs /\ run Original init evs = Some s /\
    stopped s = false /\ In b (q s) /\ In b (live_after evs) /\ (idue b <= clock s)%Z /\
    serving s = false /\
    (forall e, internal e = true -> step Original s e = None) /\
    (forall evs' s', Forall quiet_event evs' -> run Original s evs' = Some s' ->
       In b (q s') /\ ~ In b (map fst (executed s')) /\ loop s' = LNone).
Proof. exact stranding_refuted. Qed.
Print Assumptions C06_stranding_refuted.

(* Progress 1 (both versions): every internal event (a loop step, a timer delivery, the callback
   returning, wg.Done, a step of Close, a further Close call returning) strictly decreases a natural-number measure of the state,
   so internal events alone cannot go on forever: a run of them is no longer than the measure. *)
Theorem C06_progress_measure : forall v s e s',
  internal e = true -> step v s e = Some s' -> (measure s' < measure s)%nat.
Proof. exact measure_decreases. Qed.
Print Assumptions C06_progress_measure.

Theorem C06_progress_bounded : forall v evs s s',
  Forall (fun e => internal e = true) evs -> run v s evs = Some s' ->
  (length evs + measure s' <= measure s)%nat.
Proof. exact internal_runs_bounded. Qed.
Print Assumptions C06_progress_bounded.

(* Progress 2: in a reachable state where no internal event is enabled, every Close call that
   was made has returned, no goroutine is on its way out, and either there is no loop — and then, in the
   code after the fix and unless the stop channel is closed, the queue is empty — or the loop
   sleeps on a timer that was armed for the current head of the queue, not before its time, with
   no reset or stop pending; it wakes as soon as the clock reaches that deadline. *)
Theorem C06_rest : forall v t evs s,
  run v (init_at t) evs = Some s -> at_rest v s ->
  (close s = CNone \/ close s = CReturned) /\ exiting s = 0%nat /\ cwait s = 0%nat /\
  ((loop s = LNone /\ (v = Fixed -> stopch s = false -> q s = [])) \/
   (exists r dl, loop s = LWaiting r dl /\ q_peek (q s) = Some r /\ reset s = false /\
                 stopch s = false /\ (clock s < dl)%Z /\ (idue r <= dl)%Z)).
Proof. exact rest_shape. Qed.
Print Assumptions C06_rest.

(* On time, upper bound.  Fairness hypothesis, on the schedule: [trun] is [run] restricted to
   TIMELY schedules - the clock is advanced only when no internal event is enabled (the timer
   delivery, the loop's steps, the callback's return all happen before time moves on).  Then, code
   after the fix: whenever the processor is at rest and the stop channel is open, NO queued item
   has a scheduled time the clock has reached - every item whose time has come has been handed to
   the callback.  (The timer is armed for exactly the head's time: no drift.) *)
Theorem C06_on_time : forall t evs s,
  trun Fixed (init_at t) evs s -> at_rest Fixed s -> stopch s = false ->
  forall x, In x (q s) -> (clock s < idue x)%Z.
Proof. exact on_time_rest. Qed.
Print Assumptions C06_on_time.

(* The same for both versions of the code whenever a loop goroutine is alive (what the stranding
   defect of the code before the fix breaks is exactly "a loop is alive"). *)
Theorem C06_on_time_loop_alive : forall v t evs s,
  trun v (init_at t) evs s -> at_rest v s -> loop s <> LNone ->
  forall x, In x (q s) -> (clock s < idue x)%Z.
Proof. exact on_time_rest_alive. Qed.
Print Assumptions C06_on_time_loop_alive.

(* The execution timestamp.  After a timely schedule the clock jumps by d (from a rest state s1,
   stop channel open); an item handed to the callback before the next jump is stamped with the
   clock value right after the jump, which is less than 0.5 ms before its scheduled time or later;
   and if the item was already queued before the jump, it was not yet due then: its timestamp is
   the first clock value at or after (or within 0.5 ms before) its scheduled time. *)
Theorem C06_on_time_timestamp : forall t evs1 s1 d s2 evs2 s3 e s4 it tm,
  trun Fixed (init_at t) evs1 s1 -> at_rest Fixed s1 -> stopch s1 = false ->
  step Fixed s1 (EvAdvance d) = Some s2 ->
  Forall not_advance evs2 -> run Fixed s2 evs2 = Some s3 ->
  step Fixed s3 e = Some s4 -> executed s4 = (it, tm) :: executed s3 ->
  tm = (clock s1 + d)%Z /\ (idue it - half_ms < tm)%Z /\ (In it (q s1) -> (clock s1 < idue it)%Z).
Proof. exact on_time_exec. Qed.
Print Assumptions C06_on_time_timestamp.

(* Order, over the whole log (both versions, every schedule): take any moment s1 of any schedule
   and everything that happens afterwards.  The log entries appended since ([new], newest first)
   satisfy: an item that was in the queue at s1 is handed to the callback only after everything
   handed over since s1 had an earlier or equal scheduled time ([ordered_since]); in particular
   the entries appended since s1, oldest first, restricted to the items that were queued at s1,
   are sorted by scheduled time.  (Items that are simultaneously queued and due run in
   scheduled-time order; an implementation that pops a batch of due items in another order
   violates this.) *)
Theorem C06_order_trace : forall v t evs1 s1 evs2 s,
  fresh_ids (evs1 ++ evs2) -> run v (init_at t) evs1 = Some s1 -> run v s1 evs2 = Some s ->
  exists new, executed s = new ++ executed s1 /\
              ordered_since (q s1) new /\
              Sorted.StronglySorted due_le (filter (was_queued (q s1)) (rev new)).
Proof. exact order_sorted. Qed.
Print Assumptions C06_order_trace.

(* No live item is ever lost (both versions, every schedule): every instance that the client
   calls made so far leave live - enqueued, not dequeued or replaced since - is in the queue or
   has been handed to the callback.  (The converse, "only live instances are executed", is
   C06_exactly_once; together: queue + log = the live instances.) *)
Theorem C06_no_live_item_lost : forall v t evs s,
  run v (init_at t) evs = Some s ->
  forall it, In it (live_after evs) -> In it (q s) \/ In it (map fst (executed s)).
Proof. exact no_live_item_lost. Qed.
Print Assumptions C06_no_live_item_lost.

(* The first clause of the property in full, code after the fix, timely schedules (the clock moves
   only when no internal event is enabled), distinct objects: whenever the processor is at rest
   with the stop channel open, EVERY item enqueued and not later dequeued or replaced whose
   scheduled time the clock has reached has been handed to the callback - exactly once (the log
   holds no id twice), less than 0.5 ms before its scheduled time at the earliest, at a clock
   value the clock had really reached. *)
Theorem C06_due_live_items_run_exactly_once : forall t evs s,
  fresh_ids evs -> trun Fixed (init_at t) evs s -> at_rest Fixed s -> stopch s = false ->
  NoDup (map xid (executed s)) /\
  forall it, In it (live_after evs) -> (idue it <= clock s)%Z ->
    exists tm, In (it, tm) (executed s) /\ (idue it - half_ms < tm)%Z /\ (tm <= clock s)%Z.
Proof. exact due_live_items_run_exactly_once. Qed.
Print Assumptions C06_due_live_items_run_exactly_once.

(* The correspondence search itself (Check.v).  [settle_m m] - "run the model's internal events
   from m until nothing is enabled" - never gives up for lack of fuel (its fuel is the measure of
   C06_progress_measure), returns only rest points, and every state it returns is reached from m
   by internal events of Model.step: the model side of the check is a terminating, sound
   exploration of the model the theorems are about. *)
Theorem C06_check_settle : forall m,
  settle_m m <> [] /\
  forall m', In m' (settle_m m) ->
    succs m' = [] /\ lv m' = lv m /\
    exists evs, Forall (fun e => internal e = true) evs /\ run Fixed (st m) evs = Some (st m').
Proof. exact settle_m_spec. Qed.
Print Assumptions C06_check_settle.

(* Every simulation state the check carries for a script (whatever the observations) is a
   REACHABLE state of the model - [run Fixed (init_at c0) evs] for some schedule evs - and its [lv]
   component is live_after of that schedule's client calls; hence every theorem above about
   reachable states holds of the states the check compares the implementation with, and the
   [covered] test evaluated on them at every step (C06_no_live_item_lost as a boolean) holds. *)
Theorem C06_check_states_reachable : forall c0 h,
  Forall (fun m => (exists evs, run Fixed (init_at c0) evs = Some (st m) /\ lv m = live_after evs) /\
                   covered m = true)
         (sim_hist h [sim0 c0]).
Proof. exact check_states_reachable_covered. Qed.
Print Assumptions C06_check_states_reachable.

(* The boolean oracle evaluated on what the implementation was observed to do decides the
   specification of Spec.v (exactly once, not early, in order, removed items never run, due live
   items have run whenever the processor is at rest, nothing after Close returned). *)
Theorem C06_oracle_sound : forall c0 h, oracle c0 h = true <-> spec c0 h.
Proof. exact oracle_sound. Qed.
Print Assumptions C06_oracle_sound.
