(* C06 — provisional stub *)
From Kit Require Import C06.Model C06.Spec C06.Check.
Theorem C06_stub : check_case (CScript 0 []) = 0%Z.
Proof. exact (eq_refl 0%Z). Qed.
Print Assumptions C06_stub.
