(* C14 (sequential half, ring.Buffered) — the buffered ring is a FIFO queue.
   Statements only; every proof is [exact <lemma of C14/BufferedProofs.v>]. *)
From Kit Require Import C14.BufferedModel C14.BufferedSpec C14.BufferedProofs.

(* The current tree: for EVERY sequence of AppendBack / RemoveFront / Front / Len / Range (with
   a callback that stops early or never), of any length, and EVERY initial size and buffer size
   (values below 1 default to 1), the outputs of the model of buffered.go are those of a plain
   queue that starts empty.  No side condition: RemoveFront on an empty buffer included. *)
Theorem C14_buffered_fifo : forall (initial bsize : Z) (ops : list bop),
  buf_run Fixed initial bsize ops = q_run ops.
Proof. exact buffered_fifo. Qed.
Print Assumptions C14_buffered_fifo.

(* The code before the fix is a FIFO queue only on sequences that never call RemoveFront on an
   empty buffer. *)
Theorem C14_buffered_fifo_original_guarded : forall (initial bsize : Z) (ops : list bop),
  guarded ops -> buf_run Original initial bsize ops = q_run ops.
Proof. exact buffered_fifo_original_guarded. Qed.
Print Assumptions C14_buffered_fifo_original_guarded.

(* ... and without that guard it is not: RemoveFront on an empty buffer makes Len() = -1, the
   next AppendBack is lost (Len() = 0, Front() = nil, Range visits nothing). *)
Theorem C14_buffered_remove_empty_refuted : exists initial bsize ops,
  buf_run Original initial bsize ops <> q_run ops /\
  buf_run Original initial bsize ops = [BV None; BZ (-1); BZ 0; BV None; BL []].
Proof. exact buffered_remove_empty_refuted. Qed.
Print Assumptions C14_buffered_remove_empty_refuted.

(* The boolean oracle evaluated on the implementation's observed outputs decides the spec. *)
Theorem C14_buffered_oracle_sound : forall ops obs,
  fifo_oracle ops obs = true <-> fifo_spec ops obs.
Proof. exact fifo_oracle_sound. Qed.
Print Assumptions C14_buffered_oracle_sound.
