(* C14 (sequential half, ring.Buffered) — the buffered ring is a FIFO queue.
   Statements only; every proof is [exact <lemma of C14/BufferedProofs.v>]. *)
From Kit Require Import C14.BufferedModel C14.BufferedSpec C14.BufferedProofs
  C14.BufferedPtrModel C14.BufferedPtrProofs.

(* The current tree: for EVERY sequence of AppendBack / RemoveFront / Front / Len / Range (with
   a callback that stops early or never), of any length, and EVERY initial size and buffer size
   (values below 1 default to 1), the outputs of the model of buffered.go are those of a plain
   queue that starts empty.  No side condition: RemoveFront on an empty buffer included. *)
Theorem C14_buffered_fifo : forall (initial bsize : Z) (ops : list bop),
  buf_run Fixed initial bsize ops = q_run ops.
Proof. exact buffered_fifo. Qed.
Print Assumptions C14_buffered_fifo.

(* The code before the fix is a FIFO queue only on sequences that never call RemoveFront on an
   empty buffer. *)
Theorem C14_buffered_fifo_original_guarded : forall (initial bsize : Z) (ops : list bop),
  guarded ops -> buf_run Original initial bsize ops = q_run ops.
Proof. exact buffered_fifo_original_guarded. Qed.
Print Assumptions C14_buffered_fifo_original_guarded.

(* ... and without that guard it is not: RemoveFront on an empty buffer makes Len() = -1, the
   next AppendBack is lost (Len() = 0, Front() = nil, Range visits nothing). *)
Theorem C14_buffered_remove_empty_refuted : exists initial bsize ops,
  buf_run Original initial bsize ops <> q_run ops /\
  buf_run Original initial bsize ops = [BV None; BZ (-1); BZ 0; BV None; BL []].
Proof. exact buffered_remove_empty_refuted. Qed.
Print Assumptions C14_buffered_remove_empty_refuted.

(* The boolean oracle evaluated on the implementation's observed outputs decides the spec. *)
Theorem C14_buffered_oracle_sound : forall ops obs,
  fifo_oracle ops obs = true <-> fifo_spec ops obs.
Proof. exact fifo_oracle_sound. Qed.
Print Assumptions C14_buffered_oracle_sound.

(* End to end at pointer level.  The model of C14/BufferedPtrModel.v keeps exactly what the Go
   struct keeps — b.ring (an address in the heap of ring nodes), b.end, b.bsize — and performs
   every ring access through the transcribed ring.go methods (Len, Move, Next, New, Link,
   Unlink; growth = Move(end-1).Link(New(bsize)), shrink = Move(end).Unlink(bsize)).  On the
   current tree, for EVERY operation sequence and every initial/buffer size, its outputs are
   those of a plain queue: it never dereferences nil, every ring walk terminates, and
   Front / RemoveFront / Range / Len agree with the queue. *)
Theorem C14_buffered_ptr_fifo : forall (initial bsize : Z) (ops : list bop),
  buf_run_ptr Fixed initial bsize ops = q_run ops.
Proof. exact buffered_ptr_fifo. Qed.
Print Assumptions C14_buffered_ptr_fifo.

(* Hence the cycle-level model used for the differential run (each b.ring.Move(k).op read as
   an operation at index k mod Len of the cycle of cell values) and the pointer-level model
   agree on every input. *)
Theorem C14_buffered_ptr_refines_cycle : forall (initial bsize : Z) (ops : list bop),
  buf_run_ptr Fixed initial bsize ops = buf_run Fixed initial bsize ops.
Proof. exact buffered_ptr_refines_cycle. Qed.
Print Assumptions C14_buffered_ptr_refines_cycle.

(* The defect of the code before the fix shows at pointer level exactly as in the cycle-level
   model (RemoveFront on an empty buffer). *)
Theorem C14_buffered_ptr_remove_empty_refuted : exists initial bsize ops,
  buf_run_ptr Original initial bsize ops <> q_run ops /\
  buf_run_ptr Original initial bsize ops = buf_run Original initial bsize ops.
Proof. exact buffered_ptr_remove_empty_refuted. Qed.
Print Assumptions C14_buffered_ptr_remove_empty_refuted.

(* Counter-model (not the code): a RemoveFront that does not reset the vacated slot is not a
   queue — after a wrap-around, draining the queue returns a stale element instead of nil. *)
Theorem C14_buffered_ptr_noclear_refuted : exists initial bsize ops,
  buf_run_ptr_k Fixed (mk_knobs false) initial bsize ops <> q_run ops /\
  buf_run_ptr_k Fixed (mk_knobs false) initial bsize ops
    = [BV None; BV (Some 1%Z); BV (Some 1%Z); BZ 0; BL []].
Proof. exact buffered_ptr_noclear_refuted. Qed.
Print Assumptions C14_buffered_ptr_noclear_refuted.

(* Counter-model (not the code): capacity cached in a field and the shrink unlinking from
   Move(end-1) is not a queue — when the shrink fires at end = 0 the buffer is left on a
   detached ring and later appends overwrite queued elements. *)
Theorem C14_buffered_ptr_cached_shrink_refuted : exists initial bsize ops,
  buf_run_ptr_cached initial bsize ops <> q_run ops /\
  buf_run_ptr_cached initial bsize ops = [BV None; BV (Some 3%Z); BZ 2; BL [Some 3%Z; Some 3%Z]].
Proof. exact buffered_ptr_cached_shrink_refuted. Qed.
Print Assumptions C14_buffered_ptr_cached_shrink_refuted.
