(* C12 — RunnerManager / RunnerCloserManager: cancel on first return, closers last, joined errors.
   Statements only; every proof is [exact <lemma of C12/Proofs*.v>].

   Everywhere: [new_rm bs] = NewRunnerManager(bs...), [new_cm grace bs cls] =
   NewRunnerCloserManager(log, grace, bs...) followed by AddCloser(cls...); runners and closers are
   environment processes with scripted results ([Free r]: returns r when the environment says so;
   [OnCancel r]: returns r only once its context is cancelled); [es] = ANY schedule: any
   interleaving, of any length, of Run / Add / AddCloser / Close calls (Add and AddCloser split
   into their lock-free test and their locked append, Close into its two compare-and-swaps and
   its wait), runner and closer returns, cancellation of the caller's context, delivery of the
   grace timer, and the managers' own steps at the code's blocking points.  [v] = the code before
   ([Original]) or after ([Fixed]) the three fix: commits (AddCloser, RunnerManager.Add/Run,
   RunnerCloserManager.Add/Run); theorems quantified over [v] hold for
   both.  Errors are codes; a returned error is the list of the leaves of its join. *)
From Kit Require Import C12.Model C12.Spec C12.Check C12.Proofs_oracle C12.Proofs_rm C12.Proofs_cm
  C12.Proofs_main C12.Proofs_live.

(* RUN WAITS FOR ALL.  When Run has returned, every goroutine it started has handed over its
   result, and goroutines were started for (at least) all the runners given to the constructor. *)
Theorem C12_run_waits_all : forall v bs es s errs,
  run_r v (new_rm bs) es = Some s -> r_pc s = RReturned errs ->
  all_done (r_procs s) /\ exists more, map p_beh (r_procs s) = bs ++ more.
Proof. exact rm_run_waits_all. Qed.
Print Assumptions C12_run_waits_all.

(* CANCEL ON FIRST RETURN.  The runners' context is cancelled only if the caller cancelled, or a
   runner has returned and been collected, or Run itself returned (never out of thin air); it IS
   cancelled as soon as one result has been collected; and while Run collects, a goroutine that
   holds a result is served at once (the receive is enabled) and that step cancels the context. *)
Theorem C12_cancel_on_first_return : forall v bs es s,
  run_r v (new_rm bs) es = Some s ->
  (r_cancelled s = true ->
     r_parent s = true \/ some_done s \/ exists e, r_pc s = RReturned e) /\
  (some_done s -> r_cancelled s = true) /\
  (forall i p k errs, nth_error (r_procs s) i = Some p -> p_st p = Sending ->
     r_pc s = RCollecting k errs ->
     exists s', step_r v s (RCollect i) = Some s' /\ r_cancelled s' = true).
Proof. exact rm_cancel_on_first_return. Qed.
Print Assumptions C12_cancel_on_first_return.

(* ERROR JOIN.  What Run returns is, as a multiset, exactly the results of the runners that are
   neither nil nor context.Canceled ([filt] drops those two; [p_res p] is what runner p returned):
   its scripted result, or - for a runner that returns ctx.Err() - what the cancelled context
   reports.  context.DeadlineExceeded is NOT dropped. *)
Theorem C12_error_join : forall v bs es s errs,
  run_r v (new_rm bs) es = Some s -> r_pc s = RReturned errs ->
  Permutation errs (flat_map (fun p => olist (filt (p_res p))) (r_procs s)) /\
  (forall p, In p (r_procs s) ->
     match p_beh p with
     | CtxErr => r_cancelled s = true /\ p_res p = Some (r_cerr s)
     | Free r | OnCancel r => p_res p = r
     | CloseRunner => p_res p = None
     end).
Proof. exact rm_error_join. Qed.
Print Assumptions C12_error_join.

(* What the runners' context reports is fixed by its FIRST cancellation (the caller's context
   ending with Canceled or DeadlineExceeded, or the manager's own cancel() = Canceled) and never
   changes afterwards. *)
Theorem C12_ctx_err_stable : forall v s e s',
  step_r v s e = Some s' -> r_cancelled s = true -> r_cancelled s' = true /\ r_cerr s' = r_cerr s.
Proof. exact rm_ctx_err_stable. Qed.
Print Assumptions C12_ctx_err_stable.

(* RUNS ONCE.  Once a manager has been started every further Run call returns
   ErrManagerAlreadyStarted and changes nothing but the count of refused calls; a manager whose
   Run is under way is marked running; the goroutines are created once. *)
Theorem C12_runs_once : forall v bs es s,
  run_r v (new_rm bs) es = Some s ->
  (r_running s = true ->
     step_r v s RRunCas =
     Some (mkr true (r_runners s) (r_pc s) (r_procs s) (r_cancelled s) (r_cerr s) (r_parent s)
               (r_closech s) (r_adds s) (S (r_rejected s)))) /\
  (r_pc s <> RIdle -> r_running s = true) /\
  (spawned s -> step_r v s RSpawn = None).
Proof. exact rm_runs_once. Qed.
Print Assumptions C12_runs_once.

(* An Add that begins after Run was called is refused and leaves the manager alone (both
   variants). *)
Theorem C12_add_after_start_refused : forall v bs es s b,
  run_r v (new_rm bs) es = Some s -> r_running s = true ->
  exists s', step_r v s (RAddCheck b) = Some s' /\ r_adds s' = r_adds s ++ [ARejected] /\
             r_runners s' = r_runners s /\ r_procs s' = r_procs s /\ r_pc s' = r_pc s.
Proof. exact rm_add_after_start_refused. Qed.
Print Assumptions C12_add_after_start_refused.

(* REJECTS LATE ADDITIONS (fixed code).  Once the goroutines exist the runner slice is exactly
   what they were created from - so every runner whose Add returned nil runs, and Run waits for
   exactly the goroutines it started; when they have all delivered, Run can return; and an Add
   caught between its test and its append by the start of Run is refused under the lock. *)
Theorem C12_rejects_late_additions : forall bs es s,
  run_r Fixed (new_rm bs) es = Some s ->
  (spawned s -> r_runners s = map p_beh (r_procs s)) /\
  (forall k errs, r_pc s = RCollecting k errs -> all_done (r_procs s) ->
     exists s', step_r Fixed s RRunReturn = Some s') /\
  (forall a b, nth_error (r_adds s) a = Some (AChecked b) -> r_running s = true ->
     exists s', step_r Fixed s (RAddAppend a) = Some s' /\ r_runners s' = r_runners s /\
                nth_error (r_adds s') a = Some ARejected).
Proof. exact rm_rejects_late_additions. Qed.
Print Assumptions C12_rejects_late_additions.

(* ... and the code before the fix: Add passes its test, Run takes its snapshot and starts the
   goroutines, Add appends and returns nil.  The added runner never runs, every goroutine has
   delivered, and Run waits for one more result for ever (no step of the manager or of a runner
   is enabled). *)
Theorem C12_rejects_late_additions_refuted :
  exists s, run_r Original (new_rm [Free None]) add_race = Some s /\
            nth_error (r_adds s) 0 = Some (AAccepted (Free None)) /\
            length (r_runners s) = 2 /\ length (r_procs s) = 1 /\
            r_wedged Original s.
Proof. exact rm_rejects_late_additions_refuted. Qed.
Print Assumptions C12_rejects_late_additions_refuted.

(* The inner manager of ANY RunnerCloserManager execution is a RunnerManager execution (the close-runner
   being one more runner), so the theorems above hold for it. *)
Theorem C12_inner_is_runner_manager : forall v grace bs cls es s,
  run_c v (new_cm grace bs cls) es = Some s ->
  exists res, run_r v (new_rm bs) res = Some (inner s).
Proof. exact cm_inner_is_rm_run. Qed.
Print Assumptions C12_inner_is_runner_manager.

(* CLOSERS AFTER THE LAST RUNNER.  Whenever a closer goroutine exists, the inner manager's Run has
   returned, every runner goroutine has delivered its result, and the goroutines cover the runners
   given to the constructor. *)
Theorem C12_closers_after_last_runner : forall v grace bs cls es s p,
  run_c v (new_cm grace bs cls) es = Some s -> In p (c_procs s) ->
  (exists rerrs, r_pc (inner s) = RReturned rerrs) /\ all_done (r_procs (inner s)) /\
  exists more, map p_beh (r_procs (inner s)) = bs ++ more.
Proof. exact cm_closers_after_last_runner. Qed.
Print Assumptions C12_closers_after_last_runner.

(* EVERY CLOSER EXACTLY ONCE (fixed code).  No closer is ever invoked twice; and once Run has
   returned, the registered closers are exactly the ones that were run, each was invoked exactly
   once and its result collected, and every AddCloser call that returned nil has its closer among
   them. *)
Theorem C12_every_closer_once : forall grace bs cls es s,
  run_c Fixed (new_cm grace bs cls) es = Some s ->
  (forall p, In p (c_procs s) -> c_starts p <= 1) /\
  (forall errs, c_pc s = CDone errs ->
     closers s = map c_cl (c_procs s) /\
     (forall p, In p (c_procs s) -> c_st p = CColl /\ c_starts p = 1) /\
     (forall a idx, nth_error (addcl s) a = Some (ACAccepted idx) ->
        exists p, nth_error (c_procs s) idx = Some p /\ c_st p = CColl /\ c_starts p = 1)).
Proof. exact cm_every_closer_once. Qed.
Print Assumptions C12_every_closer_once.

(* ... and the code before the fix: AddCloser passes its test, Run shuts down and returns,
   AddCloser appends and returns nil.  The closer is registered, has no goroutine and never will. *)
Theorem C12_every_closer_once_refuted :
  exists s errs, run_c Original (new_cm None [Free None] []) addcloser_race = Some s /\
    c_pc s = CDone errs /\ nth_error (addcl s) 0 = Some (ACAccepted 0) /\
    closers s = [User (Some 7%Z)] /\ c_procs s = [] /\ step_c Original s CClosing = None.
Proof. exact cm_every_closer_once_refuted. Qed.
Print Assumptions C12_every_closer_once_refuted.

(* RUN AND CLOSE WAIT FOR THE CLOSERS.  When Run has returned every closer's result has been
   collected; a Close call that has returned did so either on a manager that never ran (no
   closer goroutine exists) or after Run returned, hence after every closer finished. *)
Theorem C12_close_waits_for_closers : forall v grace bs cls es s,
  run_c v (new_cm grace bs cls) es = Some s ->
  (forall errs, c_pc s = CDone errs -> c_all CColl (c_procs s)) /\
  (forall c e, nth_error (closes s) c = Some (KRet e) ->
     (c_pc s = CIdle /\ c_procs s = []) \/
     (exists errs, c_pc s = CDone errs /\ c_all CColl (c_procs s))).
Proof. exact cm_close_waits_for_closers. Qed.
Print Assumptions C12_close_waits_for_closers.

(* SAME ERROR.  Every Close call that has returned returned retErr; when Run has returned errs,
   retErr is errs, and errs is - as a multiset - the runners' non-nil, non-Canceled results
   together with the closers' non-nil results; on a manager whose Run has not returned retErr is
   nil. *)
Theorem C12_close_same_error : forall v grace bs cls es s,
  run_c v (new_cm grace bs cls) es = Some s ->
  (forall c e, nth_error (closes s) c = Some (KRet e) -> e = reterr s) /\
  (forall errs, c_pc s = CDone errs ->
     reterr s = errs /\
     Permutation errs (flat_map sent (r_procs (inner s)) ++
                       flat_map (fun p => olist (cl_result (c_cl p))) (c_procs s))) /\
  ((forall errs, c_pc s <> CDone errs) -> reterr s = []).
Proof. exact cm_close_same_error. Qed.
Print Assumptions C12_close_same_error.

(* FATAL IFF THE CLOSERS OUTLAST THE GRACE PERIOD.  The fatal action is called at most once, and
   only after the grace timer was delivered (C12_grace_elapsed says when that can happen); without
   a grace period never.  Once the fatal
   closer has made its choice and it was not a tie (its select never ran with both the timer and
   closeFatalShutdown ready), the fatal action was called exactly if the timer was delivered while
   closeFatalShutdown was still open ([fired_early]; closeFatalShutdown is closed when one result
   is outstanding, i.e. right after the last non-fatal closer's result was collected). *)
Theorem C12_fatal_iff_outlast : forall v grace bs cls es s,
  run_c v (new_cm grace bs cls) es = Some s ->
  fatal_count s <= 1 /\
  (fatal_count s = 1 -> timer_fired s = true) /\
  (decidedb (fatal_state (c_procs s)) = true -> tie s = false ->
     (fatal_count s = 1 <-> fired_early s = true)) /\
  (grace = None -> fatal_count s = 0) /\
  (forall s', step_c v s CFire = Some s' -> fired_early s' = negb (fch_closed s)).
Proof. exact cm_fatal_iff_outlast. Qed.
Print Assumptions C12_fatal_iff_outlast.

(* WHEN THE GRACE PERIOD HAS ELAPSED.  [new_cm (Some d)] = a manager created with a grace period of
   d nanoseconds, ANY integer.  The grace timer is created when the fatal closer starts ([elapsed]
   is 0 then and grows with the clock, never negative).  The timer is delivered only on a manager
   created with a grace period, and only once the clock has advanced by at least that much since;
   from then on it can be delivered for as long as the fatal closer waits - in particular at
   once for 0 and for negative values: those are grace periods that every closer which does not
   return at once outlasts, not "no grace period". *)
Theorem C12_grace_elapsed : forall v grace bs cls es s,
  run_c v (new_cm grace bs cls) es = Some s ->
  (0 <= elapsed s)%Z /\
  (forall s', step_c v s CFire = Some s' -> exists d, grace = Some d /\ (d <= elapsed s)%Z) /\
  (forall d j, grace = Some d -> find_fatal_running (c_procs s) 0 = Some j ->
     timer_fired s = false -> (d <= elapsed s)%Z -> exists s', step_c v s CFire = Some s') /\
  (forall d j, grace = Some d -> (d <= 0)%Z -> find_fatal_running (c_procs s) 0 = Some j ->
     timer_fired s = false -> exists s', step_c v s CFire = Some s').
Proof. exact cm_grace_elapsed. Qed.
Print Assumptions C12_grace_elapsed.

(* CLOSE BEFORE RUN.  On a manager that was never started Close returns nil without waiting for
   anything; and from then on nothing ever runs: along every continuation no runner and no closer
   goroutine exists, every Close returns nil, and every Run call is refused. *)
Theorem C12_close_before_run : forall v grace bs cls es s,
  run_c v (new_cm grace bs cls) es = Some s ->
  (c_running s = false ->
     exists s', run_c v s [CCloseBegin; CCloseStep (length (closes s)); CCloseStep (length (closes s))]
                = Some s' /\
                nth_error (closes s') (length (closes s)) = Some (KRet []) /\
                c_stopped s' = true /\ c_pc s' = CIdle /\ c_running s' = true) /\
  (c_pc s = CIdle -> c_running s = true ->
     forall es' s', run_c v s es' = Some s' ->
       c_pc s' = CIdle /\ c_procs s' = [] /\ r_procs (inner s') = [] /\
       (forall c e, nth_error (closes s') c = Some (KRet e) -> e = []) /\
       exists s'', step_c v s' CRunCas = Some s'' /\ run_rejected s'' = S (run_rejected s') /\
                   c_pc s'' = CIdle).
Proof. exact cm_close_before_run. Qed.
Print Assumptions C12_close_before_run.

(* MANAGERS ASSEMBLED THROUGH RunnerCloserManager.Add.  After the start (Run or Close has been
   called) Add is refused and changes nothing else ... *)
Theorem C12_closer_add_after_start_refused : forall v grace bs cls es s b,
  run_c v (new_cm grace bs cls) es = Some s -> c_running s = true ->
  step_c v s (CAddCheck b) = Some (w_cadds s (cadds s ++ [CARefused])).
Proof. exact cm_add_after_start_refused. Qed.
Print Assumptions C12_closer_add_after_start_refused.

(* ... before it, Add goes through: the runner is appended to the inner manager's slice and the
   call returns nil (so, by C12_rejects_late_additions through C12_inner_is_runner_manager, Run
   starts it and waits for it like a constructor runner). *)
Theorem C12_closer_add_before_start_accepted : forall v grace bs cls es s b,
  run_c v (new_cm grace bs cls) es = Some s -> c_running s = false ->
  exists s1 s2, step_c v s (CAddCheck b) = Some s1 /\
                step_c v s1 (CAddAppend (length (cadds s))) = Some s2 /\
                r_runners (inner s2) = r_runners (inner s) ++ [b] /\
                nth_error (r_adds (inner s2)) (length (r_adds (inner s))) = Some (AAccepted b).
Proof. exact cm_add_before_start_accepted. Qed.
Print Assumptions C12_closer_add_before_start_accepted.

(* CLOSE REACHES THE RUNNERS (fixed code), however the manager was assembled - constructor, Add,
   or both - along EVERY schedule: whenever runner goroutines exist one of them is the
   close-runner, and while it runs a closed closeCh (= Close was called) enables its return, whose
   collection cancels the context of all the others (C12_cancel_on_first_return). *)
Theorem C12_close_reaches_runners : forall grace bs cls es s,
  run_c Fixed (new_cm grace bs cls) es = Some s ->
  r_procs (inner s) <> [] ->
  exists i p, nth_error (r_procs (inner s)) i = Some p /\ p_beh p = CloseRunner /\
    (p_st p = Running -> r_closech (inner s) = true ->
       exists s', step_c Fixed s (CInner (RRunnerReturn i)) = Some s').
Proof. exact cm_close_reaches_runners. Qed.
Print Assumptions C12_close_reaches_runners.

(* ... and the code before the third fix - both the original tree and the tree with the first two
   fixes only ([run_c_gen Fixed Original]): Run decided from an unlocked read of len(mngr.runners)
   whether to add the close-runner.  Add passes its tests on an empty manager, Run reads 0, Add
   appends and returns nil, the inner manager starts: one runner waiting for its context, Close
   called, no close-runner - the runner cannot return and Close stays blocked. *)
Theorem C12_close_reaches_runners_refuted :
  (exists s, run_c Original (new_cm None [] []) add_watcher_race = Some s /\
             close_cannot_stop s (step_c Original)) /\
  (exists s, run_c_gen Fixed Original (new_cm None [] []) add_watcher_race = Some s /\
             close_cannot_stop s (step_c_gen Fixed Original)).
Proof. exact cm_close_reaches_runners_refuted. Qed.
Print Assumptions C12_close_reaches_runners_refuted.

(* NO WEDGE - the liveness half of "Run returns once all runners have returned".  [candidates_r s]
   (Check.v) lists everything that happens on its own in a bare manager: the creation of the
   goroutines, the return of every runner whose condition holds (context cancelled), the
   collection of every ready result, Run's return, pending locked appends of Add.  In EVERY
   reachable state of the fixed code in which none of them is enabled, the manager was never
   started, or Run has returned, or some runner is still running that returns only when its user
   says so or waits for a cancellation that has not happened.  So Run never waits for anything but
   a user's runner. *)
Theorem C12_run_no_wedge : forall bs es s,
  run_r Fixed (new_rm bs) es = Some s -> quiet_r Fixed s -> explained_r s.
Proof. exact rm_no_wedge. Qed.
Print Assumptions C12_run_no_wedge.

(* ... on the code before the second fix the schedule [add_race] ends quiescent, Run not returned,
   waiting for no runner. *)
Theorem C12_run_no_wedge_refuted :
  exists s, run_r Original (new_rm [Free None]) add_race = Some s /\
            quietb_r Original s = true /\ explainedb_r s = false.
Proof. exact rm_no_wedge_refuted. Qed.
Print Assumptions C12_run_no_wedge_refuted.

(* NO WEDGE, closer manager - the liveness half of "Run and every Close call return once all
   closers finished".  [candidates s] lists everything that happens on its own: Run's set-up
   steps, the inner manager's steps and due runner returns, the start of shutdown, closer
   goroutines starting, the fatal closer's select when a branch is ready, the closing of
   closeFatalShutdown, the collection of closer results, Run's return, every step of every Close
   call whose condition holds, pending locked appends.  In EVERY reachable state of the fixed code
   in which none of them is enabled: either Run was never started (or was prevented by Close) and
   every Close call has returned; or Run has returned and every Close call has returned; or the
   inner manager waits for a user's runner; or shutdown waits for a user's closer that has not
   returned.  In particular the fatal closer alone never holds up shutdown, and no Close call
   stays blocked after Run returned. *)
Theorem C12_no_wedge : forall g bs cls es s,
  run_c Fixed (new_cm g bs cls) es = Some s -> quiet_c Fixed s -> explained_c s.
Proof. exact cm_no_wedge. Qed.
Print Assumptions C12_no_wedge.

(* ... on the code before the fixes RunnerCloserManager.Add racing with the start of Run leaves Run
   stuck in the inner collection loop: quiescent, not returned, waiting for nobody. *)
Theorem C12_no_wedge_refuted :
  exists s, run_c Original (new_cm None [Free None] [None]) closer_add_race = Some s /\
            quietb_c Original s = true /\ explainedb_c s = false /\ c_pc s = CWaitInner.
Proof. exact cm_no_wedge_refuted. Qed.
Print Assumptions C12_no_wedge_refuted.

(* TERMINATION.  [rm_measure] / [cm_measure] (Check.v) are natural numbers computed from a state:
   2 per running runner and 1 per ready result plus the goroutine creation and Run's return; 3 per
   closer goroutine not yet started, 2 per running one, 1 per uncollected result, the closing of
   closeFatalShutdown, Run's return; 2 and 1 for a Close call before / after its second
   compare-and-swap; 4 resp. 2 per pending locked append.  EVERY step that a manager takes on its
   own in ANY reachable state strictly decreases them: left to itself a manager comes to rest
   after at most that many steps (bare manager: both variants; closer manager: fixed code). *)
Theorem C12_run_terminates : forall v bs es s e s',
  run_r v (new_rm bs) es = Some s -> In e (candidates_r s) -> step_r v s e = Some s' ->
  rm_measure s' < rm_measure s.
Proof. exact rm_measure_decreases. Qed.
Print Assumptions C12_run_terminates.

Theorem C12_shutdown_terminates : forall g bs cls es s e s',
  run_c Fixed (new_cm g bs cls) es = Some s -> In e (candidates s) ->
  step_c Fixed s e = Some s' -> cm_measure s' < cm_measure s.
Proof. exact cm_measure_decreases. Qed.
Print Assumptions C12_shutdown_terminates.

(* ... so a run consisting of own steps only has at most [cm_measure] of them. *)
Theorem C12_own_steps_bounded : forall g bs cls es s n s',
  run_c Fixed (new_cm g bs cls) es = Some s -> own_run_c s n s' ->
  n + cm_measure s' <= cm_measure s.
Proof. exact cm_own_steps_bounded. Qed.
Print Assumptions C12_own_steps_bounded.

(* RUN AND CLOSE RETURN ONCE THE USER'S RUNNERS AND CLOSERS HAVE.  [settled Fixed s] is what the
   correspondence's model executor computes after every script action: rounds of "try every
   candidate once", at most [S (cm_measure s)] of them.  From EVERY reachable state it ends in a
   quiescent state, and that state is explained: Run and all Close calls have returned (or Run was
   never started), or a user's runner or closer is still outstanding. *)
Theorem C12_settles_explained : forall g bs cls es s,
  run_c Fixed (new_cm g bs cls) es = Some s ->
  quiet_c Fixed (settled Fixed s) /\ explained_c (settled Fixed s).
Proof. exact cm_settles_explained. Qed.
Print Assumptions C12_settles_explained.

Theorem C12_run_settles : forall v bs es s,
  run_r v (new_rm bs) es = Some s -> quiet_r v (settled_r v s).
Proof. exact rm_settle_quiet. Qed.
Print Assumptions C12_run_settles.

(* The boolean forms of "quiescent" and "explained" that the correspondence evaluates on the final
   model state of every scripted case decide the predicates of the two theorems above. *)
Theorem C12_quiet_explained_sound : forall v s x,
  (quietb_c v s = true <-> quiet_c v s) /\ (explainedb_c s = true <-> explained_c s) /\
  (quietb_r v x = true <-> quiet_r v x) /\ (explainedb_r x = true <-> explained_r x).
Proof.
  exact (fun v s x => conj (quietb_c_spec v s) (conj (explainedb_c_spec s)
                        (conj (quietb_r_spec v x) (explainedb_r_spec x)))).
Qed.
Print Assumptions C12_quiet_explained_sound.

(* The boolean oracle evaluated on the implementation's stamped trace decides the trace
   specification of Spec.v; multiset equality of error lists is decided by [msetb]. *)
Theorem C12_trace_oracle_sound : forall g t, trace_oracle g t = true <-> trace_spec g t.
Proof. exact trace_oracle_sound. Qed.
Print Assumptions C12_trace_oracle_sound.

Theorem C12_msetb_sound : forall a b, msetb a b = true <-> Permutation a b.
Proof. exact msetb_spec. Qed.
Print Assumptions C12_msetb_sound.

Theorem C12_oracle_sound : forall c,
  oracle c = true <->
  match c with
  | CMgr _ _ _ _ t | CPlain _ _ t => trace_spec (cfg_of c) t
  | CStress _ _ bad => stress_spec bad
  end.
Proof. exact oracle_sound. Qed.
Print Assumptions C12_oracle_sound.
