(* C10 — events/batcher: last value per key once per quiet interval; departures never wedge it;
   Close is clean. Statements only; every proof is [exact <lemma of C10/Proofs_*.v>].

   The model (C10/Model.v) is an event system: a STATE of the batcher (subscribers with their
   50-slot buffers and forwarder goroutines, the lock, the timer queue, the Close call in
   progress) and EVENTS — API calls, clock advances, consumer reads, context cancellations, and the
   internal steps of the batcher's own goroutines, split exactly where the Go code takes the lock
   or blocks. [reachable vr iv s]: s is reached from the initial state by SOME sequence of events,
   in any order and of any length (vr = Original: the code before fix C10-batcher-wedge, Fixed: the
   current code; iv = the interval). So "forall s, reachable ... s -> ..." = for every schedule. *)
From Kit Require Import C10.Model C10.Spec C10.Check.
From Kit Require C10.Proofs_debounce C10.Proofs_seq C10.Proofs_wedge C10.Proofs_oracle C10.Proofs_e2e.
Import Proofs_seq Proofs_wedge.

(* ---- debounce ------------------------------------------------------------------------- *)

(* Every value handed to fan-out is the value of a recorded Batch call (index id in the history of
   calls), is handed over NOT BEFORE one interval after that call, and no later Batch call for the
   same key happened before the hand-over: it was the most recent value of its key. *)
Theorem C10_debounce : forall vr iv s, reachable vr iv s ->
  forall id tp, In (id, tp) (fired s) ->
    exists k v t, nth_error (hist s) id = Some (k, v, t) /\ (t + iv <= tp)%Z /\ (tp <= now s)%Z /\
      forall id' v' t', (id < id')%nat -> nth_error (hist s) id' = Some (k, v', t') -> (tp <= t')%Z.
Proof. exact Proofs_debounce.debounce_fired. Qed.
Print Assumptions C10_debounce.

(* Earlier values inside the interval are suppressed: a Batch call followed strictly inside its
   interval by another Batch of the same key is never delivered. *)
Theorem C10_debounce_suppressed : forall vr iv s, reachable vr iv s ->
  forall id id' k v v' t t', (id < id')%nat ->
    nth_error (hist s) id = Some (k, v, t) -> nth_error (hist s) id' = Some (k, v', t') ->
    (t' < t + iv)%Z -> ~ In id (map fst (fired s)).
Proof. exact Proofs_debounce.debounce_suppressed. Qed.
Print Assumptions C10_debounce_suppressed.

(* Exactly once: no Batch call is handed to fan-out twice. *)
Theorem C10_debounce_once : forall vr iv s, reachable vr iv s -> NoDup (map fst (fired s)).
Proof. exact Proofs_debounce.debounce_once. Qed.
Print Assumptions C10_debounce_once.

(* Nothing is lost: when the batcher is at rest (no internal step possible), the lock is free and
   the queue has not been shut down by Close, the most recent Batch call of every key whose
   interval has elapsed HAS been handed to fan-out. (A Batch exactly at the due instant of its
   predecessor simply replaces it or not depending on which event comes first in the schedule.) *)
Theorem C10_debounce_delivered : forall vr iv s, reachable vr iv s -> stuck vr iv s ->
  lock s = Free -> loop_dead s = false ->
  forall id k v t, nth_error (hist s) id = Some (k, v, t) ->
    (forall id' v' t', (id < id')%nat -> nth_error (hist s) id' <> Some (k, v', t')) ->
    (t + iv <= now s)%Z -> In id (map fst (fired s)).
Proof. exact Proofs_debounce.debounce_delivered. Qed.
Print Assumptions C10_debounce_delivered.

(* What is fanned out to the subscribers is exactly the sequence of values handed over by the
   queue, in that order (plus, at most, the one value whose fan-out is waiting for the lock). *)
Theorem C10_fanout_is_fired : forall vr iv s, reachable vr iv s ->
  map (fun f => match nth_error (hist s) (fst f) with Some h => snd (fst h) | None => 0%Z end)
      (fired s)
  = fanout s ++ (match proc s, lock s with PCall v, Free => [v] | _, _ => [] end).
Proof. exact Proofs_debounce.fanout_is_fired. Qed.
Print Assumptions C10_fanout_is_fired.

(* ---- same sequence -------------------------------------------------------------------- *)

(* For EVERY subscriber, at every moment: what it has received, followed by the value its
   forwarder holds, followed by its buffer ([pipeline]), is a subsequence of the values fanned out
   since it subscribed ([offered s i] = the fan-out sequence as far as execute has got to
   subscriber i) — so all subscribers see the same order and nothing twice; and as long as it is
   registered and nothing was dropped for it, it is EXACTLY that segment: no hole, no duplicate. *)
Theorem C10_same_sequence : forall vr iv s, reachable vr iv s ->
  forall i b, nth_error (subs s) i = Some b ->
    (start b <= length (offered s i))%nat /\
    sublist (pipeline b) (skipn (start b) (offered s i)) /\
    (registered b = true -> gap b = false -> pipeline b = skipn (start b) (offered s i)).
Proof. exact Proofs_seq.same_sequence. Qed.
Print Assumptions C10_same_sequence.

(* A subscriber that stays subscribed (its Subscribe was accepted, its context has not ended, the
   batcher is not closed) has every value fanned out since its subscription exactly once, in
   fan-out order, in its pipeline. *)
Theorem C10_staying_subscriber : forall vr iv s, reachable vr iv s ->
  forall i b, nth_error (subs s) i = Some b ->
    accepted b = true -> ctx_done b = false -> closed s = false ->
    pipeline b = skipn (start b) (offered s i).
Proof. exact Proofs_seq.staying_exact. Qed.
Print Assumptions C10_staying_subscriber.

(* Whatever any subscriber (staying or not) has received is in fan-out order. *)
Theorem C10_received_in_fanout_order : forall vr iv s, reachable vr iv s ->
  forall i b, nth_error (subs s) i = Some b -> sublist (received b) (fanout s).
Proof. exact Proofs_seq.received_sublist_fanout. Qed.
Print Assumptions C10_received_in_fanout_order.

(* ---- Close ---------------------------------------------------------------------------- *)

(* Close may be called any number of times, from any goroutines, overlapping or one after the other.
   [any_returned s]: SOME Close call — the first one or any later one — has returned. Once that is
   so: the batcher is closed, the queue loop is gone, nothing is in progress, every forwarder has
   exited and deregistered, and the channel of every accepted subscription has been closed. (No
   Close call returns early because another one is "already closing".) *)
Theorem C10_close : forall vr iv s,
  reachable vr iv s -> any_returned s ->
  closed s = true /\ loop_dead s = true /\ proc s = PIdle /\ lock s = Free /\
  forall b, In b (subs s) ->
    fwd b = Exited /\ registered b = false /\ (accepted b = true -> user_closed b = true).
Proof. exact Proofs_wedge.close_clean. Qed.
Print Assumptions C10_close.

(* ... and nothing more is sent: after a Close call has returned, NO continuation (further Batch,
   Subscribe and Close calls, clock advances, reads, cancellations, in any order) fans anything out
   or makes any consumer receive anything. *)
Theorem C10_close_nothing_more : forall vr iv es s s',
  reachable vr iv s -> any_returned s -> run vr iv s es = Some s' ->
  any_returned s' /\ fanout s' = fanout s /\ forall i, recv_of s' i = recv_of s i.
Proof. exact Proofs_wedge.close_frozen. Qed.
Print Assumptions C10_close_nothing_more.

(* A Subscribe call that takes the lock after ANY Close call has returned is silently dropped:
   nothing is registered, no forwarder runs, its channel is not closed — and by the theorem above
   the state stays frozen, so it is never closed later either. A channel is thus either closed by
   the time Close returns or never: "open at the return, closed a little later" cannot happen. *)
Theorem C10_subscribe_after_close_dropped : forall vr iv s j s',
  reachable vr iv s -> any_returned s -> step vr iv s (SubscribeLocked j) = Some s' ->
  exists b, subs s' = subs s ++ [b] /\ accepted b = false /\ registered b = false /\
            fwd b = Exited /\ user_closed b = false /\ any_returned s'.
Proof. exact Proofs_wedge.subscribe_after_close_dropped. Qed.
Print Assumptions C10_subscribe_after_close_dropped.

(* ---- degenerate subscriptions: a context that has already ended ----------------------------- *)

(* Subscribe on an OPEN batcher always registers the subscriber and starts its forwarder — also when
   the context passed has already ended (c = true), or ended while the call was still waiting for
   the lock: there is no "nothing would ever be forwarded" fast path. *)
Theorem C10_subscribe_open_registers : forall vr iv s j s',
  step vr iv s (SubscribeLocked j) = Some s' -> closed s = false ->
  exists id p c b, nth_error (pend_subs s) j = Some (id, (p, c)) /\ subs s' = subs s ++ [b] /\
    accepted b = true /\ registered b = true /\ fwd b = Idle /\ ctx_done b = c /\
    user_closed b = false.
Proof. exact Proofs_wedge.subscribe_open_registers. Qed.
Print Assumptions C10_subscribe_open_registers.

(* ... and whenever the batcher has come to rest with the lock free, the channel of EVERY accepted
   subscription whose context has ended — before, during or after its Subscribe call — has been
   closed, with or without Close, and its forwarder is gone. *)
Theorem C10_departed_channel_closed : forall vr iv s,
  reachable vr iv s -> stuck vr iv s -> lock s = Free ->
  forall b, In b (subs s) -> accepted b = true -> ctx_done b = true ->
    fwd b = Exited /\ user_closed b = true /\ registered b = false.
Proof. exact Proofs_wedge.departed_closed. Qed.
Print Assumptions C10_departed_channel_closed.

(* ---- departures never wedge it ---------------------------------------------------------- *)

(* Current code. In every reachable state in which none of the batcher's own steps is possible,
   EITHER nothing is pending (lock free, no callback running, no Subscribe call and none of the
   Close calls — first or later — waiting: every call has returned) OR a delivery is blocked on a subscriber that is still subscribed,
   whose context has NOT ended, whose 50-slot buffer is full and whose consumer is not receiving —
   back-pressure from a live subscriber. A subscriber whose context has ended is never the reason. *)
Theorem C10_no_wedge : forall iv s,
  reachable Fixed iv s -> stuck Fixed iv s -> at_rest s \/ blocked_on_live s.
Proof. exact Proofs_wedge.no_wedge. Qed.
Print Assumptions C10_no_wedge.

(* ... and such a state IS reached without help from the environment: every internal step strictly
   decreases a natural-number measure of the state, so internal activity stops after at most
   [measure s] steps (no livelock). *)
Theorem C10_internal_terminates : forall vr iv s e s',
  internal e = true -> step vr iv s e = Some s' -> (measure s' < measure s)%nat.
Proof. exact Proofs_wedge.internal_decreases. Qed.
Print Assumptions C10_internal_terminates.

(* Put together: from EVERY reachable state of the current code, the batcher's own steps alone
   (no help from callers, clock, consumers or contexts) lead to a state that is at rest — every
   Subscribe / Close call has returned, the lock is free — or held up by a LIVE subscriber that
   does not read. [quiesce] runs internal steps until none is enabled. *)
Theorem C10_comes_to_rest : forall iv s, reachable Fixed iv s ->
  reachable Fixed iv (quiesce Fixed iv s) /\
  (at_rest (quiesce Fixed iv s) \/ blocked_on_live (quiesce Fixed iv s)).
Proof. exact Proofs_wedge.comes_to_rest. Qed.
Print Assumptions C10_comes_to_rest.

(* The code before the fix: there is a schedule (a subscriber that never reads, 52 values so that
   the 52nd delivery blocks on its full buffer while holding the lock, the subscriber's context
   ends, Close is called) after which every subscriber's context has ended and yet — whatever
   happens next, for ever — Close has not returned and the lock is never released. *)
Theorem C10_wedge_refuted :
  exists es s, run Original 2%Z init es = Some s /\ reachable Original 2%Z s /\
    (forall b, In b (subs s) -> ctx_done b = true) /\
    forall es' s', run Original 2%Z s es' = Some s' -> cl s' = CWaitLoop /\ lock s' <> Free.
Proof. exact Proofs_wedge.wedge_refuted. Qed.
Print Assumptions C10_wedge_refuted.

(* ---- end to end: from the Batch call to the consumer ------------------------------------- *)

(* Whenever the batcher is at rest (none of its own steps possible) with the lock free, a subscriber
   that stayed (accepted, context alive, batcher open) and whose consumer is receiving has nothing
   left in its buffer or with its forwarder, and has RECEIVED exactly the values of the Batch calls
   the queue has handed over since it subscribed — each once, in hand-over order. *)
Theorem C10_at_rest_received : forall vr iv s,
  reachable vr iv s -> stuck vr iv s -> lock s = Free ->
  forall i b, nth_error (subs s) i = Some b -> Proofs_e2e.staying_reader s b ->
    fwd b = Idle /\ buf b = [] /\ received b = skipn (start b) (fired_vals s).
Proof. exact Proofs_e2e.at_rest_received. Qed.
Print Assumptions C10_at_rest_received.

(* Nothing is lost, also after back-pressure: at rest with the lock free and the queue alive, the
   most recent Batch call of every key whose interval has elapsed HAS been handed over (not before
   its interval had elapsed) and every staying, reading subscriber that was subscribed by then has
   received its value. *)
Theorem C10_end_to_end : forall vr iv s,
  reachable vr iv s -> stuck vr iv s -> lock s = Free -> loop_dead s = false ->
  forall id k v t, nth_error (hist s) id = Some (k, v, t) ->
    (forall id' v' t', (id < id')%nat -> nth_error (hist s) id' <> Some (k, v', t')) ->
    (t + iv <= now s)%Z ->
    exists n tp, nth_error (fired s) n = Some (id, tp) /\ (t + iv <= tp)%Z /\
      forall i b, nth_error (subs s) i = Some b -> Proofs_e2e.staying_reader s b ->
        (start b <= n)%nat -> In v (received b).
Proof. exact Proofs_e2e.end_to_end. Qed.
Print Assumptions C10_end_to_end.

(* The boolean form of the first theorem, which the correspondence evaluates on the model state
   after every script step of every case, is indeed always true. *)
Theorem C10_e2e_okb_holds : forall vr iv s,
  reachable vr iv s -> stuck vr iv s -> lock s = Free -> e2e_okb s = true.
Proof. exact Proofs_e2e.e2e_okb_holds. Qed.
Print Assumptions C10_e2e_okb_holds.

(* Once ANY Close call has returned, every subscriber channel is in its FINAL state: closed (the
   subscription was accepted) or open for ever (silently dropped) — and no continuation whatsoever
   changes the state of any channel, existing or subscribed later. "Open when Close returned,
   closed a little later" is impossible. This is the clause the harness's race and mass families
   sample (channel state at the instant Close returns, and again at rest). *)
Theorem C10_close_state_final : forall vr iv s,
  reachable vr iv s -> any_returned s ->
  (forall b, In b (subs s) ->
     (accepted b = true /\ user_closed b = true) \/ (accepted b = false /\ user_closed b = false)) /\
  forall es s', run vr iv s es = Some s' ->
    any_returned s' /\ forall i, Proofs_e2e.uclosed_of s' i = Proofs_e2e.uclosed_of s i.
Proof. exact Proofs_e2e.close_state_final. Qed.
Print Assumptions C10_close_state_final.

(* "... never blocks later Batch calls": a Batch call (and the issuing of a Subscribe call) is
   possible in EVERY state — Batch takes no batcher lock. *)
Theorem C10_calls_never_blocked : forall vr iv s,
  (forall k v, exists s', step vr iv s (Batch k v) = Some s') /\
  (forall id p c, exists s', step vr iv s (SubscribeCall id p c) = Some s').
Proof. exact Proofs_e2e.calls_never_blocked. Qed.
Print Assumptions C10_calls_never_blocked.

(* ---- the oracle applied to the implementation's observations decides the spec ------------- *)

Theorem C10_oracle_sound : forall iv sc ob, oracle iv sc ob = true <-> spec iv sc ob.
Proof. exact Proofs_oracle.oracle_sound. Qed.
Print Assumptions C10_oracle_sound.
