(* C03 — crypto: every algorithm round-trips, interoperates with independent implementations,
   rejects tampering, and wrong-kind / wrong-size inputs yield the package's sentinel errors
   and no output.  Statements only; every proof is [exact <lemma of coq/C03/Proofs*.v>].

   Reading guide.  [E key] / [D key] are the forward / inverse block cipher under [key];
   [res] is Ok / Err sentinel / Panic; [Fixed] = the current tree, [Original] = the tree before
   the fix named beside the theorem.  The scheme-level theorems hold for ANY block cipher with
   D key (E key b) = b (a premise, never an axiom); for AES itself that fact is PROVED
   (C03_aes_decrypt_encrypt), so the theorems about the package's entry points carry no
   cryptographic premise at all. *)
From Kit Require Import C03.Model C03.Spec C03.Check C03.KAT C03.Proofs_pad C03.Proofs_schemes
  C03.Proofs C03.Proofs_AES C03.Proofs_roundtrip C03.Proofs_dispatch C03.Proofs_total C03.Proofs_oracle.

(* ---- crypto/padding ---------------------------------------------------------------- *)

(* PKCS#7: for every buffer and every legal block size, unpadding the padded buffer gives the
   buffer back. *)
Theorem C03_pkcs7_roundtrip : forall (b : list N) (size : Z), (1 < size < 256)%Z ->
  exists p, pad_pkcs7 b size = Ok p /\ unpad_pkcs7 p size = Ok b.
Proof. exact pkcs7_roundtrip. Qed.
Print Assumptions C03_pkcs7_roundtrip.

(* Whatever unpadding accepts is the result followed by k bytes of value k with 1 <= k <= size
   and a whole number of blocks (or the empty buffer, which the code returns unchanged). *)
Theorem C03_pkcs7_unpad_sound : forall (b b' : list N) (size : Z),
  unpad_pkcs7 b size = Ok b' ->
  (1 < size < 256)%Z /\
  ((b = [] /\ b' = []) \/
   exists k, 1 <= k <= Z.to_nat size /\ b = b' ++ repeat (N.of_nat k) k /\
             List.length b mod Z.to_nat size = 0).
Proof. exact pkcs7_unpad_sound. Qed.
Print Assumptions C03_pkcs7_unpad_sound.

(* ---- CBC ----------------------------------------------------------------------------- *)

(* CBC as the code drives it, without padding (the NOPAD names): any block cipher with
   D key (E key b) = b on 16-element blocks, any key, any 16-byte IV, any whole-block input. *)
Theorem C03_cbc_roundtrip : forall (E D : list N -> list N -> list N) (key : list N),
  (forall b, List.length b = 16 -> D key (E key b) = b) ->
  (forall b, List.length (E key b) = 16) ->
  forall iv pt, List.length iv = 16 -> List.length pt mod 16 = 0 ->
  exists ct, go_cbc_encrypt E key iv pt = Ok ct /\ go_cbc_decrypt D key iv ct = Ok pt.
Proof. exact cbc_roundtrip. Qed.
Print Assumptions C03_cbc_roundtrip.

(* ... and with PKCS#7 padding, for a plaintext of ANY length. *)
Theorem C03_cbc_pkcs7_roundtrip : forall (E D : list N -> list N -> list N) (key : list N),
  (forall b, List.length b = 16 -> D key (E key b) = b) ->
  (forall b, List.length (E key b) = 16) ->
  forall iv pt, List.length iv = 16 ->
  exists padded ct, pad_pkcs7 pt 16 = Ok padded /\ go_cbc_encrypt E key iv padded = Ok ct /\
    exists out, go_cbc_decrypt D key iv ct = Ok out /\ unpad_pkcs7 out 16 = Ok pt.
Proof. exact cbc_pkcs7_roundtrip. Qed.
Print Assumptions C03_cbc_pkcs7_roundtrip.

(* ---- crypto/aeskw (RFC 3394) --------------------------------------------------------- *)

(* Current tree: WHATEVER Wrap returns, Unwrap (either variant of its length check) turns back
   into the key data - any block cipher with D key (E key b) = b, any key data; no condition on
   the length, because Wrap now refuses empty and partial-block key data. *)
Theorem C03_kw_roundtrip : forall (E D : list N -> list N -> list N) (key : list N),
  (forall b, List.length b = 16 -> D key (E key b) = b) ->
  (forall b, List.length (E key b) = 16) ->
  forall (v : variant) (cek c : list N),
  kw_wrap E Fixed key cek = Ok c -> kw_unwrap D v key c = Ok cek.
Proof. exact kw_roundtrip. Qed.
Print Assumptions C03_kw_roundtrip.

(* ... and Wrap does succeed on every key data of n >= 1 whole 64-bit blocks (both variants of
   Wrap), giving 8 bytes more than it was given. *)
Theorem C03_kw_wrap_succeeds : forall (E D : list N -> list N -> list N) (key : list N),
  (forall b, List.length b = 16 -> D key (E key b) = b) ->
  (forall b, List.length (E key b) = 16) ->
  forall (vw v : variant) (cek : list N), List.length cek mod 8 = 0 -> 8 <= List.length cek ->
  exists c, kw_wrap E vw key cek = Ok c /\ List.length c = List.length cek + 8 /\
            kw_unwrap D v key c = Ok cek.
Proof. exact kw_wrap_succeeds. Qed.
Print Assumptions C03_kw_wrap_succeeds.

(* Before fixes/C03-kw-wrap-empty.patch: the EMPTY key data "wrapped" to the bare 8-byte
   integrity check value, which Unwrap refuses - EncryptSymmetric returned output that
   DecryptSymmetric cannot decrypt. *)
Theorem C03_kw_wrap_empty_refuted :
  exists key c, aeskw_wrap Original key [] = Ok c /\ aeskw_unwrap Fixed key c = Err ErrOther /\
                encrypt_symmetric Original "A128KW" (KOct key) [] [] [] = Ok (c, []) /\
                decrypt_symmetric Fixed Fixed "A128KW" (KOct key) [] [] [] c = Err ErrOther.
Proof. exact kw_wrap_empty_refuted. Qed.
Print Assumptions C03_kw_wrap_empty_refuted.

(* Current tree: whatever Unwrap accepts is a whole number, at least two, of 64-bit blocks. *)
Theorem C03_kw_length_strict : forall (D : list N -> list N -> list N) (key c p : list N),
  kw_unwrap D Fixed key c = Ok p -> List.length c mod 8 = 0 /\ 16 <= List.length c.
Proof. exact kw_length_strict. Qed.
Print Assumptions C03_kw_length_strict.

(* Before fix 11855a3: a valid wrapped key followed by stray bytes unwrapped (RFC 3394 4.1
   vector plus three bytes). *)
Theorem C03_kw_length_refuted :
  exists key c p, List.length c mod 8 <> 0 /\ aeskw_unwrap Original key c = Ok p.
Proof. exact kw_length_refuted. Qed.
Print Assumptions C03_kw_length_refuted.

(* ---- crypto/aescbcaead (RFC 7518 5.2) ------------------------------------------------ *)

(* Open inverts Seal: any block cipher with D key (E key b) = b, any MAC at least as long as
   the tag, any 16-byte nonce, any plaintext and associated data, both variants of Open. *)
Theorem C03_cbchmac_roundtrip : forall (E D : list N -> list N -> list N) (key : list N),
  (forall b, List.length b = 16 -> D key (E key b) = b) ->
  (forall b, List.length (E key b) = 16) ->
  forall (Kok : list N -> bool) (mac : list N -> list N -> list N) (c : cbchmac),
  (forall k m, ch_tag c <= List.length (mac k m)) -> ch_enc_key c = key -> Kok key = true ->
  forall (v : variant) (nonce pt aad : list N), List.length nonce = 16 ->
  exists out, cbchmac_seal E Kok mac c nonce pt aad = Ok out /\
              cbchmac_open D Kok mac v c nonce out aad = Ok pt.
Proof. exact cbchmac_roundtrip. Qed.
Print Assumptions C03_cbchmac_roundtrip.

(* The tag is checked FIRST: a presented tag different from the recomputed one gives the
   authentication error whatever the ciphertext would decrypt or unpad to - no padding oracle,
   no output.  Any cipher, MAC, key. *)
Theorem C03_cbchmac_tag_first : forall (D : list N -> list N -> list N) (Kok : list N -> bool)
    (mac : list N -> list N -> list N) (v : variant) (c : cbchmac) (nonce ctt aad : list N),
  let l := List.length ctt in
  skipn (l - ch_tag c) ctt <> cbchmac_tag mac c aad nonce (firstn (l - ch_tag c) ctt) ->
  cbchmac_open D Kok mac v c nonce ctt aad = Err ErrOther.
Proof. exact cbchmac_tag_first. Qed.
Print Assumptions C03_cbchmac_tag_first.

(* RFC 7518 appendix B.1, B.2, B.3 through EncryptSymmetric: the published E and T. *)
Theorem C03_cbchmac_matches_rfc7518 : rfc7518_b_holds.
Proof. exact rfc7518_b. Qed.
Print Assumptions C03_cbchmac_matches_rfc7518.

(* ---- the AEAD split/join helpers of symmetric.go ------------------------------------- *)

(* For ANY cipher.AEAD whose Open inverts its Seal: decryptSymmetricAEAD inverts
   encryptSymmetricAEAD, and the tag has the AEAD's overhead. *)
Theorem C03_aead_helper_roundtrip : forall (a : aead) (pt nonce aad : list N),
  (forall n p ad, List.length n = ad_nonce_size a ->
     exists out, ad_seal a n p ad = Ok out /\ ad_overhead a <= List.length out /\
                 ad_open a n out ad = Ok p) ->
  List.length nonce = ad_nonce_size a ->
  exists ct tag, encrypt_aead a pt nonce aad = Ok (ct, tag) /\ List.length tag = ad_overhead a /\
                 decrypt_aead a ct nonce tag aad = Ok pt.
Proof. exact aead_helper_roundtrip. Qed.
Print Assumptions C03_aead_helper_roundtrip.

(* Instance AES-GCM (all three key sizes), NO cryptographic premise. *)
Theorem C03_gcm_roundtrip : forall (alg : string) (key nonce aad pt : list N),
  List.length key = expected_key_size alg -> aes_key_ok key = true -> List.length nonce = 12 ->
  exists ct tag, encrypt_gcm alg key nonce aad pt = Ok (ct, tag) /\
                 decrypt_gcm alg key nonce tag aad ct = Ok pt.
Proof. exact gcm_roundtrip. Qed.
Print Assumptions C03_gcm_roundtrip.

(* Instance ChaCha20-Poly1305 (x = false) and XChaCha20-Poly1305 (x = true), no premise. *)
Theorem C03_chacha_roundtrip : forall (x : bool) (key nonce aad pt : list N),
  List.length key = 32 -> List.length nonce = chacha_nonce_size x ->
  exists ct tag, encrypt_chacha x key nonce aad pt = Ok (ct, tag) /\
                 decrypt_chacha x key nonce tag aad ct = Ok pt.
Proof. exact chacha_roundtrip. Qed.
Print Assumptions C03_chacha_roundtrip.

(* ---- round trip at the level of EncryptSymmetric / DecryptSymmetric ------------------ *)

(* AES decryption inverts AES encryption, for the Gallina AES-128/192/256 the model and the
   reference implementations use: every key (of any length), every block of sixteen bytes. *)
Theorem C03_aes_decrypt_encrypt : forall key b : list N,
  List.length b = 16 -> bytes_ok b = true ->
  aes_decrypt_block key (aes_encrypt_block key b) = b.
Proof. exact aes_decrypt_encrypt_block. Qed.
Print Assumptions C03_aes_decrypt_encrypt.

(* Current tree.  For EVERY algorithm name, key object, nonce, associated data and plaintext of
   bytes: whatever EncryptSymmetric returns, DecryptSymmetric (either variant of the two repaired
   length checks) turns back into the plaintext.  NO premise: AES is proved invertible above,
   AES-GCM and (X)ChaCha20-Poly1305 never needed one. *)
Theorem C03_symmetric_roundtrip :
  forall (vkw vopen : variant) (alg : string) (key : keyobj) (nonce aad pt ct tag : list N),
  bytes_ok nonce = true -> bytes_ok pt = true ->
  encrypt_symmetric Fixed alg key nonce aad pt = Ok (ct, tag) ->
  decrypt_symmetric vkw vopen alg key nonce tag aad ct = Ok pt.
Proof. exact symmetric_roundtrip_aes. Qed.
Print Assumptions C03_symmetric_roundtrip.

(* The AES instances of the scheme theorems, premise-free: AES-CBC with (nopad = false) and
   without PKCS#7 as EncryptSymmetric drives it, aeskw.Wrap / Unwrap, the four aescbcaead AEADs. *)
Theorem C03_aes_cbc_roundtrip : forall (alg : string) (nopad : bool) (key iv pt ct tag : list N),
  bytes_ok iv = true -> bytes_ok pt = true ->
  encrypt_cbc alg nopad key iv pt = Ok (ct, tag) -> decrypt_cbc alg nopad key iv ct = Ok pt.
Proof. exact aes_cbc_roundtrip. Qed.
Print Assumptions C03_aes_cbc_roundtrip.

Theorem C03_aeskw_roundtrip : forall (v : variant) (key cek c : list N),
  bytes_ok cek = true -> aeskw_wrap Fixed key cek = Ok c -> aeskw_unwrap v key c = Ok cek.
Proof. exact aeskw_roundtrip_aes. Qed.
Print Assumptions C03_aeskw_roundtrip.

Theorem C03_aescbcaead_roundtrip :
  forall (v : variant) (k : cbchmac_kind) (key nonce pt aad : list N) (c : cbchmac),
  aescbcaead_new k key = Some c -> List.length nonce = 16 ->
  bytes_ok nonce = true -> bytes_ok pt = true ->
  exists out, aescbcaead_seal k c nonce pt aad = Ok out /\ aescbcaead_open v k c nonce out aad = Ok pt.
Proof. exact aescbcaead_roundtrip_aes. Qed.
Print Assumptions C03_aescbcaead_roundtrip.

(* ---- tampering ------------------------------------------------------------------------ *)

(* Structural half, no premise, every AEAD: a nonce or a tag of the wrong length is refused with
   the sentinel before the cipher is consulted. *)
Theorem C03_tamper_rejected_wrong_nonce : forall (a : aead) (ct nonce tag aad pt : list N),
  List.length nonce <> ad_nonce_size a ->
  decrypt_aead a ct nonce tag aad = Err ErrInvalidNonce /\
  encrypt_aead a pt nonce aad = Err ErrInvalidNonce.
Proof. exact aead_helper_wrong_nonce. Qed.
Print Assumptions C03_tamper_rejected_wrong_nonce.

Theorem C03_tamper_rejected_wrong_tag : forall (a : aead) (ct nonce tag aad : list N),
  List.length nonce = ad_nonce_size a -> List.length tag <> ad_overhead a ->
  decrypt_aead a ct nonce tag aad = Err ErrInvalidTag.
Proof. exact aead_helper_wrong_tag. Qed.
Print Assumptions C03_tamper_rejected_wrong_tag.

(* Cryptographic half for the encrypt-then-MAC AEAD.  [tag] is the authentic tag of
   (aad, nonce, ct), as Seal appends it.  Presenting anything different is refused (a) when the
   tag was kept and any of nonce / associated data / ciphertext changed - PROVIDED the MAC does
   not collide on different inputs (explicit premise) - and (b) when only the tag changed
   (no premise).  A changed tag over changed data is a forgery attempt; excluding it is
   unforgeability of HMAC, not a statement about this code. *)
Theorem C03_tamper_rejected : forall (D : list N -> list N -> list N) (Kok : list N -> bool)
    (mac : list N -> list N -> list N) (c : cbchmac),
  (forall a n x a' n' x', (a, n, x) <> (a', n', x') ->
     cbchmac_tag mac c a n x <> cbchmac_tag mac c a' n' x') ->
  forall (v : variant) (nonce aad ct nonce' aad' ct' tag' : list N),
  let tag := cbchmac_tag mac c aad nonce ct in
  List.length tag' = ch_tag c ->
  (nonce', aad', ct', tag') <> (nonce, aad, ct, tag) ->
  tag' = tag \/ (nonce', aad', ct') = (nonce, aad, ct) ->
  cbchmac_open D Kok mac v c nonce' (ct' ++ tag') aad' = Err ErrOther.
Proof. exact (cbchmac_tamper_rejected (fun _ b => b)). Qed.
Print Assumptions C03_tamper_rejected.

(* ---- dispatch totality ----------------------------------------------------------------- *)

(* EncryptSymmetric, EVERY algorithm name (a string), key object, nonce, data: if some input is
   of the wrong kind or size with a sentinel defined for it, the result is an error whose
   sentinel is one of those that apply (ErrKeyTypeMismatch / ErrInvalidNonce /
   ErrInvalidPlaintextLength / ErrUnsupportedAlgorithm); if nothing is wrong the name is one of
   the 19 and the call returns output - except key data that is empty or not whole 64-bit blocks,
   which aeskw refuses with its own error.  An error carries no output by construction. *)
Theorem C03_dispatch_total : forall alg key nonce aad pt,
  let ps := sym_problems false alg key nonce [] pt in
  (ps <> [] -> exists e, encrypt_symmetric Fixed alg key nonce aad pt = Err e /\ In e ps) /\
  (ps = [] -> exists st, sym_std_of alg = Some st /\
      if data_unnamed_problem false (ss_kind st) (List.length pt)
      then encrypt_symmetric Fixed alg key nonce aad pt = Err ErrOther
      else exists out, encrypt_symmetric Fixed alg key nonce aad pt = Ok out).
Proof. exact dispatch_total_encrypt. Qed.
Print Assumptions C03_dispatch_total.

(* DecryptSymmetric on the current tree, likewise (ErrInvalidTag and
   ErrInvalidCiphertextLength join the list); with nothing wrong the primitive runs and the
   call returns a plaintext or an error, never a panic. *)
Theorem C03_dispatch_total_decrypt : forall alg key nonce tag aad ct,
  let ps := sym_problems true alg key nonce tag ct in
  (ps <> [] -> exists e, decrypt_symmetric Fixed Fixed alg key nonce tag aad ct = Err e /\ In e ps) /\
  (ps = [] -> exists st, sym_std_of alg = Some st /\
      if data_unnamed_problem true (ss_kind st) (List.length ct)
      then decrypt_symmetric Fixed Fixed alg key nonce tag aad ct = Err ErrOther
      else decrypt_symmetric Fixed Fixed alg key nonce tag aad ct <> Panic).
Proof. exact dispatch_total_decrypt. Qed.
Print Assumptions C03_dispatch_total_decrypt.

(* A name outside the 19 is ErrUnsupportedAlgorithm; the 19 names of
   SupportedSymmetricAlgorithms are exactly those the standards table knows. *)
Theorem C03_unknown_name_unsupported : forall alg key nonce aad pt,
  sym_std_of alg = None -> key_is_oct key = true ->
  encrypt_symmetric Fixed alg key nonce aad pt = Err ErrUnsupportedAlgorithm.
Proof. exact unknown_name_unsupported. Qed.
Print Assumptions C03_unknown_name_unsupported.

Theorem C03_supported_symmetric_known : forall alg,
  In alg supported_symmetric <-> sym_std_of alg <> None.
Proof. exact supported_symmetric_known. Qed.
Print Assumptions C03_supported_symmetric_known.

(* SignPrivateKey / VerifyPublicKey / EncryptPublicKey / DecryptPrivateKey on the current tree,
   every name and every key object: unknown name => ErrUnsupportedAlgorithm; key of the wrong
   kind (incl. the wrong curve for ES256/384/512, X25519 for EdDSA, a public key for a private
   operation) => ErrKeyTypeMismatch; otherwise the primitive's outcome. *)
Theorem C03_dispatch_total_sign : forall alg key dlen,
  match lookup alg sig_table with
  | None => sign_private_key Fixed alg key dlen = Err ErrUnsupportedAlgorithm
  | Some g =>
      if negb (sig_key_ok g true key) then sign_private_key Fixed alg key dlen = Err ErrKeyTypeMismatch
      else if sig_fits g key dlen then sign_private_key Fixed alg key dlen = Ok tt
      else sign_private_key Fixed alg key dlen = Err ErrOther
  end.
Proof. exact sign_dispatch_spec. Qed.
Print Assumptions C03_dispatch_total_sign.

Theorem C03_dispatch_total_verify : forall alg key,
  match lookup alg sig_table with
  | None => verify_public_key Fixed alg key = Err ErrUnsupportedAlgorithm
  | Some g =>
      if negb (sig_key_ok g false key) then verify_public_key Fixed alg key = Err ErrKeyTypeMismatch
      else verify_public_key Fixed alg key = Ok tt
  end.
Proof. exact verify_dispatch_spec. Qed.
Print Assumptions C03_dispatch_total_verify.

Theorem C03_dispatch_total_pub_enc : forall alg key ptlen,
  match lookup alg rsa_enc_table with
  | None => encrypt_public_key alg key ptlen = Err ErrUnsupportedAlgorithm
  | Some sc =>
      match rsa_modulus_bytes key with
      | None => encrypt_public_key alg key ptlen = Err ErrKeyTypeMismatch
      | Some k => if rsa_enc_fits sc k ptlen then encrypt_public_key alg key ptlen = Ok tt
                  else encrypt_public_key alg key ptlen = Err ErrOther
      end
  end.
Proof. exact pub_enc_dispatch_spec. Qed.
Print Assumptions C03_dispatch_total_pub_enc.

Theorem C03_dispatch_total_priv_dec : forall alg key genuine,
  match lookup alg rsa_enc_table with
  | None => decrypt_private_key alg key genuine = Err ErrUnsupportedAlgorithm
  | Some _ =>
      match key with
      | KRsaPriv _ => if genuine then decrypt_private_key alg key genuine = Ok tt
                      else decrypt_private_key alg key genuine = Err ErrOther
      | _ => decrypt_private_key alg key genuine = Err ErrKeyTypeMismatch
      end
  end.
Proof. exact priv_dec_dispatch_spec. Qed.
Print Assumptions C03_dispatch_total_priv_dec.

(* ---- ES256 / ES384 / ES512 and the curve of the key ----------------------------------- *)

(* After fixes/C03-es-curve-check.patch: an ES* name signs and verifies only with a key on the
   curve it stands for (RFC 7518 3.4); every other EC key is ErrKeyTypeMismatch. *)
Theorem C03_es_curve_checked : forall (alg : string) (c0 c : curve) (dlen : nat),
  es_curve alg = Some c0 ->
  (sign_private_key Fixed alg (KEcPriv c) dlen = Ok tt <-> c = c0) /\
  (c <> c0 -> sign_private_key Fixed alg (KEcPriv c) dlen = Err ErrKeyTypeMismatch) /\
  (verify_public_key Fixed alg (KEcPub c) = Ok tt <-> c = c0) /\
  (c <> c0 -> verify_public_key Fixed alg (KEcPub c) = Err ErrKeyTypeMismatch /\
              verify_public_key Fixed alg (KEcPriv c) = Err ErrKeyTypeMismatch).
Proof. exact es_curve_checked. Qed.
Print Assumptions C03_es_curve_checked.

(* The code as it stands before that fix: ES256 signs and verifies with a P-384 key. *)
Theorem C03_es_curve_refuted :
  exists alg c c0 dlen, es_curve alg = Some c0 /\ c <> c0 /\
    sign_private_key Original alg (KEcPriv c) dlen = Ok tt /\
    verify_public_key Original alg (KEcPub c) = Ok tt.
Proof. exact es_curve_refuted. Qed.
Print Assumptions C03_es_curve_refuted.

(* ---- the oracle the harness evaluates on the implementation's observations ------------- *)

(* For every recorded case the boolean oracle decides the declarative specification
   ([case_spec] = per entry point: sym_enc_spec, sym_dec_spec, pad_spec, unpad_spec, kw_spec,
   cbchs_spec, pub_enc_spec, priv_dec_spec, sign_spec, verify_spec of C03/Spec.v). *)
Theorem C03_oracle_sound : forall c : case, oracle c = true <-> case_spec c.
Proof. exact oracle_sound. Qed.
Print Assumptions C03_oracle_sound.
