(* C01 — enc/v1: Decrypt inverts Encrypt; the ciphertext follows the published format.
   Statements only; every proof is [exact <lemma of C01/*.v>].

   Vocabulary.  [encrypt_stream] / [decrypt_stream] / [process_segments] / [read_header]:
   the line-by-line model of schemes/enc/v1 (C01/Model.v), over scripted readers (Lib/Reader.v:
   a script is a list of read results — data pieces of any size, zero-length reads, data
   returned together with EOF, failure).  [encrypt_doc] / [spec_header] / [spec_segments] /
   [spec_manifest]: the document the README prescribes (C01/Spec.v, written from the README
   only).  [S] is the segment size and [H] the size of the header scan buffer (both 65536 in
   the code; the theorems hold for every value).  [crypto_ok C]: the algebraic premises on the
   primitives (C01/Premises.v): open after seal gives the plaintext, 16-byte tag, base64
   round trip and alphabet, the MAC is a non-empty byte string. *)
From Kit Require Import C01.Sem C01.Concrete C01.ConcreteOk C01.Proofs_Segments C01.Proofs_Manifest
     C01.Proofs_Header C01.Proofs_Roundtrip C01.ConcreteOk2 C01.Proofs_Concrete C01.Proofs_Oracle
     C01.ModelX C02.ProofsX.

(* The segment loop shared by Encrypt and Decrypt, for EVERY read script that ends in EOF
   (whatever the sizes of the reads, with zero-length reads, with data delivered together
   with EOF): it cuts the data into pieces of S bytes — last one possibly shorter, none for
   empty data —, hands piece i to the segment function with the "last" flag exactly on the
   final piece, and concatenates the results.  The chunking of the source is not visible. *)
Theorem C01_segment_loop_chunking_independent :
  forall (S : nat) (fn : list N -> N -> bool -> option (list N)) (sc : list rd),
    0 < S -> ends_eof sc = true ->
    process_segments S fn sc = run_chunks fn 0%N (chunks S (data_of sc)) [].
Proof. exact process_segments_chunks. Qed.
Print Assumptions C01_segment_loop_chunking_independent.

(* Encrypt, for EVERY read script of the plaintext: with valid options, the file key fk and
   7-byte nonce prefix np it drew and the wrapped key wfk the callback returned, the stream it
   produces is byte for byte the document the README prescribes for that plaintext, and it
   ends cleanly (plaintext of at most S * 2^32 bytes: the 32-bit segment counter). *)
Theorem C01_encrypt_chunking_independent :
  forall (C : crypto) (S H : nat) (o : enc_opts) (fk np wfk : list N) (sc : list rd) (m : manifest),
    0 < S -> ends_eof sc = true -> length np = 7 ->
    spec_manifest o np wfk = Some m ->
    length (spec_header C fk (manifest_json C m)) <= H ->
    (N.of_nat (length (data_of sc)) <= N.of_nat S * 4294967296)%N ->
    encrypt_stream C S H o fk np wfk sc = EncStream (encrypt_doc C S m fk (data_of sc)) SClean.
Proof. exact encrypt_stream_chunking_independent. Qed.
Print Assumptions C01_encrypt_chunking_independent.

(* Layout, header: the header of a document is exactly three lines, each ended by one line
   feed and containing none: the scheme name, the compact JSON manifest, the base64 MAC of
   the first two lines (line feeds included) under the key derived from the file key. *)
Theorem C01_layout_header :
  forall (C : crypto), crypto_ok C -> forall (fk : list N) (m : manifest),
    three_lines (spec_header C fk (manifest_json C m)) spec_scheme_line (manifest_json C m)
                (b64e C (hmac C (spec_mac_key C fk) (spec_signed_part (manifest_json C m)))).
Proof. exact layout_header. Qed.
Print Assumptions C01_layout_header.

(* Layout, payload: a plaintext of n bytes gives ceil(n / S) segments; segment i carries
   min(S, n - i*S) bytes plus a 16-byte tag; an empty message has no segment at all (and only
   an empty message). *)
Theorem C01_layout :
  forall (C : crypto), crypto_ok C -> forall (S : nat) (m : manifest) (fk p : list N),
    0 < S ->
    let segs := spec_segments C S m fk p in
    length segs = ceil_div (length p) S /\
    (forall i, i < length segs -> length (nth i segs []) = Nat.min S (length p - i * S) + 16) /\
    (p = [] <-> segs = []).
Proof. exact layout_segments. Qed.
Print Assumptions C01_layout.

(* Decrypt accepts the documents of an independent implementation of the README, however that
   implementation writes the manifest line: for ANY text [man] that the manifest parser reads
   as a manifest m with a non-empty wrapped key and a 7-byte nonce prefix (any member order,
   insignificant whitespace, any string escapes: the README fixes none of them and puts the MAC
   over the bytes as written), ANY 32-byte file key, either cipher, and EVERY read script
   delivering "header(man) ++ segments", Decrypt — given an unwrap callback that returns the
   file key for (wrapped key, algorithm name, key name: the caller's, else the manifest's) —
   returns exactly the plaintext and a clean end of stream. *)
Theorem C01_accepts_spec_documents :
  forall (C : crypto), crypto_ok C ->
  forall (v : variant) (S H : nat) (unwrap : list N -> list N -> list N -> list N * bool)
         (optkn : list N) (sc : list rd) (man : list N) (m : manifest) (fk p : list N),
    0 < S -> parse_manifest C man = Some m -> no_nl man -> man <> [] ->
    manifest_valid m = true ->
    ends_eof sc = true -> data_of sc = encrypt_doc_text C S man m fk p ->
    length (spec_header C fk man) <= H ->
    dec_key_name optkn m <> [] ->
    unwrap (m_wfk m) (kwalg_name (m_kw m)) (dec_key_name optkn m) = (fk, false) ->
    length fk = 32 ->
    (N.of_nat (length p) <= N.of_nat S * 4294967296)%N ->
    decrypt_stream C v S H unwrap optkn sc = DecStream p SClean.
Proof. exact decrypt_accepts_text. Qed.
Print Assumptions C01_accepts_spec_documents.

(* The parser's language contains the whole family [manifest_text sty m] of serialisations:
   the five members in ANY order (the key-name member may be absent when the name is empty),
   whitespace (space, tab, carriage return) at every place JSON allows it, the key name
   escaped Go's way, minimally (solidus as \/, & < > literally) or as \u00XX — and Go's own
   serialisation [manifest_json] is the member of that family with Go's order, no whitespace
   and Go's escapes. *)
Theorem C01_manifest_serialisations_parse :
  forall (C : crypto), crypto_ok C -> forall (sty : mstyle) (m : manifest),
    manifest_bytes_ok m ->
    Forall (fun b => is_ws b = true) (ms_ws sty) -> NoDup (ms_order sty) ->
    (forall f, f <> FK -> In f (ms_order sty)) -> (In FK (ms_order sty) \/ m_k m = []) ->
    parse_manifest C (manifest_text C sty m) = Some m /\
    no_nl (manifest_text C sty m) /\ manifest_text C sty m <> [] /\
    manifest_text C (mkMstyle (go_order (is_nil (m_k m))) [] 0) m = manifest_json C m.
Proof.
  exact (fun C Hok sty m Hb Hws Hnd Hall Hk =>
           conj (parse_manifest_text C Hok sty m Hb Hws Hnd Hall Hk)
                (conj (manifest_text_no_nl C Hok sty m Hws)
                      (conj (manifest_text_nonempty C sty m) (manifest_text_go C m)))).
Qed.
Print Assumptions C01_manifest_serialisations_parse.

(* ... hence Decrypt accepts a document written in any of these styles. *)
Theorem C01_accepts_serialisation_styles :
  forall (C : crypto), crypto_ok C ->
  forall (v : variant) (S H : nat) (unwrap : list N -> list N -> list N -> list N * bool)
         (optkn : list N) (sc : list rd) (sty : mstyle) (m : manifest) (fk p : list N),
    0 < S -> manifest_bytes_ok m -> manifest_valid m = true ->
    Forall (fun b => is_ws b = true) (ms_ws sty) -> NoDup (ms_order sty) ->
    (forall f, f <> FK -> In f (ms_order sty)) -> (In FK (ms_order sty) \/ m_k m = []) ->
    ends_eof sc = true ->
    data_of sc = encrypt_doc_text C S (manifest_text C sty m) m fk p ->
    length (spec_header C fk (manifest_text C sty m)) <= H ->
    dec_key_name optkn m <> [] ->
    unwrap (m_wfk m) (kwalg_name (m_kw m)) (dec_key_name optkn m) = (fk, false) ->
    length fk = 32 ->
    (N.of_nat (length p) <= N.of_nat S * 4294967296)%N ->
    decrypt_stream C v S H unwrap optkn sc = DecStream p SClean.
Proof. exact decrypt_accepts_styles. Qed.
Print Assumptions C01_accepts_serialisation_styles.

(* Round trip, for every chunking on both sides: whatever read script sc delivers the
   plaintext to Encrypt, the stream it produces is some document d ending cleanly, and
   whatever read script sc' delivers d to Decrypt (with the matching unwrap callback), the
   output is exactly the plaintext, ending cleanly.  (The consumer's read sizes do not occur:
   io.Pipe is modelled by its contract, "the concatenation of the writes".) *)
Theorem C01_roundtrip :
  forall (C : crypto), crypto_ok C ->
  forall (v : variant) (S H : nat) (o : enc_opts) (fk np wfk : list N) (sc : list rd)
         (unwrap : list N -> list N -> list N -> list N * bool) (optkn : list N) (m : manifest),
    0 < S -> length fk = 32 -> length np = 7 -> bytes_ok np = true ->
    wfk <> [] -> bytes_ok wfk = true ->
    spec_manifest o np wfk = Some m ->
    length (spec_header C fk (manifest_json C m)) <= H ->
    ends_eof sc = true ->
    (N.of_nat (length (data_of sc)) <= N.of_nat S * 4294967296)%N ->
    dec_key_name optkn m <> [] ->
    unwrap wfk (kwalg_name (m_kw m)) (dec_key_name optkn m) = (fk, false) ->
    exists d, encrypt_stream C S H o fk np wfk sc = EncStream d SClean /\
              forall sc', ends_eof sc' = true -> data_of sc' = d ->
                          decrypt_stream C v S H unwrap optkn sc' = DecStream (data_of sc) SClean.
Proof. exact roundtrip. Qed.
Print Assumptions C01_roundtrip.

(* Round trip through the caller's callbacks (a key vault): Encrypt invokes the wrap callback
   with the file key, the UN-ALIASED algorithm name and opts.KeyName — never DecryptionKeyName,
   which only goes into the manifest; a failing callback fails Encrypt; if the unwrap callback
   gives the file key back for the wrapped key under the name Decrypt uses (the caller's, else
   the manifest's), the plaintext comes back, for every chunking on both sides. *)
Theorem C01_roundtrip_callbacks :
  forall (C : crypto), crypto_ok C ->
  forall (v : variant) (S H : nat) (o : enc_opts) (fk np wfk : list N) (sc : list rd)
         (wrap : list N -> list N -> list N -> option (list N))
         (unwrap : list N -> list N -> list N -> list N * bool) (optkn : list N) (m : manifest),
    0 < S -> length fk = 32 -> length np = 7 -> bytes_ok np = true ->
    spec_manifest o np wfk = Some m ->
    wrap fk (kwalg_name (m_kw m)) (eo_keyname o) = Some wfk ->
    wfk <> [] -> bytes_ok wfk = true ->
    length (spec_header C fk (manifest_json C m)) <= H ->
    ends_eof sc = true ->
    (N.of_nat (length (data_of sc)) <= N.of_nat S * 4294967296)%N ->
    dec_key_name optkn m <> [] ->
    unwrap wfk (kwalg_name (m_kw m)) (dec_key_name optkn m) = (fk, false) ->
    exists d, encrypt_stream_w C S H o fk np wrap sc = EncStream d SClean /\
              forall sc', ends_eof sc' = true -> data_of sc' = d ->
                          decrypt_stream C v S H unwrap optkn sc' = DecStream (data_of sc) SClean.
Proof. exact roundtrip_callbacks. Qed.
Print Assumptions C01_roundtrip_callbacks.

Theorem C01_wrap_failure_fails_encrypt :
  forall (C : crypto) (S H : nat) (o : enc_opts) (fk np : list N)
         (wrap : list N -> list N -> list N -> option (list N)) (sc : list rd) (alg kn : list N),
    encrypt_wrap_args o = Some (alg, kn) -> wrap fk alg kn = None ->
    encrypt_stream_w C S H o fk np wrap sc = EncCallError.
Proof. exact wrap_failure_is_encrypt_failure. Qed.
Print Assumptions C01_wrap_failure_fails_encrypt.

(* Key-name options: the manifest Encrypt builds is the documented one ([spec_manifest]); its
   key name is nothing with OmitKeyName, else DecryptionKeyName when given, else KeyName;
   KeyName is required; the wrapped key and nonce prefix are stored as given. *)
Theorem C01_keyname_table :
  forall (o : enc_opts) (np wfk : list N),
    encrypt_manifest o np wfk = spec_manifest o np wfk /\
    forall m, encrypt_manifest o np wfk = Some m ->
      m_k m = (if eo_omit o then [] else if is_nil (eo_deckeyname o) then eo_keyname o
               else eo_deckeyname o) /\
      eo_keyname o <> [] /\ m_wfk m = wfk /\ m_np m = np.
Proof. exact (fun o np wfk => conj (encrypt_manifest_spec_h o np wfk) (keyname_table o np wfk)). Qed.
Print Assumptions C01_keyname_table.

(* ... and on the Decrypt side: a valid document without a key name, decrypted without a key
   name option, is refused with ErrDecryptionKeyMissing (with a key name option the previous
   two theorems apply: the option overrides the manifest). *)
Theorem C01_key_missing :
  forall (C : crypto), crypto_ok C ->
  forall (v : variant) (S H : nat) (unwrap : list N -> list N -> list N -> list N * bool)
         (sc : list rd) (m : manifest) (fk p : list N),
    manifest_bytes_ok m -> manifest_valid m = true -> m_k m = [] ->
    data_of sc = encrypt_doc C S m fk p ->
    length (spec_header C fk (manifest_json C m)) <= H ->
    decrypt_stream C v S H unwrap [] sc = DecCallError DEKeyMissing.
Proof. exact decrypt_key_missing. Qed.
Print Assumptions C01_key_missing.

(* The boolean oracle the correspondence check evaluates on what Encrypt was OBSERVED to produce
   decides the spec predicate: the observed document is byte for byte the one the README
   prescribes for (options, file key, nonce prefix, wrapped key, plaintext) and the independent
   decoder written from the README recovers the plaintext from it. *)
Theorem C01_oracle_sound :
  forall (C : crypto) (S : nat) (o : enc_opts) (fk np wfk p d : list N),
    enc_oracle C S o fk np wfk p d = true <->
    (encrypt_spec C S o fk np wfk p = Some d /\ decrypt_spec C S fk d = Some p).
Proof. exact enc_oracle_sound. Qed.
Print Assumptions C01_oracle_sound.

(* The model over readers that may return data TOGETHER with a non-EOF error (C01/ReaderX.v,
   C01/ModelX.v — the model the correspondence check evaluates) extends the one the theorems
   above are about: on every script of Lib/Reader.v, with any number of zero-length reads, it
   computes the same result ... *)
Theorem C01_extended_model_agrees :
  forall (C : crypto) (S H : nat) (o : enc_opts) (fk np : list N)
         (wrap : list N -> list N -> list N -> option (list N)) (sc : list rd),
    encrypt_stream_wx C S H o fk np wrap (emb sc) = encrypt_stream_w C S H o fk np wrap sc.
Proof. exact encrypt_stream_wx_emb. Qed.
Print Assumptions C01_extended_model_agrees.

(* ... and on the others Encrypt never ends cleanly: a source that reports a non-EOF error — alone
   or together with data, once or for ever, at any offset — does not yield a clean stream. *)
Theorem C01_encrypt_source_error_surfaces :
  forall (C : crypto) (S H : nat) (o : enc_opts) (fk np : list N)
         (wrap : list N -> list N -> list N -> option (list N)) (xs : list rdx),
    0 < S -> xends_eof xs = false ->
    match encrypt_stream_wx C S H o fk np wrap xs with EncStream _ SClean => False | _ => True end.
Proof. exact source_error_surfaces_x_enc. Qed.
Print Assumptions C01_encrypt_source_error_surfaces.

From Coq Require Import String.
Local Open Scope string_scope.

(* Algorithm names: the five names and the two aliases (AES = A256KW, RSA = RSA-OAEP-256) are
   accepted; names and numeric ids are consistent for key-wrap algorithms and ciphers. *)
Theorem C01_alias_table :
  kwalg_of_name (str "A256KW") = Some A256KW /\
  kwalg_of_name (str "A128CBC-NOPAD") = Some A128CBC /\
  kwalg_of_name (str "A192CBC-NOPAD") = Some A192CBC /\
  kwalg_of_name (str "A256CBC-NOPAD") = Some A256CBC /\
  kwalg_of_name (str "RSA-OAEP-256") = Some RSAOAEP256 /\
  kwalg_of_name (str "AES") = Some A256KW /\
  kwalg_of_name (str "RSA") = Some RSAOAEP256 /\
  (forall a, kwalg_of_name (kwalg_name a) = Some a) /\
  (forall a, kwalg_of_id (kwalg_id a) = Some a) /\
  (forall c, cipher_of_id (cipher_id c) = Some c) /\
  (forall c, cipher_of_name (cipher_name c) = Some c).
Proof. exact alias_table. Qed.
Print Assumptions C01_alias_table.

(* The wrap callback always receives the canonical (un-aliased) algorithm name — the one whose
   id goes into the manifest — and the option KeyName. *)
Theorem C01_alias_wrap_args :
  forall (o : enc_opts) (np wfk : list N) (m : manifest),
    encrypt_manifest o np wfk = Some m ->
    encrypt_wrap_args o = Some (kwalg_name (m_kw m), eo_keyname o) /\
    kwalg_of_name (eo_alg o) = Some (m_kw m).
Proof. exact alias_wrap_args. Qed.
Print Assumptions C01_alias_wrap_args.

(* The AEAD premise ("opening what was sealed under the same key and nonce gives the plaintext
   back") holds for the concrete Gallina ChaCha20-Poly1305 ... *)
Theorem C01_aead_premise_chacha : forall k n p,
  open concrete ChaChaPoly k n (seal concrete ChaChaPoly k n p) = Some p.
Proof. exact concrete_open_seal_chacha. Qed.
Print Assumptions C01_aead_premise_chacha.

(* ... and for the concrete Gallina AES-GCM. *)
Theorem C01_aead_premise_gcm : forall k n p,
  open concrete AESGCM k n (seal concrete AESGCM k n p) = Some p.
Proof. exact concrete_open_seal_gcm. Qed.
Print Assumptions C01_aead_premise_gcm.

(* All the premises [crypto_ok] hold for the concrete Gallina primitives (ChaCha20-Poly1305,
   AES-GCM, HMAC-SHA-256, base64 as Go decodes it): ... *)
Theorem C01_premises_concrete : crypto_ok concrete.
Proof. exact concrete_ok. Qed.
Print Assumptions C01_premises_concrete.

(* ... so the round-trip theorem instantiated on them has no cryptographic premise left. *)
Theorem C01_roundtrip_concrete :
  forall (v : variant) (S H : nat) (o : enc_opts) (fk np wfk : list N) (sc : list rd)
         (unwrap : list N -> list N -> list N -> list N * bool) (optkn : list N) (m : manifest),
    0 < S -> List.length fk = 32 -> List.length np = 7 -> bytes_ok np = true ->
    wfk <> [] -> bytes_ok wfk = true ->
    spec_manifest o np wfk = Some m ->
    List.length (spec_header concrete fk (manifest_json concrete m)) <= H ->
    ends_eof sc = true ->
    (N.of_nat (List.length (data_of sc)) <= N.of_nat S * 4294967296)%N ->
    dec_key_name optkn m <> [] ->
    unwrap wfk (kwalg_name (m_kw m)) (dec_key_name optkn m) = (fk, false) ->
    exists d, encrypt_stream concrete S H o fk np wfk sc = EncStream d SClean /\
              forall sc', ends_eof sc' = true -> data_of sc' = d ->
                          decrypt_stream concrete v S H unwrap optkn sc' = DecStream (data_of sc) SClean.
Proof. exact roundtrip_concrete. Qed.
Print Assumptions C01_roundtrip_concrete.
