(* C11 — events/broadcaster: every value once to every subscriber, one common order, no deadlock
   on departure or Close.  Statements only; every proof is [exact <lemma of C11/Proofs*.v>].
   Everywhere: [run vr init es = Some s] = the broadcaster after ANY schedule [es]: any
   interleaving, of any length, of Broadcast / Subscribe / Close calls being issued (any number of
   them pending at once), their steps (taking the lock, one select per subscriber), the steps of
   every subscriber's forwarder goroutine, consumers reading (promptly / on command / never) and
   subscribers' contexts ending.  [vr] = Original (Close as before the fix) or Fixed.
   [fanout s] = the values for which a Broadcast call took the lock on an open broadcaster, in
   that order (ghost).  A Broadcast value identifies its call. *)
From Kit Require Import C11.Model C11.Spec C11.Check C11.Proofs_safety C11.Proofs_live
                        C11.Proofs_spec C11.Proofs_check C11.Proofs_rest.

(* ONE COMMON ORDER.  In every reachable state [fanout s] has no repetition and, for every
   subscriber, what its consumer has received followed by what is on its way to it (held by its
   forwarder, buffered, or still to be handed over by the Broadcast in progress) is [fanout s]
   from its subscription point on with some values left out.  So every subscriber's sequence is
   a sub-sequence of the one order in which the Broadcast calls took the lock. *)
Theorem C11_total_order : forall vr es s, run vr init es = Some s ->
  NoDup (fanout s) /\
  forall i b, nth_error (subs s) i = Some b ->
    subseq (received b ++ in_flight s i b) (skipn (start b) (fanout s)).
Proof. exact main_total_order. Qed.
Print Assumptions C11_total_order.

(* ... THAT RESPECTS THE ORDER OF BROADCAST CALLS.  If call vA had returned (state s1) before call
   vB was issued, and both were fanned out, vA comes before vB in the common order — whatever
   happens in between and afterwards. *)
Theorem C11_call_order : forall vr es1 s1 vB s1' es2 s2 vA,
  run vr init es1 = Some s1 -> step vr s1 (BcCall vB) = Some s1' -> run vr s1' es2 = Some s2 ->
  In vA (bret s1) -> In vA (fanout s2) -> In vB (fanout s2) ->
  precedesb vA vB (fanout s2) = true.
Proof. exact main_call_order. Qed.
Print Assumptions C11_call_order.

(* EXACTLY ONCE.  For a subscriber whose context has not ended, while the broadcaster is open:
   everything fanned out since its subscription is, in order and without loss or repetition,
   exactly what it has received followed by what is on its way to it. *)
Theorem C11_exactly_once : forall vr es s i b, run vr init es = Some s ->
  nth_error (subs s) i = Some b -> ctx_done b = false -> closed s = false ->
  skipn (start b) (fanout s) = received b ++ in_flight s i b.
Proof. exact main_exactly_once. Qed.
Print Assumptions C11_exactly_once.

(* ... and when nothing more can happen by itself, its consumer reads promptly and no Broadcast
   is in progress, it HAS received every value fanned out since it subscribed. *)
Theorem C11_exactly_once_at_rest : forall vr es s i b, run vr init es = Some s ->
  nth_error (subs s) i = Some b -> ctx_done b = false -> closed s = false ->
  stuck vr s -> prompt b = true -> lock s = Free ->
  received b = skipn (start b) (fanout s).
Proof. exact main_exactly_once_at_rest. Qed.
Print Assumptions C11_exactly_once_at_rest.

(* AT MOST ONCE, for every subscriber (leaving ones, late ones, after Close) in every state. *)
Theorem C11_at_most_once : forall vr es s i b, run vr init es = Some s ->
  nth_error (subs s) i = Some b -> NoDup (received b).
Proof. exact main_at_most_once. Qed.
Print Assumptions C11_at_most_once.

(* EVERY CLOSE THAT RETURNS HAS WAITED FOR THE FORWARDERS.  Two overlapping Close calls are
   modelled ([cl], [cl2]); whichever of them has returned — the first or the second, in whatever
   order they got the lock — the broadcaster is closed and every subscriber's forwarder goroutine
   has exited. *)
Theorem C11_close_returned_exited : forall vr es s, run vr init es = Some s ->
  cl s = CReturned \/ cl2 s = CReturned ->
  closed s = true /\ forall i b, nth_error (subs s) i = Some b -> fwd b = Exited.
Proof. exact main_close_returned_exited. Qed.
Print Assumptions C11_close_returned_exited.

(* NOTHING IS DELIVERED AFTER (ANY) CLOSE RETURNS: along every continuation no subscriber's
   received sequence changes, and subscribers created afterwards receive nothing. *)
Theorem C11_no_delivery_after_close : forall vr es s es' s', run vr init es = Some s ->
  cl s = CReturned \/ cl2 s = CReturned -> run vr s es' = Some s' ->
  forall i b', nth_error (subs s') i = Some b' ->
    received b' = match nth_error (subs s) i with Some b => received b | None => [] end.
Proof. exact main_no_delivery_after_close. Qed.
Print Assumptions C11_no_delivery_after_close.

(* DEPARTURE NEVER WEDGES (both variants).  In every reachable state in which some call is
   pending (a Broadcast holding or waiting for the lock, a Subscribe waiting for it, Close) and
   no internal step is enabled, the Broadcast holding the lock is at a subscriber that is ALIVE
   (context not done, registered, exit channel open) with a full 10-slot buffer, an eleventh
   value held by its forwarder and a consumer that is not reading: back-pressure.  A subscriber
   that has left — at any moment, even with a full buffer and a Broadcast blocked on it — is
   never the reason. *)
Theorem C11_departure_no_wedge : forall vr es s, run vr init es = Some s ->
  call_pending s -> stuck vr s -> backpressure s.
Proof. exact main_departure_no_wedge. Qed.
Print Assumptions C11_departure_no_wedge.

(* ... said directly: a Broadcast whose loop is at a subscriber whose context has ended always
   has an enabled internal step (this is what closeEventCh, closed before the lock is asked for,
   buys). *)
Theorem C11_departed_not_blocking : forall vr es s v idx b, run vr init es = Some s ->
  lock s = Held v idx -> nth_error (subs s) idx = Some b -> ctx_done b = true ->
  exists e, internal e = true /\ step vr s e <> None.
Proof. exact main_departed_not_blocking. Qed.
Print Assumptions C11_departed_not_blocking.

(* Internal activity cannot go on for ever: every internal step strictly decreases the measure,
   in every state (so an enabled step means progress towards the calls' return). *)
Theorem C11_internal_terminates : forall vr s e s', internal e = true -> step vr s e = Some s' ->
  (Model.measure s' < Model.measure s)%nat.
Proof. exact main_internal_decreases. Qed.
Print Assumptions C11_internal_terminates.

(* CLOSE NEVER WEDGES, on the fixed Close: once Close has been called (by either caller),
   whenever a call is pending some internal step is enabled — not even a live stalled subscriber
   holds anything up. *)
Theorem C11_close_no_wedge : forall es s, run Fixed init es = Some s ->
  cl s <> CNone \/ cl2 s <> CNone -> call_pending s ->
  exists e, internal e = true /\ step Fixed s e <> None.
Proof. exact main_close_no_wedge. Qed.
Print Assumptions C11_close_no_wedge.

(* ... hence after at most [measure s] internal steps, with no help from the environment, no call
   is pending any more and EVERY Close call that was issued has returned. *)
Theorem C11_close_completes : forall es s, run Fixed init es = Some s ->
  cl s <> CNone \/ cl2 s <> CNone ->
  exists k s', (k <= Model.measure s)%nat /\ s' = quiesce_fuel k Fixed s /\ ~ call_pending s' /\
               (cl s <> CNone -> cl s' = CReturned) /\ (cl2 s <> CNone -> cl2 s' = CReturned).
Proof. exact main_close_completes. Qed.
Print Assumptions C11_close_completes.

(* THE DEFECT (Close before the fix).  After: one subscriber that never reads, twelve Broadcasts,
   Close — Close waits for the lock, the twelfth Broadcast holds it and waits for closeCh (still
   open: it is only closed under that lock), no internal step is enabled, and it stays so
   whatever further Broadcast / Subscribe / second Close calls are issued and whatever internal
   steps are tried, as long as nobody reads or cancels: neither Close call ever returns. *)
Theorem C11_close_wedge_refuted : exists s, run Original init wedge_schedule = Some s /\
  cl s = CWantLock /\ (exists v idx, lock s = Held v idx) /\ closed s = false /\ stuck Original s /\
  (forall es' s', Forall (fun e => match e with BcCall _ | SubCall _ _ | Close2Call | CancelPending _ => True
                                   | _ => internal e = true end) es' ->
                  run Original s es' = Some s' ->
                  cl s' = CWantLock /\ cl2 s' <> CReturned /\ (exists v idx, lock s' = Held v idx)).
Proof. exact main_close_wedge_refuted. Qed.
Print Assumptions C11_close_wedge_refuted.

(* ... with a second Close piled on top: both wait for the lock, nothing is enabled. *)
Theorem C11_close2_wedge_refuted : exists s, run Original init wedge2_schedule = Some s /\
  cl s = CWantLock /\ cl2 s = CWantLock /\ (exists v idx, lock s = Held v idx) /\ stuck Original s.
Proof. exact main_close2_wedge_refuted. Qed.
Print Assumptions C11_close2_wedge_refuted.

(* The same defect as the checker sees it: for the script "subscribe a consumer that never reads;
   Broadcast x 12; Close" the Original model predicts that the calls of steps 12 (Broadcast) and
   13 (Close) never return, and the spec oracle rejects that observation for every candidate
   order; the Fixed model predicts that both return at the Close step, which the oracle accepts. *)
Theorem C11_close_wedge_script_refuted :
  model_obs Original wedge_script
  = map (fun c => (c, EDone c)) [0;1;2;3;4;5;6;7;8;9;10;11]%Z /\
  forall w, Spec.oracle wedge_script (model_obs Original wedge_script) w = false.
Proof. exact wedge_script_refuted. Qed.
Print Assumptions C11_close_wedge_script_refuted.

Theorem C11_close_wedge_script_fixed :
  model_obs Fixed wedge_script
  = map (fun c => (c, EDone c)) [0;1;2;3;4;5;6;7;8;9;10;11]%Z
    ++ [(13, EDone 12); (13, EDone 13)]%Z /\
  Spec.oracle wedge_script (model_obs Fixed wedge_script) [1;2;3;4;5;6;7;8;9;10;11;12]%Z = true.
Proof. exact wedge_script_fixed_ok. Qed.
Print Assumptions C11_close_wedge_script_fixed.

(* Being stuck is decided by looking at the finitely many candidate steps (used by the checker's
   run-to-quiescence). *)
Theorem C11_stuck_decidable : forall vr s,
  stuck vr s <-> forallb (fun e => negb (enabledb vr s e)) (candidates s) = true.
Proof. exact stuck_iff_candidates. Qed.
Print Assumptions C11_stuck_decidable.

(* The checker's run-to-quiescence is a run of the model: the state it predicts is reached by a
   schedule of internal steps, each enabled when taken, and nothing more is enabled there — so
   every prediction compared with the implementation is the observation of one schedule of the
   event system the theorems above are about. *)
Theorem C11_checker_runs_the_model : forall vr s,
  exists es, Forall (fun e => internal e = true) es /\
             run vr s es = Some (quiesce vr s) /\ stuck vr (quiesce vr s).
Proof. exact quiesce_is_run. Qed.
Print Assumptions C11_checker_runs_the_model.

(* The boolean oracles evaluated on the implementation's observations decide the specs (the
   common order is existentially quantified in the spec; the oracle checks a candidate). *)
Theorem C11_script_oracle_sound : forall sc ob,
  (exists w, Spec.oracle sc ob w = true) <-> spec sc ob.
Proof. exact script_oracle_sound. Qed.
Print Assumptions C11_script_oracle_sound.

Theorem C11_conc_oracle_sound : forall calls stay leaver late,
  (exists w, conc_oracle calls stay leaver late w = true) <-> conc_spec calls stay leaver late.
Proof. exact conc_oracle_sound. Qed.
Print Assumptions C11_conc_oracle_sound.

(* rushed runs (calls back to back / all at once, consumers reading only after Close returned):
   the oracle says exactly "no consumer received anything". *)
Theorem C11_rush_oracle_sound : forall late, rush_oracle late = true <-> rush_spec late.
Proof. exact rush_oracle_sound. Qed.
Print Assumptions C11_rush_oracle_sound.

Theorem C11_conc_close_oracle_sound : forall calls seqs closes,
  (exists w, cc_oracle calls seqs closes w = true) <-> cc_spec calls seqs closes.
Proof. exact cc_oracle_sound. Qed.
Print Assumptions C11_conc_close_oracle_sound.

Theorem C11_dup_oracle_sound : forall k nb leave shared other,
  dup_oracle k nb leave shared other = true <-> dup_spec k nb leave shared other.
Proof. exact dup_oracle_sound. Qed.
Print Assumptions C11_dup_oracle_sound.

(* EVERY CALL RETURNS BY ITSELF (both variants; the liveness half of "never deadlock Broadcast,
   Subscribe or Close").  From EVERY reachable state, at most [measure s] internal steps, each
   enabled when taken — this is the checker's run-to-quiescence — lead to a state at rest, and
   there a call (a Broadcast holding or waiting for the lock, a Subscribe, either Close) is still
   pending only under back-pressure from a LIVE stalled subscriber. *)
Theorem C11_calls_complete : forall vr es s, run vr init es = Some s ->
  exists es', Forall (fun e => internal e = true) es' /\ (length es' <= Model.measure s)%nat /\
              run vr s es' = Some (quiesce vr s) /\ stuck vr (quiesce vr s) /\
              (call_pending (quiesce vr s) -> backpressure (quiesce vr s)).
Proof. exact main_calls_complete. Qed.
Print Assumptions C11_calls_complete.

(* EXACTLY ONCE, EVENTUALLY (the liveness half of "received exactly once by each subscriber that
   ... stays subscribed while the broadcaster is open").  At that state at rest, unless there is
   such back-pressure, every subscriber whose context is alive, with the broadcaster open and a
   consumer that reads promptly, HAS received exactly the values fanned out since it subscribed,
   in order — no hypothesis on the lock or on the schedule that led there. *)
Theorem C11_delivery_complete : forall vr es s, run vr init es = Some s ->
  ~ backpressure (quiesce vr s) ->
  forall i b, nth_error (subs (quiesce vr s)) i = Some b ->
    ctx_done b = false -> closed (quiesce vr s) = false -> prompt b = true ->
    received b = skipn (start b) (fanout (quiesce vr s)).
Proof. exact main_delivery_complete. Qed.
Print Assumptions C11_delivery_complete.

(* WHY 12 ("more than the 10-slot buffer outstanding").  Whenever a Broadcast sits at a subscriber
   that is alive, on an open broadcaster, with a full buffer and a value in its forwarder's hand
   — the only situation in which it can be blocked (C11_departure_no_wedge) — that subscriber has
   EXACTLY 12 values outstanding: the constant of the specification's back-pressure excuse
   (Spec.excused) is derived from the model, not chosen. *)
Theorem C11_backpressure_12 : forall vr es s v idx b h, run vr init es = Some s ->
  lock s = Held v idx -> nth_error (subs s) idx = Some b ->
  ctx_done b = false -> closed s = false ->
  length (buf b) = bufcap -> fwd b = Holding h ->
  length (skipn (start b) (fanout s)) = (length (received b) + 12)%nat.
Proof. exact main_backpressure_12. Qed.
Print Assumptions C11_backpressure_12.

(* The executable form of the two theorems above ([rest_ok], Check.v) holds of the state at rest
   reached from every reachable state ... *)
Theorem C11_rest_ok : forall vr es s, run vr init es = Some s -> rest_ok (quiesce vr s) = true.
Proof. exact main_rest_ok. Qed.
Print Assumptions C11_rest_ok.

(* ... and the booleans it is made of decide the predicates of the theorems. *)
Theorem C11_rest_predicates_decided : forall s,
  (call_pendingb s = true <-> call_pending s) /\ (backpressureb s = true <-> backpressure s) /\
  (delivered_allb s = true <->
   forall i b, nth_error (subs s) i = Some b -> ctx_done b = false -> closed s = false ->
               prompt b = true -> received b = skipn (start b) (fanout s)).
Proof. exact (fun s => conj (call_pendingb_spec s) (conj (backpressureb_spec s) (delivered_allb_spec s))). Qed.
Print Assumptions C11_rest_predicates_decided.

(* Hence, for EVERY script, every state the checker predicts at a step boundary passes [rest_ok]:
   the flag [d_rest] that check_case tests on each harness case can never be false for a reason
   other than a broken model. *)
Theorem C11_drive_rest_ok : forall vr sc, d_rest (drive vr sc) = true.
Proof. exact main_drive_rest_ok. Qed.
Print Assumptions C11_drive_rest_ok.
