(* C13 — lock primitives: mutual exclusion, FIFO grant, clean cancellation, no leaked per-key
   state, outer-cancel rules.  Statements only; every proof is [exact <lemma of C13/Proofs*.v>].

   Everywhere: a lock is an event system (C13/Model_*.v) whose events are the ATOMIC steps of the
   Go methods, split wherever the code releases a lock or may block, so a schedule [es] — any
   list of events, of any length, over any number of thread ids — is an arbitrary interleaving,
   context switches between a map look-up and the following mutex operation included.
   "Goroutines that pair their calls correctly" is built into the step functions: an event of a
   thread that is not at that program point (releasing what it was not granted, a second call
   while one is in flight) is not enabled, so [run init es = Some s] ranges exactly over the
   correctly paired interleavings.  Go-runtime assumption (C13/Common.v): senders blocked on a
   full channel are served in FIFO order. *)
From Kit Require Import C13.Model_FifoMutex C13.Model_FifoMap C13.Model_CMap C13.Model_Ctx
  C13.Model_Outer C13.Spec C13.Check
  C13.Proofs_Fifo C13.Proofs_FifoMap C13.Proofs_Ctx C13.Proofs_CMap C13.Proofs_Refuted C13.Proofs_Outer
  C13.Proofs_Outer2 C13.Proofs_Outer3 C13.Proofs_Oracle.

(* ---------------------------------- fifo.Mutex ---------------------------------------- *)

(* At most one thread is between the return of its Lock and its Unlock, in every reachable state. *)
Theorem C13_fifo_excl : forall es s, frun finit es = Some s ->
  excl (fun t => fpcs s t = FHold) (fun _ => False).
Proof. exact fifo_excl_all. Qed.
Print Assumptions C13_fifo_excl.

(* Grants happen in arrival order: the log of grants is a prefix of the log of arrivals. *)
Theorem C13_fifo_order : forall es s, frun finit es = Some s -> fifo (farr s) (fgrants s).
Proof. exact fifo_order_all. Qed.
Print Assumptions C13_fifo_order.

(* ... and the arrivals not yet granted are exactly the blocked senders, in order; the lock is
   held iff its channel is full; nobody waits on a free lock. *)
Theorem C13_fifo_waiters : forall es s, frun finit es = Some s ->
  farr s = fgrants s ++ sendq (fch s) /\ NoDup (sendq (fch s)) /\
  (forall t, In t (sendq (fch s)) <-> fpcs s t = FWait) /\
  (slot (fch s) = false -> sendq (fch s) = [] /\ forall t, fpcs s t <> FHold) /\
  (slot (fch s) = true -> exists t, fpcs s t = FHold).
Proof. exact fifo_waiters_all. Qed.
Print Assumptions C13_fifo_waiters.

(* The holder's Unlock is always enabled and hands the lock to the oldest waiter in the same step. *)
Theorem C13_fifo_unlock_grants_head : forall es s t t' q, frun finit es = Some s ->
  fpcs s t = FHold -> sendq (fch s) = t' :: q ->
  exists s', fstep s (FUnlock t) = Some s' /\ fpcs s' t' = FHold /\ sendq (fch s') = q.
Proof. exact fifo_unlock_grants_head. Qed.
Print Assumptions C13_fifo_unlock_grants_head.

(* ---------------------------------- fifo.Map ------------------------------------------ *)

(* Per key, at most one thread is between the return of Lock(k) and its call of Unlock(k) - also
   across deletion and re-creation of the key's entry (a thread that is still releasing the old
   mutex while a newcomer creates a fresh entry has left its critical section). *)
Theorem C13_fifomap_excl : forall es s k, mrun minit es = Some s ->
  excl (fun t => exists o, mpcs s t = MHold k o) (fun _ => False).
Proof. exact fifomap_excl_all. Qed.
Print Assumptions C13_fifomap_excl.

(* Per key, grants happen in the order of arrival at the key mutex. *)
Theorem C13_fifomap_order : forall es s k, mrun minit es = Some s -> fifo (karr s k) (kgrants s k).
Proof. exact fifomap_order_all. Qed.
Print Assumptions C13_fifomap_order.

(* ilen of an existing entry = the number of threads between their ilen++ and their ilen--
   (holders + waiters + those about to wait), it is at least 1 (so ilen-- never underflows), and
   a key without entry has no such thread. *)
Theorem C13_fifomap_count : forall es s k, mrun minit es = Some s ->
  match items s k with
  | Some it => (it_len it = Z.of_nat (length (it_users it)))%Z /\ (it_len it >= 1)%Z /\
               NoDup (it_users it) /\ (forall t, In t (it_users it) <-> Model_FifoMap.between s t k)
  | None => forall t, ~ Model_FifoMap.between s t k
  end.
Proof. exact fifomap_count_all. Qed.
Print Assumptions C13_fifomap_count.

(* No leak: the entry of key k is present exactly while some thread holds or waits for k. *)
Theorem C13_fifomap_no_leak : forall es s k, mrun minit es = Some s ->
  no_leak (present s k) (fun t => Model_FifoMap.between s t k).
Proof. exact fifomap_no_leak_all. Qed.
Print Assumptions C13_fifomap_no_leak.

(* Unlock never dereferences a missing entry (no nil-pointer panic) under correct pairing. *)
Theorem C13_fifomap_no_panic : forall es s, mrun minit es = Some s -> mpanic s = false.
Proof. exact fifomap_no_panic_all. Qed.
Print Assumptions C13_fifomap_no_panic.

(* ---------------------------------- lock.Context -------------------------------------- *)

(* The 1-slot token admits ONE holder at a time, readers included: two threads between taking
   the token and giving it back are the same thread. *)
Theorem C13_ctx_excl : forall es s, xrun xinit es = Some s ->
  excl (fun t => owns s t) (fun _ => False).
Proof. exact ctx_excl_all. Qed.
Print Assumptions C13_ctx_excl.

(* A call that returned ctx.Err() is back at rest and owns nothing ... *)
Theorem C13_ctx_error_holds_nothing : forall es s t, xrun xinit es = Some s ->
  xres s t = Some false -> xpcs s t = XIdle /\ ~ owns s t.
Proof. exact ctx_error_holds_nothing_all. Qed.
Print Assumptions C13_ctx_error_holds_nothing.

(* ... and the error return itself (in ANY state) leaves the token, the RWMutex and every other
   thread exactly as they were. *)
Theorem C13_ctx_error_step : forall s t s', xstep s (XErr t) = Some s' ->
  tok s' = tok s /\ rww s' = rww s /\ rwr s' = rwr s /\ xpcs s' t = XIdle /\
  xres s' t = Some false /\ ~ owns s' t /\ (forall x, x <> t -> xpcs s' x = xpcs s x).
Proof. exact ctx_error_holds_nothing_step. Qed.
Print Assumptions C13_ctx_error_step.

(* A waiter whose context is done can return at once, whatever the rest of the system does. *)
Theorem C13_ctx_cancel_unblocks : forall s t w c, xpcs s t = XSel w c -> cdone s c = true ->
  exists s', xstep s (XErr t) = Some s' /\ xpcs s' t = XIdle /\ xres s' t = Some false.
Proof. exact ctx_cancel_unblocks_all. Qed.
Print Assumptions C13_ctx_cancel_unblocks.

(* No stuck lock: when nobody owns the token (in particular after any number of error returns)
   a waiter can take it and is then granted the RWMutex immediately. *)
Theorem C13_ctx_free_token_take : forall es s t w c, xrun xinit es = Some s -> xpcs s t = XSel w c ->
  (forall t', ~ owns s t') ->
  exists s1 s2, xstep s (XTake t) = Some s1 /\ xstep s1 (XRW t) = Some s2 /\ xpcs s2 t = XHold w.
Proof. exact ctx_free_token_take. Qed.
Print Assumptions C13_ctx_free_token_take.

(* ... all schedules, including those in which the select picks the send although the context is
   already done (the model's token event does not look at the context): a taken token always has
   an owner whose acquisition did not end in an error; a call that reported an error owns nothing;
   and when nobody owns the token, token and RWMutex are free. *)
Theorem C13_ctx_token_never_orphaned : forall es s, xrun xinit es = Some s ->
  (tok s = true -> exists t, owns s t /\ xres s t <> Some false) /\
  (forall t, xres s t = Some false -> ~ owns s t) /\
  ((forall t, ~ owns s t) -> tok s = false /\ rww s = false /\ rwr s = 0%nat).
Proof. exact ctx_token_never_orphaned. Qed.
Print Assumptions C13_ctx_token_never_orphaned.

(* ---------------------------------- cmap.Mutex ---------------------------------------- *)

(* PARTIAL (the full statement is refuted below).  For every schedule in which no Delete /
   DeleteUnlock / DeleteRUnlock / Clear removes the entry of a key that ANOTHER session holds or
   waits for ([safe_run]: the side condition is checked in the state in which the event fires):
   per key at most one writer is inside, never a writer together with a reader, and no RWMutex is
   ever unlocked while not locked (the Go fatal error).  Any number of threads and keys; which of
   several blocked writers proceeds is left open; context switches between the look-up, the
   creation and the mutex operation are separate events. *)
Theorem C13_cmap_mutex_excl_partial : forall es s k, safe_run cinit es s ->
  fatal s = false /\
  excl (fun t => exists o, cpcs s t = CInW k o) (fun t => exists o, cpcs s t = CInR k o).
Proof. exact cmap_excl_partial. Qed.
Print Assumptions C13_cmap_mutex_excl_partial.

(* REFUTED (known finding): with a DeleteUnlock while another thread waits, two threads are in
   the exclusive critical section of ONE key at once. *)
Theorem C13_cmap_delete_refuted : exists es s k t1 t2,
  crun cinit es = Some s /\ t1 <> t2 /\ fatal s = false /\
  (exists o1, cpcs s t1 = CInW k o1) /\ (exists o2, cpcs s t2 = CInW k o2) /\
  ~ excl (fun t => exists o, cpcs s t = CInW k o) (fun t => exists o, cpcs s t = CInR k o).
Proof. exact cmap_delete_refuted. Qed.
Print Assumptions C13_cmap_delete_refuted.

(* ... and the former waiter's Unlock then releases the third party's mutex. *)
Theorem C13_cmap_delete_refuted_unlock : exists es s k t2 t3 o3,
  crun cinit es = Some s /\ fatal s = false /\ cpcs s t2 = CIdle /\ cpcs s t3 = CInW k o3 /\
  citems s k = Some o3 /\ rw_w (cobjs s o3) = false.
Proof. exact cmap_delete_refuted_unlock. Qed.
Print Assumptions C13_cmap_delete_refuted_unlock.

(* Reader variant: DeleteRUnlock while a second reader is inside; a writer then holds the key
   together with that reader. *)
Theorem C13_cmap_delete_reader_refuted : exists es s k tw tr,
  crun cinit es = Some s /\ fatal s = false /\
  (exists o, cpcs s tw = CInW k o) /\ (exists o, cpcs s tr = CInR k o).
Proof. exact cmap_delete_reader_refuted. Qed.
Print Assumptions C13_cmap_delete_reader_refuted.

(* ---------------------------------- lock.OuterCancel ---------------------------------- *)

(* REFUTED (known finding): a writer granted before shutdown and a writer arriving after it
   hold simultaneously (for every grace period g). *)
Theorem C13_outer_excl_refuted : forall g, exists es s t1 t2,
  orun (oinit g) es = Some s /\ t1 <> t2 /\ wholds s t1 /\ wholds s t2 /\
  ~ excl (wholds s) (rholds s).
Proof. exact outer_excl_refuted. Qed.
Print Assumptions C13_outer_excl_refuted.

(* REFUTED, reader side of the same defect: a writer waiting for the grace period is granted at
   shutdown while a reader granted earlier has not been told to stop yet. *)
Theorem C13_outer_shutdown_reader_refuted : forall g, (0 < g)%Z -> exists es s tw tr,
  orun (oinit g) es = Some s /\ wholds s tw /\ rholds s tr.
Proof. exact outer_shutdown_reader_refuted. Qed.
Print Assumptions C13_outer_shutdown_reader_refuted.

(* GRACE / CANCEL REASONS (any state, any event): the only events that can set a reader
   record's own [done] flag are the owner's release and the record's rcancelGrace goroutine, and
   the latter runs only after shutdown or once the grace period has elapsed since a writer (or
   the shutdown) spawned it — never earlier. (The parent context is the only other way for the
   reader's context to end: [rctx_done s r = r_done r || cdn s (r_ctx r)] by definition.) *)
Theorem C13_outer_cancel_reasons : forall s e s' n,
  ostep s e = Some s' -> done_of s n = false -> done_of s' n = true ->
  (exists t, e = ORRelease t /\ opcs s t = ORHold n) \/
  (e = OGrace n /\
   exists r a, nth_error (recs s) n = Some r /\ r_at r = Some a /\
               (closed s = true \/ (a + grace s <= now s)%Z)).
Proof. exact outer_done_reasons. Qed.
Print Assumptions C13_outer_cancel_reasons.

(* WRITER AFTER READERS + NO READER DURING WRITER.  In every reachable state (before or after
   shutdown) in which a writer holds the grant it received through Run - from the reply until
   its unlock - EVERY reader record that exists is done (released, or cancelled by its grace
   goroutine): the writer was granted only after all earlier readers, and no reader has been
   admitted since. *)
Theorem C13_outer_writer_after_readers : forall g es s t n r, orun (oinit g) es = Some s ->
  opcs s t = OWHoldSlot -> nth_error (recs s) n = Some r -> r_done r = true.
Proof. exact outer_writer_excludes_readers. Qed.
Print Assumptions C13_outer_writer_after_readers.

(* ... in the property's words: no thread is a reader that has not been told to stop while a
   writer holds that grant. *)
Theorem C13_outer_no_reader_during_writer : forall g es s t t', orun (oinit g) es = Some s ->
  opcs s t = OWHoldSlot -> ~ rholds s t'.
Proof. exact outer_no_live_reader_with_slot_writer. Qed.
Print Assumptions C13_outer_no_reader_during_writer.

(* Writers served by Run exclude each other (the refutation above needs the shutdown lock). *)
Theorem C13_outer_slot_excl : forall g es s t1 t2, orun (oinit g) es = Some s ->
  opcs s t1 = OWHoldSlot -> opcs s t2 = OWHoldSlot -> t1 = t2.
Proof. exact outer_slot_excl. Qed.
Print Assumptions C13_outer_slot_excl.

(* The WaitGroup equals the number of reader records that are not done (a writer is replied to
   only when it is zero). *)
Theorem C13_outer_wg_counts : forall g es s, orun (oinit g) es = Some s -> wg s = live (recs s).
Proof. exact outer_wg_counts. Qed.
Print Assumptions C13_outer_wg_counts.

(* An RLock that reports an error (context done, lock closed) changes nothing but the caller's
   own program counter and result: no record, no WaitGroup count, no token. (Any state.) *)
Theorem C13_outer_error_holds_nothing : forall s e s' t,
  e = ORCtx t \/ e = ORClosed t \/ (e = ORGot t /\ resps s t = Some PErr) ->
  ostep s e = Some s' ->
  recs s' = recs s /\ wg s' = wg s /\ oslot s' = oslot s /\ owner s' = owner s /\ rcs s' = rcs s /\
  opcs s' t = OIdle /\ (ores s' t = RCtxErr \/ ores s' t = RClosed) /\
  (forall x, x <> t -> opcs s' x = opcs s x).
Proof. exact outer_error_holds_nothing_step. Qed.
Print Assumptions C13_outer_error_holds_nothing.

(* GRACE.  While the lock is running (not shut down), the grace goroutine of a reader that has
   not released runs - and cancels the reader's context - only when at least the grace period
   has elapsed since it was spawned; it is spawned only by a writer's handleHold (after the
   writer's arrival) or by Run's deferred function. *)
Theorem C13_outer_grace : forall s s' n, ostep s (OGrace n) = Some s' ->
  done_of s n = false -> closed s = false ->
  exists r a, nth_error (recs s) n = Some r /\ r_at r = Some a /\ (a + grace s <= now s)%Z.
Proof. exact outer_grace. Qed.
Print Assumptions C13_outer_grace.

(* CAUSE.  [r_cause] is context.Cause of the reader's context (None while it is live).  In every
   reachable state: the context is live iff it has no cause; it carries the parent's cause only
   if the parent context has ended; and a reader that was cancelled by rcancel - its own release,
   a writer after the grace period, or shutdown - while its parent is still live carries the
   CONFIGURED cause. *)
Theorem C13_outer_cause : forall g es s n r, orun (oinit g) es = Some s -> nth_error (recs s) n = Some r ->
  (r_cause r = None <-> rctx_done s r = false) /\
  (r_cause r = Some CParent -> cdn s (r_ctx r) = true) /\
  (r_done r = true -> cdn s (r_ctx r) = false -> r_cause r = Some CConfigured).
Proof. exact outer_cause. Qed.
Print Assumptions C13_outer_cause.

(* INDEX FRESH.  Whenever Run is about to register a reader, no entry of rcancels has the index
   rcancelx it is going to use (so `rcancels[i] = ...` never overwrites a live entry and the
   model's delete-before-insert is the identity) - also after a writer reset rcancelx to 0,
   because wg.Wait() emptied the map before any new registration. *)
Theorem C13_outer_index_fresh : forall g es s t c, orun (oinit g) es = Some s ->
  runpc s = RunReg (HR t c) ->
  (forall i n, In (i, n) (rcs s) -> i <> rcx s) /\ del_idx (rcx s) (rcs s) = rcs s.
Proof. exact outer_index_fresh. Qed.
Print Assumptions C13_outer_index_fresh.

(* ... and every entry of rcancels is a live (not done) record carrying that index. *)
Theorem C13_outer_rcancels_live : forall g es s i n, orun (oinit g) es = Some s -> In (i, n) (rcs s) ->
  exists r, nth_error (recs s) n = Some r /\ r_idx r = i /\ r_done r = false.
Proof. exact outer_rcancels_live. Qed.
Print Assumptions C13_outer_rcancels_live.

(* REGISTRATIONS COME ONLY WITH A GRANT (any state, any event).  What the lock "holds" for a reader
   is an entry of rcancels and one count of the WaitGroup that writers wait for.  An entry that is
   new after a step was made by Run's registration step for a reader request, and that same step
   counts the WaitGroup up by one and posts the grant of that very record into the requesting
   thread's response cell; no other event adds one.  Together with C13_outer_error_holds_nothing
   (the three error returns of RLock touch neither rcancels nor the WaitGroup) and
   C13_outer_rcancels_live: an RLock that reports an error has registered nothing.  The harness
   observes len(rcancels) at every quiescent point against the readers that were told "nil". *)
Theorem C13_outer_entry_only_with_grant : forall s e s' p,
  ostep s e = Some s' -> In p (rcs s') -> ~ In p (rcs s) ->
  e = RunRegR /\ exists t c, runpc s = RunReg (HR t c) /\ snd p = length (recs s) /\
                             fst p = rcx s /\ resps s' t = Some (PGrant (snd p)) /\
                             wg s' = (wg s + 1)%Z.
Proof. exact outer_entry_only_with_grant. Qed.
Print Assumptions C13_outer_entry_only_with_grant.

(* REGISTRATIONS, ALL SCHEDULES (1): rcancels and the reader records that are not done are in
   bijection in every reachable state - every entry (i, n) is record n, not done, carrying index
   i; every not-done record has its entry; the indices of the entries are pairwise distinct, also
   across writer epochs (a writer resets rcancelx to 0); and the WaitGroup equals the number of
   not-done records. *)
Theorem C13_outer_registrations : forall g es s, orun (oinit g) es = Some s ->
  (forall i n, In (i, n) (rcs s) ->
               exists r, nth_error (recs s) n = Some r /\ r_idx r = i /\ r_done r = false) /\
  (forall n r, nth_error (recs s) n = Some r -> r_done r = false -> In (r_idx r, n) (rcs s)) /\
  NoDup (map fst (rcs s)) /\
  wg s = live (recs s).
Proof. exact outer_registrations. Qed.
Print Assumptions C13_outer_registrations.

(* (2) A RELEASE IS KEYED BY THE RECORD (the closure's own [done] flag), not by the map index:
   when a reader calls its cancel func - at any time, e.g. long after a writer cancelled it, the
   writer unlocked and ANOTHER reader was registered under the same index - every other record
   and every other record's entry are exactly as before; and if the record was already done,
   nothing at all changes (records, rcancels, WaitGroup).  A variant that looks the index up in
   the map (seeded change C13-r3m2) falsifies this: there the stale release removes the new
   reader's entry and counts the WaitGroup down. *)
Theorem C13_outer_release_only_own : forall g es s t n s', orun (oinit g) es = Some s ->
  opcs s t = ORHold n -> ostep s (ORRelease t) = Some s' ->
  (forall m, m <> n -> nth_error (recs s') m = nth_error (recs s) m) /\
  (forall i m, m <> n -> (In (i, m) (rcs s') <-> In (i, m) (rcs s))) /\
  (done_of s n = true -> recs s' = recs s /\ rcs s' = rcs s /\ wg s' = wg s).
Proof. exact outer_release_only_own. Qed.
Print Assumptions C13_outer_release_only_own.

(* ... the same for the rcancelGrace goroutine of record n (it may be a stale one too). *)
Theorem C13_outer_grace_only_own : forall g es s n s', orun (oinit g) es = Some s ->
  ostep s (OGrace n) = Some s' ->
  (forall m, m <> n -> rec_eq (nth_error (recs s) m) (nth_error (recs s') m)) /\
  (forall i m, m <> n -> (In (i, m) (rcs s') <-> In (i, m) (rcs s))).
Proof. exact outer_grace_only_own. Qed.
Print Assumptions C13_outer_grace_only_own.

(* (3) OWNERSHIP, ALL SCHEDULES while the lock is running: every entry of rcancels belongs to a
   reader thread that holds the read lock (RLock returned nil, cancel func not yet called) or
   whose grant sits in its response cell - so an acquisition that reported an error has left no
   registration, whatever the random choices of the selects were. *)
Theorem C13_outer_entries_owned : forall g es s i n, orun (oinit g) es = Some s -> closed s = false ->
  In (i, n) (rcs s) ->
  exists r, nth_error (recs s) n = Some r /\ r_idx r = i /\ r_done r = false /\
            (opcs s (r_tid r) = ORHold n \/
             exists c, opcs s (r_tid r) = ORResp c /\ resps s (r_tid r) = Some (PGrant n)).
Proof. exact outer_entries_owned. Qed.
Print Assumptions C13_outer_entries_owned.

(* ... in particular an idle thread - e.g. one whose RLock has just reported an error - owns none. *)
Theorem C13_outer_idle_owns_nothing : forall g es s t i n r, orun (oinit g) es = Some s -> closed s = false ->
  opcs s t = OIdle -> In (i, n) (rcs s) -> nth_error (recs s) n = Some r -> r_tid r <> t.
Proof. exact outer_idle_owns_nothing. Qed.
Print Assumptions C13_outer_idle_owns_nothing.

(* ---------------------------------- oracles ------------------------------------------- *)

(* The boolean oracles evaluated on the implementation's observations decide the Spec
   predicates: FIFO (grant log is a prefix of the arrival log), exclusion per key over the
   positions of the status list, entry count = keys in use. *)
Theorem C13_oracle_fifo_sound : forall arrivals grants,
  fifo_obs arrivals grants = true <-> fifo arrivals grants.
Proof. exact fifo_obs_sound. Qed.
Print Assumptions C13_oracle_fifo_sound.

Theorem C13_oracle_excl_sound : forall keys st,
  excl_obs keys st = true <-> forall k, In k keys -> excl_at st k.
Proof. exact excl_obs_sound. Qed.
Print Assumptions C13_oracle_excl_sound.

Theorem C13_oracle_no_leak_sound : forall keys st entries,
  no_leak_obs keys st entries = true <-> entries = used_keys keys st.
Proof. exact no_leak_obs_sound. Qed.
Print Assumptions C13_oracle_no_leak_sound.
