(* C13 — lock primitives: mutual exclusion, FIFO grant, clean cancellation, no leaked per-key
   state, outer-cancel rules.  Statements only; every proof is [exact <lemma of C13/Proofs*.v>].

   Everywhere: a lock is an event system (C13/Model_*.v) whose events are the ATOMIC steps of the
   Go methods, split wherever the code releases a lock or may block, so a schedule [es] — any
   list of events, of any length, over any number of thread ids — is an arbitrary interleaving,
   context switches between a map look-up and the following mutex operation included.
   "Goroutines that pair their calls correctly" is built into the step functions: an event of a
   thread that is not at that program point (releasing what it was not granted, a second call
   while one is in flight) is not enabled, so [run init es = Some s] ranges exactly over the
   correctly paired interleavings.  Go-runtime assumption (C13/Common.v): senders blocked on a
   full channel are served in FIFO order. *)
From Kit Require Import C13.Model_FifoMutex C13.Model_FifoMap C13.Model_CMap C13.Model_Ctx
  C13.Model_Outer C13.Spec C13.Check
  C13.Proofs_Fifo C13.Proofs_Ctx C13.Proofs_Refuted C13.Proofs_Outer.

(* ---------------------------------- fifo.Mutex ---------------------------------------- *)

(* At most one thread is between the return of its Lock and its Unlock, in every reachable state. *)
Theorem C13_fifo_excl : forall es s, frun finit es = Some s ->
  excl (fun t => fpcs s t = FHold) (fun _ => False).
Proof. exact fifo_excl_all. Qed.
Print Assumptions C13_fifo_excl.

(* Grants happen in arrival order: the log of grants is a prefix of the log of arrivals. *)
Theorem C13_fifo_order : forall es s, frun finit es = Some s -> fifo (farr s) (fgrants s).
Proof. exact fifo_order_all. Qed.
Print Assumptions C13_fifo_order.

(* ... and the arrivals not yet granted are exactly the blocked senders, in order; the lock is
   held iff its channel is full; nobody waits on a free lock. *)
Theorem C13_fifo_waiters : forall es s, frun finit es = Some s ->
  farr s = fgrants s ++ sendq (fch s) /\ NoDup (sendq (fch s)) /\
  (forall t, In t (sendq (fch s)) <-> fpcs s t = FWait) /\
  (slot (fch s) = false -> sendq (fch s) = [] /\ forall t, fpcs s t <> FHold) /\
  (slot (fch s) = true -> exists t, fpcs s t = FHold).
Proof. exact fifo_waiters_all. Qed.
Print Assumptions C13_fifo_waiters.

(* The holder's Unlock is always enabled and hands the lock to the oldest waiter in the same step. *)
Theorem C13_fifo_unlock_grants_head : forall es s t t' q, frun finit es = Some s ->
  fpcs s t = FHold -> sendq (fch s) = t' :: q ->
  exists s', fstep s (FUnlock t) = Some s' /\ fpcs s' t' = FHold /\ sendq (fch s') = q.
Proof. exact fifo_unlock_grants_head. Qed.
Print Assumptions C13_fifo_unlock_grants_head.

(* ---------------------------------- lock.Context -------------------------------------- *)

(* The 1-slot token admits ONE holder at a time, readers included: two threads between taking
   the token and giving it back are the same thread. *)
Theorem C13_ctx_excl : forall es s, xrun xinit es = Some s ->
  excl (fun t => owns s t) (fun _ => False).
Proof. exact ctx_excl_all. Qed.
Print Assumptions C13_ctx_excl.

(* A call that returned ctx.Err() is back at rest and owns nothing ... *)
Theorem C13_ctx_error_holds_nothing : forall es s t, xrun xinit es = Some s ->
  xres s t = Some false -> xpcs s t = XIdle /\ ~ owns s t.
Proof. exact ctx_error_holds_nothing_all. Qed.
Print Assumptions C13_ctx_error_holds_nothing.

(* ... and the error return itself (in ANY state) leaves the token, the RWMutex and every other
   thread exactly as they were. *)
Theorem C13_ctx_error_step : forall s t s', xstep s (XErr t) = Some s' ->
  tok s' = tok s /\ rww s' = rww s /\ rwr s' = rwr s /\ xpcs s' t = XIdle /\
  xres s' t = Some false /\ ~ owns s' t /\ (forall x, x <> t -> xpcs s' x = xpcs s x).
Proof. exact ctx_error_holds_nothing_step. Qed.
Print Assumptions C13_ctx_error_step.

(* A waiter whose context is done can return at once, whatever the rest of the system does. *)
Theorem C13_ctx_cancel_unblocks : forall s t w c, xpcs s t = XSel w c -> cdone s c = true ->
  exists s', xstep s (XErr t) = Some s' /\ xpcs s' t = XIdle /\ xres s' t = Some false.
Proof. exact ctx_cancel_unblocks_all. Qed.
Print Assumptions C13_ctx_cancel_unblocks.

(* No stuck lock: when nobody owns the token (in particular after any number of error returns)
   a waiter can take it and is then granted the RWMutex immediately. *)
Theorem C13_ctx_free_token_take : forall es s t w c, xrun xinit es = Some s -> xpcs s t = XSel w c ->
  (forall t', ~ owns s t') ->
  exists s1 s2, xstep s (XTake t) = Some s1 /\ xstep s1 (XRW t) = Some s2 /\ xpcs s2 t = XHold w.
Proof. exact ctx_free_token_take. Qed.
Print Assumptions C13_ctx_free_token_take.

(* ---------------------------------- cmap.Mutex ---------------------------------------- *)

(* REFUTED (known finding): with a DeleteUnlock while another thread waits, two threads are in
   the exclusive critical section of ONE key at once. *)
Theorem C13_cmap_delete_refuted : exists es s k t1 t2,
  crun cinit es = Some s /\ t1 <> t2 /\ fatal s = false /\
  (exists o1, cpcs s t1 = CInW k o1) /\ (exists o2, cpcs s t2 = CInW k o2) /\
  ~ excl (fun t => exists o, cpcs s t = CInW k o) (fun t => exists o, cpcs s t = CInR k o).
Proof. exact cmap_delete_refuted. Qed.
Print Assumptions C13_cmap_delete_refuted.

(* ... and the former waiter's Unlock then releases the third party's mutex. *)
Theorem C13_cmap_delete_refuted_unlock : exists es s k t2 t3 o3,
  crun cinit es = Some s /\ fatal s = false /\ cpcs s t2 = CIdle /\ cpcs s t3 = CInW k o3 /\
  citems s k = Some o3 /\ rw_w (cobjs s o3) = false.
Proof. exact cmap_delete_refuted_unlock. Qed.
Print Assumptions C13_cmap_delete_refuted_unlock.

(* Reader variant: DeleteRUnlock while a second reader is inside; a writer then holds the key
   together with that reader. *)
Theorem C13_cmap_delete_reader_refuted : exists es s k tw tr,
  crun cinit es = Some s /\ fatal s = false /\
  (exists o, cpcs s tw = CInW k o) /\ (exists o, cpcs s tr = CInR k o).
Proof. exact cmap_delete_reader_refuted. Qed.
Print Assumptions C13_cmap_delete_reader_refuted.

(* ---------------------------------- lock.OuterCancel ---------------------------------- *)

(* REFUTED (known finding): a writer granted before shutdown and a writer arriving after it
   hold simultaneously (for every grace period g). *)
Theorem C13_outer_excl_refuted : forall g, exists es s t1 t2,
  orun (oinit g) es = Some s /\ t1 <> t2 /\ wholds s t1 /\ wholds s t2 /\
  ~ excl (wholds s) (rholds s).
Proof. exact outer_excl_refuted. Qed.
Print Assumptions C13_outer_excl_refuted.

(* REFUTED, reader side of the same defect: a writer waiting for the grace period is granted at
   shutdown while a reader granted earlier has not been told to stop yet. *)
Theorem C13_outer_shutdown_reader_refuted : forall g, (0 < g)%Z -> exists es s tw tr,
  orun (oinit g) es = Some s /\ wholds s tw /\ rholds s tr.
Proof. exact outer_shutdown_reader_refuted. Qed.
Print Assumptions C13_outer_shutdown_reader_refuted.

(* GRACE / CANCEL REASONS (any state, any event): the only events that can set a reader
   record's own [done] flag are the owner's release and the record's rcancelGrace goroutine, and
   the latter runs only after shutdown or once the grace period has elapsed since a writer (or
   the shutdown) spawned it — never earlier. (The parent context is the only other way for the
   reader's context to end: [rctx_done s r = r_done r || cdn s (r_ctx r)] by definition.) *)
Theorem C13_outer_cancel_reasons : forall s e s' n,
  ostep s e = Some s' -> done_of s n = false -> done_of s' n = true ->
  (exists t, e = ORRelease t /\ opcs s t = ORHold n) \/
  (e = OGrace n /\
   exists r a, nth_error (recs s) n = Some r /\ r_at r = Some a /\
               (closed s = true \/ (a + grace s <= now s)%Z)).
Proof. exact outer_done_reasons. Qed.
Print Assumptions C13_outer_cancel_reasons.
