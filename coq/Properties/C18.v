(* C18 — dir.Write: the target is always one complete file set; crashes never block later
   writes. Statements only; every proof is [exact <lemma of C18/Proofs*.v>].

   Vocabulary (C18/Model.v, C18/Spec.v, C18/Proofs.v):
   a history [h : list op] is any sequence of [OWrite ts fl crash] (one call of Write with
   timestamp [ts] and file set [fl]; [crash = Some k]: the process dies after k filesystem
   steps of that call and the next call comes from a new Dir value) and [ORestart] (a new Dir
   value without a crash); [run_hist v base st h] runs it on the model of dir.go ([v = Fixed]:
   the current tree, [Original]: before the stale-link fix) and returns the final
   (disk, Dir.prev) state and the outcome of every call; [init_fs base pre] is an empty root
   with the base directory already made ([pre = true]) or not; [ops_ok h]: every call draws a
   new timestamp and every file set is a map (unique names); [resolve fs (target base)] is
   what a reader of the target path sees. *)
From Kit Require Import C18.Model C18.Spec C18.Check C18.Proofs_fs C18.Proofs_inv C18.Proofs C18.Proofs_oracle C18.Proofs_reader.

(* At EVERY reachable disk state — after every history of Writes of any length, each of them
   complete, failed, or cut off after any number k of its filesystem steps (so: every
   intermediate state of every Write, which is also all a concurrent reader can ever see),
   with new Dir values in between — the target is absent (and then no Write has returned nil
   yet) or resolves to a directory holding exactly the file set of ONE of the calls made.
   Holds for the code before and after the fix. *)
Theorem C18_always_complete_set : forall base v pre h s outs,
  ops_ok h ->
  run_hist v base (mkSt (init_fs base pre) None) h = (s, outs) ->
  view_ok (calls_of h) (some_done outs) (resolve (sfs s) (target base)).
Proof. exact always_complete_set. Qed.
Print Assumptions C18_always_complete_set.

(* Recovery on the current tree: after ANY history (crashes at any step included), a Write of
   a valid file set (unique single-component names) with a new timestamp — from a fresh Dir
   value ([prev = None]) or from the live one — returns nil, and the target then shows exactly
   the new set. *)
Theorem C18_recovery : forall base pre h s outs prev ts fl,
  ops_ok h ->
  run_hist Fixed base (mkSt (init_fs base pre) None) h = (s, outs) ->
  prev = None \/ prev = sprev s ->
  ~ In ts (map fst (ops_hist h)) -> files_valid fl ->
  exists s', write Fixed base (mkSt (sfs s) prev) ts fl None = (s', Done) /\
             shows (resolve (sfs s') (target base)) fl.
Proof. exact recovery. Qed.
Print Assumptions C18_recovery.

(* The code before the fix: a one-file Write cut off after its Symlink (4 steps) leaves
   <target>.new behind, and the next Write of a valid set from a fresh Dir returns an error. *)
Theorem C18_stale_new_refuted :
  exists base h ts fl s outs,
    ops_ok h /\ run_hist Original base (mkSt (init_fs base false) None) h = (s, outs) /\
    ~ In ts (map fst (ops_hist h)) /\ files_valid fl /\
    fs_get (sfs s) (tnew base) <> None /\
    snd (write Original base (mkSt (sfs s) None) ts fl None) = Failed.
Proof. exact stale_new_refuted. Qed.
Print Assumptions C18_stale_new_refuted.

(* ... and forever: before the fix, on ANY disk where <target>.new exists, EVERY Write (any
   Dir value, timestamp, file set) fails and leaves <target>.new in place. *)
Theorem C18_stale_new_stuck_forever : forall base s ts fl,
  fs_get (sfs s) (tnew base) <> None ->
  exists s', write Original base s ts fl None = (s', Failed) /\
             fs_get (sfs s') (tnew base) <> None.
Proof. exact stale_new_stuck. Qed.
Print Assumptions C18_stale_new_stuck_forever.

(* Without crashes (one Dir value, every call a complete Write of a set with single-component
   names): every call returns nil and after each of them exactly one version directory — the
   one of the last call — remains under the base. *)
Theorem C18_no_crash_gc : forall base pre h ts fl s outs,
  ops_ok (h ++ [OWrite ts fl None]) -> Forall clean_op (h ++ [OWrite ts fl None]) ->
  run_hist Fixed base (mkSt (init_fs base pre) None) (h ++ [OWrite ts fl None]) = (s, outs) ->
  Forall (eq Done) outs /\ ver_dirs (sfs s) base = [ts].
Proof. exact no_crash_gc. Qed.
Print Assumptions C18_no_crash_gc.

(* What can be on disk after any history (crashes included): only the directories on the way
   to the base, version directories of calls that were made, in them only files of that very
   call (name and content), the target link and the .new link, both pointing to a version
   directory of a call that was made. So a crash leaks at most version directories (complete
   or partial) and one <target>.new link — nothing else, and nothing outside the base. *)
Theorem C18_leak_only_dirs : forall base v pre h s outs p n,
  ops_ok h ->
  run_hist v base (mkSt (init_fs base pre) None) h = (s, outs) ->
  fs_get (sfs s) p = Some n ->
  (prefix p base /\ n = NDir) \/
  (exists ts, In ts (map fst (ops_hist h)) /\
     ((p = ver base ts /\ n = NDir) \/
      (p = target base /\ n = NLink (ver base ts)) \/
      (p = tnew base /\ n = NLink (ver base ts)))) \/
  (exists ts fl k b, In (ts, fl) (ops_hist h) /\ In ([k], b) fl /\
     p = ver base ts ++ [CN k] /\ n = NFile b).
Proof. exact leak_only_dirs. Qed.
Print Assumptions C18_leak_only_dirs.

(* The boolean oracles the harness evaluates on the implementation's observations decide the
   spec predicates ... *)
Theorem C18_view_oracle_sound : forall calls succeeded v,
  view_ok_b calls succeeded v = true <-> view_ok calls succeeded v.
Proof. exact view_ok_b_sound. Qed.
Print Assumptions C18_view_oracle_sound.

Theorem C18_shows_oracle_sound : forall v fl, shows_b v fl = true <-> shows v fl.
Proof. exact shows_b_sound. Qed.
Print Assumptions C18_shows_oracle_sound.

Theorem C18_files_valid_oracle_sound : forall fl, files_valid_b fl = true <-> files_valid fl.
Proof. exact files_valid_b_sound. Qed.
Print Assumptions C18_files_valid_oracle_sound.

(* ... and the oracle of a whole observed case is true exactly when, for every call of the
   history: the tree observed after the call and every view of the concurrent reader satisfy
   [view_ok]; a call that returned nil shows its own set; a call with a valid set did not
   fail; and as long as one Dir value made only successful calls, exactly one version
   directory is on disk. *)
Theorem C18_oracle_sound : forall b pre ops,
  oracle (Case b pre ops) = true <-> obs_spec (map CN b) [] false true 0%N ops.
Proof. exact oracle_sound. Qed.
Print Assumptions C18_oracle_sound.

(* ---------------------------------------------------------------------------------------
   The full trace. [hist_trace base v st h] is the list of ALL filesystem states the history
   passes through: for every call the state before its first step, after each of its steps
   (as many as it executes before returning, failing or being cut off) — not only the states
   at which a call ends. It is the list the harness's model comparison evaluates call by call
   ([C18_checked_trace_is_op_trace]). *)

(* At every instant: every state between any two filesystem steps of any Write of any
   history shows nothing or exactly the set of one call. *)
Theorem C18_every_instant : forall base v pre h f,
  ops_ok h -> In f (hist_trace base v (mkSt (init_fs base pre) None) h) ->
  resolve f (target base) = VAbsent \/
  exists fl, In fl (calls_of h) /\ shows (resolve f (target base)) fl.
Proof. exact every_instant. Qed.
Print Assumptions C18_every_instant.

(* A reader that is not atomic. It reads the link at some instant [fi] (getting [to]), then
   reads the listing and the files THROUGH [to] at arbitrary later instants [fj] while Writes
   (and crashes, and restarts) go on, and reads the link again at [fk], finding [to] again.
   Then at every instant in between the link was [to] (the target never returns to a version
   it has left), nothing at or below [to] differed from what was there at [fi], and the
   directory listed as exactly the set of one call: whatever mixture of instants the reader's
   individual reads fell on, it assembled that one complete set. This is the validation
   protocol of the harness's reader goroutines. *)
Theorem C18_reader_snapshot_consistent : forall base v pre h a fi b fk c to,
  ops_ok h ->
  hist_trace base v (mkSt (init_fs base pre) None) h = a ++ fi :: b ++ fk :: c ->
  fs_get fi (target base) = Some (NLink to) ->
  fs_get fk (target base) = Some (NLink to) ->
  exists fl, In fl (calls_of h) /\
    forall fj, In fj (fi :: b ++ [fk]) ->
      fs_get fj (target base) = Some (NLink to) /\
      (forall q, fs_get fj (to ++ q) = fs_get fi (to ++ q)) /\
      shows (view_dir fj to) fl.
Proof. exact reader_snapshot. Qed.
Print Assumptions C18_reader_snapshot_consistent.

(* The list of states [check_op] (C18/Check.v) walks for one observed call — to compare the
   views of the concurrent reader with the model — is the trace of that call. *)
Theorem C18_checked_trace_is_op_trace : forall base v s idx fl crash,
  trace_steps (sfs s) (match crash with
                       | Some k => firstn k (write_steps v base (sprev s) idx fl)
                       | None => write_steps v base (sprev s) idx fl
                       end) = op_trace base v s (OWrite idx fl crash).
Proof. exact check_trace_is_op_trace. Qed.
Print Assumptions C18_checked_trace_is_op_trace.

(* The premise [ops_ok] (a new timestamp per call) cannot be dropped: two Writes of one Dir
   value drawing the same UnixNano both return nil and leave the target dangling. (Not
   reproducible on the implementation: time.Now is not injectable in dir.go.) *)
Theorem C18_same_timestamp_refuted :
  exists base h s outs,
    (forall ts fl, In (ts, fl) (ops_hist h) -> files_valid fl) /\
    run_hist Fixed base (mkSt (init_fs base false) None) h = (s, outs) /\
    outs = [Done; Done] /\ resolve (sfs s) (target base) = VBroken.
Proof. exact same_timestamp_refuted. Qed.
Print Assumptions C18_same_timestamp_refuted.

(* [C18_no_crash_gc] needs ONE Dir value, not only the absence of crashes: after a clean
   restart (a new Dir, no call crashed, every call returned nil) the version directory of the
   previous process stays on disk next to the current one. The implementation does the same
   (replayed through the harness: the observed tree holds both directories). *)
Theorem C18_restart_leak_refuted :
  exists base h s outs,
    ops_ok h /\
    Forall (fun o => match o with
                     | OWrite _ fl None => files_valid fl
                     | OWrite _ _ (Some _) => False
                     | ORestart => True
                     end) h /\
    run_hist Fixed base (mkSt (init_fs base false) None) h = (s, outs) /\
    outs = [Done; Done] /\ ver_dirs (sfs s) base = [1%N; 0%N].
Proof. exact restart_leak_refuted. Qed.
Print Assumptions C18_restart_leak_refuted.
