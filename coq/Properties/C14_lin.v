(* C14 (concurrent half) — cmap.Map, cmap.Atomic (+ AtomicValue) and slice.Slice are
   linearizable.  Statements only; every proof is [exact <lemma of C14/Lin*.v>]. *)
From Coq Require Import List ZArith.
From Kit Require Import C14.LinSpec C14.LinModel C14.LinCheck C14.LinProofs.

(* The oracle applied to the histories recorded from the Go code is sound: whenever the
   checker accepts a history (of ANY length), some total order of its calls respects real time
   and is a legal run of the ordinary map. *)
Theorem C14_map_lin_check_sound : forall h, map_lin_check h = true -> map_linearizable h.
Proof. exact map_lin_check_sound. Qed.
Print Assumptions C14_map_lin_check_sound.

(* ... and complete: a linearizable history whose response stamps come after the invocation
   stamps is never rejected (no false alarm). *)
Theorem C14_map_lin_check_complete : forall h,
  wf_hist map_op h = true -> map_linearizable h -> map_lin_check h = true.
Proof. exact map_lin_check_complete. Qed.
Print Assumptions C14_map_lin_check_complete.

Theorem C14_atomic_lin_check_sound : forall h, at_lin_check h = true -> at_linearizable h.
Proof. exact at_lin_check_sound. Qed.
Print Assumptions C14_atomic_lin_check_sound.

Theorem C14_atomic_lin_check_complete : forall h,
  wf_hist at_op h = true -> at_linearizable h -> at_lin_check h = true.
Proof. exact at_lin_check_complete. Qed.
Print Assumptions C14_atomic_lin_check_complete.

Theorem C14_slice_lin_check_sound : forall h, sl_lin_check h = true -> sl_linearizable h.
Proof. exact sl_lin_check_sound. Qed.
Print Assumptions C14_slice_lin_check_sound.

Theorem C14_slice_lin_check_complete : forall h,
  wf_hist sl_op h = true -> sl_linearizable h -> sl_lin_check h = true.
Proof. exact sl_lin_check_complete. Qed.
Print Assumptions C14_slice_lin_check_complete.
