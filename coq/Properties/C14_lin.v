(* C14 (concurrent half) — cmap.Map, cmap.Atomic (+ AtomicValue) and slice.Slice are
   linearizable.  Statements only; every proof is [exact <lemma of C14/Lin*.v>]. *)
From Coq Require Import List ZArith.
From Kit Require Import C14.LinSpec C14.LinModel C14.LinCheck C14.LinProofs C14.LinSched.

(* cmap.Map.  For EVERY schedule (any list of Invoke / Acquire / Effect / Release / Return
   events of any number of threads that the lock model allows: read-locked sections may
   overlap, a write-locked section excludes everything) of the event-system model of map.go,
   in EVERY state reached: the history of completed calls, together with the calls still in
   flight (standard completion rule: some of them get a response after everything observed,
   the others are dropped), is linearizable w.r.t. an ordinary map — some total order of the
   calls respects real-time precedence and is a legal sequential run from the empty map. *)
Theorem C14_map_linearizable : forall es s, map_run map_init es = Some s ->
  forall pend, (forall t i o, pending amap map_op s t i o -> In (t, i, o) pend) ->
  linearizable_pending map_s0 map_legal (hist s) (clock s) pend.
Proof. exact map_sched_linearizable. Qed.
Print Assumptions C14_map_linearizable.

(* ... in particular, whenever no call is in flight, the recorded history itself. *)
Theorem C14_map_linearizable_quiescent : forall es s, map_run map_init es = Some s ->
  quiescent amap map_op s -> map_linearizable (hist s).
Proof. exact map_sched_linearizable_quiescent. Qed.
Print Assumptions C14_map_linearizable_quiescent.

(* cmap.Atomic and the AtomicValue counters it hands out (each with its own RWMutex;
   GetOrCreate = read-locked look-up, then on a miss a write-locked re-check/create): the same
   for every schedule, w.r.t. a map from keys to counter objects.  Methods of a counter can
   only be invoked on an object that exists (a pointer obtained from the map). *)
Theorem C14_atomic_linearizable : forall es s, at_run at_init es = Some s ->
  forall pend, (forall t i o, pending at_state at_op s t i o -> In (t, i, o) pend) ->
  linearizable_pending at_s0 at_legal (hist s) (clock s) pend.
Proof. exact at_sched_linearizable. Qed.
Print Assumptions C14_atomic_linearizable.

Theorem C14_atomic_linearizable_quiescent : forall es s, at_run at_init es = Some s ->
  quiescent at_state at_op s -> at_linearizable (hist s).
Proof. exact at_sched_linearizable_quiescent. Qed.
Print Assumptions C14_atomic_linearizable_quiescent.

(* slice.Slice: the same for every schedule, w.r.t. an append-only sequence (Append returns
   the new length). *)
Theorem C14_slice_linearizable : forall es s, sl_run sl_init es = Some s ->
  forall pend, (forall t i o, pending (list Z) sl_op s t i o -> In (t, i, o) pend) ->
  linearizable_pending sl_s0 sl_legal (hist s) (clock s) pend.
Proof. exact sl_sched_linearizable. Qed.
Print Assumptions C14_slice_linearizable.

Theorem C14_slice_linearizable_quiescent : forall es s, sl_run sl_init es = Some s ->
  quiescent (list Z) sl_op s -> sl_linearizable (hist s).
Proof. exact sl_sched_linearizable_quiescent. Qed.
Print Assumptions C14_slice_linearizable_quiescent.

(* The section structure matters (counter-models, NOT the code): a LoadAndDelete split into a
   read-locked Load and a separately locked Delete, and a GetOrCreate that does not re-check
   under the write lock, both have schedules whose history is not linearizable. *)
Theorem C14_map_split_sections_refuted : exists es s,
  run amap map_op map_code_split (fun _ _ => true) map_init es = Some s /\
  ~ map_linearizable (hist s).
Proof. exact map_split_sections_refuted. Qed.
Print Assumptions C14_map_split_sections_refuted.

Theorem C14_atomic_nocheck_refuted : exists es s,
  run at_state at_op at_code_nocheck at_can_invoke at_init es = Some s /\
  ~ at_linearizable (hist s).
Proof. exact at_nocheck_refuted. Qed.
Print Assumptions C14_atomic_nocheck_refuted.

(* The oracle applied to the histories recorded from the Go code is sound: whenever the
   checker accepts a history (of ANY length), some total order of its calls respects real time
   and is a legal run of the ordinary map. *)
Theorem C14_map_lin_check_sound : forall h, map_lin_check h = true -> map_linearizable h.
Proof. exact map_lin_check_sound. Qed.
Print Assumptions C14_map_lin_check_sound.

(* ... and complete: a linearizable history whose response stamps come after the invocation
   stamps is never rejected (no false alarm). *)
Theorem C14_map_lin_check_complete : forall h,
  wf_hist map_op h = true -> map_linearizable h -> map_lin_check h = true.
Proof. exact map_lin_check_complete. Qed.
Print Assumptions C14_map_lin_check_complete.

Theorem C14_atomic_lin_check_sound : forall h, at_lin_check h = true -> at_linearizable h.
Proof. exact at_lin_check_sound. Qed.
Print Assumptions C14_atomic_lin_check_sound.

Theorem C14_atomic_lin_check_complete : forall h,
  wf_hist at_op h = true -> at_linearizable h -> at_lin_check h = true.
Proof. exact at_lin_check_complete. Qed.
Print Assumptions C14_atomic_lin_check_complete.

Theorem C14_slice_lin_check_sound : forall h, sl_lin_check h = true -> sl_linearizable h.
Proof. exact sl_lin_check_sound. Qed.
Print Assumptions C14_slice_lin_check_sound.

Theorem C14_slice_lin_check_complete : forall h,
  wf_hist sl_op h = true -> sl_linearizable h -> sl_lin_check h = true.
Proof. exact sl_lin_check_complete. Qed.
Print Assumptions C14_slice_lin_check_complete.
