(* C07 — no input can crash or hang a parser, decoder or crypto entry point.
   Statements only; every proof is [exact <lemma of C07/Proofs*.v or C04/Proofs_Parse.v>].
   [Panic] is a value of the models exactly where the Go run time panics (index / slice bounds,
   make with a negative length, failed single-value type assertion, documented panics of the
   standard library); [Fixed] = the current tree, [Original] = the tree before the fix: commits. *)
From Kit.C07 Require Import Spec Model Check Proofs Proofs_Sym Proofs_Iso Proofs_Dispatch Proofs_Header Proofs_Keys.
From Kit.C04 Require Zone Parse Proofs_Parse.
From Coq Require Import ZArith NArith List String.
Import ListNotations.
Open Scope Z_scope.

(* ---- layer A: kit-owned byte / length level code ---- *)

(* aeskw.Wrap: for EVERY key-material length the result is fully determined — 8 bytes longer
   when the length is a non-zero multiple of 8, an error otherwise (empty key data is refused
   since the C03 fix); in particular never a panic. *)
Theorem C07_kw_wrap_total : forall cekLen, 0 <= cekLen ->
  kw_wrap 16 cekLen = if (cekLen =? 0) || negb (cekLen mod 8 =? 0) then err else Ok (cekLen + 8).
Proof. exact kw_wrap_total. Qed.
Print Assumptions C07_kw_wrap_total.

Theorem C07_kw_wrap_no_panic : forall cekLen, 0 <= cekLen -> kw_wrap 16 cekLen <> Panic.
Proof. exact kw_wrap_no_panic. Qed.
Print Assumptions C07_kw_wrap_no_panic.

(* aeskw.Unwrap on the current tree: for EVERY input length (and capacity) and either outcome of
   the integrity check — a value exactly when the length is a multiple of 8, at least 16, and the
   integrity value matches; an error otherwise. *)
Theorem C07_kw_unwrap_total : forall ctLen ctCap iv_ok, 0 <= ctLen <= ctCap ->
  kw_unwrap Fixed 16 ctLen ctCap iv_ok =
    if (ctLen mod 8 =? 0) && (16 <=? ctLen) && iv_ok then Ok (ctLen - 8) else err.
Proof. exact kw_unwrap_fixed_total. Qed.
Print Assumptions C07_kw_unwrap_total.

Theorem C07_kw_unwrap_no_panic : forall ctLen ctCap iv_ok, 0 <= ctLen <= ctCap ->
  kw_unwrap Fixed 16 ctLen ctCap iv_ok <> Panic.
Proof. exact kw_unwrap_fixed_no_panic. Qed.
Print Assumptions C07_kw_unwrap_no_panic.

(* The code before the fix: every input of 0..7 bytes panics (make with a negative length), 8
   bytes equal to the default IV panic (index into an empty slice), and a valid wrapped key
   followed by 3 stray bytes is accepted. *)
Theorem C07_kw_unwrap_refuted :
  (forall l, 0 <= l < 8 -> forall iv, kw_unwrap Original 16 l l iv = Panic) /\
  kw_unwrap Original 16 8 8 true = Panic /\
  kw_unwrap Original 16 27 27 true = Ok 16.
Proof. exact kw_unwrap_refuted. Qed.
Print Assumptions C07_kw_unwrap_refuted.

(* padding.PadPKCS7 / UnpadPKCS7: EVERY byte string and EVERY block size. *)
Theorem C07_pad_pkcs7_no_panic : forall buf size, pad_pkcs7 buf size <> Panic.
Proof. exact pad_pkcs7_no_panic. Qed.
Print Assumptions C07_pad_pkcs7_no_panic.

Theorem C07_unpad_pkcs7_no_panic : forall buf size, unpad_pkcs7 buf size <> Panic.
Proof. exact unpad_pkcs7_no_panic. Qed.
Print Assumptions C07_unpad_pkcs7_no_panic.

(* aescbcaead constructors: EVERY key length (and capacity), the four exported parameter sets. *)
Theorem C07_cbc_new_no_panic : forall p keyLen keyCap, In p cbc_exported -> 0 <= keyLen <= keyCap ->
  cbc_new p keyLen keyCap <> Panic.
Proof. exact cbc_new_no_panic. Qed.
Print Assumptions C07_cbc_new_no_panic.

(* aescbcaead Seal used as cipher.AEAD demands (16-byte nonce): EVERY plaintext length and
   destination slice. (Any other nonce size is the documented misuse panic.) *)
Theorem C07_cbc_seal_no_panic : forall p dstLen dstCap ptLen,
  In p cbc_exported -> 0 <= dstLen <= dstCap -> 0 <= ptLen ->
  cbc_seal p dstLen dstCap 16 ptLen <> Panic.
Proof. exact cbc_seal_no_panic. Qed.
Print Assumptions C07_cbc_seal_no_panic.

(* aescbcaead Open on the current tree: EVERY ciphertext length, destination slice, either tag
   verdict, and EVERY byte string CBC decryption may produce (it has the length of the
   ciphertext body). *)
Theorem C07_cbc_open_no_panic : forall p dstLen dstCap ctLen tag_valid dec,
  In p cbc_exported -> 0 <= dstLen <= dstCap -> 0 <= ctLen ->
  (p_tag p <= ctLen -> len dec = ctLen - p_tag p) ->
  cbc_open Fixed p dstLen dstCap 16 ctLen tag_valid dec <> Panic.
Proof. exact cbc_open_fixed_no_panic. Qed.
Print Assumptions C07_cbc_open_no_panic.

(* The code before the fix: a ciphertext with a valid tag whose body is not a whole number of
   AES blocks panics in CryptBlocks. *)
Theorem C07_cbc_open_refuted : exists p ctLen dec, In p cbc_exported /\ len dec = ctLen - p_tag p /\
  cbc_open Original p 0 0 16 ctLen true dec = Panic.
Proof. exact cbc_open_refuted. Qed.
Print Assumptions C07_cbc_open_refuted.

(* crypto.EncryptSymmetric: EVERY algorithm string (any bytes), key kind, and EVERY length of
   key, nonce and plaintext. *)
Theorem C07_sym_encrypt_no_panic : forall alg key_oct keyLen nonceLen ptLen,
  0 <= keyLen -> 0 <= nonceLen -> 0 <= ptLen ->
  sym_encrypt alg key_oct keyLen nonceLen ptLen <> Panic.
Proof. exact sym_encrypt_no_panic. Qed.
Print Assumptions C07_sym_encrypt_no_panic.

(* crypto.DecryptSymmetric on the current tree: EVERY algorithm string and EVERY length of key,
   nonce, tag and ciphertext, either tag / integrity verdict, EVERY decrypted byte string. *)
Theorem C07_sym_decrypt_no_panic :
  forall alg key_oct keyLen nonceLen tagLen ctLen ctCap tag_valid iv_ok dec,
  0 <= keyLen -> 0 <= nonceLen -> 0 <= tagLen -> 0 <= ctLen <= ctCap -> len dec = ctLen ->
  sym_decrypt Fixed alg key_oct keyLen nonceLen tagLen ctLen ctCap tag_valid iv_ok dec <> Panic.
Proof. exact sym_decrypt_fixed_no_panic. Qed.
Print Assumptions C07_sym_decrypt_no_panic.

(* The code before the fix: DecryptSymmetric("A128CBC-HS256") with a 5-byte ciphertext and a
   valid tag panics. *)
Theorem C07_sym_decrypt_refuted : exists alg dec, len dec = 5 /\
  sym_decrypt Original alg true 32 16 16 5 5 true false dec = Panic.
Proof. exact sym_decrypt_refuted. Qed.
Print Assumptions C07_sym_decrypt_refuted.

(* The algorithm switches in front of getSHAHash (alg[len-3:]): EVERY algorithm string. *)
Theorem C07_sig_dispatch_no_panic : forall alg, sig_dispatch alg <> Panic.
Proof. exact sig_dispatch_no_panic. Qed.
Print Assumptions C07_sig_dispatch_no_panic.

Theorem C07_enc_dispatch_no_panic : forall alg, enc_dispatch alg <> Panic.
Proof. exact enc_dispatch_no_panic. Qed.
Print Assumptions C07_enc_dispatch_no_panic.

(* ... the slicing helpers themselves are partial; only the switches make them safe. *)
Theorem C07_get_sha_hash_unguarded_refuted : exists alg, get_sha_hash alg = Panic.
Proof. exact get_sha_hash_unguarded_refuted. Qed.
Print Assumptions C07_get_sha_hash_unguarded_refuted.

(* time.ParseISO8601Duration: for EVERY byte string both loops finish within the stated fuel
   (one more than the length of the string) ... *)
Theorem C07_iso_terminates : forall from, parse_iso from <> None.
Proof. exact iso_terminates. Qed.
Print Assumptions C07_iso_terminates.

(* ... and no index or slice expression leaves the string. *)
Theorem C07_iso_no_panic : forall from, parse_iso from <> Some Panic.
Proof. exact iso_no_panic. Qed.
Print Assumptions C07_iso_no_panic.

(* enc/v1 Cipher / KeyAlgorithm UnmarshalJSON and Validate: EVERY byte string. *)
Theorem C07_cipher_unmarshal_no_panic : forall data, cipher_unmarshal data <> Panic.
Proof. exact cipher_unmarshal_no_panic. Qed.
Print Assumptions C07_cipher_unmarshal_no_panic.

Theorem C07_keyalg_unmarshal_no_panic : forall data, keyalg_unmarshal data <> Panic.
Proof. exact keyalg_unmarshal_no_panic. Qed.
Print Assumptions C07_keyalg_unmarshal_no_panic.

Theorem C07_cipher_validate_no_panic : forall c, cipher_validate c <> Panic.
Proof. exact cipher_validate_no_panic. Qed.
Print Assumptions C07_cipher_validate_no_panic.

Theorem C07_keyalg_validate_no_panic : forall a, keyalg_validate a <> Panic.
Proof. exact keyalg_validate_no_panic. Qed.
Print Assumptions C07_keyalg_validate_no_panic.

(* enc/v1 readHeader over an ARBITRARY io.Reader (a script: per Read call the bytes handed over and
   the error returned with them - nil, io.EOF or a failure, with or without data; zero-length
   reads; any chunking; any bytes): the loop finishes within the stated fuel (three more than the
   number of script items) ... *)
Theorem C07_read_header_terminates : forall s, read_header s <> None.
Proof. exact read_header_terminates. Qed.
Print Assumptions C07_read_header_terminates.

(* ... and no index, slice or make of the header scan leaves its bounds (the buffer of
   SegmentSize+17 bytes, lastNewline <= i, n <= SegmentSize). *)
Theorem C07_read_header_no_panic : forall s, read_header s <> Some Panic.
Proof. exact read_header_no_panic. Qed.
Print Assumptions C07_read_header_no_panic.

(* crypto.ParseKey: EVERY byte string and EVERY content type; the two base64 decoders may answer
   anything within the documented contract of encoding/base64 (at most DecodedLen(len(src)) bytes
   written): raw[0], raw[0:5], the make and dst[:n] stay inside their bounds. *)
Theorem C07_parse_key_no_panic : forall raw ct std url,
  (forall n, std = Some n -> 0 <= n <= decoded_len (len (trim_right raw))) ->
  (forall n, url = Some n -> 0 <= n <= decoded_len (len (trim_right raw))) ->
  parse_key raw ct std url <> Panic.
Proof. exact parse_key_no_panic. Qed.
Print Assumptions C07_parse_key_no_panic.

(* cron: NewParser(o).Parse(spec) on the current tree, for EVERY option set without the
   documented two-optionals misuse, EVERY spec, whatever time.LoadLocation / time.ParseDuration
   answer (model and proof in coq/C04). *)
Theorem C07_cron_parse_no_panic : forall o ll pd spec,
  Kit.C04.Parse.new_parser_panics o = false -> Kit.C04.Parse.parse Fixed o ll pd spec <> Panic.
Proof. exact Kit.C04.Proofs_Parse.parse_fixed_no_panic. Qed.
Print Assumptions C07_cron_parse_no_panic.

(* The code before the fix: "TZ=UTC" (time-zone prefix, no field list) panics. *)
Theorem C07_cron_parse_refuted : exists spec,
  Kit.C04.Parse.parse Original Kit.C04.Parse.standard_opts
    (fun _ => Some (Kit.C04.Zone.fixed_zone 0)) (fun _ => None) spec = Panic.
Proof. exact Kit.C04.Proofs_Parse.parse_tz_panic_refuted. Qed.
Print Assumptions C07_cron_parse_refuted.

(* ---- layer B: the type switches / assertions around third-party parsers, by case analysis over
   the dynamic types the upstream call can hand over (the enumerations are trusted base and are
   validated by the harness) ---- *)

(* pem.DecodePEMPrivateKey: every block type x every key type the x509 parsers return. *)
Theorem C07_pem_private_key_no_panic : forall b parsed, decode_pem_private_key Fixed b parsed <> MPanic.
Proof. exact decode_pem_private_key_fixed_no_panic. Qed.
Print Assumptions C07_pem_private_key_no_panic.

(* before the fix: a PKCS#8 block holding an *ecdh.PrivateKey (X25519) *)
Theorem C07_pem_private_key_refuted : exists b parsed, decode_pem_private_key Original b parsed = MPanic.
Proof. exact decode_pem_private_key_refuted. Qed.
Print Assumptions C07_pem_private_key_refuted.

(* crypto.SerializeKey: every dynamic type jwk's Raw() stores; an RSA private key with a prime
   factor 1 is never valid; for an ECDSA private key EVERY scalar (any byte length), given that the
   order of the curve's group fits the curve's byte size. *)
Theorem C07_serialize_key_no_panic : forall raw unit_prime rsa_valid ec_d ec_n ec_size,
  (unit_prime = true -> rsa_valid = false) -> ec_n <= 256 ^ ec_size ->
  serialize_key Fixed raw unit_prime rsa_valid ec_d ec_n ec_size <> MPanic.
Proof. exact serialize_key_fixed_no_panic. Qed.
Print Assumptions C07_serialize_key_no_panic.

Theorem C07_serialize_key_refuted : exists raw unit_prime rsa_valid,
  (unit_prime = true -> rsa_valid = false) /\ serialize_key Original raw unit_prime rsa_valid 0 0 0 = MPanic.
Proof. exact serialize_key_refuted. Qed.
Print Assumptions C07_serialize_key_refuted.

(* before the fix: an ECDSA private key whose scalar needs more bytes than the curve has *)
Theorem C07_serialize_key_ec_refuted : exists d n size, n <= 256 ^ size /\
  serialize_key Original (Some REcdsaPriv) false true d n size = MPanic.
Proof. exact serialize_key_ec_refuted. Qed.
Print Assumptions C07_serialize_key_ec_refuted.

(* crypto.VerifyPublicKey("EdDSA"): every key kind and EVERY Ed25519 public-key length. *)
Theorem C07_verify_eddsa_no_panic : forall kty_okp iface_ok crv_ed raw_ok pubLen,
  verify_eddsa Fixed kty_okp iface_ok crv_ed raw_ok pubLen <> MPanic.
Proof. exact verify_eddsa_fixed_no_panic. Qed.
Print Assumptions C07_verify_eddsa_no_panic.

Theorem C07_verify_eddsa_refuted : exists l, verify_eddsa Original true true true true l = MPanic.
Proof. exact verify_eddsa_refuted. Qed.
Print Assumptions C07_verify_eddsa_refuted.

(* metadata.DecodeMetadata: every input shape x every destination shape other than nil (a nil
   destination is the caller's own error, not an input). *)
Theorem C07_decode_metadata_no_panic : forall inp dup r, r <> RNil ->
  decode_metadata Fixed inp dup r <> MPanic.
Proof. exact decode_metadata_fixed_no_panic. Qed.
Print Assumptions C07_decode_metadata_no_panic.

(* before the fix: a struct whose Properties field is a map of another type *)
Theorem C07_decode_metadata_refuted : exists inp dup r, r <> RNil /\
  decode_metadata Original inp dup r = MPanic.
Proof. exact decode_metadata_refuted. Qed.
Print Assumptions C07_decode_metadata_refuted.

(* config.Decode's string hook: every pointer shape of a map value x every kind of target. *)
Theorem C07_config_decode_no_panic : forall c typed, config_decode_val Fixed c typed <> MPanic.
Proof. exact config_decode_val_fixed_no_panic. Qed.
Print Assumptions C07_config_decode_no_panic.

(* before the fix: a pointer to a nil pointer decoded into a numeric / bool / struct field *)
Theorem C07_config_decode_refuted : exists c typed, config_decode_val Original c typed = MPanic.
Proof. exact config_decode_val_refuted. Qed.
Print Assumptions C07_config_decode_refuted.

(* metadata's duration hook behind DecodeMetadata: whatever dynamic type the caller put into the
   map, the hook sees a string (the guard is DecodeMetadata's stringification) ... *)
Theorem C07_duration_hook_no_panic : forall f, duration_hook (metadata_view f) <> MPanic.
Proof. exact duration_hook_metadata_no_panic. Qed.
Print Assumptions C07_duration_hook_no_panic.

(* ... the hook alone would panic on a named int64. *)
Theorem C07_duration_hook_unguarded_refuted : exists f, duration_hook f = MPanic.
Proof. exact duration_hook_unguarded_refuted. Qed.
Print Assumptions C07_duration_hook_unguarded_refuted.

(* ---- the oracle evaluated on the implementation's observations decides the property ---- *)
Theorem C07_oracle_sound : forall c, oracle c = true <-> no_crash (obs_of c).
Proof. exact oracle_sound. Qed.
Print Assumptions C07_oracle_sound.
