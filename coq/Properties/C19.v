(* C19 — SPIFFE: readiness never deadlocks; latest good SVID served, renewed at half-life, retried
   every 10 s; fresh key per fetch published as one file set.
   Statements only; every proof is [exact <lemma of C19/Proofs_*.v>].
   [Ready.*] is the event system of the threads Run / Ready / GetX509SVID over the RWMutex and the
   ready channel (C19/Ready.v); the unqualified names are the rotation loop over an injected clock
   (C19/Model.v). A schedule [es] is ANY list of events: API calls from new goroutines in any
   order, the threads' own steps in any interleaving, context cancellations, the issuer's answers,
   clock advances of any size, timers delivered arbitrarily late, trust-anchor changes. *)
From Kit Require Import Lib.Base C19.Model C19.Spec C19.Check C19.Proofs_Rot C19.Proofs_Oracle
  C19.Proofs_Refine C19.Proofs_Punctual.
From Kit Require C19.Ready C19.Proofs_Ready.

(* The fixed code cannot wedge, whatever the order of the first calls and however the threads
   interleave: in every reachable state in which no thread can take a step on its own, Run (if it
   was called) has got as far as asking the issuer, and, once the initial fetch has finished, every
   Ready / GetX509SVID call made so far has returned and Run is rotating or has returned the error.
   Own steps strictly decrease a measure, so the threads do reach such a state without further help. *)
Theorem C19_ready_no_deadlock : forall es s,
  Ready.run Fixed Ready.init es = Some s ->
  (Ready.stuck Fixed s ->
     (Ready.s_run s <> Ready.RNone -> Proofs_Ready.run_asked s = true) /\
     (Ready.s_init s <> None ->
        forallb Ready.returned (Ready.s_cl s) = true /\
        (Ready.s_run s = Ready.RRot \/ Ready.s_run s = Ready.RRetErr))) /\
  (forall e s', Ready.internal e = true -> Ready.step Fixed s e = Some s' ->
                (Proofs_Ready.measure s' < Proofs_Ready.measure s)%nat).
Proof. exact Proofs_Ready.ready_no_deadlock. Qed.
Print Assumptions C19_ready_no_deadlock.

(* The same for the executable scheduler used by the correspondence check: from any reachable
   state in which the initial fetch has finished, running the threads' own steps leaves no call
   pending. *)
Theorem C19_ready_quiesce_returns : forall es s,
  Ready.run Fixed Ready.init es = Some s -> Ready.s_init s <> None ->
  forallb Ready.returned (Ready.s_cl (Ready.quiesce Fixed (Ready.quiesce_fuel s) s)) = true.
Proof. exact Proofs_Ready.ready_quiesce_returns. Qed.
Print Assumptions C19_ready_quiesce_returns.

(* The code before the fix: GetX509SVID first (it takes the read lock and then waits for
   readiness), then Run (it announces itself as a writer and waits for the reader). No thread can
   move, Run never reaches the issuer, and the issuer's answer - the only thing that could make
   the system ready - is not enabled: a deadlock. *)
Theorem C19_get_before_run_refuted : exists es s,
  Ready.run Original Ready.init es = Some s /\ Ready.stuck Original s /\
  Ready.s_run s = Ready.RPend0 /\ Proofs_Ready.run_asked s = false /\
  (exists c, nth_error (Ready.s_cl s) 0 = Some c /\ Ready.c_pc c = Ready.GHoldWait) /\
  (forall r, Ready.step Original s (Ready.EFetch r) = None).
Proof. exact Proofs_Ready.get_before_run_refuted. Qed.
Print Assumptions C19_get_before_run_refuted.

(* What a returned GetX509SVID carries (both variants, every schedule): nothing returns before the
   initial fetch has finished; if it failed the result is the error; if it succeeded the result is
   an SVID that was fetched. *)
Theorem C19_get_result : forall v es s i c r,
  Ready.run v Ready.init es = Some s -> nth_error (Ready.s_cl s) i = Some c ->
  Ready.c_pc c = Ready.GRet r ->
  match Ready.s_init s with
  | None => False
  | Some None => r = None
  | Some (Some _) => exists id, r = Some id /\ In id (Ready.s_fetched s)
  end.
Proof. exact Proofs_Ready.get_result. Qed.
Print Assumptions C19_get_result.

(* Ready returns nil only once the initial fetch has finished, and the context error only if its
   context was cancelled. *)
Theorem C19_ready_result : forall v es s i c,
  Ready.run v Ready.init es = Some s -> nth_error (Ready.s_cl s) i = Some c ->
  (Ready.c_pc c = Ready.YRetOk -> Ready.s_init s <> None) /\
  (Ready.c_pc c = Ready.YRetCtx -> Ready.c_cancelled c = true).
Proof. exact Proofs_Ready.ready_result. Qed.
Print Assumptions C19_ready_result.

(* The field read by GetX509SVID is the most recently fetched SVID, except in the window in which
   Run holds a freshly fetched one and is acquiring the write lock to store it; and a reader never
   holds the lock while the writer does, so a read never races with the store. *)
Theorem C19_serves_latest_locked : forall v es s, Ready.run v Ready.init es = Some s ->
  match Ready.s_run s with
  | Ready.RWant c | Ready.RPend c | Ready.RHoldW c =>
      exists rest, Ready.s_fetched s = c :: rest /\ Ready.s_cur s = hd_error rest
  | Ready.RGot (Some c) => Ready.s_fetched s = [c] /\ Ready.s_cur s = None
  | _ => Ready.s_cur s = hd_error (Ready.s_fetched s)
  end.
Proof. exact Proofs_Ready.cur_is_latest. Qed.
Print Assumptions C19_serves_latest_locked.

Theorem C19_rw_exclusion : forall v es s, Ready.run v Ready.init es = Some s ->
  Ready.wheld s = true -> Ready.readers s = false.
Proof. exact Proofs_Ready.rw_exclusion. Qed.
Print Assumptions C19_rw_exclusion.

(* Rotation loop, every schedule: the SVID served is the newest successful fetch of the history,
   together with the private key generated for that very fetch. *)
Theorem C19_serves_latest : forall t0 d es s, run (init t0 d) es = Some s ->
  s_cur s = option_map (fun kc => mkSvid (snd kc) (fst kc)) (last_ok_rec (s_log s)).
Proof. exact serves_latest. Qed.
Print Assumptions C19_serves_latest.

(* Only a successful fetch changes the served SVID; a failed fetch changes neither it nor what
   has been written to the directory (any state, any event). *)
Theorem C19_failure_keeps_svid :
  (forall s e s', step s e = Some s' -> s_cur s' <> s_cur s -> exists c, e = EFetchOk c) /\
  (forall s s', step s EFetchErr = Some s' -> s_cur s' = s_cur s /\ s_writes s' = s_writes s).
Proof. exact failure_keeps_svid. Qed.
Print Assumptions C19_failure_keeps_svid.

(* Renewal by half-life. Whenever the loop waits on its main timer: it serves an SVID and
   [s_renew] is the middle of that certificate's validity; the timer was armed (at [s_at]) no more
   than one minute ahead; as long as the timer is not yet due the clock has not reached half-life;
   when it is delivered - however late - a delivery before half-life only re-arms (again at most a
   minute ahead), a delivery at or after half-life requests a renewal at once, stamped with the
   current clock. With timers that fire on time the renewal is therefore requested no later than
   one minute after half-life; a certificate already past half-life is renewed immediately. *)
Theorem C19_renew_by_halflife : forall t0 d es s dl,
  run (init t0 d) es = Some s -> s_pc s = PArmed dl KMain ->
  (exists v, s_cur s = Some v /\ s_renew s = renewal_time (c_nb (sv_cert v)) (c_na (sv_cert v))) /\
  s_at s <= s_now s /\
  dl = s_at s + arm_delay (s_renew s) (s_at s) /\
  dl <= s_at s + minute /\
  (s_now s < dl -> s_now s < s_renew s) /\
  (dl <= s_now s -> exists s', step s EWake = Some s' /\
     if s_now s <? s_renew s
     then s_pc s' = PArmed (s_now s + arm_delay (s_renew s) (s_now s)) KMain /\
          s_log s' = s_log s /\ s_nkey s' = s_nkey s
     else s_pc s' = PFetch /\ s_req s' = s_now s).
Proof. exact renew_by_halflife. Qed.
Print Assumptions C19_renew_by_halflife.

(* [renewal_time] is half of the validity for every window Go's Duration can hold. *)
Theorem C19_renewal_time_half : forall nb na,
  0 <= na - nb <= maxD -> renewal_time nb na = nb + (na - nb) / 2.
Proof. exact renewal_time_half. Qed.
Print Assumptions C19_renewal_time_half.

(* Retry every 10 s. A failed renewal leaves the SVID alone and arms a timer exactly 10 s ahead;
   when that timer is delivered the renewal is requested again at once (two own steps at the same
   instant); and in the recorded history no request follows a failed renewal by less than 10 s. *)
Theorem C19_retry_10s : forall t0 d es s,
  run (init t0 d) es = Some s ->
  (s_pc s = PFetch -> exists s', step s EFetchErr = Some s' /\
       s_pc s' = PArmed (s_now s + ten_s) KRetry /\ s_cur s' = s_cur s) /\
  (forall dl, s_pc s = PArmed dl KRetry ->
       dl = s_at s + ten_s /\ s_at s <= s_now s /\
       (dl <= s_now s -> exists s1 s2, step s EWake = Some s1 /\ step s1 EWake = Some s2 /\
                                       s_pc s2 = PFetch /\ s_req s2 = s_now s)) /\
  retry_gaps (s_log s) /\
  (s_pc s = PFetch -> gap_ok (s_req s) (s_log s)).
Proof. exact retry_10s. Qed.
Print Assumptions C19_retry_10s.

(* One file set per successful fetch: with a directory configured the sequence of dir.Write calls
   is exactly one per successful fetch, each made of that fetch's private key, the chain it
   received and the trust anchors current when it completed; without a directory nothing is
   written. (That one Write shows up atomically is dir.Write's property, C18.) *)
Theorem C19_fileset_atomic : forall t0 d es s, run (init t0 d) es = Some s ->
  s_dir s = d /\ s_writes s = (if d then writes_of (s_log s) else []).
Proof. exact fileset_atomic. Qed.
Print Assumptions C19_fileset_atomic.

(* A freshly generated key per fetch: no two fetches of a history used the same key, and the key of
   a fetch in progress is newer than all of them. *)
Theorem C19_fresh_keys : forall t0 d es s, run (init t0 d) es = Some s ->
  NoDup (map fr_key (s_log s)) /\
  (forall r, In r (s_log s) -> 0 <= fr_key r < s_nkey s) /\
  ((s_pc s = PFetch0 \/ s_pc s = PFetch) -> forall r, In r (s_log s) -> fr_key r < cur_key s).
Proof. exact fresh_keys. Qed.
Print Assumptions C19_fresh_keys.

(* The boolean oracles evaluated on what the implementation was observed to do decide the specs. *)
Theorem C19_ready_oracle_sound : forall acts obs,
  ready_oracle acts obs = true <-> ready_spec acts obs.
Proof. exact ready_oracle_sound. Qed.
Print Assumptions C19_ready_oracle_sound.

Theorem C19_rot_oracle_sound : forall t0 usedir script ops os,
  rot_oracle t0 usedir script ops os = true <-> rot_spec t0 usedir script ops os.
Proof. exact rot_oracle_sound. Qed.
Print Assumptions C19_rot_oracle_sound.

(* Readers during rotation. GetX509SVID / Ready calls may be made at any time and their steps
   interleave freely with the renewals' events (a renewed SVID arriving, Run announcing itself as
   a writer, waiting for the readers inside to leave, storing, unlocking) - all of that is part of
   "every schedule" above. Spelled out for a renewal: on the fixed code, once no thread can move,
   every call has returned, Run is back in its loop and the newest fetched SVID is the one served;
   no renewal is ever left waiting for the lock behind a reader, no reader behind a renewal. *)
Theorem C19_renewal_published : forall es s,
  Ready.run Fixed Ready.init es = Some s -> Ready.stuck Fixed s -> Ready.s_init s <> None ->
  forallb Ready.returned (Ready.s_cl s) = true /\
  (Ready.s_run s = Ready.RRot \/ Ready.s_run s = Ready.RRetErr) /\
  Ready.s_cur s = hd_error (Ready.s_fetched s).
Proof. exact Proofs_Ready.renewal_published. Qed.
Print Assumptions C19_renewal_published.

(* ... and for a read (either variant): the step in which a reader holding the read lock reads the
   field returns the newest fetched SVID, or the one before it while the newest has been fetched
   but Run is still acquiring the write lock to store it. *)
Theorem C19_read_is_latest : forall v es s i c s',
  Ready.run v Ready.init es = Some s -> nth_error (Ready.s_cl s) i = Some c ->
  Ready.c_pc c = Ready.GHold -> Ready.step v s (Ready.EStep (S i)) = Some s' ->
  (exists c', nth_error (Ready.s_cl s') i = Some c' /\ Ready.c_pc c' = Ready.GRet (Ready.s_cur s)) /\
  (Ready.s_cur s = hd_error (Ready.s_fetched s) \/
   exists x rest, Ready.s_fetched s = x :: rest /\ Ready.s_cur s = hd_error rest /\
                  (Ready.s_run s = Ready.RWant x \/ Ready.s_run s = Ready.RPend x)).
Proof. exact Proofs_Ready.read_is_latest. Qed.
Print Assumptions C19_read_is_latest.

(* The oracle for readers racing with renewals decides its spec: all scripted issuer requests and
   the next one were made, every Ready returned nil, every run of equal results of every reader
   is a fetched SVID with its own key, not older than what had certainly been stored when the
   call began, not newer than what had been requested when it returned, and a reader never sees
   an older SVID after a newer one. *)
Theorem C19_conc_oracle_sound : forall script nreq ready_ok readers,
  conc_oracle script nreq ready_ok readers = true <-> conc_spec script nreq ready_ok readers.
Proof. exact conc_oracle_sound. Qed.
Print Assumptions C19_conc_oracle_sound.

(* ------------------------------------------------------------------------------------- *)
(* Model meets spec at the level of whole traces.                                           *)

(* The fixed readiness model MEETS the declarative readiness spec on every script the driver can
   perform (any number of Run / Ready / GetX509SVID calls in any order, contexts cancelled at any
   time, the initial fetch finishing - with success or failure - at any later point or never):
   driving the model with the script and letting the threads run to quiescence after every action
   gives, at every point, exactly what the property demands - Run has reached the issuer once it
   was called; before the initial fetch finishes nothing has returned except a Ready whose context
   was cancelled; once it has finished every call has returned, GetX509SVID with that SVID or with
   the error. The oracle that judges the implementation is the one evaluated here, and [wf_acts]
   is checked on every script the harness prints. *)
Theorem C19_ready_model_meets_spec : forall acts,
  wf_acts [] acts = true ->
  ready_oracle acts (ready_drive Fixed Ready.init acts) = true.
Proof. exact ready_model_meets_spec. Qed.
Print Assumptions C19_ready_model_meets_spec.

(* ... in the words of the declarative spec; in particular the driver is never stopped: the initial
   fetch can always be let finish, because Run always gets as far as the issuer. *)
Theorem C19_ready_model_meets_spec_prop : forall acts,
  wf_acts [] acts = true ->
  ready_spec acts (ready_drive Fixed Ready.init acts) /\
  length (ready_drive Fixed Ready.init acts) = length acts.
Proof. exact ready_model_meets_spec_prop. Qed.
Print Assumptions C19_ready_model_meets_spec_prop.

(* The model of the code before the fix does not meet it (GetX509SVID, then Run). *)
Theorem C19_ready_model_original_refuted : exists acts,
  wf_acts [] acts = true /\ ready_oracle acts (ready_drive Original Ready.init acts) = false.
Proof. exact ready_model_original_refuted. Qed.
Print Assumptions C19_ready_model_original_refuted.

(* The scheduler with punctual timers used by the correspondence check terminates within its fuel
   for ANY state and ANY script: it ends in a state where the loop is parked (no issuer answer
   owed, no timer due, not cancelled-but-still-waiting), by a run of the event system that does
   not move the clock and consumes a prefix of the script. *)
Theorem C19_settle_parks : forall s script,
  let '(s', script') := settle (settle_fuel script) s script in
  parked s' /\ s_now s' = s_now s /\ (exists es, run s es = Some s') /\ (exists k, script' = skipn k script).
Proof. exact settle_parks. Qed.
Print Assumptions C19_settle_parks.

(* "A renewal is requested no later than one minute after half-life", with timers that fire on
   time, as a statement about whole runs: at EVERY observation point of EVERY punctual run (any
   initial clock, any issuer script incl. certificates already past half-life or not yet valid,
   any clock steps, trust-anchor changes, cancellation) the loop is parked; while it waits on its
   main timer the clock has not reached the half-life of the served certificate; while it waits to
   retry, fewer than 10 s have passed since the failure. So no observation point lies at or after
   the instant a renewal or a retry falls due without that request having been made. *)
Theorem C19_punctual_requests_on_time : forall t0 d script ops x,
  In x (rot_states (init t0 d) script (ERun :: map op_event ops)) ->
  parked x /\
  (forall dl, s_pc x = PArmed dl KMain ->
      exists v, s_cur x = Some v /\
                s_renew x = renewal_time (c_nb (sv_cert v)) (c_na (sv_cert v)) /\
                s_now x < s_renew x) /\
  (forall dl, s_pc x = PArmed dl KRetry -> s_now x < s_at x + ten_s).
Proof. exact punctual_requests_on_time. Qed.
Print Assumptions C19_punctual_requests_on_time.

(* [rot_states] are the states behind the observations the check compares with the implementation. *)
Theorem C19_rot_model_states : forall t0 d script ops,
  rot_model t0 d script ops =
  observe_chain (init t0 d) (rot_states (init t0 d) script (ERun :: map op_event ops)).
Proof. exact rot_model_states. Qed.
Print Assumptions C19_rot_model_states.

(* In every punctual run, at every observation point, the k-th issuer request of the history was
   answered by the k-th element of the script (an exhausted script answers with failures), a
   success with the certificate issued for THAT request's key and request instant. With
   C19_serves_latest: the SVID served at a point is the certificate the script prescribes for the
   newest successful request made so far, with the key generated for that request. *)
Theorem C19_punctual_history_follows_script : forall t0 d script ops x,
  In x (rot_states (init t0 d) script (ERun :: map op_event ops)) ->
  forall k r, nth_error (rev (s_log x)) k = Some r ->
    match outcome_at script k with
    | OOk dnb dna => fr_ok r = Some (issue (fr_key r) (fr_req r) dnb dna)
    | OFail => fr_ok r = None
    end.
Proof. exact punctual_history_follows_script. Qed.
Print Assumptions C19_punctual_history_follows_script.
