(* C16 — streams: bytes preserved for every chunking; oversize streams always fail.
   Statements only; every proof is [exact <lemma of C16/Proofs.v>]. *)
From Kit Require Import C16.Model C16.Spec C16.Check C16.Proofs.

(* LimitReadCloser on the current tree: for EVERY limit, script (chunking, zero-length reads,
   data-with-EOF, mid-stream failure) and EVERY sequence of positive consumer buffer sizes, the
   read loop ends with an error value and (bytes, error, closes after Close) meet the spec:
   source unchanged + EOF when it has at most n bytes; exactly the first n bytes +
   ErrStreamTooLarge when it is longer; source closed exactly once. *)
Theorem C16_limit_spec : forall n s c, consumer_pos c ->
  exists out e cb ca, limit_run Fixed n s c = (out, Some e, cb, ca) /\ limit_spec n s out e ca.
Proof. exact limit_run_spec. Qed.
Print Assumptions C16_limit_spec.

(* The code before the fix: an over-long source whose (n+1)-th byte arrives together with EOF
   ends in a clean EOF. *)
Theorem C16_limit_over_refuted : exists n s c, consumer_pos c /\
  (Z.of_nat (length (data_of s)) > n)%Z /\
  exists out cb ca, limit_run Original n s c = (out, Some EEOF, cb, ca).
Proof. exact limit_over_refuted. Qed.
Print Assumptions C16_limit_over_refuted.

(* MultiReaderCloser through Read (both variants): concatenation, EOF only after the last
   source, every closable source closed exactly once after Close. *)
Theorem C16_multi_read_spec : forall v srcs c, consumer_pos c ->
  exists out e cb ca, multi_run v srcs (Some c) = (out, Some e, cb, ca) /\
                      multi_spec srcs out e ca.
Proof. exact multi_read_spec. Qed.
Print Assumptions C16_multi_read_spec.

(* ... and through WriteTo (io.Copy) on the current tree. *)
Theorem C16_multi_writeto_spec : forall srcs,
  exists out e cb ca, multi_run Fixed srcs None = (out, Some e, cb, ca) /\
                      multi_spec srcs out e ca.
Proof. exact multi_writeto_spec. Qed.
Print Assumptions C16_multi_writeto_spec.

(* The code before the fix never closed a source on the WriteTo path. *)
Theorem C16_multi_writeto_refuted : exists srcs out e cb ca,
  multi_run Original srcs None = (out, Some e, cb, ca) /\ ca <> expected_closes srcs.
Proof. exact multi_writeto_refuted. Qed.
Print Assumptions C16_multi_writeto_refuted.

(* TeeReadCloser: delivered = written = a prefix of the source data, all of it unless the
   writer failed; source and writer closed once by Close. *)
Theorem C16_tee_spec : forall s b c, consumer_pos c ->
  exists out e w sc wc, tee_run s b c = (out, Some e, w, sc, wc) /\ tee_spec s b out e w sc wc.
Proof. exact tee_run_spec. Qed.
Print Assumptions C16_tee_spec.

(* The boolean oracles evaluated on the implementation's observations decide the specs. *)
Theorem C16_limit_oracle_sound : forall n s out e ca,
  limit_oracle n s out e ca = true <-> limit_spec n s out e ca.
Proof. exact limit_oracle_sound. Qed.
Print Assumptions C16_limit_oracle_sound.

Theorem C16_multi_oracle_sound : forall srcs out e ca,
  multi_oracle srcs out e ca = true <-> multi_spec srcs out e ca.
Proof. exact multi_oracle_sound. Qed.
Print Assumptions C16_multi_oracle_sound.

Theorem C16_tee_oracle_sound : forall s b out e w sc wc,
  tee_oracle s b out e w sc wc = true <-> tee_spec s b out e w sc wc.
Proof. exact tee_oracle_sound. Qed.
Print Assumptions C16_tee_oracle_sound.
