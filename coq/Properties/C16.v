(* C16 — streams: bytes preserved for every chunking; oversize streams always fail.
   Statements only; every proof is [exact <lemma of C16/Proofs.v>]. *)
From Kit Require Import C16.Model C16.Spec C16.Check C16.Proofs.

(* Sources are the scripts of C16/ReaderX.v: chunks, zero-length reads, data with EOF, failures of
   every identity (plain; wrapping io.EOF or io.ErrUnexpectedEOF; the sentinels io.ErrUnexpectedEOF,
   io.ErrClosedPipe, os.ErrClosed, net.ErrClosed, io.ErrNoProgress, context.Canceled,
   context.DeadlineExceeded, http.ErrBodyReadAfterClose, bare or wrapped) alone or together with
   data.  [stop = None]: the consumer reads until it is given an error;
   [Some fuel]: it stops after at most [fuel] Read calls.

   LimitReadCloser on the current tree: for EVERY limit, script (chunking, zero-length reads at
   any offset, data-with-EOF, mid-stream failure), EVERY sequence of positive consumer buffer
   sizes (the type has only Read and Close, so every consumption path of the io package - Read
   loops, io.ReadAll, io.Copy, io.CopyBuffer, io.CopyN, a destination's ReadFrom - is such a
   sequence) and ANY number k >= 1 of Close calls afterwards, the read loop ends with an error
   value and (bytes, error, closes before Close, closes after the last Close) meet the spec:
   source unchanged + its own end (io.EOF or ITS failure) when it has at most n bytes; exactly the first n bytes +
   ErrStreamTooLarge, the source already closed by the limiter, when it is longer; source closed
   exactly once in the end. *)
Theorem C16_limit_spec : forall n s c k, consumer_pos c -> 1 <= k ->
  exists out e cb ca, limit_run Fixed n s c None k = (out, Some e, cb, ca) /\
                      limit_spec n s out e cb ca.
Proof. exact limit_run_spec. Qed.
Print Assumptions C16_limit_spec.

(* ... and when the consumer stops after ANY number of Read calls and then calls Close: either an
   error had come (then as above) or it holds a prefix of the source of at most n bytes, and
   the source is closed exactly once. *)
Theorem C16_limit_stop_spec : forall n s c fuel k, consumer_pos c -> 1 <= k ->
  exists out eo cb ca, limit_run Fixed n s c (Some fuel) k = (out, eo, cb, ca) /\
    match eo with
    | Some e => limit_spec n s out e cb ca
    | None => limit_stop_spec n s out ca
    end.
Proof. exact limit_run_stop_spec. Qed.
Print Assumptions C16_limit_stop_spec.

(* The code before the fix: an over-long source whose (n+1)-th byte arrives together with EOF
   ends in a clean EOF. *)
Theorem C16_limit_over_refuted : exists n s c, consumer_pos c /\
  (Z.of_nat (length (data_of s)) > n)%Z /\
  exists out cb ca, limit_run Original n s c None 1 = (out, Some EEOF, cb, ca).
Proof. exact limit_over_refuted. Qed.
Print Assumptions C16_limit_over_refuted.

(* The code before the second fix: LimitReadCloser(src, math.MaxInt64) - the natural "no limit" -
   panicked on the first Read ([l.N + 1] overflows int64), whatever the source. *)
Theorem C16_limit_maxint_refuted : exists s c, consumer_pos c /\
  (Z.of_nat (length (data_of s)) <= max_int64)%Z /\
  exists cb ca, limit_run Original max_int64 s c None 1 = ([], Some EPanic, cb, ca).
Proof. exact limit_maxint_refuted. Qed.
Print Assumptions C16_limit_maxint_refuted.

(* MultiReaderCloser through Read (both variants): concatenation up to the first source that
   does not end with io.EOF and then THAT source's error (a failure that merely wraps io.EOF is
   not the end of a source), EOF only after the last source, every closable source closed exactly
   once after any number k >= 1 of Close calls.  [multi_dom]: no source ends with
   http.ErrBodyReadAfterClose - the one identity the code treats specially (Read: "the same as
   io.EOF", source not closed again; WriteTo: reported), which the property does not speak of; every
   other identity, io.ErrClosedPipe and os.ErrClosed included, is a failure like any other. *)
Theorem C16_multi_read_spec : forall v srcs c k, consumer_pos c -> 1 <= k ->
  multi_dom srcs = true ->
  exists out e cb ca, multi_run v srcs (ViaRead c) None k = (out, Some e, cb, ca) /\
                      multi_spec srcs out e ca.
Proof. exact multi_read_spec. Qed.
Print Assumptions C16_multi_read_spec.

(* ... and when the consumer stops after ANY number of Read calls, with any number of sources
   unfinished, and then calls Close: a prefix of the stream, and every closable source -
   finished or not - closed exactly once. *)
Theorem C16_multi_read_stop_spec : forall v srcs c fuel k, consumer_pos c -> 1 <= k ->
  multi_dom srcs = true ->
  exists out eo cb ca, multi_run v srcs (ViaRead c) (Some fuel) k = (out, eo, cb, ca) /\
    match eo with
    | Some e => multi_spec srcs out e ca
    | None => multi_stop_spec srcs out ca
    end.
Proof. exact multi_read_stop_spec. Qed.
Print Assumptions C16_multi_read_stop_spec.

(* ... and through WriteTo (io.Copy, io.CopyBuffer) on the current tree, whatever buffer sizes
   the per-source copies read with (WriteTo's own 32 KiB buffer, or the choices of a
   destination that is an io.ReaderFrom). *)
Theorem C16_multi_writeto_spec : forall srcs c k, consumer_pos c -> 1 <= k ->
  exists out e cb ca, multi_run Fixed srcs (ViaWriteTo c) None k = (out, Some e, cb, ca) /\
                      multi_spec srcs out e ca.
Proof. exact multi_writeto_spec. Qed.
Print Assumptions C16_multi_writeto_spec.

(* "closed exactly once" over EVERY consumer behaviour.  The wrapper is used by ANY sequence of
   calls - Read with any buffer size (0 included) and WriteTo with any copy sizes, in any order
   and number, to destinations that may refuse a Write at any point (the copy then ends with the
   writer's error and the chunk in flight is lost), the caller going on after errors or giving
   up at any time - and then Close is called k >= 1 times: every closable source has been closed
   exactly once, every other one never.  [multi_clean]: no read error anywhere in the sources is
   http.ErrBodyReadAfterClose (see C16_multi_read_spec). *)
Theorem C16_multi_closed_once_any_use : forall srcs ops k, multi_clean srcs = true -> 1 <= k ->
  exists outs cb ca, multi_use srcs ops k = (outs, cb, ca) /\ multi_use_spec srcs ca.
Proof. exact multi_use_spec_thm. Qed.
Print Assumptions C16_multi_closed_once_any_use.

(* The bytes for ANY MIX of the two consumption paths (some Read calls for a header, then io.Copy
   for the rest; a WriteTo after a WriteTo; ...), with non-empty buffers and destinations that do
   not fail: up to and including the first call that reports anything but nil, the calls
   deliver exactly the concatenation of the sources up to the first one that does not end with
   io.EOF, and that call reports that source's error - or the clean end (a nil return of WriteTo
   is written EEOF); while every call so far reported nil, what was delivered is a prefix. *)
Theorem C16_multi_any_path_spec : forall srcs ops k, multi_dom srcs = true -> Forall op_ok ops ->
  exists outs cb ca, multi_use srcs ops k = (outs, cb, ca) /\ multi_stream_spec srcs outs.
Proof. exact multi_any_path_spec. Qed.
Print Assumptions C16_multi_any_path_spec.

(* The code before the fix never closed a source on the WriteTo path. *)
Theorem C16_multi_writeto_refuted : exists srcs out e cb ca,
  multi_run Original srcs (ViaWriteTo copy_consumer) None 1 = (out, Some e, cb, ca) /\
  ca <> expected_closes srcs.
Proof. exact multi_writeto_refuted. Qed.
Print Assumptions C16_multi_writeto_refuted.

(* TeeReadCloser: delivered = written = a prefix of the source data, all of it unless the
   writer failed; source and writer closed once by any number k >= 1 of Close calls. *)
Theorem C16_tee_spec : forall s b c k, consumer_pos c -> 1 <= k ->
  exists out e w sc wc, tee_run s b c None k = (out, Some e, w, sc, wc) /\
                        tee_spec s b out e w sc wc.
Proof. exact tee_run_spec. Qed.
Print Assumptions C16_tee_spec.

(* ... and when the consumer stops after ANY number of Read calls and then calls Close. *)
Theorem C16_tee_stop_spec : forall s b c fuel k, consumer_pos c -> 1 <= k ->
  exists out eo w sc wc, tee_run s b c (Some fuel) k = (out, eo, w, sc, wc) /\
    match eo with
    | Some e => tee_spec s b out e w sc wc
    | None => tee_stop_spec s out w sc wc
    end.
Proof. exact tee_run_stop_spec. Qed.
Print Assumptions C16_tee_stop_spec.

(* The boolean oracles evaluated on the implementation's observations decide the specs. *)
Theorem C16_limit_oracle_sound : forall n s out e cb ca,
  limit_oracle n s out e cb ca = true <-> limit_spec n s out e cb ca.
Proof. exact limit_oracle_sound. Qed.
Print Assumptions C16_limit_oracle_sound.

Theorem C16_multi_oracle_sound : forall srcs out e ca,
  multi_oracle srcs out e ca = true <-> (multi_dom srcs = true -> multi_spec srcs out e ca).
Proof. exact multi_oracle_sound. Qed.
Print Assumptions C16_multi_oracle_sound.

Theorem C16_tee_oracle_sound : forall s b out e w sc wc,
  tee_oracle s b out e w sc wc = true <-> tee_spec s b out e w sc wc.
Proof. exact tee_oracle_sound. Qed.
Print Assumptions C16_tee_oracle_sound.

Theorem C16_limit_stop_oracle_sound : forall n s out ca,
  limit_stop_oracle n s out ca = true <-> limit_stop_spec n s out ca.
Proof. exact limit_stop_oracle_sound. Qed.
Print Assumptions C16_limit_stop_oracle_sound.

Theorem C16_multi_stop_oracle_sound : forall srcs out ca,
  multi_stop_oracle srcs out ca = true <-> (multi_dom srcs = true -> multi_stop_spec srcs out ca).
Proof. exact multi_stop_oracle_sound. Qed.
Print Assumptions C16_multi_stop_oracle_sound.

Theorem C16_tee_stop_oracle_sound : forall s out w sc wc,
  tee_stop_oracle s out w sc wc = true <-> tee_stop_spec s out w sc wc.
Proof. exact tee_stop_oracle_sound. Qed.
Print Assumptions C16_tee_stop_oracle_sound.

Theorem C16_multi_use_oracle_sound : forall srcs ca,
  multi_use_oracle srcs ca = true <-> (multi_clean srcs = true -> multi_use_spec srcs ca).
Proof. exact multi_use_oracle_sound. Qed.
Print Assumptions C16_multi_use_oracle_sound.

Theorem C16_multi_stream_oracle_sound : forall srcs outs,
  multi_stream_oracle srcs outs = true <-> multi_stream_spec srcs outs.
Proof. exact multi_stream_oracle_sound. Qed.
Print Assumptions C16_multi_stream_oracle_sound.
