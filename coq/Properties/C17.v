(* C17 — the crypto helpers never write to memory owned by the caller.
   Statements only; every proof is [exact <lemma of C17/Proofs.v>].

   Reading the statements: [m] is ANY memory (list of byte arrays + write log), [nalloc m] the
   number of arrays that exist before the call — the caller's.  Every slice argument is ANY view
   [mkS array offset len cap] (no relation between the arguments is assumed: they may overlap,
   be adjacent, be nil, have any spare capacity).  [writes f m] is the list of cells the call
   writes.  [writes_confined dst n ws]: every written cell lies in an array with id >= n (one
   the call allocated itself) or in dst[len(dst):cap(dst)] of the explicit destination [dst]
   ([None]: the call has no destination).  [mem_readonly dst m m']: every cell of the caller's
   arrays outside that region holds the same value in m' as in m.  [e : env] is every decision
   of the un-modelled cryptography (MAC / tag / integrity check, padding of decrypted data,
   success, result length and error of an asymmetric primitive); the theorems hold for every
   [e], i.e. on success and failure paths alike, and also when the call panics.
   [Fixed] = the current tree, [Original] = the tree before the two C17 fix commits. *)
From Kit Require Import C17.Model C17.Spec C17.Check C17.Proofs.

(* padding.PadPKCS7, every block size (valid or rejected) *)
Theorem C17_pad_readonly : forall buf size m,
  writes_confined None (nalloc m) (writes (pad_pkcs7 Fixed buf size) m) /\
  mem_readonly None m (snd (pad_pkcs7 Fixed buf size m)).
Proof. exact pad_readonly. Qed.
Print Assumptions C17_pad_readonly.

(* padding.UnpadPKCS7 *)
Theorem C17_unpad_readonly : forall e buf size m,
  writes_confined None (nalloc m) (writes (unpad_pkcs7 e buf size) m) /\
  mem_readonly None m (snd (unpad_pkcs7 e buf size m)).
Proof. exact unpad_readonly. Qed.
Print Assumptions C17_unpad_readonly.

(* aeskw.Wrap: the key to wrap (any length) is only read *)
Theorem C17_kw_wrap_readonly : forall cek m,
  writes_confined None (nalloc m) (writes (kw_wrap cek) m) /\
  mem_readonly None m (snd (kw_wrap cek m)).
Proof. exact kw_wrap_readonly. Qed.
Print Assumptions C17_kw_wrap_readonly.

(* aeskw.Unwrap, whether or not the integrity check passes *)
Theorem C17_kw_unwrap_readonly : forall e ct m,
  writes_confined None (nalloc m) (writes (kw_unwrap e ct) m) /\
  mem_readonly None m (snd (kw_unwrap e ct m)).
Proof. exact kw_unwrap_readonly. Qed.
Print Assumptions C17_kw_unwrap_readonly.

(* aescbcaead Seal, all four key-size variants: besides its own allocations it writes only
   dst[len:cap] of the destination handed in (any dst: nil, too short, roomy, or aliasing the
   plaintext as in the in-place idiom pt[:0]) *)
Theorem C17_aead_seal_readonly : forall k dst nonce pt aad m,
  writes_confined (Some dst) (nalloc m) (writes (aead_seal Fixed k dst nonce pt aad) m) /\
  mem_readonly (Some dst) m (snd (aead_seal Fixed k dst nonce pt aad m)).
Proof. exact aead_seal_readonly. Qed.
Print Assumptions C17_aead_seal_readonly.

(* aescbcaead Open: authentic or not, well padded or not *)
Theorem C17_aead_open_readonly : forall e k dst nonce ct aad m,
  writes_confined (Some dst) (nalloc m) (writes (aead_open e k dst nonce ct aad) m) /\
  mem_readonly (Some dst) m (snd (aead_open e k dst nonce ct aad m)).
Proof. exact aead_open_readonly. Qed.
Print Assumptions C17_aead_open_readonly.

(* encryptSymmetricAESCBC (A128/192/256CBC and the NOPAD variants) *)
Theorem C17_enc_aescbc_readonly : forall pt a key iv m,
  writes_confined None (nalloc m) (writes (enc_aescbc Fixed pt a key iv) m) /\
  mem_readonly None m (snd (enc_aescbc Fixed pt a key iv m)).
Proof. exact enc_aescbc_readonly. Qed.
Print Assumptions C17_enc_aescbc_readonly.

(* decryptSymmetricAESCBC *)
Theorem C17_dec_aescbc_readonly : forall e ct a key iv m,
  writes_confined None (nalloc m) (writes (dec_aescbc e ct a key iv) m) /\
  mem_readonly None m (snd (dec_aescbc e ct a key iv m)).
Proof. exact dec_aescbc_readonly. Qed.
Print Assumptions C17_dec_aescbc_readonly.

(* the body of encryptSymmetricAEAD / encryptSymmetricChaCha20Poly1305 for each AEAD [s]:
   AES-GCM, AES-CBC-HMAC (four variants), (X)ChaCha20-Poly1305 *)
Theorem C17_aead_encrypt_readonly : forall s key nonce pt aad m,
  writes_confined None (nalloc m) (writes (seal_split Fixed s key nonce pt aad) m) /\
  mem_readonly None m (snd (seal_split Fixed s key nonce pt aad m)).
Proof. exact seal_split_readonly. Qed.
Print Assumptions C17_aead_encrypt_readonly.

(* the body of decryptSymmetricAEAD / decryptSymmetricChaCha20Poly1305 (join ciphertext and tag,
   then Open) for each AEAD *)
Theorem C17_aead_decrypt_readonly : forall e s key nonce ct tag aad m,
  writes_confined None (nalloc m) (writes (join_open Fixed e s key nonce ct tag aad) m) /\
  mem_readonly None m (snd (join_open Fixed e s key nonce ct tag aad m)).
Proof. exact join_open_readonly. Qed.
Print Assumptions C17_aead_decrypt_readonly.

(* EncryptSymmetric: every algorithm name (AES-CBC, GCM, CBC-HMAC, KW, ChaCha20-Poly1305 and
   XChaCha, unsupported ones), every kind of key, wrong key / nonce sizes included *)
Theorem C17_enc_sym_readonly : forall pt a k nonce aad m,
  writes_confined None (nalloc m) (writes (enc_sym Fixed pt a k nonce aad) m) /\
  mem_readonly None m (snd (enc_sym Fixed pt a k nonce aad m)).
Proof. exact enc_sym_readonly. Qed.
Print Assumptions C17_enc_sym_readonly.

(* DecryptSymmetric, likewise *)
Theorem C17_dec_sym_readonly : forall e ct a k nonce tag aad m,
  writes_confined None (nalloc m) (writes (dec_sym Fixed e ct a k nonce tag aad) m) /\
  mem_readonly None m (snd (dec_sym Fixed e ct a k nonce tag aad m)).
Proof. exact dec_sym_readonly. Qed.
Print Assumptions C17_dec_sym_readonly.

(* EncryptPublicKey, DecryptPrivateKey, SignPrivateKey, VerifyPublicKey: kit itself performs no
   slice write; the rsa/ecdsa/ed25519 primitives enter through their read-only contract *)
Theorem C17_asym_readonly : forall e supported has_result k args m,
  writes_confined None (nalloc m) (writes (asym_op e supported has_result k args) m) /\
  mem_readonly None m (snd (asym_op e supported has_result k args m)).
Proof. exact asym_op_readonly. Qed.
Print Assumptions C17_asym_readonly.

(* every entry point through the dispatcher the correspondence harness uses (padding, aeskw,
   aescbcaead constructor + Seal/Open, EncryptSymmetric/DecryptSymmetric, Encrypt/Decrypt,
   EncryptPublicKey/DecryptPrivateKey, SignPrivateKey/VerifyPublicKey, ParseKey); [dst_of c] is
   the destination of a Seal/Open call and [None] for every other call *)
Theorem C17_call_readonly : forall e c m,
  writes_confined (dst_of c) (nalloc m) (writes (run_call Fixed e c) m) /\
  mem_readonly (dst_of c) m (snd (run_call Fixed e c m)).
Proof. exact call_readonly. Qed.
Print Assumptions C17_call_readonly.

(* The tree before the fix: PadPKCS7 writes the padding into the caller's spare capacity
   (buf[0:5] with cap 24, block size 16: the cell behind the slice is written) ... *)
Theorem C17_pad_spare_refuted : exists m buf size,
  caller_write None (nalloc m) (writes (pad_pkcs7 Original buf size) m).
Proof. exact pad_spare_refuted. Qed.
Print Assumptions C17_pad_spare_refuted.

(* ... and through it AES-CBC encryption writes behind the caller's plaintext ... *)
Theorem C17_pad_spare_enc_refuted : exists m pt key iv,
  caller_write None (nalloc m) (writes (enc_aescbc Original pt A128CBC key iv) m).
Proof. exact pad_spare_enc_refuted. Qed.
Print Assumptions C17_pad_spare_enc_refuted.

(* ... and aescbcaead Seal writes a cell that is neither fresh nor in its destination. *)
Theorem C17_pad_spare_seal_refuted : exists m k dst nonce pt aad,
  caller_write (Some dst) (nalloc m) (writes (aead_seal Original k dst nonce pt aad) m).
Proof. exact pad_spare_seal_refuted. Qed.
Print Assumptions C17_pad_spare_seal_refuted.

(* The tree before the fix: DecryptSymmetric with an AEAD appends the tag into the spare
   capacity of the caller's ciphertext slice (AES-GCM) ... *)
Theorem C17_aead_tag_spare_refuted : exists m e ct a key nonce tag aad,
  caller_write None (nalloc m) (writes (dec_sym Original e ct a (KSym key) nonce tag aad) m).
Proof. exact aead_tag_spare_refuted. Qed.
Print Assumptions C17_aead_tag_spare_refuted.

(* ... same in the ChaCha20-Poly1305 helper. *)
Theorem C17_aead_tag_spare_chacha_refuted : exists m e ct key nonce tag aad,
  caller_write None (nalloc m) (writes (dec_sym Original e ct C20P (KSym key) nonce tag aad) m).
Proof. exact aead_tag_spare_chacha_refuted. Qed.
Print Assumptions C17_aead_tag_spare_chacha_refuted.

(* The boolean oracle evaluated on the arrays the harness observed before and after a call
   decides the spec predicate: no caller array changes its length and every byte outside
   dst[len:cap] is unchanged. *)
Theorem C17_oracle_sound : forall dst pre post,
  readonly_oracle dst pre post = true <-> readonly_spec dst pre post.
Proof. exact readonly_oracle_sound. Qed.
Print Assumptions C17_oracle_sound.

(* The same for cells the harness caught a call trying to write while its arguments lay in
   read-only memory (this also sees writes that are undone before the call returns): the boolean
   test decides "every such cell is in an array of the call's own or in dst[len:cap]" - the very
   predicate the _readonly theorems establish for the model's write log. *)
Theorem C17_confined_oracle_sound : forall dst n0 ws,
  confined_oracle dst n0 ws = true <-> writes_confined dst n0 ws.
Proof. exact confined_oracle_sound. Qed.
Print Assumptions C17_confined_oracle_sound.

(* Verdict 0 of the correspondence check on a recorded call means: the observed arrays satisfy
   the spec predicate, no store into read-only caller memory outside dst[len:cap] was caught, and
   the observation (changed cells, panic, error class, aliasing of the results) equals the
   model's prediction. *)
Theorem C17_check_case_ok : forall c e pre chg p err rs ks wf,
  check_case (Case c e pre chg p err rs ks wf) = 0%Z ->
  readonly_spec (dst_of c) (heap_of pre) (apply_changes (heap_of pre) chg) /\
  writes_confined (dst_of c) (length (heap_of pre)) wf /\
  model_agrees Fixed (Case c e pre chg p err rs ks wf) = true.
Proof. exact check_case_ok. Qed.
Print Assumptions C17_check_case_ok.
