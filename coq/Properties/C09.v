(* C09 — coalescing rate limiter: no Add lost, bursts collapse, signals never exceed Adds, Close
   waits for the helper goroutines (and returns).
   Statements only; every proof is [exact <lemma of C09/Proofs*.v>].
   Everywhere: [c] = ANY configuration NewCoalescing accepts ([cfg_ok]: 0 < InitialDelay <=
   MaxDelay, MaxPendingEvents unset or > 0); [init c] = a limiter whose Run has started;
   [reachable v c s] = s is the state after SOME schedule, of any length: any interleaving of Add
   calls, the run loop's steps (top of the loop, token received, handleInputCh, timer value
   received, handleTimerFired, exit), token / signal goroutines giving up, the stages of Close,
   clock advances, consumer reads and cancellation of the context.  [v] = [Original] (the code
   before fixes/C09-close-wedge.patch) or [Fixed]; theorems stated for every [v] hold for both.
   Back-off arithmetic is exact integer arithmetic; the code goes through float64, which is exact
   under the guard [float_exact c] (2*MaxDelay <= 2^53 ns) carried by the correspondence check. *)
From Kit Require Import C09.Spec C09.Model C09.Check C09.Proofs C09.Proofs_close C09.Proofs_seq.

(* SIGNALS NEVER EXCEED ADDS, with exact accounting: every Add call is covered by a spawned
   signal, or still pending, or was made after Close (Fixed: returns at once); every spawned
   signal covers at least one Add; the consumer has taken at most what was spawned. *)
Theorem C09_signals_le_adds : forall v c s, cfg_ok c -> reachable v c s ->
  adds s = covered s + pending s + dropped s /\
  spawned s <= covered s /\
  delivered s <= spawned s /\
  spawned s <= adds s.
Proof. exact signals_le_adds. Qed.
Print Assumptions C09_signals_le_adds.

(* NO ADD LOST.  While the limiter is not closed, whenever an Add is counted and not yet covered
   there is a token on its way to the run loop (still to be received, or received and about to
   be handled) or the window's timer is armed ... *)
Theorem C09_no_add_lost : forall v c s, cfg_ok c -> reachable v c s ->
  closed s = false -> 0 < pending s ->
  0 < tokens s \/ run s = R_input \/ has_timer s = true.
Proof. exact no_add_lost. Qed.
Print Assumptions C09_no_add_lost.

(* ... and the events those three things lead to cover EVERYTHING pending: a token handled with
   no timer fires all of [pending]; so does the timer's expiry ... *)
Theorem C09_no_add_lost_firing : forall v c s s', cfg_ok c -> reachable v c s ->
  (has_timer s = false -> step v c s HandleToken = Some s' ->
     pending s' = 0 /\ covered s' = covered s + pending s) /\
  (step v c s TimerFire = Some s' -> pending s' = 0 /\ covered s' = covered s + pending s).
Proof. exact firing_covers_pending. Qed.
Print Assumptions C09_no_add_lost_firing.

(* ... and an armed timer becomes due by the passage of time alone. *)
Theorem C09_no_add_lost_timer : forall v c s, has_timer s = true ->
  exists d s', 0 <= d /\ step v c s (Advance d) = Some s' /\ timer_due s' = true.
Proof. exact timer_due_by_time. Qed.
Print Assumptions C09_no_add_lost_timer.

(* FIRST ADD IMMEDIATE.  From any reachable idle state (no window open, run loop waiting in its
   select, nothing in flight, not closed, lock free) an Add is signalled by the very next two
   steps of the run loop with NO clock advance: the signal is spawned at the time of the Add,
   it covers the Add (and anything counted before), and a window of InitialDelay opens. *)
Theorem C09_first_immediate : forall v c s, cfg_ok c -> reachable v c s ->
  has_timer s = false -> run s = R_select -> tokens s = 0 -> closed s = false ->
  lock_free v s = true ->
  exists s', exec v c s [Model.Add; TakeToken; HandleToken] = Some s' /\
    spawned s' = spawned s + 1 /\ now s' = now s /\ pending s' = 0 /\
    covered s' = covered s + pending s + 1 /\
    has_timer s' = true /\ deadline s' = now s + initial c /\
    hd_error (olog s') = Some (OSig (now s)).
Proof. exact first_immediate. Qed.
Print Assumptions C09_first_immediate.

(* WINDOW LAW.  In every reachable state the current delay is min(InitialDelay * 2^k, MaxDelay)
   where k is the number of extensions of the open window; with no window open k = 0 and the
   delay is InitialDelay again; with a window open the timer's deadline is the instant it was
   last armed plus that delay. *)
Theorem C09_window_law : forall v c s, cfg_ok c -> reachable v c s ->
  cur_dur s = window_len c (exts s) /\
  (has_timer s = false -> exts s = 0 /\ cur_dur s = initial c) /\
  (has_timer s = true -> deadline s = armed_at s + window_len c (exts s) /\ armed_at s <= now s).
Proof. exact window_law. Qed.
Print Assumptions C09_window_law.

(* ... and every later Add (a token handled while the window is open and the cap not reached)
   re-arms the timer NOW for the next length of the law, spawning nothing and losing nothing. *)
Theorem C09_window_law_extension : forall v c s s', cfg_ok c -> reachable v c s ->
  has_timer s = true -> cap_reached c (pending s) = false ->
  step v c s HandleToken = Some s' ->
  exts s' = exts s + 1 /\ armed_at s' = now s /\ now s' = now s /\
  deadline s' = now s + window_len c (exts s + 1) /\ has_timer s' = true /\
  spawned s' = spawned s /\ pending s' = pending s /\
  hd_error (olog s') = Some (OExt (window_len c (exts s + 1))).
Proof. exact extension_law. Qed.
Print Assumptions C09_window_law_extension.

(* BURST = SINGLE SIGNAL.  With MaxPendingEvents unset, along ANY schedule that starts with a
   window open and does not contain the expiry's handling, no signal is spawned and the window
   stays open ... *)
Theorem C09_burst_single : forall v c, cap c = None ->
  forall es s s', has_timer s = true -> existsb is_timer_fire es = false ->
  exec v c s es = Some s' -> spawned s' = spawned s /\ has_timer s' = true.
Proof. exact burst_no_signal. Qed.
Print Assumptions C09_burst_single.

(* ... and handling the expiry spawns exactly one signal iff something is pending, closes the
   window and resets the back-off. *)
Theorem C09_burst_single_end : forall v c s s',
  step v c s TimerFire = Some s' ->
  spawned s' = spawned s + (if 0 <? pending s then 1 else 0) /\
  has_timer s' = false /\ pending s' = 0 /\ cur_dur s' = initial c /\ exts s' = 0.
Proof. exact window_end_signal. Qed.
Print Assumptions C09_burst_single_end.

(* In general, one event changes the number of spawned signals only where the code calls
   fireEvent (token handled with no timer / with the cap reached; expiry), by one, and only
   when something is pending; a firing event covers everything pending. *)
Theorem C09_spawn_events : forall v c s e s', step v c s e = Some s' ->
  spawned s' = spawned s + (if fires c s e && (0 <? pending s) then 1 else 0) /\
  (fires c s e = true -> 0 <= pending s -> pending s' = 0 /\ covered s' = covered s + pending s).
Proof. exact step_spawn. Qed.
Print Assumptions C09_spawn_events.

(* CAP.  A token handled while the window is open and MaxPendingEvents = m <= pending is
   signalled at once (no clock advance), covers everything pending and leaves the window as it
   was. *)
Theorem C09_cap : forall v c s s' m, cfg_ok c -> reachable v c s ->
  has_timer s = true -> cap c = Some m -> m <= pending s ->
  step v c s HandleToken = Some s' ->
  spawned s' = spawned s + 1 /\ pending s' = 0 /\ covered s' = covered s + pending s /\
  now s' = now s /\ deadline s' = deadline s /\ exts s' = exts s /\
  hd_error (olog s') = Some (OSig (now s)).
Proof. exact cap_fires. Qed.
Print Assumptions C09_cap.

(* CAP, for Adds in no known order.  MaxPendingEvents = m.  Take ANY interleaving, of any
   length, of Add calls with the run loop's own steps, starting with a window open, nothing in
   flight and some Adds pending, and ending with every token handled.  If the Adds pending at
   the start plus the Adds made reach m, a signal was spawned on the way - whatever the order in
   which the Adds were counted and their tokens handled (in particular when the count jumps past
   m before the first token is handled).  This is what the correspondence check's oracle
   demands of every observed burst. *)
Theorem C09_cap_burst : forall v c m, cap c = Some m -> 0 < m ->
  forall es s s', has_timer s = true -> closed s = false -> tokens s = 0 -> run s <> R_input ->
  forallb burst_ev es = true -> exec v c s es = Some s' ->
  outstanding s' = 0 -> adds s < adds s' -> m <= pending s + (adds s' - adds s) ->
  spawned s < spawned s'.
Proof. exact cap_burst_signals. Qed.
Print Assumptions C09_cap_burst.

(* FIRST ADD IMMEDIATE, for Adds in no known order.  Take ANY interleaving of n >= 1 Add calls
   with the run loop's own steps, starting idle (no window open, nothing pending or in flight)
   and ending with every token handled: a signal was spawned, and the clock did not move. *)
Theorem C09_first_immediate_burst : forall v c es s s',
  has_timer s = false -> pending s = 0 -> closed s = false -> tokens s = 0 ->
  run s <> R_input -> forallb burst_ev es = true -> exec v c s es = Some s' ->
  outstanding s' = 0 -> adds s < adds s' -> spawned s < spawned s' /\ now s' = now s.
Proof. exact idle_burst_signals. Qed.
Print Assumptions C09_first_immediate_burst.

(* CLOSE WAITS.  A Close call - the first one or a second one that overlaps it or follows it -
   returns only from a state with no token goroutine, no signal goroutine and the run loop gone
   (both variants) ... *)
Theorem C09_close_waits : forall v c s e s', cfg_ok c -> reachable v c s ->
  is_close_return e = true -> step v c s e = Some s' ->
  tokens s = 0 /\ inflight s = 0 /\ run s = R_exited /\ closed s = true.
Proof. exact close_waits. Qed.
Print Assumptions C09_close_waits.

(* ... said the other way round: while the run loop has not returned, or a token or signal
   goroutine exists, NO Close call can return, however many are under way ... *)
Theorem C09_close_blocked_while_running : forall v c s, cfg_ok c -> reachable v c s ->
  run s <> R_exited \/ 0 < tokens s \/ 0 < inflight s ->
  step v c s CloseReturn = None /\ step v c s Close2Return = None.
Proof. exact close_blocked_while_running. Qed.
Print Assumptions C09_close_blocked_while_running.

(* ... and on the fixed code, once any Close call has returned, none ever appears afterwards,
   whatever is called later. *)
Theorem C09_close_waits_for_good : forall c s, cfg_ok c -> reachable Fixed c s ->
  clo s = C_returned \/ clo2 s = C_returned ->
  tokens s = 0 /\ inflight s = 0 /\ run s = R_exited.
Proof. exact close_returned_quiet. Qed.
Print Assumptions C09_close_waits_for_good.

(* CLOSE RETURNS (fixed code; no-wedge form).  In every reachable state with some Close call
   under way (it has been called and is not yet back; there may be two): some event of the
   limiter's own goroutines is enabled; every such event strictly decreases a non-negative
   measure; and a schedule of at most [measure s] such events - no caller, no consumer, no clock,
   no cancellation - makes EVERY Close call that was under way return, with the wait group at
   zero. *)
Theorem C09_close_returns : forall c s, cfg_ok c -> reachable Fixed c s -> closing s ->
  (exists e s1, internal e = true /\ step Fixed c s e = Some s1) /\
  (forall e s1, internal e = true -> step Fixed c s e = Some s1 -> 0 <= measure s1 < measure s) /\
  (exists es s', forallb internal es = true /\ exec Fixed c s es = Some s' /\
                 (under_way (clo s) -> clo s' = C_returned) /\
                 (under_way (clo2 s) -> clo2 s' = C_returned) /\
                 wg s' = 0 /\ Z.of_nat (length es) <= measure s).
Proof. exact close_returns. Qed.
Print Assumptions C09_close_returns.

(* CLOSE WEDGE (original code).  Three Adds, the run loop handles the first, Close takes the
   write lock before the run loop's next RLock and waits for the wait group while holding it:
   the run loop and Close can do nothing any more, and along EVERY continuation Close never
   returns.  (Replayed on the real code by the harness's stress cases.) *)
Theorem C09_close_wedge_refuted :
  exists c es s, cfg_ok c /\ exec Original c (init c) es = Some s /\
    clo s = C_waiting /\ closed s = true /\ 0 < wg s /\
    (forall e, internal e = true -> e <> TokenAbort -> step Original c s e = None) /\
    (forall es' s', exec Original c s es' = Some s' -> clo s' <> C_returned).
Proof. exact close_wedge_refuted. Qed.
Print Assumptions C09_close_wedge_refuted.

(* The timer contract does not matter: "if !timer.Stop() { <-timer.C() }" never blocks, under
   the Go 1.23 contract or the older one, whether or not the timer has expired. *)
Theorem C09_timer_contract : forall tc due, drain_blocks tc due = false.
Proof. exact drain_never_blocks. Qed.
Print Assumptions C09_timer_contract.

(* REFINEMENT OF THE SPECIFICATION'S REFERENCE.  For EVERY configuration NewCoalescing accepts,
   both variants, both consumers (prompt / slow) and EVERY script, of any length, of Adds, clock
   advances by any non-negative amounts and drains, the model - driven one operation at a time,
   each run-loop iteration spelled out as its events (Add; TakeToken; HandleToken; LoopTop /
   Advance; TakeTimer; TimerFire; LoopTop) - produces exactly the observations (signals per
   operation, window started with which length / ended) of the reference machine of C09/Spec.v
   section 1, which was written from the property text.  So on settled timelines every clause of the
   text the reference encodes (first Add immediate, window doubling up to the maximum, cap, one
   signal per burst at the window's end and only if something is pending) is a theorem about the
   model for all scripts, not only an oracle on sampled ones.  [seq_model_run] is evaluated by
   the correspondence check on every sequential script the harness records. *)
Theorem C09_seq_refines : forall v c slow ops, cfg_ok c -> Forall op_ok ops ->
  seq_model_run v c slow (start1 c) ops = Some (ref_run_g slow c ref_init (singletons ops)).
Proof. exact seq_refines. Qed.
Print Assumptions C09_seq_refines.

(* ... hence, in the very form the correspondence check evaluates both sides, the spec oracle
   accepts the observations of a sequential script EXACTLY when they are the model's: the oracle
   is sound and complete with respect to the model. *)
Theorem C09_seq_oracle_iff_model : forall v c slow ks obs, cfg_ok c ->
  forallb is_seq_step ks = true -> Forall step_ok ks ->
  (seqg_oracle slow c (map sops_of ks) obs = true <->
   seq_model_run v c slow (start1 c) (flat_map sops_of ks) = Some obs).
Proof. exact seq_check_link. Qed.
Print Assumptions C09_seq_oracle_iff_model.

(* NO LATER THAN THE END OF ITS QUIET WINDOW.  From every reachable state in which the run loop
   waits in its select with a window open (and no Close call started), the passage of time to the
   window's end and the run loop's own two steps - no caller, no consumer - end in a state whose
   clock reads exactly the deadline, in which everything that was pending is covered, the window is
   closed, and - if anything was pending - exactly one signal was spawned, stamped with the
   deadline. *)
Theorem C09_signal_at_window_end : forall v c s, cfg_ok c -> reachable v c s ->
  run s = R_select -> has_timer s = true -> now s <= deadline s -> clo s = C_idle -> clo2 s = C_idle ->
  exists s', exec v c s [Advance (deadline s - now s); TakeTimer; TimerFire] = Some s' /\
    now s' = deadline s /\ pending s' = 0 /\ has_timer s' = false /\
    covered s' = covered s + pending s /\
    spawned s' = spawned s + (if 0 <? pending s then 1 else 0) /\
    (0 < pending s -> In (OSig (deadline s)) (olog s')).
Proof. exact signal_at_window_end. Qed.
Print Assumptions C09_signal_at_window_end.

(* ORACLE SOUNDNESS.  The boolean oracles the correspondence check evaluates on the
   implementation's observations are equivalent to the spec predicates of C09/Spec.v. *)
Theorem C09_seq_oracle_sound : forall slow c ops obs,
  seq_oracle slow c ops obs = true <-> seq_spec slow c ops obs.
Proof. exact seq_oracle_sound. Qed.
Print Assumptions C09_seq_oracle_sound.

(* ... and its grouped form (a step standing for several operations in a known order). *)
Theorem C09_seqg_oracle_sound : forall slow c steps obs,
  seqg_oracle slow c steps obs = true <-> seqg_spec slow c steps obs.
Proof. exact seqg_oracle_sound. Qed.
Print Assumptions C09_seqg_oracle_sound.

Theorem C09_any_oracle_sound : forall fl tl rr cr leak,
  any_oracle fl tl rr cr leak = true <-> any_spec fl tl rr cr leak.
Proof. exact any_oracle_sound. Qed.
Print Assumptions C09_any_oracle_sound.

Theorem C09_cap_burst_oracle_sound : forall c p n sigs,
  cap_burst_oracle c p n sigs = true <-> cap_burst_spec c p n sigs.
Proof. exact cap_burst_oracle_sound. Qed.
Print Assumptions C09_cap_burst_oracle_sound.

Theorem C09_idle_burst_oracle_sound : forall n sigs,
  idle_burst_oracle n sigs = true <-> idle_burst_spec n sigs.
Proof. exact idle_burst_oracle_sound. Qed.
Print Assumptions C09_idle_burst_oracle_sound.

Theorem C09_park_oracle_sound : forall held allc rr leak,
  park_oracle held allc rr leak = true <-> park_spec held allc rr leak.
Proof. exact park_oracle_sound. Qed.
Print Assumptions C09_park_oracle_sound.

Theorem C09_end_oracle_sound : forall rr cr leak,
  end_oracle rr cr leak = true <-> end_spec rr cr leak.
Proof. exact end_oracle_sound. Qed.
Print Assumptions C09_end_oracle_sound.
