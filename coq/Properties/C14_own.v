(* C14 (concurrent half, ownership clause) — slice.Slice is an ordinary slice for its caller
   also in what it does with memory, and what the verdict on a recorded case means.
   Statements only; every proof is [exact <lemma of C14/SliceMemProofs.v, C14/LinCaseProofs.v>]. *)
From Coq Require Import List ZArith.
From Kit Require Import C14.LinSpec C14.LinModel C14.SliceMemModel C14.LinCheck
  C14.SliceMemProofs C14.LinCaseProofs.

(* The memory-level model of slice.go (Go slices as headers (array, len, cap) over a memory of
   arrays; append in place when the capacity suffices, else into a fresh array) against its
   caller: for EVERY growth policy of append and EVERY program of the caller — Append of any
   item list spread from the caller's own buffer with any spare capacity, the caller reusing
   the buffer after each call, Len, Slice, looks at the buffer — the answers are those of a
   plain list, and the caller always finds the argument cells and the rest of its buffer as it
   left them: the container copies, it neither keeps a reference to its argument nor writes
   into the caller's array. *)
Theorem C14_slice_copies_arguments : forall g prog, mem_run false g prog = own_run prog.
Proof. exact slice_mem_refines. Qed.
Print Assumptions C14_slice_copies_arguments.

(* Counter-model (not the code): adopting the argument slice while the container is nil.
   (a) the caller reusing its buffer rewrites what was appended; (b) a later Append writes into
   the spare capacity of the caller's array (the caller's check after the call fails). *)
Theorem C14_slice_adopt_refuted :
  (exists prog, mem_run true g_double prog <> own_run prog /\
                mem_run true g_double prog = [MoApp 1 true true; MoSlice [-1000000]]%Z) /\
  (exists prog, mem_run true g_double prog <> own_run prog /\
                mem_run true g_double prog =
                [MoApp 2 true true; MoApp 3 true false; MoSlice [-1000000; -1000001; -1000002];
                 MoCheck true]%Z).
Proof. exact slice_mem_adopt_refuted. Qed.
Print Assumptions C14_slice_adopt_refuted.

(* The boolean oracle on the recorded observations decides the ownership specification. *)
Theorem C14_own_oracle_sound : forall prog obs, own_oracle prog obs = true <-> own_spec prog obs.
Proof. exact own_oracle_sound. Qed.
Print Assumptions C14_own_oracle_sound.

(* What the verdict computed inside coqc on a recorded case means, for all four kinds of case
   (history of the map / the atomic-counter map / the slice; ownership program): verdict 2 is
   given exactly to the well-formed cases whose recorded behaviour violates the specification
   (history not linearizable; observations not those of a copying slice) ... *)
Theorem C14_check_case_violation : forall c,
  check_case c = 2%Z <-> well_formed c = true /\ ~ case_spec c.
Proof. exact check_case_violation. Qed.
Print Assumptions C14_check_case_violation.

(* ... and verdict 0 certifies the specification for that case. *)
Theorem C14_check_case_ok : forall c, check_case c = 0%Z -> case_spec c.
Proof. exact check_case_ok. Qed.
Print Assumptions C14_check_case_ok.
