(* C04 - cron: Next is the earliest instant matching the documented meaning; malformed
   expressions are refused. Statements only. *)
From Kit.Lib Require Import Base.
From Kit.C04 Require Import Cal Zone Str Parse Next Spec Bridge Check Proofs_Local Proofs_Parse Proofs_Next.
From Coq Require Import ZArith NArith List.
Import ListNotations.
Open Scope Z_scope.

Theorem C04_next_fixed_offset : forall b off, off mod 60 = 0 -> forall t,
  next_model b (fixed_zone off) t = result_of_option (next_ref (dsched_of_bits b) (fixed_zone off) t).
Proof. exact next_fixed_offset. Qed.
Print Assumptions C04_next_fixed_offset.
