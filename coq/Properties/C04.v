(* C04 - cron: Next is the earliest instant matching the expression's documented meaning;
   malformed expressions are refused.
   Statements only; every proof is [exact <lemma of C04/Proofs_*.v>].

   Vocabulary. [next_model b z t] is the line-by-line model of SpecSchedule.Next (spec.go) for
   the six uint64 bit sets b, the zone table z (the effective location) and the unix second
   t of the argument; its results are NextAt u, NextZero (Go's zero time) and OutOfFuel (the
   model's 2^34 loop tests did not suffice - not a behaviour of terminating Go code).
   [next_ref d z t] is the SPECIFICATION: the least second u > t whose wall-clock fields in
   zone z satisfy the documented meaning d ([matches]: second, minute, hour, month in their
   sets and the day rule - both day fields must match unless both are restricted, then
   either), or None when the first such second would lie in a wall-clock year later than
   (year of t+1) + 5; it is defined as a naive second-by-second scan. [dsched_of_bits b] reads
   the bit sets as the sets of the specification (bit 63 = unrestricted).
   [parse v o ll pd spec] is the model of NewParser(o).Parse(spec) (parser.go) with
   time.LoadLocation and time.ParseDuration as the oracles ll and pd; v = Fixed is the current
   tree, v = Original the tree before commit 82178ca. *)
From Kit.Lib Require Import Base.
From Kit.C04 Require Import Cal Zone Str Parse Next Spec Bridge Check.
From Kit.C04 Require Import Proofs_Local Proofs_Parse Proofs_Next Proofs_Ref Proofs_Fast Proofs_Bits.
From Kit.C04 Require Import Proofs_Check Proofs_Denote Benign Proofs_Dst Proofs_Dst2.
From Coq Require Import ZArith NArith List String.
Import ListNotations.
Open Scope Z_scope.

(* ---------------------------------------------------------------------------------------- *)
(* Next on fixed offsets                                                                     *)

(* HEADLINE. On every fixed offset that is a whole number of minutes, for EVERY six bit sets
   (any expression the parser can produce, and sets it cannot produce, e.g. empty ones) and
   EVERY instant, Next returns exactly what the specification demands: the least later second
   that matches, strictly after t, and the zero time exactly when there is none inside the
   five-year window. *)
Theorem C04_next_fixed_offset : forall b off, off mod 60 = 0 -> forall t,
  next_model b (fixed_zone off) t =
  result_of_option (next_ref (dsched_of_bits b) (fixed_zone off) t).
Proof. exact next_fixed_offset. Qed.
Print Assumptions C04_next_fixed_offset.

(* The five-year bound really bounds the search: on such zones the model never runs out of its
   2^34 loop tests, whatever the bit sets (an empty Second set makes it visit every second of
   six years). *)
Theorem C04_next_terminates_fixed : forall b off, off mod 60 = 0 -> forall t,
  next_model b (fixed_zone off) t <> OutOfFuel.
Proof. exact next_terminates_fixed. Qed.
Print Assumptions C04_next_terminates_fixed.

(* A returned instant is later than the argument and matches the schedule. *)
Theorem C04_next_sound_fixed : forall b off, off mod 60 = 0 -> forall t u,
  next_model b (fixed_zone off) t = NextAt u ->
  t < u /\ matches_bits b (fixed_zone off) u = true.
Proof. exact next_sound_fixed. Qed.
Print Assumptions C04_next_sound_fixed.

(* ---------------------------------------------------------------------------------------- *)
(* Next on BENIGN daylight-saving tables                                                     *)

(* [dst_benign z] (Benign.v, decidable): the table is sorted, offsets at most a day and whole
   minutes; every entry keeps the offset or changes it by exactly one hour at an instant that
   is a whole hour on the wall clock, the skipped or repeated wall-clock hour lying between
   01:00 and 23:00 of one day (so every local midnight exists exactly once); offset changes
   are at least three days apart. Europe, North America, most of the world today.
   POSITIVE THEOREM. On every benign table, for EVERY six bit sets and EVERY instant, Next
   returns exactly the specification's value: the least later second that matches on the
   wall clock of the zone - across gaps (times that do not exist are skipped) and overlaps
   (the first of two equal wall-clock times is returned) - and the zero time exactly when
   there is none inside the five-year window. *)
Theorem C04_next_dst_benign : forall b z, dst_benign z = true -> forall t,
  next_model b z t = result_of_option (next_ref (dsched_of_bits b) z t).
Proof. exact next_dst_benign. Qed.
Print Assumptions C04_next_dst_benign.

(* ... in particular the search terminates there (it does not on tables with a skipped day:
   C04_refuted_day_skip_hang). *)
Theorem C04_next_terminates_benign : forall b z, dst_benign z = true -> forall t,
  next_model b z t <> OutOfFuel.
Proof. exact next_terminates_benign. Qed.
Print Assumptions C04_next_terminates_benign.

(* The hypothesis is satisfiable by real tables: Europe/Berlin 2023-2025 and America/New_York
   2024-2025 as Time.ZoneBounds reports them; the zones of the known findings are excluded. *)
Theorem C04_dst_benign_examples :
  dst_benign berlin = true /\ dst_benign new_york = true /\
  dst_benign lord_howe = false /\ dst_benign havana = false.
Proof. exact (conj berlin_benign (conj new_york_benign (conj lord_howe_not_benign havana_not_benign))). Qed.
Print Assumptions C04_dst_benign_examples.

(* What a benign table means for the offset function g (u |-> offset in force at u): whole
   minutes, at most a day, and on every interval shorter than three days g is constant or
   makes one jump of an hour, on a whole wall-clock hour, away from midnight. *)
Theorem C04_dst_benign_fun : forall z, dst_benign z = true -> benign_fun (offset_at z).
Proof. exact dst_benign_fun. Qed.
Print Assumptions C04_dst_benign_fun.

(* ---------------------------------------------------------------------------------------- *)
(* the specification's reference, every zone                                                 *)

(* [next_ref] returns u exactly when u is the least second after t that matches and no second
   of (t, u] lies beyond the window (u within the 2^28-second cap of the scan, which is longer
   than any window). *)
Theorem C04_next_ref_least : forall d z t u,
  next_ref d z t = Some u <->
  (t < u < t + 1 + 2 ^ Z.of_nat scan_log /\ matches d z u = true /\
   (forall x, t < x < u -> matches d z x = false) /\
   (forall x, t < x <= u -> in_window z t x)).
Proof. exact next_ref_least. Qed.
Print Assumptions C04_next_ref_least.

(* The zero time of the reference: no second x after t matches while (t, x] is inside the
   window. *)
Theorem C04_next_ref_none : forall d z t, next_ref d z t = None ->
  forall x, t < x < t + 1 + 2 ^ Z.of_nat scan_log ->
    (forall y, t < y <= x -> in_window z t y) -> matches d z x = false.
Proof. exact next_ref_none. Qed.
Print Assumptions C04_next_ref_none.

(* ORACLE SOUNDNESS. The executable reference that Check.v evaluates on every observation
   (zone period by zone period, days / hours / minutes / seconds on the wall clock) equals the
   naive scan, for every zone table whose offsets are at most a day - DST zones included. *)
Theorem C04_next_ref_fast_correct : forall d z t,
  zone_offsets_small z = true -> next_ref_fast d z t = next_ref d z t.
Proof. exact next_ref_fast_correct. Qed.
Print Assumptions C04_next_ref_fast_correct.

(* ... so the oracle accepts an observation exactly when it is the reference value. *)
Theorem C04_next_oracle_sound : forall d z t obs, zone_ok z = true ->
  (match obs, next_ref_fast d z t with
   | Some a, Some b => a =? b | None, None => true | _, _ => false end) = true <->
  obs = next_ref d z t.
Proof. exact next_oracle_sound_zone. Qed.
Print Assumptions C04_next_oracle_sound.

(* ---------------------------------------------------------------------------------------- *)
(* Other DST zones: the property is false of the code (known findings, not fixed). Over every
   IANA zone x transition 1970-2037 the Go code and the reference differ ONLY near transitions
   of these six shapes (harness, C04_SCREEN=1: 6.4 million calls); on benign tables they cannot
   differ (C04_next_dst_benign above, for the model). *)

(* Australia/Lord_Howe (30-minute shift, 2023-10-01): "15 3 * * *" from 00:00 returns 03:15 of
   2 October although 03:15 of 1 October exists. *)
Theorem C04_refuted_half_hour_shift : exists b z t, zone_ok z = true /\
  next_model b z t <> result_of_option (next_ref (dsched_of_bits b) z t).
Proof. exact refuted_half_hour_shift. Qed.
Print Assumptions C04_refuted_half_hour_shift.

(* ... and "45 1 * * *" from 01:45 returns 02:45: an instant that does not match at all. *)
Theorem C04_refuted_half_hour_shift_wrong_hour : exists b z t u, zone_ok z = true /\
  next_model b z t = NextAt u /\ matches (dsched_of_bits b) z u = false.
Proof. exact refuted_half_hour_shift_wrong_hour. Qed.
Print Assumptions C04_refuted_half_hour_shift_wrong_hour.

(* America/Havana (00:00 -> 01:00 gap, 2024-03-10): "0 1 9 3 *" from 9 March 02:00 returns
   01:00 of 10 March (day 10, not 9). *)
Theorem C04_refuted_midnight_gap : exists b z t, zone_ok z = true /\
  next_model b z t <> result_of_option (next_ref (dsched_of_bits b) z t).
Proof. exact refuted_midnight_gap. Qed.
Print Assumptions C04_refuted_midnight_gap.

(* America/St_Johns (switch at 00:01 wall clock, 2001-04-01): "0 0 1 * *" from 00:00:01 returns
   1 June, skipping 1 May 00:00. *)
Theorem C04_refuted_off_hour : exists b z t, zone_ok z = true /\
  next_model b z t <> result_of_option (next_ref (dsched_of_bits b) z t).
Proof. exact refuted_off_hour. Qed.
Print Assumptions C04_refuted_off_hour.

(* Africa/Tunis (01:00 -> 00:00, 1978-10-01: 00:00 happens twice): "0 0 1 * *" returns the
   second 00:00, skipping the first. *)
Theorem C04_refuted_midnight_overlap : exists b z t, zone_ok z = true /\
  next_model b z t <> result_of_option (next_ref (dsched_of_bits b) z t).
Proof. exact refuted_midnight_overlap. Qed.
Print Assumptions C04_refuted_midnight_overlap.

(* America/Argentina/Catamarca (two hours back, 1991-03-03): "59 59 23 * * *" asked at the
   transition instant returns an instant one second BEFORE the argument. *)
Theorem C04_refuted_multi_hour_not_later : exists b z t u, zone_ok z = true /\
  next_model b z t = NextAt u /\ u < t.
Proof. exact refuted_multi_hour_not_later. Qed.
Print Assumptions C04_refuted_multi_hour_not_later.

(* Pacific/Apia (30 December 2011 skipped): the search never leaves the day loop - the model
   exhausts any fuel (the Go code spins for ever) - although the next activation is one minute
   away. So termination does NOT hold for every zone. *)
Theorem C04_refuted_day_skip_hang : exists b z t, zone_ok z = true /\
  next_model b z t = OutOfFuel /\ next_ref (dsched_of_bits b) z t = Some (t + 60).
Proof. exact refuted_day_skip_hang. Qed.
Print Assumptions C04_refuted_day_skip_hang.

(* ---------------------------------------------------------------------------------------- *)
(* @every                                                                                    *)

(* '@every d' yields t truncated to the second plus d truncated to the second, at least 1 s
   (d in nanoseconds; the instant as (unix second, nanoseconds)). *)
Theorem C04_every : forall d sec nanos, 0 <= nanos < ns_per_s ->
  every_next (every d) (sec, nanos) = (sec + Z.max 1 (d / ns_per_s), 0).
Proof. exact every_next_law. Qed.
Print Assumptions C04_every.

(* ---------------------------------------------------------------------------------------- *)
(* field -> 64-bit set                                                                       *)

(* getBits(lo, hi, step) on real uint64 shifts is the stepped range lo, lo+step, ... <= hi,
   bit by bit ([stepped] is the specification's reading of lo-hi/step). *)
Theorem C04_get_bits_denotes : forall lo hi step x,
  0 <= lo -> lo <= hi -> hi <= 62 -> 1 <= step -> 0 <= x < 64 ->
  tb (get_bits lo hi step) x = stepped lo hi step x.
Proof. exact get_bits_denotes. Qed.
Print Assumptions C04_get_bits_denotes.

(* Whatever list item getRange ACCEPTS for a field with bounds [min, max] denotes a stepped
   range lo-hi/st with min <= lo <= hi <= max and st >= 1 (possibly with the star bit): values
   outside the bounds, inverted ranges and zero steps are never given a meaning. *)
Theorem C04_item_denotes_range : forall e r bits,
  0 <= b_min r -> b_max r <= 62 -> get_range e r = Ok bits ->
  exists lo hi st,
    b_min r <= lo /\ lo <= hi /\ hi <= b_max r /\ 1 <= st /\
    forall x, 0 <= x <= 62 -> tb bits x = stepped lo hi st x.
Proof. exact item_denotes_range. Qed.
Print Assumptions C04_item_denotes_range.

(* Every schedule the parser returns for a field list (any option set, any TZ prefix) has its
   six sets inside the documented ranges: second, minute 0-59; hour 0-23; day of month 1-31;
   month 1-12; day of week 0-6. *)
Theorem C04_parse_sets_in_bounds : forall v o ll pd spec sec mi hr dm mo dw loc,
  prefixb (bs "@") (match strip_tz v ll spec with Ok (_, rest) => rest | _ => spec end) = false ->
  parse v o ll pd spec = Ok (SpecSched sec mi hr dm mo dw loc) ->
  set_within sec 0 59 /\ set_within mi 0 59 /\ set_within hr 0 23 /\
  set_within dm 1 31 /\ set_within mo 1 12 /\ set_within dw 0 6.
Proof. exact parse_sets_in_bounds. Qed.
Print Assumptions C04_parse_sets_in_bounds.

(* ---------------------------------------------------------------------------------------- *)
(* PARSE_DENOTES: concrete syntax -> six sets                                                *)

(* [parse_doc_out o zo du spec] (Check.v) is the documented grammar's opinion on a spec, written
   with Spec.v only. [zo], [du] are the answers of time.LoadLocation (for the name in a
   TZ=/CRON_TZ= prefix) and time.ParseDuration (for what follows "@every "); None = error.
   * FIELD LISTS: numbers, month / day names in any capitalisation, '*', '?' (day fields), v-w,
     */s, v/s, v-w/s, comma lists; fields split on white space and completed for the option
     set o. Some (ObsOk ...) - the six denoted sets, bit 63 = the field is unrestricted - when
     every item is valid; Some ObsErr when some item is not (value out of range, inverted
     range, zero step), when some field holds an item the documentation refuses by name (a
     word that is neither a number nor a name of that field: "Mayhem", "janx", "1e1"), or when
     the number of fields does not fit the option set; None for syntax outside the documented
     grammar ("*-5", "+5", an empty list item).
   * DESCRIPTORS: a descriptor is the WHOLE spec after the optional prefix: one of @yearly,
     @annually, @monthly, @weekly, @daily, @midnight, @hourly - each denoting the six-field
     expression doc.go lists for it - or "@every " and ONE duration (d truncated to seconds,
     at least 1 s). Anything else starting with '@' (unknown name, other capitalisation, words
     after the descriptor, a second duration word), and any descriptor when the Descriptor
     option is off, is Some ObsErr.
   * TZ=/CRON_TZ= PREFIX: unknown zone or no following field list: Some ObsErr; otherwise the
     rest of the spec, trimmed, as above. The empty spec: Some ObsErr.
   PARSE_DENOTES: whenever it has an opinion, the model of NewParser(o).Parse(spec) does
   exactly that - for EVERY option set; with a TZ prefix for the current tree (before commit
   82178ca a prefix without fields panicked). *)
Theorem C04_parse_denotes : forall v o zo du spec,
  v = Fixed \/ has_tz_prefix spec = false ->
  match parse_doc_out o zo du spec with
  | Some (ObsOk a b c d e f) =>
      exists loc, parse v o (fun _ => zo) (fun _ => du) spec = Ok (SpecSched a b c d e f loc)
  | Some (ObsEvery n) => parse v o (fun _ => zo) (fun _ => du) spec = Ok (EverySched n)
  | Some ObsErr => exists err, parse v o (fun _ => zo) (fun _ => du) spec = Err err
  | Some ObsPanic => False
  | None => True
  end.
Proof. exact parse_denotes. Qed.
Print Assumptions C04_parse_denotes.

(* The oracle is not vacuous: what it says about descriptors, trailing words, prefixes. *)
Theorem C04_parse_doc_examples :
  (exists a b c d e f, parse_doc_out 380 None None (bs "@monthly") = Some (ObsOk a b c d e f)) /\
  parse_doc_out 380 None (Some 5400000000000) (bs "@every 1h30m") = Some (ObsEvery 5400000000000) /\
  parse_doc_out 380 None None (bs "@every 1h 30m") = Some ObsErr /\
  parse_doc_out 380 None None (bs "@daily 5 * * * *") = Some ObsErr /\
  parse_doc_out 380 None None (bs "@yearly @monthly") = Some ObsErr /\
  parse_doc_out 380 (Some (fixed_zone 0)) None (bs "TZ=UTC @monthly 15") = Some ObsErr /\
  (exists a b c d e f,
     parse_doc_out 380 (Some (fixed_zone 0)) None (bs "TZ=UTC @monthly") = Some (ObsOk a b c d e f)) /\
  parse_doc_out 380 None None (bs "TZ=Nowhere * * * * *") = Some ObsErr /\
  parse_doc_out 380 (Some (fixed_zone 0)) None (bs "TZ=UTC") = Some ObsErr /\
  parse_doc_out 124 None None (bs "@daily") = Some ObsErr /\
  parse_doc_out 380 None None (bs "* * * *") = Some ObsErr.
Proof. exact parse_denotes_descriptors. Qed.
Print Assumptions C04_parse_doc_examples.

(* One field: a comma list of documented items read by getField gives exactly the denoted
   set (Some (Some bits)) or an error (Some None: some item invalid). [fr_ok f r] ties a field
   of the grammar to the bounds of the code; it holds for the six fields (next theorem). *)
Theorem C04_field_denotes : forall f r s, fr_ok f r ->
  match doc_field f s with
  | Some (Some bits) => get_field s r = Ok bits
  | Some None => exists err, get_field s r = Err err
  | None => True
  end.
Proof. exact field_denotes. Qed.
Print Assumptions C04_field_denotes.

Theorem C04_six_fields_ok :
  fr_ok fs_second seconds /\ fr_ok fs_minute minutes /\ fr_ok fs_hour hours /\
  fr_ok fs_dom dom /\ fr_ok fs_month months /\ fr_ok fs_dow dow.
Proof. exact (conj fr_second (conj fr_minute (conj fr_hour (conj fr_dom (conj fr_month fr_dow))))). Qed.
Print Assumptions C04_six_fields_ok.

(* One item: valid -> the bit set of its documented denotation, with the star flag exactly
   for '*', '?' and '*/1'; invalid -> an error. *)
Theorem C04_item_denotes : forall f r e tm, fr_ok f r -> read_item f e = Some tm ->
  if term_valid f tm
  then exists bits, get_range e r = Ok bits /\ bits_denote bits (denote_term f tm) (wildcard tm)
  else exists err, get_range e r = Err err.
Proof. exact item_denotes. Qed.
Print Assumptions C04_item_denotes.

(* Unknown names and non-numeric values: an item whose pieces are plain words, one of which is
   neither a number nor a name of the field (or a non-numeric step), is refused by getRange. *)
Theorem C04_refused_item_rejected : forall f r e,
  fr_ok f r -> refused_item f e = true -> exists err, get_range e r = Err err.
Proof. exact refused_item_rejected. Qed.
Print Assumptions C04_refused_item_rejected.

(* REMAINDER (not a theorem): the syntax the code accepts BEYOND the documented grammar
   ("*-5", "+5", '?' outside the day fields, empty list items, U+0130 / U+212A in names): for
   those only C04_item_denotes_range above speaks (a stepped range inside the bounds). *)

(* ---------------------------------------------------------------------------------------- *)
(* the shortcuts of the correspondence check are sound                                       *)

(* Check.v runs the model with 2^22 loop tests: a result it reaches is next_model's result. *)
Theorem C04_check_fuel_sound : forall n b z t r, (n <= next_fuel)%nat ->
  next_model_fuel n b z t = r -> r <> OutOfFuel -> next_model b z t = r.
Proof. exact next_model_fuel_result. Qed.
Print Assumptions C04_check_fuel_sound.

(* A call the check finds stuck (verdict 2 for an observed hang) never returns in the model. *)
Theorem C04_model_stuck_sound : forall b z t,
  model_stuck b z t = true -> next_model b z t = OutOfFuel.
Proof. exact model_stuck_sound. Qed.
Print Assumptions C04_model_stuck_sound.

(* ---------------------------------------------------------------------------------------- *)
(* the parser refuses malformed expressions (and never panics on the current tree)           *)

(* Current tree: Parse never panics unless NewParser itself does (both optionals: documented). *)
Theorem C04_parse_no_panic : forall o ll pd spec,
  new_parser_panics o = false -> parse Fixed o ll pd spec <> Panic.
Proof. exact parse_fixed_no_panic. Qed.
Print Assumptions C04_parse_no_panic.

(* Before the fix the only panic was the TZ=/CRON_TZ= prefix with no space in the spec. *)
Theorem C04_parse_original_panic_iff : forall o ll pd spec,
  parser_parse Original o ll pd spec = Panic <->
  has_tz_prefix spec = true /\ go_index 32 spec = -1.
Proof. exact parser_parse_original_panic_iff. Qed.
Print Assumptions C04_parse_original_panic_iff.

(* Wrong number of fields, for ANY option set: refused. *)
Theorem C04_parse_rejects_field_count : forall v o ll pd spec loc rest,
  new_parser_panics o = false -> spec <> [] ->
  strip_tz v ll spec = Ok (loc, rest) -> prefixb (bs "@") rest = false ->
  (len (go_fields rest) < min_fields o \/ max_fields o < len (go_fields rest)) ->
  parse v o ll pd spec = Err EFieldCount.
Proof. exact parse_rejects_field_count. Qed.
Print Assumptions C04_parse_rejects_field_count.

(* ... instantiated for the option sets the property names. *)
Theorem C04_parse_rejects_count_standard : forall v ll pd spec,
  spec <> [] -> has_tz_prefix spec = false -> prefixb (bs "@") spec = false ->
  len (go_fields spec) <> 5 -> parse v opts_standard ll pd spec = Err EFieldCount.
Proof. exact parse_rejects_count_standard. Qed.
Print Assumptions C04_parse_rejects_count_standard.

Theorem C04_parse_rejects_count_seconds : forall v ll pd spec,
  spec <> [] -> has_tz_prefix spec = false -> prefixb (bs "@") spec = false ->
  len (go_fields spec) <> 6 -> parse v opts_seconds ll pd spec = Err EFieldCount.
Proof. exact parse_rejects_count_seconds. Qed.
Print Assumptions C04_parse_rejects_count_seconds.

Theorem C04_parse_rejects_count_seconds_optional : forall v ll pd spec,
  spec <> [] -> has_tz_prefix spec = false -> prefixb (bs "@") spec = false ->
  (len (go_fields spec) < 5 \/ 6 < len (go_fields spec)) ->
  parse v opts_seconds_optional ll pd spec = Err EFieldCount.
Proof. exact parse_rejects_count_seconds_optional. Qed.
Print Assumptions C04_parse_rejects_count_seconds_optional.

Theorem C04_parse_rejects_count_dow_optional : forall v ll pd spec,
  spec <> [] -> has_tz_prefix spec = false -> prefixb (bs "@") spec = false ->
  (len (go_fields spec) < 4 \/ 5 < len (go_fields spec)) ->
  parse v opts_dow_optional ll pd spec = Err EFieldCount.
Proof. exact parse_rejects_count_dow_optional. Qed.
Print Assumptions C04_parse_rejects_count_dow_optional.

(* Unknown descriptor; descriptor with the Descriptor option off; bad @every duration;
   unknown time zone: refused. *)
Theorem C04_parse_rejects_unknown_descriptor : forall v o ll pd spec,
  new_parser_panics o = false -> has_tz_prefix spec = false ->
  prefixb (bs "@") spec = true -> known_descriptor spec = false ->
  prefixb (bs "@every ") spec = false -> exists e, parse v o ll pd spec = Err e.
Proof. exact parse_rejects_unknown_descriptor. Qed.
Print Assumptions C04_parse_rejects_unknown_descriptor.

Theorem C04_parse_rejects_descriptor_when_off : forall v o ll pd spec,
  new_parser_panics o = false -> has_tz_prefix spec = false ->
  prefixb (bs "@") spec = true -> has o o_descriptor = false ->
  parse v o ll pd spec = Err EDescriptorsOff.
Proof. exact parse_rejects_descriptor_when_off. Qed.
Print Assumptions C04_parse_rejects_descriptor_when_off.

Theorem C04_parse_rejects_bad_duration : forall v o ll pd spec,
  new_parser_panics o = false -> has_tz_prefix spec = false ->
  prefixb (bs "@every ") spec = true -> pd (skipn 7 spec) = None ->
  exists e, parse v o ll pd spec = Err e.
Proof. exact parse_rejects_bad_duration. Qed.
Print Assumptions C04_parse_rejects_bad_duration.

Theorem C04_parse_rejects_unknown_zone : forall v o pd spec,
  new_parser_panics o = false -> has_tz_prefix spec = true -> go_index 32 spec <> -1 ->
  exists e, parse v o (fun _ => None) pd spec = Err e.
Proof. exact parse_rejects_unknown_zone. Qed.
Print Assumptions C04_parse_rejects_unknown_zone.
