(* C08 — independent operations do not interfere through package-level shared state.
   Statements only; every proof is [exact <lemma of C08/Proofs*.v>]. *)
From Kit Require Import C08.Model C08.Spec C08.Check C08.Proofs C08.Proofs_witness C08.Proofs_shared C08.Proofs_progress.

(* The Encrypt / Decrypt programs of the current tree (readHeader clones the two header lines),
   for EVERY input (any header chunking, any number of segments, any source chunks, carry-over
   bytes, consumer read sizes, any AEAD function), obey the static discipline: every access to a
   pooled buffer lies between the operation's own Get and Put and inside what it wrote itself,
   and no slice of the buffer survives the Put. *)
Theorem C08_fixed_programs_disciplined : forall d, desc_wf d -> safe_prog (compile Fixed d) = true.
Proof. exact compile_fixed_safe. Qed.
Print Assumptions C08_fixed_programs_disciplined.

(* Ownership, current tree: in EVERY state reachable by any number of operations under any
   interleaving of their atomic actions and any choice of sync.Pool, a pooled buffer referenced
   by an operation (held, or aliased by its manifest/MAC slices) is not in the pool and is
   referenced by no other operation. *)
Theorem C08_ownership : forall ds s,
  (forall i, desc_wf (ds i)) -> reachable (fixed_progs ds) s ->
  forall i b, referenced s i b -> ~ In b (pool s) /\ forall j, referenced s j b -> j = i.
Proof. exact fixed_ownership. Qed.
Print Assumptions C08_ownership.

(* Non-interference, current tree: for EVERY schedule, what operation i has observed (every byte
   string it read out of a pooled buffer: manifest as parsed, manifest and MAC as verified,
   every processed segment as written to its output) equals what it observes after the same
   number of its own actions alone in the process. *)
Theorem C08_noninterference : forall ds, (forall i, desc_wf (ds i)) ->
  forall es s i, run (init_state (fixed_progs ds)) es = Some s ->
  exists t, run_alone (fixed_progs ds i) (count i es) = Some t /\ result s i = result t 0.
Proof. exact fixed_noninterference. Qed.
Print Assumptions C08_noninterference.

(* Progress (no operation can be blocked through the pool): in EVERY reachable state of disciplined
   programs, an operation that has not finished can take its next action, whatever the other
   operations are doing and whatever sync.Pool would hand out. *)
Theorem C08_progress : forall progs s i c,
  (forall j, safe_prog (progs j) = true) -> reachable progs s -> ~ finished s i ->
  exists s', step s (i, c) = Some s'.
Proof.
  exact (fun progs s i c H Hr Hnf => progress s i c (Inv_reachable progs s H Hr) Hnf).
Qed.
Print Assumptions C08_progress.

(* Termination: in every schedule the number of actions operation i has taken plus the length of
   what is left of its program is the length of its program (one action per instruction, no
   loops); and from every reachable state operation i can be driven to its end, alone, in exactly
   that many actions. *)
Theorem C08_steps_bounded : forall progs es s i,
  run (init_state progs) es = Some s ->
  length (prog (ops s i)) + count i es = length (progs i).
Proof. exact steps_bounded. Qed.
Print Assumptions C08_steps_bounded.

Theorem C08_can_always_finish : forall progs es s i,
  (forall j, safe_prog (progs j) = true) -> run (init_state progs) es = Some s ->
  exists es' s', run s es' = Some s' /\ finished s' i /\ count i es' = length (prog (ops s i)).
Proof. exact can_always_finish. Qed.
Print Assumptions C08_can_always_finish.

(* The COMPLETE result: whenever operation i has finished - in ANY schedule, with any other
   operations before, between and after its actions - everything it observed is its solo result,
   the observations of its complete run alone in the process (which exists: a disciplined program
   alone runs to its end). *)
Theorem C08_completed_result : forall progs es s i,
  (forall j, safe_prog (progs j) = true) -> run (init_state progs) es = Some s ->
  finished s i -> result s i = solo_result (progs i).
Proof. exact completed_result. Qed.
Print Assumptions C08_completed_result.

Theorem C08_solo_terminates : forall p, safe_prog p = true ->
  exists t, run_alone p (length p) = Some t /\ finished t 0.
Proof. exact solo_terminates. Qed.
Print Assumptions C08_solo_terminates.

(* The functions the correspondence check evaluates on every recorded nesting are tied to these
   theorems: the "solo trace" it compares with (LIFO pool, fuel 4000) is the solo result, and its
   prediction for the current tree - operation 0 and 1 run with complete pipelines nested at their
   callbacks, the rest afterwards - is Same for every pipeline, for EVERY nesting, as soon as the
   recorded programs pass the (decidable, evaluated per case) premises. *)
Theorem C08_solo_trace_is_solo_result : forall p,
  safe_prog p = true -> length p <= 4000 -> solo_trace p = solo_result p.
Proof. exact solo_trace_is_solo_result. Qed.
Print Assumptions C08_solo_trace_is_solo_result.

Theorem C08_predict_fixed_all_same : forall ps nests,
  (forall i, safe_prog (progs_of Fixed ps i) = true) ->
  (forall i, length (progs_of Fixed ps i) <= 4000) ->
  predict Fixed ps nests = repeat Same (length ps).
Proof. exact predict_fixed_all_same. Qed.
Print Assumptions C08_predict_fixed_all_same.

Theorem C08_predict_fixed_checked : forall ps nests,
  nest_premises_b ps = true -> predict Fixed ps nests = repeat Same (length ps).
Proof. exact predict_fixed_checked. Qed.
Print Assumptions C08_predict_fixed_checked.

(* Both hold for ANY programs obeying the discipline (not only the compiled ones). *)
Theorem C08_discipline_suffices : forall progs, (forall i, safe_prog (progs i) = true) ->
  (forall s, reachable progs s -> exclusive s) /\ noninterfering progs.
Proof.
  exact (fun progs H => conj (fun s Hr => ownership progs s H Hr) (noninterference progs H)).
Qed.
Print Assumptions C08_discipline_suffices.

(* The tree before the fix: there are well-formed operations and a schedule (A's readHeader and
   json.Unmarshal, then a whole Encrypt of B inside A's UnwrapKeyFn, then the rest of A) after
   whose prefix A references a buffer that is in the pool, and at whose end A has verified a MAC
   over B's bytes — observations it never makes alone. *)
Theorem C08_header_alias_refuted :
  exists (ds : opid -> opdesc) (es1 es : list event) (s1 s : state) (b : bufid),
    (forall i, desc_wf (ds i)) /\
    run (init_state (orig_progs ds)) es1 = Some s1 /\ referenced s1 0 b /\ In b (pool s1) /\
    run (init_state (orig_progs ds)) es = Some s /\
    exists t, run_alone (orig_progs ds 0) (count 0 es) = Some t /\ result s 0 <> result t 0.
Proof. exact header_alias_refuted. Qed.
Print Assumptions C08_header_alias_refuted.

(* Logger registry: for EVERY interleaving of the Lock / look-up / insert / Unlock steps of any
   number of NewLogger calls, the registry and the logger every caller got are those of the
   calls executed one at a time in the order they took the lock (the caller currently between
   Lock and its insert, if any, not yet counted). *)
Theorem C08_registry_linearizable : forall names es s,
  rrun names rinit es = Some s ->
  exists applied res,
    seq_registry names applied [] 0 [] = (r_map s, r_next s, res) /\
    (forall t l, r_pc s t = RHave l \/ r_pc s t = RDone l -> In (t, l) res) /\
    (r_order s = applied \/ exists t, r_order s = applied ++ [t] /\
                                      (r_pc s t = RLocked \/ r_pc s t = RMiss)).
Proof. exact registry_linearizable. Qed.
Print Assumptions C08_registry_linearizable.

(* ... and the sequential get-or-create gives equal names the same logger and distinct names
   distinct loggers. *)
Theorem C08_registry_same_name_same_logger : forall names order m nx res t1 l1 t2 l2,
  seq_registry names order [] 0 [] = (m, nx, res) ->
  In (t1, l1) res -> In (t2, l2) res -> (names t1 = names t2 <-> l1 = l2).
Proof. exact seq_registry_consistent. Qed.
Print Assumptions C08_registry_same_name_same_logger.

(* No orphans: in EVERY interleaving, the logger a caller was given is the one the registry holds
   under its name - so options applied to the registered loggers reach every holder. *)
Theorem C08_registry_no_orphan : forall names es s t l,
  rrun names rinit es = Some s ->
  r_pc s t = RHave l \/ r_pc s t = RDone l -> lookup (names t) (r_map s) = Some l.
Proof. exact registry_no_orphan. Qed.
Print Assumptions C08_registry_no_orphan.

(* A read-locked fast path that creates and stores without looking again under the write lock
   (not what the tree does) breaks both: two overlapping first look-ups of one name get different
   loggers and the registry keeps only the second. *)
Theorem C08_registry_fastpath_refuted :
  exists names es s,
    frun names finit es = Some s /\ names 0 = names 1 /\
    f_pc s 0 = FDone 0 /\ f_pc s 1 = FDone 1 /\ lookup (names 0) (f_map s) = Some 1.
Proof. exact registry_fastpath_refuted. Qed.
Print Assumptions C08_registry_fastpath_refuted.

(* byteslicepool (Get / append / Resize / Put), current tree (Get clears the whole capacity of a
   recycled slice): for EVERY initial memory content, EVERY schedule by any number of callers -
   including callers that shrink their slice before putting it back, and callers that keep their
   original slice after a growing Resize and put it back later (the defer idiom) - and every choice of
   sync.Pool, each byte a caller sees through its slice is zero or a byte it wrote itself since its
   Get. *)
Theorem C08_byteslicepool_no_carry : forall mincap h0 es s t x,
  brun Fixed mincap (binit h0) es = Some s ->
  In x (visible s t) -> x = 0%N \/ In x (written es (fun _ => []) t).
Proof. exact byteslicepool_no_carry. Qed.
Print Assumptions C08_byteslicepool_no_carry.

(* ... and as long as no caller shrinks its slice (before and after the fix) it sees EXACTLY what
   it appended, with zeroes where it grew the slice with Resize. *)
Theorem C08_byteslicepool_exact : forall v mincap h0 es s t,
  brun v mincap (binit h0) es = Some s -> grows_only v mincap (binit h0) es ->
  visible s t = appended t es [].
Proof. exact byteslicepool_exact. Qed.
Print Assumptions C08_byteslicepool_exact.

(* The code before the fix cleared a recycled slice only up to the length it was Put with: a
   caller that appended [7;7;7], shrank to length 1 and Put the slice left 7;7 behind, and the next
   caller - which has written nothing - saw [0;7;7] after Get + Resize(3). *)
Theorem C08_byteslicepool_shrink_put_refuted :
  exists mincap es s, brun Original mincap (binit (fun _ _ => 0%N)) es = Some s /\
                      visible s 1 = [0; 7; 7]%N /\ written es (fun _ => []) 1 = [].
Proof. exact byteslicepool_shrink_put_refuted. Qed.
Print Assumptions C08_byteslicepool_shrink_put_refuted.

(* A buffer released twice (an explicit Put on an error path of a function that also has the
   deferred Put - not what the tree does; such programs fail the discipline check) makes two LATER
   operations hold the same buffer at the same time. *)
Theorem C08_double_put_refuted :
  exists (progs : opid -> list instr) es s b,
    run (init_state progs) es = Some s /\
    cur (ops s 1) = Some b /\ cur (ops s 2) = Some b.
Proof. exact double_put_refuted. Qed.
Print Assumptions C08_double_put_refuted.

(* Scratch objects of the crypto helpers (the hash.Hash of an RSA-OAEP call): when every call works
   on its own object, for EVERY interleaving of the callers' Reset / Write / Sum steps every Sum
   returns the digest of exactly the caller's own writes since its Reset. *)
Theorem C08_scratch_per_call_isolated : forall hid, (forall a b, hid a = hid b -> a = b) ->
  forall es h0, snd (hrun hid (h0, []) es) = hexpect es (fun t => h0 (hid t)).
Proof. exact scratch_per_call_isolated. Qed.
Print Assumptions C08_scratch_per_call_isolated.

(* With ONE package-level object for all callers (not what the tree does) it is false. *)
Theorem C08_shared_scratch_refuted :
  exists es, snd (hrun (fun _ => 0) (fun _ => [], []) es) <> hexpect es (fun _ => []).
Proof. exact shared_scratch_refuted. Qed.
Print Assumptions C08_shared_scratch_refuted.

(* Default cron parser: the package variable is never written and every ParseStandard result is
   the pure parse of the caller's own argument. *)
Theorem C08_parser_stateless : forall R (parse : Z -> list N -> R) es s0,
  ps_options (prun parse s0 es) = ps_options s0 /\
  ps_results (prun parse s0 es) =
    ps_results s0 ++ map (fun e => (fst e, parse (ps_options s0) (snd e))) es.
Proof. exact (fun R parse es s0 => parser_stateless parse es s0). Qed.
Print Assumptions C08_parser_stateless.

(* A one-entry cache whose key and value live in two separately written cells (not in the tree:
   cron's Parse loads the location on every call) can answer a look-up of key 1 with the value of
   key 2 - every single access being atomic. *)
Theorem C08_split_cache_refuted :
  exists keys ts s, crun keys (mkC None None (fun _ => CStart)) ts = Some s /\
                    keys 2 = 1%Z /\ c_pc s 2 = CRet 2%Z.
Proof. exact split_cache_refuted. Qed.
Print Assumptions C08_split_cache_refuted.

(* A per-process memo keyed by a caller-chosen label (key id, key name) in front of a function of the
   key material (not in the tree) answers the second key under a label with the first one's material;
   it is harmless exactly when labels identify the material. *)
Theorem C08_label_memo_refuted : exists calls, mrun [] calls <> map snd calls.
Proof. exact label_memo_refuted. Qed.
Print Assumptions C08_label_memo_refuted.

Theorem C08_label_memo_distinct_labels : forall calls memo,
  NoDup (map fst calls) -> (forall c p, In c calls -> In p memo -> fst p <> fst c) ->
  mrun memo calls = map snd calls.
Proof. exact mrun_distinct_labels. Qed.
Print Assumptions C08_label_memo_distinct_labels.

(* The boolean oracle evaluated on the implementation's observations decides the spec. *)
Theorem C08_oracle_sound : forall c,
  oracle c = true <->
  match c with
  | CNest _ _ obs => all_same obs
  | CObs obs => all_same obs
  | CPool _ data got_len seen => got_len = 0%Z /\ seen = data
  | CReg obs => reg_consistent obs
  | CRegApply obs reached => reg_consistent obs /\ all_reached reached
  | CNestF faults _ _ obs => all_same (faults ++ obs)
  | CPoolSeq ops seen => pool_seq_ok [] ops seen
  end.
Proof. exact oracle_sound. Qed.
Print Assumptions C08_oracle_sound.
