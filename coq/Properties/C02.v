(* C02 — enc/v1: tampered or truncated documents never decrypt silently.
   Statements only; every proof is [exact <lemma of C02/*.v>].

   Vocabulary.  [decrypt_stream C v S H unwrap optkn sc']: the line-by-line model of Decrypt
   (C01/Model.v) on an ARBITRARY read script sc' (any bytes, any chunking, zero-length reads,
   data with EOF, failure); [released r] = every byte the returned stream handed out ([] when
   Decrypt itself returned an error), [is_clean r] = the stream ended in a clean EOF.
   The original document is [encrypt_doc C S m fk p]: manifest m, file key fk, plaintext p;
   [payload_of] its segments, [sealed_set] the segments with their nonce coordinates
   (position, last flag), [tried payload'] the pieces of S+16 bytes of an input payload with
   theirs.  Forgery is excluded by PREMISES, per input, never by axioms:
   [forge_free C S m fk p payload']: a piece of the input that opens under the payload key with
   the nonce of its position and finality IS an original segment sealed with that nonce
   (INT-CTXT, forgery probability idealised to 0); [hmac_forge_free C m fk man' mac']: a header
   that verifies under the header key of fk carries the original manifest line.  Both are
   satisfiable on concrete mutated documents under the Gallina ChaCha20-Poly1305 / HMAC
   (Examples in C02/Proofs_Concrete.v).  [effective_key] = the file key Decrypt ends up with
   (what the unwrap callback returned, or the all-zero key when it failed). *)
From Kit Require Import C02.Defs C02.Proofs C02.Proofs_Concrete C01.Concrete C01.Proofs_Segments C01.Proofs_Oracle
     C01.ModelX C02.ProofsX C02.ProofsX_Concrete C02.ProofsX2 C02.ProofsX2_Concrete.

(* Release only after open (no premise, any input, any unwrap callback): when Decrypt returns a
   stream, the header MAC was verified under the key in use, and every chunk handed to the
   consumer is the result of a SUCCESSFUL AEAD open of the input piece at that position, under
   the nonce for that position and finality.  Unauthenticated bytes are never released. *)
Theorem C02_release_after_open :
  forall (C : crypto) (S H : nat) (v : variant)
         (unwrap : list N -> list N -> list N -> list N * bool) (optkn : list N)
         (sc' : list rd) (out : list N) (st : sstatus),
    decrypt_stream C v S H unwrap optkn sc' = DecStream out st ->
    exists man' mac' r' m',
      read_header H {| script := sc'; closes := 0 |} = Some (Some (man', mac', r')) /\
      parse_manifest C man' = Some m' /\ manifest_valid m' = true /\
      let fk' := effective_key v unwrap optkn m' in
      verify_header C fk' man' mac' = Some true /\
      exists xs, out = concat xs /\
        length xs <= length (tried S (data_of (script r'))) /\
        forall j, j < length xs -> exists i last c,
          nth_error (tried S (data_of (script r'))) j = Some (i, last, c) /\
          open C (m_cph m') (payload_key C fk' (m_np m')) (nonce_for_segment (m_np m') i last) c
          = Some (nth j xs []).
Proof. exact release_after_open. Qed.
Print Assumptions C02_release_after_open.

(* Prefix only: with forgeries excluded for the input and the unwrap callback yielding the
   original file key, whatever the input is (bytes flipped, inserted, removed, segments
   dropped, duplicated, reordered, spliced, header edited, source failing at any offset),
   everything released is a prefix of the original plaintext. *)
Theorem C02_prefix_only :
  forall (C : crypto) (S H : nat), crypto_ok C -> 0 < S ->
  forall (v : variant) (unwrap : list N -> list N -> list N -> list N * bool)
         (optkn : list N) (sc' : list rd) (m : manifest) (fk p : list N),
    manifest_bytes_ok m -> manifest_valid m = true -> length fk = 32 ->
    (forall man' mac' r',
        read_header H {| script := sc'; closes := 0 |} = Some (Some (man', mac', r')) ->
        hmac_forge_free C m fk man' mac' /\ forge_free C S m fk p (data_of (script r'))) ->
    (forall m', effective_key v unwrap optkn m' = fk) ->
    exists rest, p = released (decrypt_stream C v S H unwrap optkn sc') ++ rest.
Proof. exact prefix_only. Qed.
Print Assumptions C02_prefix_only.

(* No silent truncation, as far as it is true: under the same premises a clean end of stream
   means that the input payload IS the original payload and the whole plaintext came out — or
   that the input payload is EMPTY and nothing came out. *)
Theorem C02_no_silent_truncation_partial :
  forall (C : crypto) (S H : nat), crypto_ok C -> 0 < S ->
  forall (v : variant) (unwrap : list N -> list N -> list N -> list N * bool)
         (optkn : list N) (sc' : list rd) (m : manifest) (fk p : list N),
    manifest_bytes_ok m -> manifest_valid m = true -> length fk = 32 ->
    (forall man' mac' r',
        read_header H {| script := sc'; closes := 0 |} = Some (Some (man', mac', r')) ->
        hmac_forge_free C m fk man' mac' /\ forge_free C S m fk p (data_of (script r'))) ->
    (forall m', effective_key v unwrap optkn m' = fk) ->
    is_clean (decrypt_stream C v S H unwrap optkn sc') = true ->
    exists man' mac' r',
      read_header H {| script := sc'; closes := 0 |} = Some (Some (man', mac', r')) /\
      ((data_of (script r') = payload_of C S m fk p /\
        released (decrypt_stream C v S H unwrap optkn sc') = p) \/
       (data_of (script r') = [] /\
        released (decrypt_stream C v S H unwrap optkn sc') = [])).
Proof. exact clean_implies_same_payload. Qed.
Print Assumptions C02_no_silent_truncation_partial.

(* The exception is real (KNOWN FINDING, inherent to the published format: an empty message has
   no segment and the header does not bind the length): cut a valid NON-EMPTY document right
   after its third header line; Decrypt (either variant, concrete primitives) returns a stream
   that ends in a clean EOF without a byte. *)
Theorem C02_no_silent_truncation_refuted :
  exists (p d d' : list N) (m : manifest) (fk : list N),
    p <> [] /\ d = encrypt_doc concrete 2 m fk p /\ d' <> d /\ (exists tail, d = d' ++ tail) /\
    forall v, decrypt_stream concrete v 2 400 (fun _ _ _ => (fk, false)) [] [DataEOF d']
              = DecStream [] SClean.
Proof. exact no_silent_truncation_refuted. Qed.
Print Assumptions C02_no_silent_truncation_refuted.

(* Apart from that exception a modified payload never ends cleanly: an input with the original
   header and a payload that is neither the original one nor empty does not end in a clean
   EOF. *)
Theorem C02_modified_payload_rejected :
  forall (C : crypto) (S H : nat), crypto_ok C -> 0 < S ->
  forall (v : variant) (unwrap : list N -> list N -> list N -> list N * bool)
         (optkn : list N) (sc' : list rd) (m : manifest) (fk p payload' : list N),
    manifest_bytes_ok m -> manifest_valid m = true -> length fk = 32 ->
    (forall man' mac' r',
        read_header H {| script := sc'; closes := 0 |} = Some (Some (man', mac', r')) ->
        hmac_forge_free C m fk man' mac' /\ forge_free C S m fk p (data_of (script r'))) ->
    (forall m', effective_key v unwrap optkn m' = fk) ->
    data_of sc' = spec_header C fk (manifest_json C m) ++ payload' ->
    length (spec_header C fk (manifest_json C m)) <= H ->
    payload' <> payload_of C S m fk p -> payload' <> [] ->
    is_clean (decrypt_stream C v S H unwrap optkn sc') = false.
Proof. exact modified_payload_rejected. Qed.
Print Assumptions C02_modified_payload_rejected.

(* ... in particular a NON-FINAL segment replaced by a shorter string ... *)
Theorem C02_short_nonfinal_rejected :
  forall (C : crypto) (S H : nat), crypto_ok C -> 0 < S ->
  forall (v : variant) (unwrap : list N -> list N -> list N -> list N * bool)
         (optkn : list N) (sc' : list rd) (m : manifest) (fk p : list N)
         (l1 : list (list N)) (s : list N) (l2 : list (list N)) (s' : list N),
    manifest_bytes_ok m -> manifest_valid m = true -> length fk = 32 ->
    (forall man' mac' r',
        read_header H {| script := sc'; closes := 0 |} = Some (Some (man', mac', r')) ->
        hmac_forge_free C m fk man' mac' /\ forge_free C S m fk p (data_of (script r'))) ->
    (forall m', effective_key v unwrap optkn m' = fk) ->
    spec_segments C S m fk p = l1 ++ s :: l2 -> l2 <> [] -> length s' < length s ->
    data_of sc' = spec_header C fk (manifest_json C m) ++ concat (l1 ++ s' :: l2) ->
    length (spec_header C fk (manifest_json C m)) <= H ->
    is_clean (decrypt_stream C v S H unwrap optkn sc') = false.
Proof. exact short_nonfinal_rejected. Qed.
Print Assumptions C02_short_nonfinal_rejected.

(* ... and a segment other than the first one emptied (removed). *)
Theorem C02_empty_nonfirst_rejected :
  forall (C : crypto) (S H : nat), crypto_ok C -> 0 < S ->
  forall (v : variant) (unwrap : list N -> list N -> list N -> list N * bool)
         (optkn : list N) (sc' : list rd) (m : manifest) (fk p : list N)
         (l1 : list (list N)) (s : list N) (l2 : list (list N)),
    manifest_bytes_ok m -> manifest_valid m = true -> length fk = 32 ->
    (forall man' mac' r',
        read_header H {| script := sc'; closes := 0 |} = Some (Some (man', mac', r')) ->
        hmac_forge_free C m fk man' mac' /\ forge_free C S m fk p (data_of (script r'))) ->
    (forall m', effective_key v unwrap optkn m' = fk) ->
    spec_segments C S m fk p = l1 ++ s :: l2 -> l1 <> [] ->
    data_of sc' = spec_header C fk (manifest_json C m) ++ concat (l1 ++ l2) ->
    length (spec_header C fk (manifest_json C m)) <= H ->
    is_clean (decrypt_stream C v S H unwrap optkn sc') = false.
Proof. exact empty_nonfirst_rejected. Qed.
Print Assumptions C02_empty_nonfirst_rejected.

(* Wrong key: if the header of the input does not verify under the key Decrypt ends up with (a
   different key unwrapped, or the all-zero key after a failed unwrap — premise: the HMAC under
   that key does not collide), Decrypt returns an error and releases nothing. *)
Theorem C02_wrong_key :
  forall (C : crypto) (S H : nat) (v : variant)
         (unwrap : list N -> list N -> list N -> list N * bool) (optkn : list N) (sc' : list rd),
    (forall man' mac' r' m',
        read_header H {| script := sc'; closes := 0 |} = Some (Some (man', mac', r')) ->
        parse_manifest C man' = Some m' ->
        verify_header C (effective_key v unwrap optkn m') man' mac' <> Some true) ->
    released (decrypt_stream C v S H unwrap optkn sc') = [] /\
    is_clean (decrypt_stream C v S H unwrap optkn sc') = false.
Proof. exact wrong_key_releases_nothing. Qed.
Print Assumptions C02_wrong_key.

(* ... and that premise could not be dropped on the code before fix: commit 32f907c
   (fixes/C02-zero-key-forgery.patch; variant Original): a document MACed and sealed under the
   all-zero file key — anyone can make one — with a wrapped key the callback cannot unwrap was
   accepted and its plaintext released with a clean EOF; the current tree (variant Fixed, to
   which the correspondence check is pinned) refuses it. *)
Theorem C02_zero_key_forgery_refuted :
  exists d' p', p' <> [] /\
    decrypt_stream concrete Original 2 400 (fun _ _ _ => ([], true)) [] [DataEOF d']
    = DecStream p' SClean /\
    decrypt_stream concrete Fixed 2 400 (fun _ _ _ => ([], true)) [] [DataEOF d']
    = DecCallError DESignature.
Proof. exact zero_key_forgery_refuted. Qed.
Print Assumptions C02_zero_key_forgery_refuted.

(* Source errors surface (no premise): a source reader that fails — sticky non-EOF error, at ANY
   offset, in the header or in any segment, after any chunking of what it delivered — never
   yields a clean EOF: Decrypt returns an error or the stream ends with one. *)
Theorem C02_source_error_surfaces :
  forall (C : crypto) (S H : nat) (v : variant)
         (unwrap : list N -> list N -> list N -> list N * bool) (optkn : list N) (sc' : list rd),
    ends_eof sc' = false -> is_clean (decrypt_stream C v S H unwrap optkn sc') = false.
Proof. exact source_error_surfaces. Qed.
Print Assumptions C02_source_error_surfaces.

(* The segment loop itself over a failing source: it processes exactly the pieces that are
   followed by at least one more byte (never as the last one) and then ends with the source's
   error. *)
Theorem C02_segment_loop_source_error :
  forall (S : nat) (fn : list N -> N -> bool -> option (list N)) (sc : list rd),
    0 < S -> ends_eof sc = false ->
    process_segments S fn sc = run_chunks_fail fn 0%N (chunks S (data_of sc)) [] /\
    snd (run_chunks_fail fn 0%N (chunks S (data_of sc)) []) <> SClean.
Proof.
  exact (fun S fn sc HS He => conj (process_segments_src_fail S fn sc HS He)
                                   (run_chunks_fail_not_clean fn _ _ _)).
Qed.
Print Assumptions C02_segment_loop_source_error.

(* The boolean oracle the correspondence check evaluates on what Decrypt was OBSERVED to do with
   a tampered input decides the property: the released bytes are a prefix of the original
   plaintext, a clean EOF comes only with the whole plaintext, and a source failure is never a
   clean EOF. *)
Theorem C02_oracle_sound :
  forall (p out : list N) (clean src_failed : bool),
    tamper_oracle p out clean src_failed = true <->
    ((exists rest, p = out ++ rest) /\ (clean = true -> out = p) /\
     (src_failed = true -> clean = false)).
Proof. exact tamper_oracle_sound. Qed.
Print Assumptions C02_oracle_sound.

(* ---- errors delivered TOGETHER with data ---- *)

(* The model over readers that may return data together with a non-EOF error, once or on every
   later call too (C01/ReaderX.v, C01/ModelX.v; this is the model the correspondence check
   evaluates) extends the one the theorems above are about: on every script of Lib/Reader.v it
   computes the same result, for both variants of readHeader. *)
Theorem C02_extended_model_agrees :
  forall (C : crypto) (v hv : variant) (S H : nat)
         (unwrap : list N -> list N -> list N -> list N * bool) (optkn : list N) (sc : list rd),
    decrypt_stream_x C v hv S H unwrap optkn (emb sc) = decrypt_stream C v S H unwrap optkn sc.
Proof. exact decrypt_stream_x_emb. Qed.
Print Assumptions C02_extended_model_agrees.

(* Source errors surface, in full generality (no premise; current tree = readHeader variant
   Fixed): whatever the source delivers before, with, or after its first non-EOF error — the
   error alone or TOGETHER with data, reported once or on every later call, in the header, with
   the very read that completes the header, in any segment or with the last byte of the
   document — Decrypt returns an error or the stream ends with one; never a clean EOF. *)
Theorem C02_source_error_surfaces_with_data :
  forall (C : crypto) (v : variant) (S H : nat)
         (unwrap : list N -> list N -> list N -> list N * bool) (optkn : list N) (xs : list rdx),
    xends_eof xs = false -> is_clean (decrypt_stream_x C v Fixed S H unwrap optkn xs) = false.
Proof. exact source_error_surfaces_x. Qed.
Print Assumptions C02_source_error_surfaces_with_data.

(* Before fix fixes/C02-header-read-error.patch (readHeader variant Original) this was FALSE: the
   error of the Read call that completed the header was dropped.  A source that returns the
   whole document together with a non-EOF error and then reports EOF gets its plaintext back
   with a clean EOF (computed on the concrete primitives); with the fix Decrypt fails. *)
Theorem C02_header_read_error_dropped_refuted :
  exists (xs : list rdx) (p : list N),
    p <> [] /\ xends_eof xs = false /\
    decrypt_stream_x concrete Fixed Original 2 400 ex_unwrap [] xs = DecStream p SClean /\
    decrypt_stream_x concrete Fixed Fixed 2 400 ex_unwrap [] xs = DecCallError DEHeader.
Proof. exact header_read_error_dropped_refuted. Qed.
Print Assumptions C02_header_read_error_dropped_refuted.

(* ---- the theorems above, for the model the check evaluates, on EVERY extended script ---- *)

(* Termination / definiteness (no premise): for every finite read script — any bytes, any
   chunking, zero-length reads, errors alone or together with data, one-shot or sticky — the
   model's fuel suffices: Decrypt ends with a definite outcome, never with the model artefacts
   "out of fuel". *)
Theorem C02_decrypt_always_definite :
  forall (C : crypto) (v hv : variant) (S H : nat)
         (unwrap : list N -> list N -> list N -> list N * bool) (optkn : list N) (xs : list rdx),
    decrypt_stream_x C v hv S H unwrap optkn xs <> DecCallError DEFuel /\
    (forall out, decrypt_stream_x C v hv S H unwrap optkn xs <> DecStream out SOutOfFuel).
Proof. exact decrypt_stream_x_definite. Qed.
Print Assumptions C02_decrypt_always_definite.

(* The two "short non-final segment" / "empty non-first segment" guards of processSegments
   (scheme.go, io.ErrUnexpectedEOF) are unreachable under the io.Reader contract, whatever the
   input: a tampered document is never rejected by them but by the AEAD or the MAC. *)
Theorem C02_guards_unreachable :
  forall (C : crypto) (v hv : variant) (S H : nat)
         (unwrap : list N -> list N -> list N -> list N * bool) (optkn : list N) (xs : list rdx)
         (out : list N),
    decrypt_stream_x C v hv S H unwrap optkn xs <> DecStream out SUnexpectedEOF.
Proof. exact decrypt_stream_x_no_unexpected_eof. Qed.
Print Assumptions C02_guards_unreachable.

(* Release only after open, for every extended script and both variants of readHeader (no
   premise): what reaches the consumer is a sequence of successful AEAD opens of the pieces of
   ALL the data the source delivered after the header ([xdata r'], bytes delivered together
   with an error included), each at its position and finality, after the header MAC check. *)
Theorem C02_release_after_open_with_data :
  forall (C : crypto) (v hv : variant) (S H : nat)
         (unwrap : list N -> list N -> list N -> list N * bool) (optkn : list N) (xs : list rdx)
         (out : list N) (st : sstatus),
    decrypt_stream_x C v hv S H unwrap optkn xs = DecStream out st ->
    exists man' mac' r' m',
      read_header_x H hv xs = Some (Some (man', mac', r')) /\
      parse_manifest C man' = Some m' /\ manifest_valid m' = true /\
      let fk' := effective_key v unwrap optkn m' in
      verify_header C fk' man' mac' = Some true /\
      exists ys, out = concat ys /\
        length ys <= length (tried S (xdata r')) /\
        forall j, j < length ys -> exists i last c,
          nth_error (tried S (xdata r')) j = Some (i, last, c) /\
          open C (m_cph m') (payload_key C fk' (m_np m')) (nonce_for_segment (m_np m') i last) c
          = Some (nth j ys []).
Proof. exact release_after_open_x. Qed.
Print Assumptions C02_release_after_open_with_data.

(* Prefix only and no silent truncation for the model the check evaluates (current tree), on
   EVERY extended script: with forgeries excluded for this input and the unwrap callback
   yielding the original file key for the manifest actually parsed from it, everything released
   is a prefix of the original plaintext; a clean end means the original payload and the whole
   plaintext, or an empty payload and nothing; a source error (alone or with data, once or
   sticky, anywhere) never ends cleanly; and the outcome is always definite.  These are exactly
   the clauses of the check's oracle ([tamper_oracle], C02_oracle_sound) plus termination, as
   ONE statement about [decrypt_stream_x]. *)
Theorem C02_model_meets_oracle :
  forall (C : crypto) (S H : nat), crypto_ok C -> 0 < S ->
  forall (v : variant) (unwrap : list N -> list N -> list N -> list N * bool)
         (optkn : list N) (xs : list rdx) (m : manifest) (fk p : list N),
    manifest_bytes_ok m -> manifest_valid m = true ->
    (forall man' mac' r',
        read_header_x H Fixed xs = Some (Some (man', mac', r')) ->
        hmac_forge_free C m fk man' mac' /\ forge_free C S m fk p (xdata r')) ->
    (forall man' mac' r' m',
        read_header_x H Fixed xs = Some (Some (man', mac', r')) ->
        parse_manifest C man' = Some m' -> effective_key v unwrap optkn m' = fk) ->
    let r := decrypt_stream_x C v Fixed S H unwrap optkn xs in
    (exists rest, p = released r ++ rest) /\
    (is_clean r = true -> released r = p \/ released r = []) /\
    (xends_eof xs = false -> is_clean r = false) /\
    r <> DecCallError DEFuel /\ (forall out, r <> DecStream out SOutOfFuel).
Proof. exact model_meets_oracle_x. Qed.
Print Assumptions C02_model_meets_oracle.

(* ... with the payload fact of the clean case spelled out. *)
Theorem C02_no_silent_truncation_with_data :
  forall (C : crypto) (S H : nat), crypto_ok C -> 0 < S ->
  forall (v : variant) (unwrap : list N -> list N -> list N -> list N * bool)
         (optkn : list N) (xs : list rdx) (m : manifest) (fk p : list N),
    manifest_bytes_ok m -> manifest_valid m = true ->
    (forall man' mac' r',
        read_header_x H Fixed xs = Some (Some (man', mac', r')) ->
        hmac_forge_free C m fk man' mac' /\ forge_free C S m fk p (xdata r')) ->
    (forall man' mac' r' m',
        read_header_x H Fixed xs = Some (Some (man', mac', r')) ->
        parse_manifest C man' = Some m' -> effective_key v unwrap optkn m' = fk) ->
    is_clean (decrypt_stream_x C v Fixed S H unwrap optkn xs) = true ->
    exists man' mac' r',
      read_header_x H Fixed xs = Some (Some (man', mac', r')) /\
      ((xdata r' = payload_of C S m fk p /\
        released (decrypt_stream_x C v Fixed S H unwrap optkn xs) = p) \/
       (xdata r' = [] /\ released (decrypt_stream_x C v Fixed S H unwrap optkn xs) = [])).
Proof. exact clean_implies_same_payload_x. Qed.
Print Assumptions C02_no_silent_truncation_with_data.
