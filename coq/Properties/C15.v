(* C15 — ttlcache. Statements only; every proof is [exact <lemma of C15/Proofs*.v>]. *)
From Kit Require Import C15.Model C15.Spec C15.Check.
