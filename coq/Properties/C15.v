(* C15 — ttlcache: Get never returns an expired, deleted or superseded value; Cleanup removes only
   expired entries; Stop waits for the cleaner.
   Statements only; every proof is [exact <lemma of C15/Proofs*.v>].

   Vocabulary (C15/Ops.v, Model.v, Spec.v).  Keys, values are integers; time is [Z] nanoseconds on
   the cache's clock; TTLs are seconds.  A history is a chronological list of client operations
   [OSet k v ttl | OGet k | ODelete k | OCleanup | OReset | OAdvance d | OKeys | OStop] - Stop is an
   operation of the history like the others (it may come anywhere, any number of times).
   [final maxttl t0 ops] = the model's state after running [ops] on a fresh cache (MaxTTL option
   [maxttl], clock starting at [t0]); [get s k] = what Get(k) returns in state [s].
   Spec side, read off the history only: [leaves k o] = operation [o] is not an accepted Set of k,
   a Delete of k or a Reset; [elapsed h] = sum of the clock advances in [h]; [eff_ttl maxttl ttl] =
   the TTL capped by MaxTTL when MaxTTL > 0.
   Interleaved system: a schedule [es] is ANY list of events [CSet | CGet | CDelete | CReset |
   CAdvance | CCollect | CDeleteKeys i] — client map operations interleaved with any number of
   cleanups, each split where the code can be interleaved: the ForEach that collects expired keys
   ([CCollect]) and the later bulk Del of the i-th cleanup in flight ([CDeleteKeys i]);
   [flat_map ev_op es] = the client operations of the schedule, in order; [cget s k] = Get(k). *)
From Kit Require Import C15.Model C15.Spec C15.Check C15.ProofsMap C15.Proofs C15.ProofsConc
  C15.ProofsLife C15.ProofsMain C15.Ghost C15.ProofsOracle C15.ProofsTrace
  C15.ProofsLifeTrace.
Local Open Scope Z_scope.

(* GET IS SOUND (sequential).  For every MaxTTL, initial clock and history of any length: if Get(k)
   hits with v, then the history contains an accepted Set(k, v, ttl) after which nobody Set or
   Deleted k or Reset the cache, and strictly less than the (capped) TTL has elapsed on the clock
   since.  No side condition: any TTLs (even overflowing int64 ns), any advances (even negative). *)
Theorem C15_get_sound : forall maxttl t0 ops k v,
  get (final maxttl t0 ops) k = Some v ->
  exists h1 ttl h2,
    ops = h1 ++ OSet k v ttl :: h2 /\ 0 < ttl /\ Forall (leaves k) h2 /\
    elapsed h2 < eff_ttl maxttl ttl * second_ns.
Proof. exact main_get_sound. Qed.
Print Assumptions C15_get_sound.

(* GET IS SOUND (interleaved).  The same for EVERY schedule of client operations interleaved with
   any number of two-phase cleanups (periodic or manual): a hit is always justified by the client
   operations issued so far. *)
Theorem C15_get_sound_interleaved : forall maxttl t0 es s k v,
  crun maxttl (cinit t0) es = Some s -> cget s k = Some v ->
  exists h1 ttl h2,
    flat_map ev_op es = h1 ++ OSet k v ttl :: h2 /\ 0 < ttl /\ Forall (leaves k) h2 /\
    elapsed h2 < eff_ttl maxttl ttl * second_ns.
Proof. exact conc_get_sound. Qed.
Print Assumptions C15_get_sound_interleaved.

(* GET IS COMPLETE (sequential): "otherwise it reports a miss" read contrapositively.  If the clock
   never runs backwards and the history contains an accepted Set(k, v, ttl), not superseded /
   deleted / reset since, with less than the capped TTL elapsed, and that TTL fits int64
   nanoseconds (< 2^63 ns, ~292 years), then Get(k) hits with v — whatever Cleanups happened. *)
Theorem C15_get_complete : forall maxttl t0 ops k v h1 ttl h2,
  forallb op_forward ops = true ->
  ops = h1 ++ OSet k v ttl :: h2 -> 0 < ttl -> Forall (leaves k) h2 ->
  elapsed h2 < eff_ttl maxttl ttl * second_ns -> eff_ttl maxttl ttl * second_ns < 2^63 ->
  get (final maxttl t0 ops) k = Some v.
Proof. exact main_get_complete. Qed.
Print Assumptions C15_get_complete.

(* Both directions at once, against the executable reference [expected_get] (most recent accepted
   Set still in force, hit iff elapsed < capped TTL) that the harness oracle evaluates. *)
Theorem C15_get_exact : forall maxttl t0 ops k,
  forallb op_forward ops = true ->
  last_set_fits maxttl (rev ops) k = true ->
  get (final maxttl t0 ops) k = expected_get maxttl (rev ops) k.
Proof. exact seq_get_exact. Qed.
Print Assumptions C15_get_exact.

(* ... and that executable reference decides the declarative reading used above. *)
Theorem C15_expected_get_spec : forall maxttl h k v,
  expected_get maxttl (rev h) k = Some v <->
  exists h1 ttl h2,
    h = h1 ++ OSet k v ttl :: h2 /\ 0 < ttl /\ Forall (leaves k) h2 /\
    elapsed h2 < eff_ttl maxttl ttl * second_ns.
Proof. exact expected_get_spec. Qed.
Print Assumptions C15_expected_get_spec.

(* BOUNDARY.  After a successful Set with a TTL that fits, advancing the clock by exactly the
   capped TTL gives a miss; one nanosecond less gives a hit with the value set. *)
Theorem C15_boundary : forall maxttl s k v ttl s',
  set maxttl s k v ttl = Some s' -> eff_ttl maxttl ttl * second_ns < 2^63 ->
  get (advance s' (eff_ttl maxttl ttl * second_ns)) k = None /\
  get (advance s' (eff_ttl maxttl ttl * second_ns - 1)) k = Some v.
Proof. exact main_boundary. Qed.
Print Assumptions C15_boundary.

(* MAXTTL CAPS.  With MaxTTL configured, a Set with a larger TTL is the same state transition as a
   Set with TTL = MaxTTL ... *)
Theorem C15_maxttl_caps : forall maxttl s k v ttl,
  0 < maxttl -> maxttl < ttl -> set maxttl s k v ttl = set maxttl s k v maxttl.
Proof. exact maxttl_caps. Qed.
Print Assumptions C15_maxttl_caps.

(* ... so such an entry misses MaxTTL seconds after the Set and hits 1 ns earlier. *)
Theorem C15_maxttl_boundary : forall maxttl s k v ttl s',
  0 < maxttl -> maxttl < ttl -> maxttl * second_ns < 2^63 ->
  set maxttl s k v ttl = Some s' ->
  get (advance s' (maxttl * second_ns)) k = None /\
  get (advance s' (maxttl * second_ns - 1)) k = Some v.
Proof. exact maxttl_boundary. Qed.
Print Assumptions C15_maxttl_boundary.

(* CLEANUP IS TRANSPARENT.  In every state, for every key, Get answers the same before and after
   a Cleanup. *)
Theorem C15_cleanup_transparent : forall s k, get (cleanup s) k = get s k.
Proof. exact cleanup_transparent. Qed.
Print Assumptions C15_cleanup_transparent.

(* CLEANUP REMOVES ONLY EXPIRED ENTRIES.  After Cleanup the stored entry of every key is what it
   was, except that entries whose expiry is strictly before the clock are gone. *)
Theorem C15_cleanup_only_expired : forall s k,
  lookup k (smap (cleanup s)) =
  match lookup k (smap s) with
  | Some e => if eexp e <? snow s then None else Some e
  | None => None
  end.
Proof. exact cleanup_only_expired. Qed.
Print Assumptions C15_cleanup_only_expired.

(* UNTOUCHED LIVE ENTRIES SURVIVE (interleaved).  From ANY state in which k holds entry e and no
   cleanup in flight has k on its list: along every schedule (clock not running backwards) that
   does not Set/Delete k or Reset — other keys' operations, Gets, advances, any number of collects
   and bulk deletes in any order — as long as e is not strictly expired at the end, k still holds
   exactly e. *)
Theorem C15_untouched_live_survives : forall maxttl es s s' k e,
  lookup k (cm s) = Some e -> (forall p, In p (cpend s) -> ~ In k (pkeys p)) ->
  forallb forward_ev es = true -> forallb (leaves_ev k) es = true ->
  crun maxttl s es = Some s' -> cnow s' <= eexp e ->
  lookup k (cm s') = Some e.
Proof. exact conc_untouched_live_survives. Qed.
Print Assumptions C15_untouched_live_survives.

(* A bulk delete of a cleanup in flight removes an entry that is not strictly expired ONLY IF its
   key was Set between that cleanup's collect and now (the race the code comment documents). *)
Theorem C15_delete_only_expired_or_touched : forall maxttl t0 es s i p k e s',
  forallb forward_ev es = true -> crun maxttl (cinit t0) es = Some s ->
  nth_error (cpend s) i = Some p ->
  lookup k (cm s) = Some e -> cnow s <= eexp e -> ~ In k (ptouched p) ->
  cstep maxttl s (CDeleteKeys i) = Some s' -> lookup k (cm s') = Some e.
Proof. exact conc_delete_only_expired_or_touched. Qed.
Print Assumptions C15_delete_only_expired_or_touched.

(* GET IS COMPLETE (interleaved) up to the documented race: as C15_get_complete, for every
   schedule, provided k is not in the ghost set [clost] of keys whose live entry a bulk delete
   removed (a later Set of k takes it out again) ... *)
Theorem C15_get_complete_interleaved : forall maxttl t0 es s k v h1 ttl h2,
  forallb forward_ev es = true -> crun maxttl (cinit t0) es = Some s ->
  ~ In k (clost s) ->
  flat_map ev_op es = h1 ++ OSet k v ttl :: h2 -> 0 < ttl -> Forall (leaves k) h2 ->
  elapsed h2 < eff_ttl maxttl ttl * second_ns -> eff_ttl maxttl ttl * second_ns < 2^63 ->
  cget s k = Some v.
Proof. exact main_conc_get_complete. Qed.
Print Assumptions C15_get_complete_interleaved.

(* ... and a key enters [clost] only at a bulk delete whose cleanup had collected it AND during
   whose collect-to-delete window it was Set: the cleanup/refresh race is the only way a hit can
   turn into a miss. *)
Theorem C15_cleanup_race_is_the_only_miss : forall maxttl t0 es s e s' k,
  forallb forward_ev es = true -> crun maxttl (cinit t0) es = Some s ->
  cstep maxttl s e = Some s' -> In k (clost s') ->
  In k (clost s) \/
  exists i p, e = CDeleteKeys i /\ nth_error (cpend s) i = Some p /\
              In k (pkeys p) /\ In k (ptouched p).
Proof. exact conc_lost_only_by_race. Qed.
Print Assumptions C15_cleanup_race_is_the_only_miss.

(* The race is real in the model (and documented in the code): a cleanup collects k while it is
   expired, k is refreshed, the bulk delete removes the fresh entry. *)
Theorem C15_cleanup_race_witness :
  let es := [CSet 0 1 1; CAdvance 2000000000; CCollect; CSet 0 2 1] in
  (exists s, crun 0 (cinit 0) es = Some s /\ cget s 0 = Some 2) /\
  (exists s, crun 0 (cinit 0) (es ++ [CDeleteKeys 0%nat]) = Some s /\ cget s 0 = None /\
             clost s = [0]).
Proof. exact conc_race_example. Qed.
Print Assumptions C15_cleanup_race_witness.

(* The sequential system is the interleaved one with every Cleanup run back to back. *)
Theorem C15_seq_embeds : forall maxttl ops s c,
  cm c = smap s -> cnow c = snow s -> cpend c = [] ->
  exists c', crun maxttl c (flat_map seq_ev ops) = Some c' /\
             cm c' = smap (fst (run maxttl s ops)) /\ cnow c' = snow (fst (run maxttl s ops)) /\
             cpend c' = [].
Proof. exact seq_embeds. Qed.
Print Assumptions C15_seq_embeds.

(* STOP WAITS.  Life cycle of the background goroutine and any number of concurrent Stop() calls
   (events: tick, Cleanup done, cleaner sees stopCh and closes runningCh, new Stop call, its CAS,
   its close(stopCh), its return from <-runningCh).  For every schedule: a Stop call that has
   returned implies the cleaner goroutine has exited. *)
Theorem C15_stop_waits : forall es s i,
  lrun linit es = Some s -> nth_error (lcallers s) i = Some SReturned -> lcleaner s = PExited.
Proof. exact stop_waits. Qed.
Print Assumptions C15_stop_waits.

(* ... AND THE CLEANER STAYS QUIET.  Once some Stop call has returned, in every continuation of the
   schedule the cleaner never takes a tick and no cleanup pass starts or finishes
   ([cleaner_work e] = e is [LTick] or [LCleanupDone]): the periodic pass runs on the cleaner
   goroutine itself, which has exited for good. *)
Theorem C15_stop_then_quiet : forall es s i es' s',
  lrun linit es = Some s -> nth_error (lcallers s) i = Some SReturned ->
  lrun s es' = Some s' ->
  lcleaner s' = PExited /\ forallb (fun e => negb (cleaner_work e)) es' = true.
Proof. exact stop_then_quiet. Qed.
Print Assumptions C15_stop_then_quiet.

(* ... the cleaner exits only if Stop was called ... *)
Theorem C15_cleaner_exits_only_on_stop : forall es s,
  lrun linit es = Some s -> lcleaner s = PExited -> lstopped s = true.
Proof. exact cleaner_exits_only_on_stop. Qed.
Print Assumptions C15_cleaner_exits_only_on_stop.

(* ... and Stop never wedges: from every reachable state, every Stop call in progress can be
   brought to its return by steps of the Stop callers and of the cleaner alone (no tick, no new
   call). *)
Theorem C15_stop_no_wedge : forall es s i pc,
  lrun linit es = Some s -> nth_error (lcallers s) i = Some pc ->
  exists es' s',
    Forall (fun e => match e with LTick | LStopCall => False | _ => True end) es' /\
    lrun s es' = Some s' /\ nth_error (lcallers s') i = Some SReturned.
Proof. exact stop_no_wedge. Qed.
Print Assumptions C15_stop_no_wedge.

(* INT64 CORNER, kept visible.  Without a MaxTTL, a TTL above 2^63 ns wraps in
   [time.Duration(ttl) * time.Second]: the entry is stored already expired although the history
   says it is live.  The property's "only if" permits the miss; completeness needs the side
   condition. *)
Theorem C15_overflow_is_miss :
  exists maxttl ops k v,
    forallb op_forward ops = true /\
    expected_get maxttl (rev ops) k = Some v /\ get (final maxttl 0 ops) k = None /\
    last_set_fits maxttl (rev ops) k = false.
Proof. exact overflow_is_miss. Qed.
Print Assumptions C15_overflow_is_miss.

(* ORACLE SOUNDNESS.  The boolean oracle on one observed Get result [r] after history [h]: a hit
   must be justified; a miss must be unjustifiable, except when the Set in force has a TTL that
   does not fit int64 nanoseconds. *)
Theorem C15_get_oracle_sound : forall maxttl h k r,
  get_ok maxttl (rev h) k r = true <->
  match r with
  | Some v => justified maxttl h k v
  | None => (forall v, ~ justified maxttl h k v) \/ last_set_fits maxttl (rev h) k = false
  end.
Proof. exact get_ok_sound. Qed.
Print Assumptions C15_get_oracle_sound.

(* the hits-only oracle used for concurrent observations *)
Theorem C15_get_sound_oracle_sound : forall maxttl h k r,
  get_sound_ok maxttl (rev h) k r = true <->
  match r with Some v => justified maxttl h k v | None => True end.
Proof. exact get_sound_ok_sound. Qed.
Print Assumptions C15_get_sound_oracle_sound.

(* The whole-observation oracle of Check.v ([all_obs_ok], either mode): if it accepts the observed
   results [rs] of the history [h], then every Get in [h] that was observed to hit with v is
   justified by the operations issued before it ... *)
Theorem C15_oracle_hits_justified : forall strict maxttl h rs a k b v,
  all_obs_ok strict maxttl [] h rs = true ->
  h = a ++ OGet k :: b -> nth_error rs (length a) = Some (RGet (Some v)) ->
  exists h1 ttl h2,
    a = h1 ++ OSet k v ttl :: h2 /\ 0 < ttl /\ Forall (leaves k) h2 /\
    elapsed h2 < eff_ttl maxttl ttl * second_ns.
Proof. exact main_oracle_hits_justified. Qed.
Print Assumptions C15_oracle_hits_justified.

(* ... and in strict (sequential) mode every observed miss is unjustifiable, int64 corner aside. *)
Theorem C15_oracle_misses_justified : forall maxttl h rs a k b,
  all_obs_ok true maxttl [] h rs = true ->
  h = a ++ OGet k :: b -> nth_error rs (length a) = Some (RGet None) ->
  (forall v, ~ justified maxttl a k v) \/ last_set_fits maxttl (rev a) k = false.
Proof. exact main_oracle_misses_justified. Qed.
Print Assumptions C15_oracle_misses_justified.

(* STOP CHANGES NOTHING A CLIENT SEES.  [OStop] may occur anywhere in the histories all theorems
   above quantify over; the model's state is untouched by it and the specification expects the
   same answers with or without it: a value Set after Stop is the one Get must return, a TTL that
   runs out after Stop still ends the entry. *)
Theorem C15_stop_transparent : forall maxttl s rh k,
  step maxttl s OStop = (s, RUnit) /\
  expected_get maxttl (OStop :: rh) k = expected_get maxttl rh k.
Proof. exact main_stop_transparent. Qed.
Print Assumptions C15_stop_transparent.

(* The oracle also demands that Stop was observed to return and the cleaner to have exited; in a
   case of several overlapping Stop calls, that EVERY call returned and that the cleaner had
   exited when it did, and that no background cleanup work was seen after a Stop had returned. *)
Theorem C15_oracle_stop : forall c,
  oracle c = true ->
  match c with
  | CSeq _ _ _ sr ce | CConc _ _ _ sr ce => sr = true /\ ce = true
  | CStops calls late =>
      (forall sr ce, In (sr, ce) calls -> sr = true /\ ce = true) /\ late = false
  end.
Proof. exact main_oracle_stop. Qed.
Print Assumptions C15_oracle_stop.

(* Verdicts: 0 exactly when the oracle holds on the observation and the model agrees with it;
   2 exactly when the oracle fails. *)
Theorem C15_check_case_verdict : forall c,
  (check_case c = 0 <-> oracle c = true /\ model_agrees c = true) /\
  (check_case c = 2 <-> oracle c = false).
Proof. exact main_check_case_verdict. Qed.
Print Assumptions C15_check_case_verdict.

(* The model itself passes the strict oracle on every forward history: a verdict 2 is never an
   artefact of the oracle disagreeing with the proved model. *)
Theorem C15_model_meets_spec : forall maxttl t0 ops,
  forallb op_forward ops = true ->
  all_obs_ok true maxttl [] ops (results maxttl t0 ops) = true.
Proof. exact model_meets_spec. Qed.
Print Assumptions C15_model_meets_spec.

(* DEFECT (fix: C15-set-racing-bulk-delete).  C15/Ghost.v extends the interleaved system with what
   haxmap really does when a Set lands while a bulk Del is removing the list neighbour of the new
   node ([GSetRacing k v ttl i] = Set overlapping the i-th cleanup's bulk Del): the new entry is
   reachable by Get but invisible to ForEach, so Reset / Cleanup never remove it.  Before the fix
   ([Original], Set and the bulk Del unserialised) there is a schedule after which Get(1) answers 7
   although the client history ends with a Reset - no justification exists. *)
Theorem C15_reset_ghost_refuted :
  exists s, grun Original 0 (ginit 0)
              [GEv (CSet 0 1 1); GEv (CAdvance 2000000000); GEv CCollect; GSetRacing 1 7 1000 0;
               GEv CReset] = Some s /\
            cget (gc s) 1 = Some 7 /\
            rev (chist (gc s)) = [OSet 0 1 1; OAdvance 2000000000; OSet 1 7 1000; OReset] /\
            ~ justified 0 (rev (chist (gc s))) 1 7.
Proof. exact ghost_reset_refuted. Qed.
Print Assumptions C15_reset_ghost_refuted.

(* With the fix ([Fixed]: Set holds the cache's lock shared, Delete / Cleanup's and Reset's bulk Del
   hold it exclusively) the racing event cannot happen; every schedule of the extended system is
   a schedule of the interleaved system above, and every hit is justified by the client
   operations issued so far. *)
Theorem C15_get_sound_fixed : forall maxttl t0 es s k v,
  grun Fixed maxttl (ginit t0) es = Some s -> cget (gc s) k = Some v ->
  exists h1 ttl h2,
    flat_map ev_op (gproj es) = h1 ++ OSet k v ttl :: h2 /\ 0 < ttl /\ Forall (leaves k) h2 /\
    elapsed h2 < eff_ttl maxttl ttl * second_ns.
Proof. exact ghost_fixed_get_sound. Qed.
Print Assumptions C15_get_sound_fixed.

(* THE ORACLE IS SOUND AND COMPLETE FOR THE PROPERTY'S CLAUSES.  [res_spec strict maxttl a o r]
   (Spec.v) is what the property text demands of the observed result [r] of operation [o] issued
   after the chronological history [a], stated declaratively: a Set returns iff its TTL is
   positive; a hit is justified by [a]; in strict (sequential) mode a miss is unjustifiable (int64
   corner aside) and an observed key list contains every key Get must still answer; the other
   operations return normally.  [trace_spec] = one result per operation, each as demanded.
   The executable oracle answers true EXACTLY when the trace specification holds - in both
   modes, for every history and every observation. *)
Theorem C15_trace_oracle_iff : forall strict maxttl h rs,
  all_obs_ok strict maxttl [] h rs = true <->
  (length h = length rs /\
   forall a o b r, h = a ++ o :: b -> nth_error rs (length a) = Some r ->
                   res_spec strict maxttl a o r).
Proof. exact all_obs_ok_iff. Qed.
Print Assumptions C15_trace_oracle_iff.

(* ... and so does the oracle of a whole case ([case_spec], Check.v: the trace specification plus
   "Stop returned and the cleaner had exited", resp. for overlapping Stops "every call returned
   with the cleaner exited and no late cleanup work was seen"); verdict 2 is given exactly when
   the specification of the case is violated. *)
Theorem C15_oracle_iff : forall c, oracle c = true <-> case_spec c.
Proof. exact oracle_iff. Qed.
Print Assumptions C15_oracle_iff.

Theorem C15_verdict_two_iff : forall c, check_case c = 2 <-> ~ case_spec c.
Proof. exact verdict_two_iff. Qed.
Print Assumptions C15_verdict_two_iff.

(* THE MODEL IMPLEMENTS THE WHOLE API SPECIFICATION (sequential).  On every forward history the
   result of EVERY operation of the model (Set accepted / refused, Get, Keys, Delete, Cleanup,
   Reset, Stop) is the one the property demands. *)
Theorem C15_model_meets_trace_spec : forall maxttl t0 ops,
  forallb op_forward ops = true -> trace_spec true maxttl ops (results maxttl t0 ops).
Proof. exact model_meets_trace_spec. Qed.
Print Assumptions C15_model_meets_trace_spec.

(* Hence a sequential case on which the implementation was observed to do exactly what the model
   does has an observation that meets the specification. *)
Theorem C15_agreeing_case_meets_spec : forall maxttl ops obs sr ce,
  forallb op_forward ops = true ->
  model_agrees (CSeq maxttl ops obs sr ce) = true -> trace_spec true maxttl ops obs.
Proof. exact agreeing_case_meets_spec. Qed.
Print Assumptions C15_agreeing_case_meets_spec.

(* THE INTERLEAVED MODEL, TRACE LEVEL.  [ctrace maxttl s es] (Model.v) runs a schedule and collects
   what each client gets back (Set accepted / refused, Get hit / miss ...).  For EVERY schedule of
   client operations and two-phase cleanups the collected trace meets the hits-only trace
   specification: the concurrent oracle never rejects a behaviour of the model.  Check.v runs
   [ctrace] on the client operations of every concurrent case (cleanup-free schedule) and
   requires every observed hit to be the model's hit. *)
Theorem C15_conc_trace_meets_spec : forall maxttl t0 es s rs,
  ctrace maxttl (cinit t0) es = Some (s, rs) ->
  trace_spec false maxttl (flat_map ev_op es) rs.
Proof. exact conc_trace_meets_spec. Qed.
Print Assumptions C15_conc_trace_meets_spec.

(* STOP, OBSERVATION LEVEL.  [lcollect s seen es] (Model.v) is what an observer of the life-cycle
   model records along a schedule: for every Stop call that returns, (returned, the cleaner had
   exited at that moment), and whether the cleaner took a tick or finished a pass after some call
   had returned.  For EVERY schedule (any number of overlapping Stop calls, ticks, passes) the
   recorded observation is one the oracle of a "stops" case accepts: every returned call saw the
   cleaner exited and no late work exists.  Check.v runs [lcollect] on the schedule of the
   scenario ([stops_schedule n]: cleaner inside a pass, n overlapping calls) for every stops case
   and compares the implementation's observation with it. *)
Theorem C15_stops_observation_ok : forall es calls late,
  lcollect linit false es = Some (calls, late) -> oracle (CStops calls late) = true.
Proof. exact stops_observation_ok. Qed.
Print Assumptions C15_stops_observation_ok.
