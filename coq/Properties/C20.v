(* C20 — context.Pool: done exactly when all members are done (or Cancel), never earlier.
   Statements only; every proof is [exact <lemma of C20/Proofs*.v>].
   Everywhere: [new_pool pre ctxs] = NewPool(ctxs...) when the contexts [pre] had already ended
   (any number of contexts), [es] = ANY schedule: any interleaving, of any length, of Add / Cancel
   / Size calls, context ends and steps of the watcher goroutine (whose program counter includes
   the window between its last RUnlock and cancel()). *)
From Kit Require Import C20.Model C20.ModelLock C20.Spec C20.Check C20.Proofs C20.Proofs_script
  C20.Proofs_main C20.Proofs_nested C20.Proofs_lock.

(* NEVER EARLY.  Whenever the pool's context is done, Cancel was called or every member has
   ended.  "Member" is the property's notion, made explicit by the ghost field [members] (see
   C20_membership): passed at creation, or added while the pool was live and some member was
   live.  A context that Add appended to the slice after the last member ended (e.g. in the
   watcher's exit window) is NOT in [members]; see C20_exit_window_witness. *)
Theorem C20_never_early : forall pre ctxs es s,
  run (new_pool pre ctxs) es = Some s ->
  ctx_done s = true -> cancel_called s = true \/ all_done s (members s).
Proof. exact main_never_early. Qed.
Print Assumptions C20_never_early.

(* The ghost field [members] is exactly the property's definition of membership: the contexts
   passed at creation; an Add appends its context iff at that moment the pool's context is not
   done, Cancel has not been called and some member has not ended; no other event changes it. *)
Theorem C20_membership :
  (forall pre ctxs, members (new_pool pre ctxs) = ctxs) /\
  (forall pre ctxs es s e s',
     run (new_pool pre ctxs) es = Some s -> step s e = Some s' ->
     members s' = match e with
                  | AddCtx m => members_after_add (view_of s) m
                  | _ => members s
                  end).
Proof. exact main_membership. Qed.
Print Assumptions C20_membership.

(* The same, in the form used for races: while a member is live and Cancel has not been called
   the pool is not done, whatever the interleaving. *)
Theorem C20_live_member_keeps_pool : forall pre ctxs es s m,
  run (new_pool pre ctxs) es = Some s ->
  cancel_called s = false -> In m (members s) -> is_ended s m = false -> ctx_done s = false.
Proof. exact main_live_member_not_done. Qed.
Print Assumptions C20_live_member_keeps_pool.

(* EVENTUALLY (no wedge).  In every reachable state in which Cancel was called, or every member
   AND every late entry (a context Add accepted after the last member had ended but before the
   watcher's cancel()) has ended, the watcher's own steps alone - at most [measure s] of them,
   each enabled - make the pool's context done and end the goroutine.  No further help from the
   environment is needed. *)
Theorem C20_eventually : forall pre ctxs es s,
  run (new_pool pre ctxs) es = Some s ->
  cancel_called s = true \/ (all_done s (members s) /\ all_done s (late s)) ->
  ends_by_itself s.
Proof. exact main_eventually. Qed.
Print Assumptions C20_eventually.

(* ... stated on the slice: Cancel, or every tracked context ended. *)
Theorem C20_eventually_tracked : forall pre ctxs es s,
  run (new_pool pre ctxs) es = Some s ->
  cancel_called s = true \/ all_done s (tracked s) ->
  ends_by_itself s.
Proof. exact main_eventually_tracked. Qed.
Print Assumptions C20_eventually_tracked.

(* ... and the measure strictly decreases with every watcher step, in every state. *)
Theorem C20_watcher_measure : forall s s',
  step s WStep = Some s' -> (Model.measure s' < Model.measure s)%nat.
Proof. exact main_watcher_measure. Qed.
Print Assumptions C20_watcher_measure.

(* For callers that call Add only when the watcher is blocked or gone (sequential use, the
   scripted harness) there are never late entries: the end of the members alone suffices. *)
Theorem C20_eventually_polite : forall pre ctxs es s,
  polite (new_pool pre ctxs) es ->
  run (new_pool pre ctxs) es = Some s ->
  late s = [] /\
  (cancel_called s = true \/ all_done s (members s) -> ends_by_itself s).
Proof. exact main_eventually_polite. Qed.
Print Assumptions C20_eventually_polite.

(* LATE ADD IGNORED.  Once the pool's context is done or Cancel was called, Add changes nothing
   (slice, Size, membership), it neither blocks nor panics on an ended pool, and the pool's
   context stays done along every continuation. *)
Theorem C20_late_add_ignored : forall pre ctxs es s m,
  run (new_pool pre ctxs) es = Some s ->
  ctx_done s = true \/ cancel_called s = true ->
  (forall s', step s (AddCtx m) = Some s' -> s' = s) /\
  (ctx_done s = true -> step s (AddCtx m) = Some s) /\
  (ctx_done s = true -> forall es' s', run s es' = Some s' -> ctx_done s' = true).
Proof. exact main_late_add_ignored. Qed.
Print Assumptions C20_late_add_ignored.

(* SIZE.  Size is always enabled, changes nothing and returns the length of the tracked slice;
   before Cancel every live member is in that slice; after Cancel it is 0 for ever. *)
Theorem C20_size : forall pre ctxs es s,
  run (new_pool pre ctxs) es = Some s ->
  step s Size = Some s /\
  size s = Z.of_nat (length (tracked s)) /\
  (cancel_called s = false ->
   forall m, In m (members s) -> is_ended s m = false -> In m (tracked s)) /\
  (cancel_called s = true -> forall es' s', run s es' = Some s' -> size s' = 0%Z).
Proof. exact main_size. Qed.
Print Assumptions C20_size.

(* CANCEL.  Cancel can be called whenever the watcher does not hold the read lock (it holds it
   only transiently); after it Size is 0, nothing panicked (calling it twice is harmless) and at
   most 3 watcher steps make the pool's context done and end the goroutine. *)
Theorem C20_cancel : forall pre ctxs es s,
  run (new_pool pre ctxs) es = Some s ->
  (write_lock_free s = true -> exists s1, step s Cancel = Some s1) /\
  (forall s1, step s Cancel = Some s1 ->
     cancel_called s1 = true /\ size s1 = 0%Z /\ panicked s1 = false /\
     exists k s2, (k <= 3)%nat /\ run s1 (repeat WStep k) = Some s2 /\
                  ctx_done s2 = true /\ watcher_gone s2 = true).
Proof. exact main_cancel. Qed.
Print Assumptions C20_cancel.

(* WATCHER EXITS.  The pool's context is done exactly when the watcher goroutine has returned,
   and a returned watcher takes no further step. *)
Theorem C20_watcher_exits : forall pre ctxs es s,
  run (new_pool pre ctxs) es = Some s ->
  (ctx_done s = true <-> watcher_gone s = true) /\
  (watcher_gone s = true -> step s WStep = None).
Proof. exact main_watcher_exits. Qed.
Print Assumptions C20_watcher_exits.

(* close(p.closed) is never executed twice. *)
Theorem C20_no_double_close : forall pre ctxs es s,
  run (new_pool pre ctxs) es = Some s -> panicked s = false.
Proof. exact main_no_panic. Qed.
Print Assumptions C20_no_double_close.

(* Why never-early needs the property's membership: a schedule after which the pool is done,
   Cancel was not called, yet a context that has not ended is in the slice and counted by Size
   (Add landed between the watcher's last RUnlock and its cancel()).  It is a late entry, not a
   member. *)
Theorem C20_exit_window_witness :
  exists s, run (new_pool [] [0%Z]) exit_window_schedule = Some s /\
            ctx_done s = true /\ cancel_called s = false /\
            In 1%Z (tracked s) /\ size s = 2%Z /\ is_ended s 1%Z = false /\
            ~ In 1%Z (members s) /\ late s = [1%Z].
Proof. exact exit_window_witness. Qed.
Print Assumptions C20_exit_window_witness.

(* Why eventually needs the late entries: an Add between the end of the last member and the
   watcher's last look is tracked AND waited for - every member has ended, the pool is not done
   and the watcher is blocked on the late entry. *)
Theorem C20_late_waited_witness :
  exists s, run (new_pool [] [0%Z]) late_waited_schedule = Some s /\
            (forall m, In m (members s) -> is_ended s m = true) /\
            cancel_called s = false /\ ctx_done s = false /\
            step s WStep = None /\ late s = [1%Z].
Proof. exact late_waited_witness. Qed.
Print Assumptions C20_late_waited_witness.

(* SEQUENTIAL USE = THE SPEC.  For EVERY script (creation, any sequence of context ends / Add /
   Cancel / Size, the pool settling after each step) the model's observations - done or not and
   Size after every step, done after every context ended - satisfy the script specification of
   Spec.v: done exactly when Cancel was called or every member has ended, Size 0 after Cancel
   and between the live members and the contexts offered otherwise, Add to an ended pool
   ignored. *)
Theorem C20_script_model_meets_spec : forall pre ctxs ops,
  let '(o0, obs, fin) := script_model pre ctxs ops in
  script_spec pre ctxs ops o0 obs fin false.
Proof. exact script_model_meets_spec. Qed.
Print Assumptions C20_script_model_meets_spec.

(* The boolean oracles evaluated on the implementation's observations decide the specs. *)
Theorem C20_script_oracle_sound : forall pre ctxs ops o0 obs fin leak,
  script_oracle pre ctxs ops o0 obs fin leak = true <-> script_spec pre ctxs ops o0 obs fin leak.
Proof. exact script_oracle_sound. Qed.
Print Assumptions C20_script_oracle_sound.

Theorem C20_race_oracle_sound : forall confirmed mid fin leak,
  race_oracle confirmed mid fin leak = true <-> race_spec confirmed mid fin leak.
Proof. exact race_oracle_sound. Qed.
Print Assumptions C20_race_oracle_sound.

(* PARTIALLY OBSERVED SCRIPTS (Spec.v, 4): some steps are not looked at, or only Done() or only
   Size() is; the Size the property pins is threaded through Size() calls and ignored Adds.
   The boolean oracle decides the predicate. *)
Theorem C20_pscript_oracle_sound : forall pre ctxs ops o0 obs fin leak,
  pscript_oracle pre ctxs ops o0 obs fin leak = true <-> pscript_spec pre ctxs ops o0 obs fin leak.
Proof. exact pscript_oracle_sound. Qed.
Print Assumptions C20_pscript_oracle_sound.

(* On a fully observed script the partial-observation specification demands at least what the
   script specification demands. *)
Theorem C20_pscript_refines_script : forall pre ctxs ops o0 obs fin leak,
  pscript_spec pre ctxs ops o0 (map pfull obs) fin leak -> script_spec pre ctxs ops o0 obs fin leak.
Proof. exact pscript_full_implies_script. Qed.
Print Assumptions C20_pscript_refines_script.

(* For EVERY script and EVERY way of forgetting parts of the model's observations, what is left
   satisfies the partial-observation specification. *)
Theorem C20_pscript_model_meets_spec : forall pre ctxs ops pobs,
  let '(o0, obs, fin) := script_model pre ctxs ops in
  Forall2 weaker obs pobs -> pscript_spec pre ctxs ops o0 pobs fin false.
Proof. exact pscript_model_meets_spec. Qed.
Print Assumptions C20_pscript_model_meets_spec.

(* AN OPERATION NESTED IN Add (Spec.v, 5): Cancel() / Size() started, or members ended, inside
   the Done() method of the offered context, which Add calls while it holds the lock.  The
   nested specification asks that ONE of the two orders of Add and the nested operation explains
   everything observed (after Cancel returned Size is 0 for ever and later Adds are ignored; a
   pool seen done ignores what is offered afterwards; never early for what was accepted before);
   the boolean oracle decides it. *)
Theorem C20_nested_oracle_sound :
  forall pre ctxs ops1 o0 obs1 m nops called ndone nret nres oA ops2 obs2 fin leak,
  nested_oracle pre ctxs ops1 o0 obs1 m nops called ndone nret nres oA ops2 obs2 fin leak = true <->
  nested_spec pre ctxs ops1 o0 obs1 m nops called ndone nret nres oA ops2 obs2 fin leak.
Proof. exact nested_oracle_sound. Qed.
Print Assumptions C20_nested_oracle_sound.

(* Every nested case that the model of pool.go explains (Add atomic under the write lock: nothing
   nested completes inside the callback, observations = those of the settled script "Add, nested
   operation, ...") satisfies the nested specification - for all prefixes, nested operations
   and continuations. *)
Theorem C20_nested_model_meets_spec :
  forall pre ctxs ops1 o0 obs1 m nops called inside ndone nret nres oA ops2 obs2 fin leak,
  nested_agrees pre ctxs ops1 o0 obs1 m nops called inside ndone nret nres oA ops2 obs2 fin leak = true ->
  nested_spec pre ctxs ops1 o0 obs1 m nops called ndone nret nres oA ops2 obs2 fin leak.
Proof. exact nested_agrees_spec. Qed.
Print Assumptions C20_nested_model_meets_spec.

(* What the nested oracle rejects: Cancel() ran to completion inside the callback and Add then
   appended - after Cancel returned the pool still tracks a context (Size 1).  Verdict 2. *)
Theorem C20_nested_cancel_then_tracked_rejected :
  check_case (CNested [] [0%Z] [] (false, 1%Z) [] 1%Z [SCancel] true true false true None (true, 1%Z)
                      [SSize; SAdd 2%Z; SSize] [(true, 1%Z); (true, 1%Z); (true, 1%Z)] true false) = 2%Z.
Proof. exact nested_cancel_then_tracked_rejected. Qed.
Print Assumptions C20_nested_cancel_then_tracked_rejected.

(* ... and: the last member ended inside the callback, the pool was seen done there, Add then
   appended a live context.  Verdict 2 under both orders. *)
Theorem C20_nested_end_then_tracked_rejected :
  check_case (CNested [] [0%Z] [] (false, 1%Z) [] 1%Z [SEnd 0%Z] true true true true None (true, 2%Z)
                      [SSize] [(true, 2%Z)] true false) = 2%Z.
Proof. exact nested_end_then_tracked_rejected. Qed.
Print Assumptions C20_nested_end_then_tracked_rejected.

(* A partially observed script case (operations issued back to back, e.g. Cancel(); Add(c);
   Size()) that the model explains passes the oracle: verdict 2 on such a case can only come
   from the implementation. *)
Theorem C20_pscript_agrees_oracle : forall pre ctxs ops o0 obs fin leak,
  model_agrees (CPScript pre ctxs ops o0 obs fin leak) = true ->
  oracle (CPScript pre ctxs ops o0 obs fin leak) = true.
Proof. exact pscript_agrees_oracle. Qed.
Print Assumptions C20_pscript_agrees_oracle.

(* THE WATCHER ENDS WITH THE POOL, AT EVERY LOOK.  For EVERY script - creation, any operations,
   then the end of every context - in each settled state (after creation, after each operation,
   e.g. after a Cancel while members are still live or can never end) the watcher goroutine has
   returned exactly when the pool's context is done.  The harness takes this look (goroutines of
   the package by stack match) every time it sees the pool done; [leak] in a case is its failure. *)
Theorem C20_script_watcher_ends_with_pool : forall pre ctxs ops,
  let s0 := settle (new_pool pre ctxs) in
  Forall (fun s => watcher_gone s = ctx_done s)
         (s0 :: script_states s0 (ops ++ end_all (pre ++ ctxs ++ op_ids ops))).
Proof. exact script_watcher_ends_with_pool. Qed.
Print Assumptions C20_script_watcher_ends_with_pool.

(* ADD IS NOT ATOMIC: THE WRITE LOCK IN THE STATE (ModelLock.v).  Add = [LAddBegin m] (Lock(), the
   select; the Add is in flight, holding the lock, while the caller's ctx.Done() runs) then
   [LAddEnd] (append, Unlock()); in flight Cancel / Size / another Add and the watcher's return
   from its select are disabled, ends of contexts and the watcher's deferred cancel() are not.
   REFINEMENT: every schedule of that model, of any length, is a schedule of the atomic model of
   Model.v with each Add placed where it took the lock ([ahead] = the state with the append of
   the Add in flight already done). *)
Theorem C20_lock_refines_atomic : forall pre ctxs les ls,
  lrun (new_pool pre ctxs, None) les = Some ls ->
  run (new_pool pre ctxs) (flat_map flat les) = Some (ahead ls).
Proof. exact lrun_refines_init. Qed.
Print Assumptions C20_lock_refines_atomic.

(* ... hence, for ALL lock-aware schedules (arbitrary code of the caller running inside Add):
   never early - counting the context of an Add in flight as offered when the lock was taken - *)
Theorem C20_lock_never_early : forall pre ctxs les ls,
  lrun (new_pool pre ctxs, None) les = Some ls ->
  ctx_done (fst ls) = true ->
  cancel_called (fst ls) = true \/ all_done (fst ls) (members (ahead ls)).
Proof. exact locked_never_early. Qed.
Print Assumptions C20_lock_never_early.

(* ... Size is zero after Cancel ... *)
Theorem C20_lock_size_zero_after_cancel : forall pre ctxs les s,
  lrun (new_pool pre ctxs, None) les = Some (s, None) ->
  cancel_called s = true -> size s = 0%Z.
Proof. exact locked_size_zero_after_cancel. Qed.
Print Assumptions C20_lock_size_zero_after_cancel.

(* ... and the watcher goroutine ends exactly with the pool's context. *)
Theorem C20_lock_watcher_ends_with_pool : forall pre ctxs les ls,
  lrun (new_pool pre ctxs, None) les = Some ls ->
  (ctx_done (fst ls) = true <-> watcher_gone (fst ls) = true).
Proof. exact locked_watcher_ends_with_pool. Qed.
Print Assumptions C20_lock_watcher_ends_with_pool.

(* IN FLIGHT nothing that needs the lock is enabled ... *)
Theorem C20_flight_blocks : forall s f,
  lstep (s, Some f) (LEv Cancel) = None /\ lstep (s, Some f) (LEv Size) = None /\
  (forall m, lstep (s, Some f) (LEv (AddCtx m)) = None) /\
  (forall m, lstep (s, Some f) (LAddBegin m) = None).
Proof. exact flight_blocks. Qed.
Print Assumptions C20_flight_blocks.

(* ... and, unless the watcher is already past its last RUnlock (the exit window, see
   flight_exit_window in Proofs_lock.v), a whole flight - any number of context ends and watcher
   attempts - leaves the watcher, the pool's context and Size where they were. *)
Theorem C20_flight_freezes_pool : forall les s f ls',
  lrun (s, Some f) les = Some ls' -> forallb is_lev les = true -> pc s <> W_exiting ->
  exists s', ls' = (s', Some f) /\ pc s' = pc s /\ ctx_done s' = ctx_done s /\ size s' = size s.
Proof. exact flight_freezes_pool. Qed.
Print Assumptions C20_flight_freezes_pool.

(* THE NESTED CASES.  What Check.v computes with the lock-aware model for every nested case - is
   ctx.Done() called, does a nested Cancel()/Size() return (for ended members: does the pool end)
   inside the callback, is the pool's context done there - is, for EVERY creation, prefix script,
   offered context and list of nested operations: called iff the pool has not ended, and nothing
   completes inside.  (Until now this prediction was written into Check.v by hand.) *)
Theorem C20_nested_flight_spec : forall pre ctxs ops1 m nops,
  nested_flight pre ctxs ops1 m nops = (nested_called pre ctxs ops1, false, false).
Proof. exact nested_flight_spec. Qed.
Print Assumptions C20_nested_flight_spec.
