(* C14 (sequential half, ring) — the generic ring of ring.go behaves like the documented cycle
   of container/ring.  Statements only; every proof is [exact <lemma of C14/RingSim.v>]. *)
From Kit Require Import C14.RingModel C14.RingSpec C14.RingProofs C14.RingSim.

(* For EVERY program over four pointer variables — New(n) for any n (n <= 0 gives nil), the
   zero ring (initialised lazily by the first method that looks at it), Next, Prev, Move(n) for
   any n (negative = backwards, any number of laps), Link of two distinct rings (splice), Link
   inside one ring (the elements in between leave as a ring of their own), Link with itself or
   with nil, Unlink(n), Len, Do, reading and writing Value, pointer comparisons, on rings of
   every size — the pointer-level transcription of ring.go (heap of nodes with next/prev) gives
   exactly the observations of the documented cycle semantics (lists of elements, no pointers),
   including where the program panics on a nil receiver. *)
Theorem C14_ring_refines_cycle : forall prog, ring_run prog = cycle_run prog.
Proof. exact ring_refines_cycle. Qed.
Print Assumptions C14_ring_refines_cycle.

(* The boolean oracle evaluated on what kit's ring and container/ring were observed to answer
   decides the specification: kit's answers are those of the cycle semantics and those of the
   standard library. *)
Theorem C14_ring_oracle_sound : forall prog obs_kit obs_std,
  ring_oracle prog obs_kit obs_std = true <-> ring_spec prog obs_kit obs_std.
Proof. exact ring_oracle_sound. Qed.
Print Assumptions C14_ring_oracle_sound.
