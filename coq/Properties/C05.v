(* C05 — cron: each job starts once per activation, never early; Stop/Remove are clean.
   Statements only; every proof is [exact <lemma of C05/Proofs*.v>].

   Vocabulary (C05/Model.v, C05/Defs.v).  A history [h] is a list of the events the scheduler
   goroutine processes (Start t | Wake w | Added t sched | Removed t id | Snapshot | Stop), the
   API calls made while it is not running (ScheduleIdle | RemoveIdle | EntriesIdle | StopIdle |
   StartNoop), job returns (JobRet), looks at Stop's contexts (CtxPoll), clock readings taken
   while the loop is parked with its timer pending (Tick c), and the returns of Remove / Stop
   calls to their callers (RemoveRet id, StopRet), and clock readings taken while a tick carrying
   an older value is still in flight (Lag c: a busy host; the following Wake w has w <= c).  [wf next (init t0) h = true]: every
   event is enabled in the state it meets and the environment behaves (clock never backwards, a
   timer never fires before its instant, a Tick reads a time before the pending timer's instant).
   [run next (init t0) h = Some s]: the state after [h].  [starts s] is the ghost list of every
   job start so far, (entry id, activation instant it was started for, wake-up instant).
   The schedule is abstract: [next : sched -> Z -> option Z] ([None] = zero time) with the only
   hypothesis the Schedule interface documents, "later than the given time".  All theorems hold
   for histories of ANY length. *)
From Coq Require Import Sorting.Sorted.
From Kit Require Import C05.Model C05.Spec C05.Defs C05.Check C05.Proofs C05.Proofs_oracle C05.Examples.
Local Open Scope Z_scope.

(* Never early: every job start happened at a wake-up instant that is at or after the activation
   instant it was started for. *)
Theorem C05_never_early : forall (sched : Type) (next : sched -> Z -> option Z),
  (forall s t u, next s t = Some u -> t < u) ->
  forall t0 h s, wf next (init t0) h = true -> run next (init t0) h = Some s ->
  forall i a w, In (i, a, w) (starts s) -> a <= w.
Proof. exact never_early. Qed.
Print Assumptions C05_never_early.

(* Never twice for the same activation: per entry id, the activation instants of its job starts,
   in the order they happened, are strictly increasing. *)
Theorem C05_no_duplicate : forall (sched : Type) (next : sched -> Z -> option Z),
  (forall s t u, next s t = Some u -> t < u) ->
  forall t0 h s, wf next (init t0) h = true -> run next (init t0) h = Some s ->
  forall i, StronglySorted Z.lt (acts_of i (starts s)).
Proof. exact no_duplicate. Qed.
Print Assumptions C05_no_duplicate.

(* Once per wake-up: a wake-up at [w] starts the job of EVERY live entry whose pending activation
   [a] is <= w exactly once (record (id, a, w)) — however many activations [w] jumped over — and
   that entry then waits for [next sched w] with Prev = a; every other live entry is not started
   and is unchanged; and nothing else is started (every new start is of a live entry, for its
   pending activation, which is <= w). *)
Theorem C05_once_per_wake : forall (sched : Type) (next : sched -> Z -> option Z),
  (forall s t u, next s t = Some u -> t < u) ->
  forall t0 h w s s',
  wf next (init t0) (h ++ [Wake w]) = true ->
  run next (init t0) h = Some s -> run next (init t0) (h ++ [Wake w]) = Some s' ->
  exists new, starts s' = starts s ++ new /\
    (forall e, In e (entries s) ->
       match enxt e with
       | Some a =>
           if a <=? w
           then of_id (eid e) new = [(eid e, a, w)] /\
                In (mkE (eid e) (esch e) (next (esch e) w) (Some a)) (entries s')
           else of_id (eid e) new = [] /\ In e (entries s')
       | None => of_id (eid e) new = [] /\ In e (entries s')
       end) /\
    (forall i a w', In (i, a, w') new ->
       w' = w /\ exists e, In e (entries s) /\ eid e = i /\ enxt e = Some a /\ a <= w).
Proof. exact once_per_wake. Qed.
Print Assumptions C05_once_per_wake.

(* None skipped (1): after a wake-up at [w] no live entry is left with a pending activation
   <= w. *)
Theorem C05_none_skipped : forall (sched : Type) (next : sched -> Z -> option Z),
  (forall s t u, next s t = Some u -> t < u) ->
  forall t0 h w s',
  wf next (init t0) (h ++ [Wake w]) = true -> run next (init t0) (h ++ [Wake w]) = Some s' ->
  forall e n, In e (entries s') -> enxt e = Some n -> w < n.
Proof. exact none_skipped_wake. Qed.
Print Assumptions C05_none_skipped.

(* None skipped (2): whenever the scheduler is parked with its timer pending and the clock reads
   [c], and that timer is on time (not later than any pending activation - see C05_timer_exact /
   C05_timer_kept for when it is), every live entry's pending activation is still ahead of [c]:
   no activation instant the clock has reached is waiting without a wake-up. *)
Theorem C05_none_skipped_tick : forall (sched : Type) (next : sched -> Z -> option Z),
  forall t0 h c s,
  wf next (init t0) (h ++ [Tick c]) = true -> run next (init t0) h = Some s ->
  (forall e n, In e (entries s) -> enxt e = Some n -> exists T, timer s = Some T /\ T <= n) ->
  forall e n, In e (entries s) -> enxt e = Some n -> c < n.
Proof. exact none_skipped_tick. Qed.
Print Assumptions C05_none_skipped_tick.

(* The armed timer, always: while running, a timer is armed iff some entry has a pending
   activation, and it is never EARLIER than the earliest pending activation; while not running no
   timer is armed. *)
Theorem C05_timer_is_min : forall (sched : Type) (next : sched -> Z -> option Z),
  (forall s t u, next s t = Some u -> t < u) ->
  forall t0 h s, wf next (init t0) h = true -> run next (init t0) h = Some s ->
  if running s
  then (forall e n, In e (entries s) -> enxt e = Some n -> exists T, timer s = Some T) /\
       (forall T, timer s = Some T ->
          exists e n, In e (entries s) /\ enxt e = Some n /\ n <= T /\
                      forall e' n', In e' (entries s) -> enxt e' = Some n' -> n <= n')
  else timer s = None.
Proof. exact timer_is_min. Qed.
Print Assumptions C05_timer_is_min.

(* The armed timer is EXACTLY the minimum pending activation after Start, Added, Removed and after
   every wake-up whose tick value [w] is not older than the clock reading (the normal case; a
   wake-up handed an older value on a busy host arms its timer late by that lag: event Lag). *)
Theorem C05_timer_exact : forall (sched : Type) (next : sched -> Z -> option Z),
  (forall s t u, next s t = Some u -> t < u) ->
  forall t0 h ev s s',
  wf next (init t0) (h ++ [ev]) = true ->
  run next (init t0) h = Some s -> run next (init t0) (h ++ [ev]) = Some s' ->
  ((exists t, ev = Start t) \/ (exists t sc, ev = Added t sc) \/ (exists t id, ev = Removed t id) \/
   (exists w, ev = Wake w /\ clk s <= w)) ->
  (forall e n, In e (entries s') -> enxt e = Some n -> exists T, timer s' = Some T /\ T <= n) /\
  (forall T, timer s' = Some T -> exists e, In e (entries s') /\ enxt e = Some T).
Proof. exact timer_exact. Qed.
Print Assumptions C05_timer_exact.

(* ... and neither the timer nor the entries change through snapshots, no-op Starts, context
   polls, job returns, returns of Remove calls and clock readings. *)
Theorem C05_timer_kept : forall (sched : Type) (next : sched -> Z -> option Z),
  (forall s t u, next s t = Some u -> t < u) ->
  forall t0 h ev s s' o,
  wf next (init t0) h = true -> run next (init t0) h = Some s -> step next s ev = Some (s', o) ->
  (ev = Snapshot \/ ev = StartNoop \/ ev = CtxPoll \/ ev = JobRet \/ (exists id, ev = RemoveRet id) \/
   (exists c, ev = Tick c) \/ (exists c, ev = Lag c)) ->
  entries s' = entries s /\ timer s' = timer s.
Proof. exact timer_kept. Qed.
Print Assumptions C05_timer_kept.

(* Independence ("whatever other entries are added or removed meanwhile"): for an entry created by
   event [ev] (Schedule while running or idle), as long as it is live its schedule is the one it
   was given, its (Next, Prev) and the complete list of its job starts are a fold over the
   Start / Wake instants of the history after [ev] alone ([track], [tstarts] look at no other
   entry and at no Added / Removed event). *)
Theorem C05_independent : forall (sched : Type) (next : sched -> Z -> option Z),
  (forall s t u, next s t = Some u -> t < u) ->
  forall t0 h1 ev h2 s1 s2 id sc st0,
  wf next (init t0) (h1 ++ ev :: h2) = true ->
  run next (init t0) h1 = Some s1 -> run next (init t0) (h1 ++ ev :: h2) = Some s2 ->
  birth next s1 ev = Some (id, sc, st0) ->
  forall e, In e (entries s2) -> eid e = id ->
    esch e = sc /\ (enxt e, eprv e) = track next sc st0 h2 /\
    of_id id (starts s2) = map (fun aw => (id, fst aw, snd aw)) (tstarts next sc st0 h2).
Proof. exact independent. Qed.
Print Assumptions C05_independent.

(* Remove is clean: once Remove(id) has been processed (running or idle) for an id that Schedule
   had handed out, no job with that id is started in any continuation of the history and no live
   entry has that id. *)
Theorem C05_remove_clean : forall (sched : Type) (next : sched -> Z -> option Z),
  (forall s t u, next s t = Some u -> t < u) ->
  forall t0 h1 ev h2 s1 s2 id,
  wf next (init t0) (h1 ++ ev :: h2) = true ->
  (ev = RemoveIdle id \/ exists t, ev = Removed t id) ->
  run next (init t0) h1 = Some s1 -> run next (init t0) (h1 ++ ev :: h2) = Some s2 ->
  id <= nextID s1 ->
  exists new, starts s2 = starts s1 ++ new /\ of_id id new = [] /\
              forall e, In e (entries s2) -> eid e <> id.
Proof. exact remove_clean. Qed.
Print Assumptions C05_remove_clean.

(* Stop is clean: after Stop has been processed no job is started, whatever happens, until a
   later Start. *)
Theorem C05_stop_clean : forall (sched : Type) (next : sched -> Z -> option Z),
  forall t0 h1 h2 s1 s2,
  wf next (init t0) (h1 ++ Stop :: h2) = true ->
  existsb is_start h2 = false ->
  run next (init t0) h1 = Some s1 -> run next (init t0) (h1 ++ Stop :: h2) = Some s2 ->
  starts s2 = starts s1.
Proof. exact stop_clean. Qed.
Print Assumptions C05_stop_clean.

(* "After Remove returns": from the moment a Remove(id) call has returned to its caller (event
   RemoveRet, which the model enables only once the scheduler has taken the id and dropped the
   entry), no job with that id is started and no live entry has it, in any continuation. *)
Theorem C05_remove_returned_clean : forall (sched : Type) (next : sched -> Z -> option Z),
  (forall s t u, next s t = Some u -> t < u) ->
  forall t0 h1 id h2 s1 s2,
  wf next (init t0) (h1 ++ RemoveRet id :: h2) = true ->
  run next (init t0) h1 = Some s1 -> run next (init t0) (h1 ++ RemoveRet id :: h2) = Some s2 ->
  exists new, starts s2 = starts s1 ++ new /\ of_id id new = [] /\
              forall e, In e (entries s2) -> eid e <> id.
Proof. exact remove_returned_clean. Qed.
Print Assumptions C05_remove_returned_clean.

(* "After Stop returns": from the moment a Stop() call has returned (event StopRet, enabled only
   once the scheduler has taken the stop request) nothing is started until a later Start. *)
Theorem C05_stop_returned_clean : forall (sched : Type) (next : sched -> Z -> option Z),
  forall t0 h1 h2 s1 s2,
  wf next (init t0) (h1 ++ StopRet :: h2) = true ->
  existsb is_start h2 = false ->
  run next (init t0) h1 = Some s1 -> run next (init t0) (h1 ++ StopRet :: h2) = Some s2 ->
  starts s2 = starts s1.
Proof. exact stop_returned_clean. Qed.
Print Assumptions C05_stop_returned_clean.

(* Entries is exact: a snapshot (running or idle) changes nothing and lists every live entry
   exactly once with its id, the activation it is waiting for and its Prev; and that Prev is the
   activation of the entry's most recent job start (zero if it never ran). *)
Theorem C05_entries_exact : forall (sched : Type) (next : sched -> Z -> option Z),
  (forall s t u, next s t = Some u -> t < u) ->
  forall t0 h ev s s' o,
  wf next (init t0) h = true -> run next (init t0) h = Some s ->
  (ev = Snapshot \/ ev = EntriesIdle) -> step next s ev = Some (s', o) ->
  s' = s /\ exists l, o = OSnap l /\ NoDup (map (fun x => fst (fst x)) l) /\
    (forall i n p, In (i, n, p) l <->
                   exists e, In e (entries s) /\ eid e = i /\ enxt e = n /\ eprv e = p) /\
    (forall i n p, In (i, n, p) l -> p = last_opt (acts_of i (starts s))).
Proof. exact entries_exact. Qed.
Print Assumptions C05_entries_exact.

(* The outstanding-jobs counter (what Stop's context waits for) is exactly the number of job
   starts minus the number of job returns, and is never negative. *)
Theorem C05_stop_ctx_counter : forall (sched : Type) (next : sched -> Z -> option Z),
  (forall s t u, next s t = Some u -> t < u) ->
  forall t0 h s, wf next (init t0) h = true -> run next (init t0) h = Some s ->
  outstanding s = Z.of_nat (length (starts s)) - Z.of_nat (length (filter is_jobret h)) /\
  0 <= outstanding s.
Proof. exact stop_ctx_counter. Qed.
Print Assumptions C05_stop_ctx_counter.

(* The context returned by a Stop is complete at the end of a continuation [h2] if and only if
   at some point at or after that Stop every started job had returned (WaitGroup semantics:
   trusted). *)
Theorem C05_stop_ctx : forall (sched : Type) (next : sched -> Z -> option Z),
  (forall s t u, next s t = Some u -> t < u) ->
  forall t0 h1 ev h2 s1 s2,
  wf next (init t0) (h1 ++ ev :: h2) = true -> (ev = Stop \/ ev = StopIdle) ->
  run next (init t0) h1 = Some s1 -> run next (init t0) (h1 ++ ev :: h2) = Some s2 ->
  (nth (length (ctxs s1)) (ctxs s2) false = true <->
   exists h2a h2b sa, h2 = h2a ++ h2b /\ run next (init t0) (h1 ++ ev :: h2a) = Some sa /\
                      outstanding sa = 0).
Proof. exact stop_ctx. Qed.
Print Assumptions C05_stop_ctx.

(* Restart (1): Start at clock reading [t] keeps exactly the live entries (ids, schedules, Prev)
   and makes each wait for its schedule's first activation after [t]. *)
Theorem C05_restart : forall (sched : Type) (next : sched -> Z -> option Z),
  (forall s t u, next s t = Some u -> t < u) ->
  forall t0 h t s s',
  wf next (init t0) (h ++ [Start t]) = true ->
  run next (init t0) h = Some s -> run next (init t0) (h ++ [Start t]) = Some s' ->
  (forall e, In e (entries s) -> In (mkE (eid e) (esch e) (next (esch e) t) (eprv e)) (entries s')) /\
  (forall e', In e' (entries s') ->
     exists e, In e (entries s) /\ e' = mkE (eid e) (esch e) (next (esch e) t) (eprv e)) /\
  (forall e' n, In e' (entries s') -> enxt e' = Some n -> t < n).
Proof. exact restart_recomputes. Qed.
Print Assumptions C05_restart.

(* Restart (2): every job started after a Start at [t] is started for an activation later than
   [t] — activations that passed while the Cron was stopped are not made up for. *)
Theorem C05_restart_skips : forall (sched : Type) (next : sched -> Z -> option Z),
  (forall s t u, next s t = Some u -> t < u) ->
  forall t0 h1 t h2 s1 s2,
  wf next (init t0) (h1 ++ Start t :: h2) = true ->
  run next (init t0) h1 = Some s1 -> run next (init t0) (h1 ++ Start t :: h2) = Some s2 ->
  exists new, starts s2 = starts s1 ++ new /\ forall i a w, In (i, a, w) new -> t < a.
Proof. exact restart_skips. Qed.
Print Assumptions C05_restart_skips.

(* The model meets the specification written from the property text (C05/Spec.v: per entry, no
   ordering, no timer): the observable trace of every well-formed history satisfies [spec_ok]
   (each wake-up starts exactly the set of due entries, each at or after its activation; parked
   clock readings find no reached activation; snapshots, contexts, fresh ids as specified; an entry
   whose Remove call has returned is neither started nor listed; nothing starts after a Stop call
   has returned; the parked-clock clause is waived only while the last wake-up was handed a tick
   value older than the clock reading).
   Holds for ANY schedule function, even one that violates "later than the given time". *)
Theorem C05_model_meets_spec : forall (sched : Type) (next : sched -> Z -> option Z),
  forall t0 h, wf next (init t0) h = true -> spec_ok next (trace next (init t0) h).
Proof. exact model_meets_spec. Qed.
Print Assumptions C05_model_meets_spec.

(* Oracle soundness: the boolean oracle the correspondence check evaluates on what the
   implementation was observed to do decides the specification predicate. *)
Theorem C05_oracle_sound : forall (sched : Type) (next : sched -> Z -> option Z)
  (tr : list (obs sched)), oracle next tr = true <-> spec_ok next tr.
Proof. exact oracle_sound. Qed.
Print Assumptions C05_oracle_sound.

(* The schedules the harness uses (cron.Every and an explicit list of instants) meet the one
   hypothesis of the theorems. *)
Theorem C05_harness_schedules_later : forall s t u, cnext s t = Some u -> t < u.
Proof. exact cnext_later. Qed.
Print Assumptions C05_harness_schedules_later.

(* Non-vacuity: a concrete well-formed history over those schedules (two entries, wake-up exactly
   at an activation, a jump over several, snapshot, Remove, Stop with jobs outstanding, job
   returns, restart) with four job starts. *)
Theorem C05_hypotheses_satisfiable :
  wf cnext (init 500) demo_h = true /\
  exists s, run cnext (init 500) demo_h = Some s /\
            starts s = [(2, 1000000000, 1000000000); (1, 2000000000, 7000000000);
                        (2, 3000000000, 7000000000); (1, 22000000000, 22000000000)] /\
            ctxs s = [true] /\ outstanding s = 1.
Proof. exact demo_wf. Qed.
Print Assumptions C05_hypotheses_satisfiable.
