(* C14 (sequential half) — executable correspondence interface for ring.Ring and
   ring.Buffered.  The Go harness (harness/c14ring) prints [case] terms holding the operation
   sequence AND what the implementation was observed to answer; [check_case] compares with the
   models (current tree = Fixed) and evaluates the spec oracles on the observation. *)
From Kit Require Export C14.BufferedModel C14.BufferedSpec C14.RingModel C14.RingSpec Lib.CheckLib.

Inductive case :=
(* NewBuffered[int](initial, bsize), then [ops]; [obs] = kit's answers *)
| CBuf (initial bsize : Z) (ops : list bop) (obs : list bout)
(* a program over ring.Ring[int]; answers of kit's ring and of container/ring *)
| CRing (prog : list rop) (obs_kit obs_std : list rout).

Definition model_agrees (v : variant) (c : case) : bool :=
  match c with
  | CBuf i b ops obs => bouts_eqb obs (buf_run v i b ops)
  | CRing prog obs_kit _ => routs_eqb obs_kit (ring_run prog)
  end.

Definition oracle (c : case) : bool :=
  match c with
  | CBuf _ _ ops obs => fifo_oracle ops obs
  | CRing prog obs_kit obs_std => ring_oracle prog obs_kit obs_std
  end.

(* 0 = agree and oracle holds; 1 = model and implementation differ; 2 = the implementation's
   observed behaviour violates the spec. *)
Definition check_case (c : case) : Z :=
  if negb (oracle c) then 2 else if negb (model_agrees Fixed c) then 1 else 0.

Definition run_cases (cs : list (Z * case)) : list (Z * Z) := failures check_case cs.
