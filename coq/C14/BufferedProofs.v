(* C14 (sequential half) — proofs about ring.Buffered: after the fix it is a FIFO queue for
   EVERY operation sequence and every pair of sizes; before the fix it is not. *)
From Kit Require Import C14.BufferedModel C14.BufferedSpec.
From Coq Require Import ZifyBool ZifyNat.

(* ------------------------------------------------------------------------------------- *)
(* list facts                                                                              *)

Lemma set_nth_app (a c : list bval) (x v : bval) :
  set_nth (a ++ x :: c) (length a) v = a ++ v :: c.
Proof. induction a as [|y a IH]; cbn; [reflexivity | now rewrite IH]. Qed.

Lemma repeat_S_end (n : nat) : repeat (@None Z) n ++ [None] = repeat None (S n).
Proof. induction n as [|n IH]; cbn; [reflexivity | now rewrite IH]. Qed.

Lemma repeat_split (n k : nat) : (k <= n)%nat ->
  repeat (@None Z) n = repeat None k ++ repeat None (n - k).
Proof. intro H. rewrite <- repeat_app. f_equal. lia. Qed.

Lemma skipn_repeat (n k : nat) : skipn k (repeat (@None Z) n) = repeat None (n - k).
Proof.
  revert k; induction n as [|n IH]; intros [|k]; cbn; try reflexivity. apply IH.
Qed.

Lemma firstn_S_app_repeat (q : list bval) (f : nat) :
  firstn (S (length q)) (q ++ repeat None (S f)) = q ++ [None].
Proof.
  rewrite firstn_app. replace (S (length q) - length q)%nat with 1%nat by lia.
  rewrite firstn_all2 by lia. reflexivity.
Qed.

Lemma skipn_app_repeat (q : list bval) (f k : nat) :
  skipn (length q + k) (q ++ repeat None f) = repeat None (f - k).
Proof.
  rewrite skipn_app. rewrite skipn_all2 by lia.
  replace (length q + k - length q)%nat with k by lia. cbn. apply skipn_repeat.
Qed.

Lemma cyc_head_app_repeat (q : list bval) (f : nat) :
  (1 <= length q + f)%nat -> cyc_head (q ++ repeat None f) = q_front q.
Proof.
  destruct q as [|x q]; cbn; [|reflexivity].
  destruct f as [|f]; cbn; [lia | reflexivity].
Qed.

Lemma skipn_S_tl (i : nat) : forall l : list bval, skipn (S i) l = tl (skipn i l).
Proof.
  induction i as [|i IH]; intros [|x l]; try reflexivity.
  change (skipn (S (S i)) (x :: l)) with (skipn (S i) l).
  change (skipn (S i) (x :: l)) with (skipn i l). apply IH.
Qed.

(* ------------------------------------------------------------------------------------- *)
(* Range                                                                                   *)

Lemma range_loop_spec (cs : list bval) (stop : Z) :
  forall iters i calls, (i + iters <= length cs)%nat -> (0 <= calls)%Z ->
  range_loop cs iters i stop calls =
    if (stop <=? calls)%Z then firstn iters (skipn i cs)
    else firstn (Z.to_nat (stop - calls)) (firstn iters (skipn i cs)).
Proof.
  induction iters as [|iters IH]; intros i calls Hlen Hc.
  - cbn. destruct (stop <=? calls)%Z; [reflexivity | now rewrite firstn_nil].
  - cbn [range_loop].
    assert (Hi : (i < length cs)%nat) by lia.
    rewrite Nat.mod_small by exact Hi.
    destruct (skipn i cs) as [|y rest] eqn:Hsk.
    { exfalso. apply (f_equal (@length _)) in Hsk. rewrite skipn_length in Hsk. cbn in Hsk. lia. }
    assert (Hnth : nth i cs None = y).
    { rewrite <- (firstn_skipn i cs) at 1. rewrite app_nth2; rewrite firstn_length_le by lia;
        [|lia]. rewrite Nat.sub_diag, Hsk. reflexivity. }
    assert (Hrest : skipn (S i) cs = rest).
    { rewrite skipn_S_tl, Hsk. reflexivity. }
    rewrite Hnth. cbn [firstn].
    destruct (calls + 1 =? stop)%Z eqn:E.
    + replace (stop <=? calls)%Z with false by lia.
      replace (Z.to_nat (stop - calls)) with 1%nat by lia. cbn. reflexivity.
    + rewrite IH by lia. rewrite Hrest.
      destruct (stop <=? calls)%Z eqn:E1.
      * replace (stop <=? calls + 1)%Z with true by lia. reflexivity.
      * replace (stop <=? calls + 1)%Z with false by lia.
        replace (Z.to_nat (stop - calls)) with (S (Z.to_nat (stop - (calls + 1)))) by lia.
        reflexivity.
Qed.

(* ------------------------------------------------------------------------------------- *)
(* The representation invariant of the fixed code: the committed elements are the first
   [end] cells of the cycle read from b.ring, every other cell holds nil, the ring is never
   empty, bsize >= 1.  [f] = number of free cells.                                         *)

Definition inv (b : buf) (q : queue) : Prop :=
  exists f : nat,
    cells b = q ++ repeat None f /\
    bend b = Z.of_nat (length q) /\
    (1 <= bsz b)%Z /\
    (1 <= length q + f)%nat.

Lemma inv_new (initial bsize : Z) : inv (buf_new initial bsize) [].
Proof.
  unfold buf_new. exists (Z.to_nat (if (initial <? 1)%Z then 1%Z else initial)).
  cbn. repeat split; destruct (initial <? 1)%Z eqn:E1; destruct (bsize <? 1)%Z eqn:E2; lia.
Qed.

Lemma cyc_idx_small (l : list bval) (k : Z) :
  (0 <= k < cyc_len l)%Z -> cyc_idx l k = Z.to_nat k.
Proof. intro H. unfold cyc_idx. now rewrite Z.mod_small. Qed.

Lemma cyc_len_app_repeat (q : list bval) (f : nat) :
  cyc_len (q ++ repeat None f) = Z.of_nat (length q + f).
Proof. unfold cyc_len. now rewrite app_length, repeat_length. Qed.

Lemma inv_append (b : buf) (q : queue) (v : bval) :
  inv b q -> inv (buf_append b v) (q ++ [v]).
Proof.
  intros (f & Hc & He & Hb & Hn). unfold buf_append.
  rewrite Hc, He, cyc_len_app_repeat.
  destruct (Z.of_nat (length q) >=? Z.of_nat (length q + f))%Z eqn:Efull.
  - (* full: grow by bsize cells inserted after the cell of the last element *)
    assert (Hf : f = 0%nat) by lia. subst f. cbn [repeat]. rewrite app_nil_r in *.
    assert (Hq : (1 <= length q)%nat) by lia.
    rewrite cyc_idx_small by (unfold cyc_len; lia).
    unfold cyc_insert_after.
    replace (S (Z.to_nat (Z.of_nat (length q) - 1))) with (length q) by lia.
    rewrite firstn_all, skipn_all, app_nil_r.
    set (k := Z.to_nat (bsz b)). assert (Hk : (1 <= k)%nat) by (unfold k; lia).
    rewrite cyc_idx_small by (rewrite cyc_len_app_repeat; lia).
    rewrite Nat2Z.id.
    destruct k as [|k]; [lia|]. cbn [repeat]. rewrite set_nth_app.
    exists k. cbn [cells bend bsz]. rewrite app_length. cbn [length].
    repeat split; try lia. now rewrite <- app_assoc.
  - (* room left *)
    assert (Hf : (1 <= f)%nat) by lia.
    rewrite cyc_idx_small by (rewrite cyc_len_app_repeat; lia).
    rewrite Nat2Z.id.
    destruct f as [|f]; [lia|]. cbn [repeat]. rewrite set_nth_app.
    exists f. cbn [cells bend bsz]. rewrite app_length. cbn [length].
    repeat split; try lia. now rewrite <- app_assoc.
Qed.

Lemma inv_remove (b : buf) (q : queue) :
  inv b q ->
  let '(b', r) := buf_remove Fixed b in inv b' (tl q) /\ r = q_front (tl q).
Proof.
  intros (f & Hc & He & Hb & Hn). unfold buf_remove. cbn [is_fixed andb].
  destruct q as [|x q].
  - (* empty: the guard returns nil and leaves the buffer alone *)
    cbn in He. rewrite He. cbn. split; [|reflexivity].
    exists f. cbn. repeat split; try assumption.
  - cbn [length] in He. replace (bend b =? 0)%Z with false by lia.
    rewrite Hc. cbn [app set_nth cyc_next tl].
    rewrite <- app_assoc, repeat_S_end.
    rewrite cyc_len_app_repeat. rewrite He.
    destruct (Z.of_nat (length q + S f) - (Z.of_nat (S (length q)) - 1) >? bsz b * 2)%Z eqn:Eshrink.
    + (* shrink: unlink bsize free cells after the first free cell *)
      rewrite cyc_idx_small by (rewrite cyc_len_app_repeat; lia).
      unfold cyc_unlink. replace (bsz b <=? 0)%Z with false by lia.
      rewrite cyc_len_app_repeat. rewrite Z.mod_small by lia.
      rewrite app_length, repeat_length.
      replace (Z.to_nat (Z.of_nat (S (length q)) - 1)) with (length q) by lia.
      set (k := Z.to_nat (bsz b)). assert (Hk : (1 <= k /\ 2 * k < S f)%nat) by (unfold k; lia).
      replace (Nat.ltb (length q + k) (length q + S f)) with true
        by (symmetry; apply Nat.ltb_lt; lia).
      rewrite firstn_S_app_repeat.
      replace (S (length q + k)) with (length q + S k)%nat by lia.
      rewrite skipn_app_repeat. rewrite <- app_assoc. cbn [app].
      change (None :: repeat None (S f - S k)) with (repeat (@None Z) (S (S f - S k))).
      split.
      * exists (S (S f - S k)). cbn [cells bend bsz]. repeat split; try lia; try reflexivity.
      * apply cyc_head_app_repeat. lia.
    + split.
      * exists (S f). cbn [cells bend bsz]. repeat split; try lia; try reflexivity.
      * apply cyc_head_app_repeat. lia.
Qed.

Lemma inv_front (b : buf) (q : queue) : inv b q -> buf_front b = q_front q.
Proof.
  intros (f & Hc & He & Hb & Hn). unfold buf_front. rewrite Hc. now apply cyc_head_app_repeat.
Qed.

Lemma inv_range (b : buf) (q : queue) (stop : Z) : inv b q -> buf_range b stop = q_range q stop.
Proof.
  intros (f & Hc & He & Hb & Hn). unfold buf_range, q_range.
  rewrite Hc, He, Nat2Z.id.
  rewrite range_loop_spec by (rewrite ?app_length; lia).
  cbn [skipn]. rewrite firstn_app, Nat.sub_diag, firstn_all. cbn [firstn]. rewrite app_nil_r.
  rewrite Z.sub_0_r. reflexivity.
Qed.

Lemma step_refines (b : buf) (q : queue) (o : bop) :
  inv b q ->
  let '(b', out) := buf_step Fixed b o in
  let '(q', out') := q_step q o in
  out = out' /\ inv b' q'.
Proof.
  intro H. destruct o as [v| | | |k]; cbn [buf_step q_step].
  - split; [reflexivity | now apply inv_append].
  - pose proof (inv_remove b q H) as Hr. destruct (buf_remove Fixed b) as [b' r].
    destruct Hr as [Hi Hr]. subst r. split; [reflexivity | exact Hi].
  - rewrite (inv_front b q H). split; [reflexivity | exact H].
  - destruct H as (f & Hc & He & Hb & Hn). unfold buf_len. rewrite He.
    split; [reflexivity | exists f; repeat split; assumption].
  - rewrite (inv_range b q k H). split; [reflexivity | exact H].
Qed.

Lemma steps_refine (ops : list bop) : forall b q, inv b q ->
  buf_steps Fixed b ops = q_steps q ops.
Proof.
  induction ops as [|o ops IH]; intros b q H; [reflexivity|].
  cbn [buf_steps q_steps].
  pose proof (step_refines b q o H) as Hs.
  destruct (buf_step Fixed b o) as [b' out]. destruct (q_step q o) as [q' out'].
  destruct Hs as [-> Hi]. f_equal. now apply IH.
Qed.

(* The buffered ring of the current tree is a FIFO queue: for EVERY operation sequence and
   every initial and buffer size (no guard on RemoveFront, no bound on anything). *)
Theorem buffered_fifo : forall (initial bsize : Z) (ops : list bop),
  buf_run Fixed initial bsize ops = q_run ops.
Proof. intros. unfold buf_run, q_run. apply steps_refine, inv_new. Qed.

(* The same for the code before the fix, on sequences that never call RemoveFront on an
   empty buffer (the two variants only differ there). *)
Fixpoint guarded_from (n : nat) (ops : list bop) : Prop :=
  match ops with
  | [] => True
  | BAppend _ :: ops' => guarded_from (S n) ops'
  | BRemove :: ops' => match n with O => False | S n' => guarded_from n' ops' end
  | _ :: ops' => guarded_from n ops'
  end.
Definition guarded (ops : list bop) : Prop := guarded_from 0 ops.

Lemma original_eq_fixed_guarded (ops : list bop) : forall b q, inv b q ->
  guarded_from (length q) ops -> buf_steps Original b ops = buf_steps Fixed b ops.
Proof.
  induction ops as [|o ops IH]; intros b q H G; [reflexivity|].
  cbn [buf_steps].
  pose proof (step_refines b q o H) as Hs.
  destruct o as [v| | | |k]; cbn [buf_step guarded_from q_step] in *.
  - apply (IH _ (q ++ [v])); [apply Hs | rewrite app_length; cbn;
      now replace (length q + 1)%nat with (S (length q)) by lia].
  - destruct q as [|x q]; [contradiction|]. cbn [length] in G.
    destruct H as (f & Hc & He & Hb & Hn). cbn [length] in He.
    assert (E : buf_remove Original b = buf_remove Fixed b).
    { unfold buf_remove. cbn [is_fixed andb]. replace (bend b =? 0)%Z with false by lia.
      reflexivity. }
    rewrite E in *. destruct (buf_remove Fixed b) as [b' r]. f_equal.
    apply (IH _ q); [apply Hs | exact G].
  - f_equal. apply (IH _ q); [apply Hs | exact G].
  - f_equal. apply (IH _ q); [apply Hs | exact G].
  - f_equal. apply (IH _ q); [apply Hs | exact G].
Qed.

Theorem buffered_fifo_original_guarded : forall (initial bsize : Z) (ops : list bop),
  guarded ops -> buf_run Original initial bsize ops = q_run ops.
Proof.
  intros i s ops G. unfold buf_run.
  rewrite (original_eq_fixed_guarded ops _ [] (inv_new i s) G).
  apply buffered_fifo.
Qed.

(* non-vacuity: a guarded sequence that grows, wraps around and shrinks *)
Example guarded_example :
  guarded [BAppend (Some 1); BAppend (Some 2); BRemove; BAppend (Some 3); BRemove; BRemove; BLen]%Z.
Proof. cbn. exact I. Qed.

(* Before the fix: RemoveFront on an empty buffer makes Len() = -1 and the next AppendBack is
   lost (Len() = 0 afterwards and Range visits nothing). *)
Definition remove_empty_witness : list bop :=
  [BRemove; BLen; BAppend (Some 7%Z); BLen; BFront; BRange 0].

Theorem buffered_remove_empty_refuted : exists initial bsize ops,
  buf_run Original initial bsize ops <> q_run ops /\
  buf_run Original initial bsize ops = [BV None; BZ (-1); BZ 0; BV None; BL []].
Proof.
  exists 3%Z, 5%Z, remove_empty_witness. split; [|vm_compute; reflexivity].
  vm_compute. discriminate.
Qed.

(* ------------------------------------------------------------------------------------- *)
(* oracle soundness                                                                        *)

Lemma bval_eqb_spec a b : bval_eqb a b = true <-> a = b.
Proof.
  destruct a as [x|], b as [y|]; cbn; split; intro H; try discriminate; try reflexivity.
  - apply Z.eqb_eq in H. now subst.
  - inversion H. apply Z.eqb_refl.
Qed.

Lemma bvals_eqb_spec a : forall b, bvals_eqb a b = true <-> a = b.
Proof.
  induction a as [|x a IH]; intros [|y b]; cbn; split; intro H; try discriminate; try reflexivity.
  - apply andb_true_iff in H as [H1 H2]. apply bval_eqb_spec in H1. apply IH in H2. congruence.
  - inversion H; subst. apply andb_true_iff. split; [now apply bval_eqb_spec | now apply IH].
Qed.

Lemma bout_eqb_spec a b : bout_eqb a b = true <-> a = b.
Proof.
  destruct a, b; cbn; split; intro H; try discriminate; try reflexivity.
  - apply bval_eqb_spec in H. now subst.
  - inversion H. now apply bval_eqb_spec.
  - apply Z.eqb_eq in H. now subst.
  - inversion H. apply Z.eqb_refl.
  - apply bvals_eqb_spec in H. now subst.
  - inversion H. now apply bvals_eqb_spec.
Qed.

Lemma bouts_eqb_spec a : forall b, bouts_eqb a b = true <-> a = b.
Proof.
  induction a as [|x a IH]; intros [|y b]; cbn; split; intro H; try discriminate; try reflexivity.
  - apply andb_true_iff in H as [H1 H2]. apply bout_eqb_spec in H1. apply IH in H2. congruence.
  - inversion H; subst. apply andb_true_iff. split; [now apply bout_eqb_spec | now apply IH].
Qed.

Theorem fifo_oracle_sound : forall ops obs, fifo_oracle ops obs = true <-> fifo_spec ops obs.
Proof. intros. unfold fifo_oracle, fifo_spec. apply bouts_eqb_spec. Qed.
