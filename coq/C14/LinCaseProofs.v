(* C14 (concurrent half) — what the verdict computed on a recorded case MEANS: [check_case]
   answers 2 exactly on the well-formed cases whose recorded behaviour violates the
   specification (a non-linearizable history; observations that are not those of an ordinary
   slice that copies its arguments), and an answer 0 certifies the specification. *)
From Coq Require Import List ZArith Bool Lia.
From Kit Require Import C14.LinSpec C14.LinModel C14.SliceMemModel C14.LinCheck C14.LinProofs
  C14.SliceMemProofs.

Definition case_spec (c : case) : Prop :=
  match c with
  | CMap h => map_linearizable h
  | CAtomic h => at_linearizable h
  | CSlice h => sl_linearizable h
  | CSliceMem prog obs => own_spec prog obs
  end.

Lemma oracle_iff c : well_formed c = true -> (oracle c = true <-> case_spec c).
Proof.
  destruct c as [h|h|h|prog obs]; cbn [oracle well_formed case_spec]; intro W.
  - split; [apply map_lin_check_sound | now apply map_lin_check_complete].
  - split; [apply at_lin_check_sound | now apply at_lin_check_complete].
  - split; [apply sl_lin_check_sound | now apply sl_lin_check_complete].
  - apply own_oracle_sound.
Qed.

Theorem check_case_violation : forall c,
  check_case c = 2%Z <-> well_formed c = true /\ ~ case_spec c.
Proof.
  intro c. unfold check_case. destruct (well_formed c) eqn:W; cbn [negb].
  - pose proof (oracle_iff c W) as O. destruct (oracle c) eqn:E; cbn [negb].
    + split.
      * destruct (model_agrees c); cbn; discriminate.
      * intros [_ N]. elim N. now apply O.
    + split; [|reflexivity]. intros _. split; [reflexivity|]. intro S. apply O in S. discriminate.
  - split; [discriminate | intros [H _]; discriminate].
Qed.

Theorem check_case_ok : forall c, check_case c = 0%Z -> case_spec c.
Proof.
  intro c. unfold check_case. destruct (well_formed c) eqn:W; cbn [negb]; [|discriminate].
  destruct (oracle c) eqn:E; cbn [negb]; [|discriminate]. intros _. now apply (oracle_iff c W).
Qed.

(* the memory-level model never disagrees with a case that meets the specification (it IS the
   specification, by slice_mem_refines): verdict 1 cannot arise for an ownership case *)
Lemma own_case_no_disagreement prog obs : check_case (CSliceMem prog obs) <> 1%Z.
Proof.
  unfold check_case. cbn [well_formed negb oracle model_agrees].
  destruct (own_oracle prog obs) eqn:E; cbn [negb]; [|discriminate].
  apply own_oracle_sound in E. unfold own_spec in E. subst obs.
  rewrite slice_mem_refines. replace (mouts_eqb _ _) with true; [discriminate|].
  symmetry. now apply mouts_eqb_spec.
Qed.

(* non-vacuity: a violating and a conforming ownership case, a violating history *)
Example check_case_examples :
  check_case (CSliceMem [OwAppend [44%Z] 15; OwSlice] [MoApp 1 true true; MoSlice [(-1000000)%Z]]) = 2%Z /\
  check_case (CSliceMem [OwAppend [44%Z] 15; OwSlice] [MoApp 1 true true; MoSlice [44%Z]]) = 0%Z /\
  check_case (CSlice [C 1 2 0 (SAppend [44%Z]) (RInt 1); C 3 4 0 SSlice (RList [(-1000000)%Z])]) = 2%Z.
Proof. repeat split; vm_compute; reflexivity. Qed.
