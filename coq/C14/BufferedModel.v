(* C14 (sequential half) — executable model of ring.Buffered (/repo/ring/buffered.go).
   Definitions only.

   The Go type keeps [b.ring] (a pointer to the cell holding the front element), [b.end] (the
   number of committed elements) and [b.bsize].  Every access to the underlying ring goes
   through [b.ring]: [b.ring.Len()], [b.ring.Move(k)] followed by one operation on the cell
   reached, [b.ring.Next()].  The model therefore keeps the ring as the abstract CYCLE of its
   cell values read from [b.ring] onward ([cells], never empty) and expresses each composite
   [b.ring.Move(k).op] as an operation at index [k mod Len] of that list.  (That the
   pointer-level ring of ring.go realises these cycle operations is the content of
   C14/RingProofs.v.)

   A cell value is a [*T]: [None] = nil, [Some z] = a pointer to the element the harness
   labelled [z] (labels are unique per AppendBack, so label equality = pointer identity). *)
From Kit Require Export Lib.Base.

Definition bval := option Z.

Record buf := mk_buf { cells : list bval; bend : Z; bsz : Z }.

(* ------------------------------------------------------------------------------------- *)
(* The cycle seen from its first cell.                                                     *)

Definition cyc_len (l : list bval) : Z := Z.of_nat (length l).

(* index (from the first cell) of the cell reached by [Move(k)]: forward for k >= 0, backward
   for k < 0 — Go's loops take |k| single steps, i.e. k modulo the length, mathematically. *)
Definition cyc_idx (l : list bval) (k : Z) : nat := Z.to_nat (k mod cyc_len l).

Fixpoint set_nth (l : list bval) (i : nat) (v : bval) : list bval :=
  match l, i with
  | [], _ => []
  | _ :: t, O => v :: t
  | x :: t, S i' => x :: set_nth t i' v
  end.

(* [cell_i.Link(news)] for a separate ring [news]: its cells are inserted after cell i. *)
Definition cyc_insert_after (l : list bval) (i : nat) (news : list bval) : list bval :=
  firstn (S i) l ++ news ++ skipn (S i) l.

(* [cell_i.Unlink(n)] = [cell_i.Link(cell_i.Move(n+1))]: removes the k = n mod Len cells that
   follow cell i (n <= 0: nothing).  The result is the cycle that contains the FIRST cell
   afterwards, read from it: if the removed stretch does not wrap past the end of the list the
   first cell stays in the shortened ring; if it does (only possible when [b.end] went
   negative, i.e. in the Original code) the first cell is part of the removed sub-ring, which
   is then the ring [b.ring] points into. *)
Definition cyc_unlink (l : list bval) (i : nat) (n : Z) : list bval :=
  if (n <=? 0)%Z then l
  else
    let k := Z.to_nat (n mod cyc_len l) in
    if Nat.ltb (i + k) (length l)
    then firstn (S i) l ++ skipn (S (i + k)) l
    else firstn (S (i + k - length l)) l ++ skipn (S i) l.

(* [b.ring = b.ring.Next()] *)
Definition cyc_next (l : list bval) : list bval :=
  match l with [] => [] | x :: t => t ++ [x] end.

Definition cyc_head (l : list bval) : bval :=
  match l with [] => None | x :: _ => x end.

(* ------------------------------------------------------------------------------------- *)
(* buffered.go                                                                             *)

(* func NewBuffered[T any](initialSize, bufferSize int) *)
Definition buf_new (initial bsize : Z) : buf :=
  let initial := if (initial <? 1)%Z then 1%Z else initial in
  let bsize := if (bsize <? 1)%Z then 1%Z else bsize in
  {| cells := repeat None (Z.to_nat initial); bend := 0; bsz := bsize |}.

(* func (b *Buffered[T]) AppendBack(value *T)
     if b.end >= b.ring.Len() { b.ring.Move(b.end - 1).Link(New[*T](b.bsize)) }
     b.ring.Move(b.end).Value = value
     b.end++ *)
Definition buf_append (b : buf) (v : bval) : buf :=
  let cs := if (bend b >=? cyc_len (cells b))%Z
            then cyc_insert_after (cells b) (cyc_idx (cells b) (bend b - 1))
                                  (repeat None (Z.to_nat (bsz b)))
            else cells b in
  let cs := set_nth cs (cyc_idx cs (bend b)) v in
  {| cells := cs; bend := bend b + 1; bsz := bsz b |}.

(* func (b *Buffered[T]) Len() int *)
Definition buf_len (b : buf) : Z := bend b.

(* func (b *Buffered[T]) Front() *T *)
Definition buf_front (b : buf) : bval := cyc_head (cells b).

(* func (b *Buffered[T]) Range(fn func(p *T) bool)
     x := b.ring
     for range b.end { if !fn(x.Value) { return }; x = x.Next() }
   The callback of the harness returns false on its [stop]-th call (stop >= 1) and never for
   stop <= 0; the observation is the list of values it was called with.  [i] = how many
   steps x is ahead of b.ring, [calls] = calls made so far. *)
Fixpoint range_loop (cs : list bval) (iters : nat) (i : nat) (stop : Z) (calls : Z) : list bval :=
  match iters with
  | O => []
  | S iters' =>
      let x := nth (i mod length cs) cs None in
      if (calls + 1 =? stop)%Z then [x]
      else x :: range_loop cs iters' (S i) stop (calls + 1)
  end.

Definition buf_range (b : buf) (stop : Z) : list bval :=
  range_loop (cells b) (Z.to_nat (bend b)) 0 stop 0.

(* func (b *Buffered[T]) RemoveFront() *T
     [Fixed only:] if b.end == 0 { return nil }
     b.ring.Value = nil
     b.ring = b.ring.Next()
     b.end--
     if b.ring.Len()-b.end > b.bsize*2 { b.ring.Move(b.end).Unlink(b.bsize) }
     return b.ring.Value *)
Definition buf_remove (v : variant) (b : buf) : buf * bval :=
  if is_fixed v && (bend b =? 0)%Z then (b, None)
  else
    let cs := cyc_next (set_nth (cells b) 0 None) in
    let e := (bend b - 1)%Z in
    let cs := if (cyc_len cs - e >? bsz b * 2)%Z
              then cyc_unlink cs (cyc_idx cs e) (bsz b)
              else cs in
    ({| cells := cs; bend := e; bsz := bsz b |}, cyc_head cs).

(* ------------------------------------------------------------------------------------- *)
(* Operation sequences                                                                     *)

Inductive bop :=
| BAppend (v : bval)
| BRemove
| BFront
| BLen
| BRange (stop : Z).

(* One output per observing operation ([AppendBack] returns nothing). [BPanic] is never
   produced by the model or the queue; the harness emits it if the Go code panics. *)
Inductive bout :=
| BV (v : bval)
| BZ (n : Z)
| BL (l : list bval)
| BPanic.

Definition buf_step (v : variant) (b : buf) (o : bop) : buf * list bout :=
  match o with
  | BAppend x => (buf_append b x, [])
  | BRemove => let '(b', r) := buf_remove v b in (b', [BV r])
  | BFront => (b, [BV (buf_front b)])
  | BLen => (b, [BZ (buf_len b)])
  | BRange k => (b, [BL (buf_range b k)])
  end.

Fixpoint buf_steps (v : variant) (b : buf) (ops : list bop) : list bout :=
  match ops with
  | [] => []
  | o :: ops' => let '(b', out) := buf_step v b o in out ++ buf_steps v b' ops'
  end.

Definition buf_run (v : variant) (initial bsize : Z) (ops : list bop) : list bout :=
  buf_steps v (buf_new initial bsize) ops.
