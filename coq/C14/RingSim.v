(* C14 (sequential half) — Link / Unlink at pointer level, and the lifting of the per-operation
   refinement lemmas of C14/RingProofs.v to whole programs: for EVERY program the pointer-level
   ring of ring.go answers exactly like the documented cycle semantics of C14/RingSpec.v. *)
From Kit Require Import C14.RingModel C14.RingSpec C14.RingProofs.
From Coq Require Import ZifyBool ZifyNat Permutation.

(* ------------------------------------------------------------------------------------- *)
(* E. doubly linked segments and the four pointer writes of Link                           *)

Definition dchain (h : heap) (l : list nat) : Prop := nchain h l /\ pchain h l.
Definition dlink (h : heap) (a b : nat) : Prop :=
  nxt (cell h a) = Some b /\ prv (cell h b) = Some a.

Lemma dchain_join h l1 l2 d :
  dchain h l1 -> dchain h l2 -> l1 <> [] -> l2 <> [] ->
  dlink h (last l1 d) (hd d l2) -> dchain h (l1 ++ l2).
Proof.
  intros [N1 P1] [N2 P2] E1 E2 [LN LP]. split.
  - now apply (nchain_join h l1 l2 d).
  - now apply (pchain_join h l1 l2 d).
Qed.

Lemma dchain_app_l h l1 l2 : dchain h (l1 ++ l2) -> dchain h l1.
Proof. intros [N P]. split; [now apply nchain_app_l in N | now apply pchain_app_l in P]. Qed.

Lemma dchain_app_r h l1 l2 : dchain h (l1 ++ l2) -> dchain h l2.
Proof. intros [N P]. split; [now apply nchain_app_r in N | now apply pchain_app_r in P]. Qed.

Lemma dchain_tl h a l : dchain h (a :: l) -> dchain h l.
Proof. apply (dchain_app_r h [a] l). Qed.

Lemma dchain_one h a : dchain h [a].
Proof. split; exact I. Qed.

Lemma dchain_mid_link h l1 a b l2 : dchain h (l1 ++ a :: b :: l2) -> dlink h a b.
Proof.
  intro H. apply dchain_app_r in H. destruct H as [[N _] [P _]]. now split.
Qed.

Lemma ring_rep_iff h l d :
  ring_rep h l <->
  l <> [] /\ NoDup l /\ dchain h l /\ dlink h (last l d) (hd d l) /\ (forall y, In y l -> y < top h).
Proof.
  destruct l as [|x t].
  - cbn. split; [tauto | intros (E & _); now apply E].
  - assert (NE : x :: t <> []) by discriminate.
    cbn [ring_rep hd]. split.
    + intros (ND & NC & PC & LT). repeat split; try assumption.
      * now apply nchain_app_l in NC.
      * now apply pchain_app_l in PC.
      * apply (nchain_last h (x :: t) x d NE NC).
      * apply (pchain_last h (x :: t) x d NE PC).
    + intros (_ & ND & [NC PC] & [LN LP] & LT). repeat split; try assumption.
      * apply (nchain_join h (x :: t) [x] d); try assumption; try exact I; discriminate.
      * apply (pchain_join h (x :: t) [x] d); try assumption; try exact I; discriminate.
Qed.

Lemma NoDup_app_iff (l1 l2 : list nat) :
  NoDup (l1 ++ l2) <-> NoDup l1 /\ NoDup l2 /\ (forall x, In x l1 -> In x l2 -> False).
Proof.
  induction l1 as [|a l1 IH]; cbn [app].
  - split; [intro H; repeat split; [constructor | exact H | intros x []] | tauto].
  - rewrite !NoDup_cons_iff, IH, in_app_iff. split.
    + intros (NI & N1 & N2 & D). repeat split; try tauto.
      intros x [<-|Hx] Hx2; [tauto | eauto].
    + intros ((NI & N1) & N2 & D). repeat split; try tauto.
      * intros [H|H]; [tauto | apply (D a); [now left | exact H]].
      * intros x Hx Hx2. apply (D x); [now right | exact Hx2].
Qed.

Lemma in_removelast (l : list nat) x : In x (removelast l) -> In x l.
Proof.
  induction l as [|a l IH]; [tauto|]. destruct l as [|b l]; [intros []|].
  change (removelast (a :: b :: l)) with (a :: removelast (b :: l)).
  intros [<-|H]; [now left | right; now apply IH].
Qed.

Lemma in_tl (l : list nat) x : In x (tl l) -> In x l.
Proof. destruct l; [tauto | now right]. Qed.

Lemma removelast_not_last (l : list nat) x d : NoDup l -> In x (removelast l) -> x <> last l d.
Proof.
  intros ND Hx. destruct (list_eq_dec Nat.eq_dec l []) as [->|NE]; [destruct Hx|].
  rewrite (app_removelast_last d NE) in ND. apply NoDup_app_iff in ND as (_ & _ & D).
  intros ->. apply (D (last l d) Hx). now left.
Qed.

Lemma tl_not_hd (l : list nat) x d : NoDup l -> In x (tl l) -> x <> hd d l.
Proof.
  destruct l as [|a l]; [intros _ []|]. cbn [tl hd]. intros ND Hx ->.
  apply NoDup_cons_iff in ND. tauto.
Qed.

Lemma last_in (l : list nat) d : l <> [] -> In (last l d) l.
Proof.
  intro NE. rewrite (app_removelast_last d NE) at 2. apply in_or_app. right. now left.
Qed.

Lemma hd_in (l : list nat) d : l <> [] -> In (hd d l) l.
Proof. destruct l; [contradiction | intros _; now left]. Qed.

Lemma last_cons_ne (a : nat) l d : l <> [] -> last (a :: l) d = last l d.
Proof. destruct l; [contradiction | reflexivity]. Qed.

Lemma last_cons_def (a : nat) l : last (a :: l) a = last l a.
Proof. destruct l; reflexivity. Qed.

Lemma last_cons_any (a : nat) l d : last (a :: l) d = last l a.
Proof.
  revert a d. induction l as [|b l IH]; intros a d; [reflexivity|].
  change (last (a :: b :: l) d) with (last (b :: l) d). now rewrite !IH.
Qed.

Lemma last_app_ne (l1 l2 : list nat) d : l2 <> [] -> last (l1 ++ l2) d = last l2 d.
Proof.
  intro NE. rewrite (app_removelast_last d NE), app_assoc. now rewrite !last_last.
Qed.

(* r.next = s; s.prev = r; n.prev = p; p.next = n *)
Definition splice (h : heap) (r s n p : nat) : heap :=
  set_nxt (set_prv (set_prv (set_nxt h r (Some s)) s (Some r)) n (Some p)) p (Some n).

Lemma nxt_splice h r s n p x :
  nxt (cell (splice h r s n p) x) =
  if Nat.eqb x p then Some n else if Nat.eqb x r then Some s else nxt (cell h x).
Proof. unfold splice. now heap_simpl. Qed.

Lemma prv_splice h r s n p x :
  prv (cell (splice h r s n p) x) =
  if Nat.eqb x n then Some p else if Nat.eqb x s then Some r else prv (cell h x).
Proof. unfold splice. now heap_simpl. Qed.

Lemma val_splice h r s n p x : val (cell (splice h r s n p) x) = val (cell h x).
Proof. unfold splice. now heap_simpl. Qed.

Lemma top_splice h r s n p : top (splice h r s n p) = top h.
Proof. reflexivity. Qed.

Lemma neqb (a b : nat) : a <> b -> Nat.eqb a b = false.
Proof. apply Nat.eqb_neq. Qed.

Lemma frame_splice h r s n p dom :
  In r dom -> In s dom -> In n dom -> In p dom -> frame h (splice h r s n p) dom.
Proof.
  intros Hr Hs Hn Hp. split; [reflexivity|]. split; [intro x; apply val_splice|].
  intros x Hx. rewrite nxt_splice, prv_splice.
  rewrite !neqb by (intros ->; contradiction). now split.
Qed.

Lemma dchain_splice h r s n p l :
  dchain h l ->
  (forall x, In x (removelast l) -> x <> p /\ x <> r) ->
  (forall x, In x (tl l) -> x <> n /\ x <> s) ->
  dchain (splice h r s n p) l.
Proof.
  intros [N P] F1 F2. split.
  - apply (nchain_frame h); [|exact N]. intros x Hx. destruct (F1 x Hx).
    rewrite nxt_splice, !neqb by assumption. reflexivity.
  - apply (pchain_frame h); [|exact P]. intros x Hx. destruct (F2 x Hx).
    rewrite prv_splice, !neqb by assumption. reflexivity.
Qed.

Lemma dlink_splice_pn h r s n p : dlink (splice h r s n p) p n.
Proof. split; [rewrite nxt_splice | rewrite prv_splice]; now rewrite Nat.eqb_refl. Qed.

Lemma dlink_splice_rs h r s n p : r <> p -> s <> n -> dlink (splice h r s n p) r s.
Proof.
  intros H1 H2. split; [rewrite nxt_splice | rewrite prv_splice];
    rewrite neqb by assumption; now rewrite Nat.eqb_refl.
Qed.

Lemma dlink_splice_old h r s n p a b :
  dlink h a b -> a <> p -> a <> r -> b <> n -> b <> s -> dlink (splice h r s n p) a b.
Proof.
  intros [L1 L2] H1 H2 H3 H4. split; [rewrite nxt_splice | rewrite prv_splice];
    rewrite !neqb by assumption; assumption.
Qed.

(* when r.next = s already (n = s, p = r) the four writes change nothing *)
Lemma splice_noop h r s l :
  dlink h r s -> ring_rep h l -> ring_rep (splice h r s s r) l.
Proof.
  intros [L1 L2] H. apply (ring_rep_frame h); [|rewrite top_splice; lia|exact H].
  intros x _. rewrite nxt_splice, prv_splice. split.
  - eqb_case x r; [now subst|reflexivity].
  - eqb_case x s; [now subst|reflexivity].
Qed.

(* Link of two distinct rings: s's ring is inserted after r *)
Lemma splice_diff h r rs s ss :
  ring_rep h (r :: rs) -> ring_rep h (s :: ss) ->
  (forall x, In x (r :: rs) -> In x (s :: ss) -> False) ->
  ring_rep (splice h r s (hd r rs) (last ss s)) (r :: s :: ss ++ rs).
Proof.
  intros HR HS D.
  apply (ring_rep_iff h _ r) in HR as (_ & NDR & DCR & DLR & LTR).
  apply (ring_rep_iff h _ s) in HS as (_ & NDS & DCS & DLS & LTS).
  cbn [hd] in DLR, DLS. rewrite last_cons_def in DLR, DLS.
  set (n := hd r rs) in *. set (p := last ss s) in *.
  set (h' := splice h r s n p).
  assert (Hp : In p (s :: ss)).
  { unfold p. rewrite <- last_cons_def. apply last_in. discriminate. }
  assert (Hn : In n (r :: rs)).
  { unfold n. destruct rs; cbn; auto. }
  assert (Hrp : r <> p) by (intros E; apply (D r); [now left | now rewrite E]).
  assert (Hsn : s <> n) by (intros E; apply (D n); [exact Hn | rewrite <- E; now left]).
  assert (Hrs : r <> s) by (intros E; apply (D r); [now left | rewrite E; now left]).
  assert (DC1 : dchain h' (s :: ss)).
  { apply dchain_splice; [exact DCS| |].
    - intros x Hx. split.
      + unfold p. rewrite <- last_cons_def. now apply removelast_not_last.
      + intros ->. apply (D r); [now left | now apply in_removelast].
    - intros x Hx. cbn [tl] in Hx. split.
      + intros ->. apply (D n); [exact Hn | now right].
      + apply NoDup_cons_iff in NDS. intros ->. tauto. }
  apply (ring_rep_iff h' _ r). split; [discriminate|]. split; [|split; [|split]].
  - change (NoDup ([r] ++ (s :: ss) ++ rs)).
    apply NoDup_cons_iff in NDR as [NIR NDR'].
    apply NoDup_app_iff. split; [constructor; [intros []|constructor]|]. split.
    + apply NoDup_app_iff. split; [exact NDS|]. split; [exact NDR'|].
      intros x H1 H2. apply (D x); [now right | exact H1].
    + intros x [<-|[]] H2. apply in_app_or in H2 as [H2|H2]; [|contradiction].
      apply (D r); [now left | exact H2].
  - change (dchain h' ([r] ++ (s :: ss) ++ rs)).
    apply (dchain_join h' _ _ r); [apply dchain_one| |discriminate|discriminate|].
    + destruct rs as [|y rs']; [now rewrite app_nil_r|].
      apply (dchain_join h' _ _ r); [exact DC1| |discriminate|discriminate|].
      * apply dchain_splice; [now apply dchain_tl in DCR| |].
        -- intros x Hx. apply in_removelast in Hx. split.
           ++ intros ->. apply (D p); [now right | exact Hp].
           ++ apply NoDup_cons_iff in NDR. intros ->. tauto.
        -- intros x Hx. split.
           ++ apply NoDup_cons_iff in NDR as [_ NDR]. unfold n. cbn [hd].
              apply NoDup_cons_iff in NDR. intros ->. cbn [tl] in Hx. tauto.
           ++ intros ->. apply (D s); [right; now apply in_tl | now left].
      * rewrite last_cons_any. fold p. cbn [hd]. apply dlink_splice_pn.
    + cbn [last hd app]. now apply dlink_splice_rs.
  - cbn [hd].
    destruct rs as [|y rs'].
    + rewrite app_nil_r. change (last (r :: s :: ss) r) with (last (s :: ss) r).
      rewrite last_cons_any. apply dlink_splice_pn.
    + replace (last (r :: s :: ss ++ y :: rs') r) with (last (y :: rs') r).
      2:{ symmetry. apply (last_app_ne (r :: s :: ss) (y :: rs')). discriminate. }
      assert (HL : In (last (y :: rs') r) (y :: rs')) by (apply last_in; discriminate).
      apply dlink_splice_old; [exact DLR| | | |].
      * intros E. apply (D p); [right; now rewrite <- E | exact Hp].
      * apply NoDup_cons_iff in NDR. intros E. rewrite E in HL. tauto.
      * apply NoDup_cons_iff in NDR. unfold n. cbn [hd]. intros ->. apply (proj1 NDR). now left.
      * exact Hrs.
  - intros y [<-|[<-|Hy]]; change (top h') with (top h).
    + apply LTR. now left.
    + apply LTS. now left.
    + apply in_app_or in Hy as [Hy|Hy]; [apply LTS | apply LTR]; now right.
Qed.

(* Link inside one ring: the elements between r and s leave and form their own ring *)
Lemma splice_same h r mid s post :
  ring_rep h (r :: mid ++ s :: post) ->
  let h' := splice h r s (hd r (mid ++ s :: post)) (last mid r) in
  ring_rep h' (r :: s :: post) /\ (mid <> [] -> ring_rep h' mid).
Proof.
  intros HR. destruct mid as [|m0 mid'].
  - cbn [app hd last]. cbn zeta. split; [|intro E; now elim E].
    apply splice_noop; [|exact HR].
    apply (ring_rep_iff h _ r) in HR as (_ & _ & DC & _). apply (dchain_mid_link h [] r s post DC).
  - cbn [app hd]. cbn zeta. set (mid := m0 :: mid') in *. set (p := last mid r).
    set (h' := splice h r s m0 p).
    assert (NEm : mid <> []) by discriminate.
    apply (ring_rep_iff h _ r) in HR as (_ & ND & DC & DL & LT).
    change (r :: m0 :: mid' ++ s :: post) with (r :: mid ++ s :: post) in *.
    cbn [hd] in DL.
    change (r :: mid ++ s :: post) with ((r :: mid) ++ s :: post) in DL.
    rewrite (last_app_ne (r :: mid) (s :: post) r) in DL by discriminate.
    apply NoDup_cons_iff in ND as [NIr ND].
    apply NoDup_app_iff in ND as (NDm & NDsp & Dm).
    assert (Hr_mid : ~ In r mid) by (intro; apply NIr; apply in_or_app; now left).
    assert (Hr_sp : ~ In r (s :: post)) by (intro; apply NIr; apply in_or_app; now right).
    assert (Hp : In p mid) by (apply last_in; exact NEm).
    assert (Hn : In m0 mid) by now left.
    assert (DCm : dchain h mid) by (apply dchain_tl in DC; now apply dchain_app_l in DC).
    assert (DCsp : dchain h (s :: post)) by (apply (dchain_app_r h (r :: mid)) in DC; exact DC).
    assert (Hrs : r <> s) by (intros ->; apply Hr_sp; now left).
    split.
    + apply (ring_rep_iff h' _ r). split; [discriminate|]. split; [|split; [|split]].
      * apply NoDup_cons_iff. split; assumption.
      * change (dchain h' ([r] ++ s :: post)).
        apply (dchain_join h' _ _ r); [apply dchain_one| |discriminate|discriminate|].
        -- apply dchain_splice; [exact DCsp| |].
           ++ intros x Hx. apply in_removelast in Hx. split; intros ->; [now apply (Dm p)|tauto].
           ++ intros x Hx. cbn [tl] in Hx. split; intros ->.
              ** apply (Dm m0); [exact Hn | now right].
              ** apply NoDup_cons_iff in NDsp. tauto.
        -- cbn [last hd]. apply dlink_splice_rs.
           ++ intros E. apply Hr_mid. now rewrite E.
           ++ intros E. apply (Dm m0); [exact Hn | rewrite <- E; now left].
      * cbn [hd]. change (last (r :: s :: post) r) with (last (s :: post) r).
        assert (HL : In (last (s :: post) r) (s :: post)) by (apply last_in; discriminate).
        apply dlink_splice_old; [exact DL| | | |].
        -- intros E. apply (Dm p); [exact Hp | now rewrite <- E].
        -- intros E. apply Hr_sp. now rewrite <- E.
        -- intros E. apply Hr_mid. now rewrite E.
        -- exact Hrs.
      * intros y Hy. change (top h') with (top h). apply LT.
        destruct Hy as [<-|Hy]; [now left | right; apply in_or_app; now right].
    + intros _. apply (ring_rep_iff h' _ r). split; [exact NEm|]. split; [exact NDm|]. split; [|split].
      * apply dchain_splice; [exact DCm| |].
        -- intros x Hx. split; [now apply removelast_not_last|].
           intros ->. apply Hr_mid. now apply in_removelast.
        -- intros x Hx. split; [apply (tl_not_hd mid x r NDm Hx)|].
           intros ->. apply (Dm s); [now apply in_tl | now left].
      * fold p. cbn [hd mid]. apply dlink_splice_pn.
      * intros y Hy. change (top h') with (top h). apply LT. right. apply in_or_app. now left.
Qed.

(* r.Link(r): every other element leaves *)
Lemma splice_self h r rs :
  ring_rep h (r :: rs) ->
  let h' := splice h r r (hd r rs) (last rs r) in
  ring_rep h' [r] /\ (rs <> [] -> ring_rep h' rs).
Proof.
  intros HR. destruct rs as [|y rs'].
  - cbn [hd last]. cbn zeta. split; [|intro E; now elim E].
    apply splice_noop; [|exact HR].
    apply (ring_rep_iff h _ r) in HR as (_ & _ & _ & DL & _). exact DL.
  - cbn [hd]. cbn zeta. set (rs := y :: rs') in *. set (p := last rs r).
    set (h' := splice h r r y p).
    assert (NE : rs <> []) by discriminate.
    apply (ring_rep_iff h _ r) in HR as (_ & ND & DC & DL & LT).
    apply NoDup_cons_iff in ND as [NIr ND].
    assert (Hp : In p rs) by (apply last_in; exact NE).
    assert (Hn : In y rs) by now left.
    split.
    + apply (ring_rep_iff h' _ r). split; [discriminate|]. split; [|split; [|split]].
      * constructor; [intros []|constructor].
      * apply dchain_one.
      * cbn [last hd]. apply dlink_splice_rs; intros E; apply NIr; now rewrite E.
      * intros z [<-|[]]. change (top h') with (top h). apply LT. now left.
    + intros _. apply (ring_rep_iff h' _ r). split; [exact NE|]. split; [exact ND|]. split; [|split].
      * apply dchain_splice; [now apply dchain_tl in DC| |].
        -- intros x Hx. split; [now apply removelast_not_last|].
           intros ->. apply NIr. now apply in_removelast.
        -- intros x Hx. split; [apply (tl_not_hd rs x r ND Hx)|].
           intros ->. apply NIr. now apply in_tl.
      * fold p. cbn [hd rs]. apply dlink_splice_pn.
      * intros z Hz. change (top h') with (top h). apply LT. now right.
Qed.

(* ------------------------------------------------------------------------------------- *)
(* F. the abstract side: split_at / find_cycle, and the representation of a whole state    *)

Lemma split_at_some x l : forall pre post,
  split_at x l = Some (pre, post) -> l = pre ++ x :: post /\ ~ In x pre.
Proof.
  induction l as [|y l IH]; intros pre post; cbn [split_at]; [discriminate|].
  eqb_case y x; intro H.
  - inversion H; subst. split; [reflexivity | intros []].
  - destruct (split_at x l) as [[p q]|]; [|discriminate]. inversion H; subst.
    destruct (IH p post eq_refl) as [-> NI]. split; [reflexivity|].
    intros [E'|H']; [congruence | tauto].
Qed.

Lemma split_at_app x pre post : ~ In x pre -> split_at x (pre ++ x :: post) = Some (pre, post).
Proof.
  induction pre as [|y pre IH]; intro NI; cbn [app split_at].
  - now rewrite Nat.eqb_refl.
  - rewrite neqb by (intros ->; apply NI; now left).
    rewrite IH by (intro; apply NI; now right). reflexivity.
Qed.

Lemma split_at_in x l : In x l -> exists pre post, split_at x l = Some (pre, post).
Proof.
  induction l as [|y l IH]; intros H; [destruct H|]. cbn [split_at]. eqb_case y x.
  - now exists [], l.
  - destruct H as [H|H]; [congruence|]. destruct (IH H) as (p & q & ->). now exists (y :: p), q.
Qed.

Lemma split_at_none x l : ~ In x l -> split_at x l = None.
Proof.
  intro NI. destruct (split_at x l) as [[p q]|] eqn:E; [|reflexivity].
  apply split_at_some in E as [-> _]. elim NI. apply in_or_app. right. now left.
Qed.

Lemma find_cycle_some x cs : forall t rest, find_cycle x cs = Some (t, rest) ->
  exists pre post, t = post ++ pre /\ Permutation cs ((pre ++ x :: post) :: rest).
Proof.
  induction cs as [|c cs IH]; intros t rest; cbn [find_cycle]; [discriminate|].
  destruct (split_at x c) as [[pre post]|] eqn:E.
  - intro H; inversion H; subst. apply split_at_some in E as [-> _].
    exists pre, post. split; [reflexivity | apply Permutation_refl].
  - destruct (find_cycle x cs) as [[t' rest']|]; [|discriminate].
    intro H; inversion H; subst. destruct (IH t rest' eq_refl) as (pre & post & -> & P).
    exists pre, post. split; [reflexivity|].
    eapply perm_trans; [apply perm_skip; exact P | apply perm_swap].
Qed.

Lemma find_cycle_in x cs : In x (concat cs) -> exists t rest, find_cycle x cs = Some (t, rest).
Proof.
  induction cs as [|c cs IH]; cbn [concat find_cycle]; [intros []|]. intro H.
  destruct (in_dec Nat.eq_dec x c) as [Hc|Hc].
  - destruct (split_at_in x c Hc) as (p & q & ->). eauto.
  - rewrite (split_at_none x c Hc). apply in_app_or in H as [H|H]; [contradiction|].
    destruct (IH H) as (t & rest & ->). eauto.
Qed.

Lemma find_cycle_none x cs : ~ In x (concat cs) -> find_cycle x cs = None.
Proof.
  intro NI. destruct (find_cycle x cs) as [[t rest]|] eqn:E; [|reflexivity].
  apply find_cycle_some in E as (pre & post & _ & P). elim NI.
  assert (H : In (pre ++ x :: post) cs).
  { eapply Permutation_in; [apply Permutation_sym; exact P | now left]. }
  apply in_concat. exists (pre ++ x :: post). split; [exact H|]. apply in_or_app. right. now left.
Qed.

Lemma Permutation_concat' (cs cs' : list (list nat)) :
  Permutation cs cs' -> Permutation (concat cs) (concat cs').
Proof.
  induction 1; cbn [concat].
  - apply Permutation_refl.
  - now apply Permutation_app_head.
  - apply Permutation_app_swap_app.
  - eapply perm_trans; eassumption.
Qed.

(* a cycle of the abstract state is a proper ring in the heap, or a zero ring that has not
   been initialised yet (ring.go initialises it lazily) *)
Definition cyc_ok (h : heap) (c : list nat) : Prop :=
  ring_rep h c \/ exists x, c = [x] /\ nxt (cell h x) = None /\ x < top h.

Definition cycs_ok (h : heap) (cs : list (list nat)) : Prop :=
  NoDup (concat cs) /\ Forall (cyc_ok h) cs.

Lemma cyc_ok_lt h c x : cyc_ok h c -> In x c -> x < top h.
Proof.
  intros [H|(y & -> & _ & LT)] Hx; [now apply (ring_rep_lt h c)|].
  destruct Hx as [<-|[]]. exact LT.
Qed.

Lemma cyc_ok_framed h h' dom c :
  frame h h' dom -> (forall x, In x c -> ~ In x dom) -> cyc_ok h c -> cyc_ok h' c.
Proof.
  intros F D [H|(y & -> & N & LT)].
  - left. now apply (ring_rep_framed h h' dom).
  - right. exists y. destruct F as (T & _ & F). split; [reflexivity|]. split; [|lia].
    destruct (F y) as [-> _]; [apply D; now left | exact N].
Qed.

Lemma cyc_ok_ext h h' c :
  (forall x, x < top h -> cell h' x = cell h x) -> top h <= top h' -> cyc_ok h c -> cyc_ok h' c.
Proof.
  intros F T H. pose proof (fun x => cyc_ok_lt h c x H) as LT. destruct H as [H|(y & -> & N & LTy)].
  - left. apply (ring_rep_frame h); [|exact T|exact H].
    intros x Hx. now rewrite F by (now apply LT).
  - right. exists y. split; [reflexivity|]. split; [|lia]. now rewrite F.
Qed.

Lemma cyc_ok_rot h pre x post : cyc_ok h (pre ++ x :: post) -> cyc_ok h (x :: post ++ pre).
Proof.
  intros [H|(y & E & N & LT)].
  - left. destruct pre as [|a pre]; [now rewrite app_nil_r|].
    apply (ring_rep_rot h (a :: pre) (x :: post)); [discriminate | discriminate | exact H].
  - right. exists y. destruct pre as [|a pre]; cbn [app] in E.
    + inversion E; subst. now split.
    + inversion E as [[E1 E2]]. destruct pre; discriminate.
Qed.

Lemma cycs_ok_perm h cs cs' : Permutation cs cs' -> cycs_ok h cs -> cycs_ok h cs'.
Proof.
  intros P [ND F]. split.
  - eapply Permutation_NoDup; [apply Permutation_concat'; exact P | exact ND].
  - eapply Permutation_Forall; eassumption.
Qed.

Lemma cycs_ok_lt h cs x : cycs_ok h cs -> In x (concat cs) -> x < top h.
Proof.
  intros [_ F] Hx. apply in_concat in Hx as (c & Hc & Hx).
  rewrite Forall_forall in F. now apply (cyc_ok_lt h c x (F c Hc)).
Qed.

(* looking up the cycle of an element of a well-formed state *)
Lemma find_cycle_ok h cs x : cycs_ok h cs -> In x (concat cs) ->
  exists t rest, find_cycle x cs = Some (t, rest) /\ cycs_ok h ((x :: t) :: rest) /\
                 Permutation (concat cs) (concat ((x :: t) :: rest)).
Proof.
  intros OK Hx. destruct (find_cycle_in x cs Hx) as (t & rest & E).
  exists t, rest. split; [exact E|].
  apply find_cycle_some in E as (pre & post & -> & P).
  apply (cycs_ok_perm h _ _ P) in OK. apply Permutation_concat' in P.
  assert (P2 : Permutation (concat ((pre ++ x :: post) :: rest)) (concat ((x :: post ++ pre) :: rest))).
  { cbn [concat]. apply Permutation_app_tail.
    change (x :: post ++ pre) with ((x :: post) ++ pre). apply Permutation_app_comm. }
  split.
  - destruct OK as [ND F]. split.
    + eapply Permutation_NoDup; [exact P2 | exact ND].
    + inversion F; subst. constructor; [now apply cyc_ok_rot | assumption].
  - eapply perm_trans; eassumption.
Qed.

(* replacing some cycles by others over the same elements, the rest being framed *)
Lemma cycs_ok_update h h' dom olds news rest :
  cycs_ok h (olds ++ rest) -> frame h h' dom ->
  (forall x, In x dom -> In x (concat olds)) ->
  Permutation (concat olds) (concat news) -> Forall (cyc_ok h') news ->
  cycs_ok h' (news ++ rest) /\ Permutation (concat (olds ++ rest)) (concat (news ++ rest)).
Proof.
  intros [ND F] FR DOM P FN. rewrite concat_app in ND.
  assert (P' : Permutation (concat (olds ++ rest)) (concat (news ++ rest))).
  { rewrite !concat_app. now apply Permutation_app_tail. }
  split; [|exact P']. split.
  - eapply Permutation_NoDup; [exact P'|]. now rewrite concat_app.
  - apply Forall_app. split; [exact FN|]. apply Forall_app in F as [_ F].
    rewrite Forall_forall in *. intros c Hc. apply (cyc_ok_framed h h' dom); [exact FR| |now apply F].
    intros x Hx Hd. apply NoDup_app_iff in ND as (_ & _ & D). apply (D x); [now apply DOM|].
    apply in_concat. eauto.
Qed.

(* ------------------------------------------------------------------------------------- *)
(* G. lazy initialisation: [norm h x] is the heap after any method has looked at x          *)

Definition norm (h : heap) (x : nat) : heap :=
  match nxt (cell h x) with None => fst (init h x) | Some _ => h end.

Lemma init_fields h x :
  nxt (cell (fst (init h x)) x) = Some x /\ prv (cell (fst (init h x)) x) = Some x.
Proof. unfold init; cbn [fst]. heap_simpl. now rewrite !Nat.eqb_refl. Qed.

Lemma norm_normal h x : nxt (cell (norm h x) x) <> None.
Proof.
  unfold norm. destruct (nxt (cell h x)) eqn:E; [congruence|].
  destruct (init_fields h x) as [-> _]. discriminate.
Qed.

Lemma norm_keeps_normal h x y : nxt (cell h y) <> None -> nxt (cell (norm h x) y) <> None.
Proof.
  intro N. unfold norm. destruct (nxt (cell h x)); [exact N|].
  unfold init; cbn [fst]. heap_simpl. destruct (Nat.eqb y x); [discriminate | exact N].
Qed.

Lemma next_norm h x : next (norm h x) x = next h x.
Proof.
  unfold next, norm. destruct (nxt (cell h x)) eqn:E; [now rewrite E|].
  destruct (init_fields h x) as [-> _]. reflexivity.
Qed.

Lemma prev_norm h x : prev (norm h x) x = prev h x.
Proof.
  unfold prev, norm. destruct (nxt (cell h x)) eqn:E; [now rewrite E|].
  destruct (init_fields h x) as [-> ->]. reflexivity.
Qed.

Lemma walk_self f h x : f (cell h x) = Some x -> forall k, walk f h (Some x) k = Some (Some x).
Proof. intros E k. induction k as [|k IH]; [reflexivity|]. cbn [walk]. now rewrite E. Qed.

Lemma move_norm h x n : move (norm h x) x n = move h x n.
Proof.
  unfold move, norm. destruct (nxt (cell h x)) eqn:E; [now rewrite E|].
  destruct (init_fields h x) as [E1 E2]. rewrite E1.
  rewrite !walk_self by assumption. cbn [option_map].
  unfold init; cbn [fst]. destruct (n <? 0)%Z, (n >? 0)%Z; reflexivity.
Qed.

Lemma link_norm h r s : link (norm h r) r s = link h r s.
Proof. unfold link. now rewrite next_norm. Qed.

Lemma len_norm h r : len (norm h r) (Some r) = len h (Some r).
Proof. unfold len. now rewrite next_norm. Qed.

Lemma do_norm h r : do (norm h r) (Some r) = do h (Some r).
Proof. unfold do. now rewrite next_norm. Qed.

Lemma frame_norm h x : x < top h -> frame h (norm h x) [x].
Proof.
  intro LT. unfold norm. destruct (nxt (cell h x)); [apply frame_refl|].
  now apply init_rep.
Qed.

Lemma ring_rep_normal h c x : ring_rep h c -> In x c -> nxt (cell h x) <> None.
Proof.
  intros H Hx. apply in_split in Hx as (pre & post & ->).
  assert (H' : ring_rep h (x :: post ++ pre)).
  { destruct pre as [|a pre]; [now rewrite app_nil_r|].
    apply (ring_rep_rot h (a :: pre) (x :: post)); [discriminate | discriminate | exact H]. }
  rewrite (ring_rep_nxt h x _ H'). discriminate.
Qed.

Lemma cycs_ok_norm h cs x : cycs_ok h cs -> In x (concat cs) -> cycs_ok (norm h x) cs.
Proof.
  intros OK Hx. pose proof (cycs_ok_lt h cs x OK Hx) as LT.
  pose proof (frame_norm h x LT) as FR. revert FR.
  unfold norm. destruct (nxt (cell h x)) eqn:E; [intros _; exact OK|]. intro FR.
  destruct OK as [ND F]. split; [exact ND|]. rewrite Forall_forall in *. intros c Hc.
  destruct (in_dec Nat.eq_dec x c) as [Hxc|Hxc].
  - destruct (F c Hc) as [H|(y & -> & _)].
    + elim (ring_rep_normal h c x H Hxc). exact E.
    + destruct Hxc as [<-|[]]. left. now apply init_rep.
  - apply (cyc_ok_framed h _ [x]); [exact FR| |now apply F].
    intros y Hy [<-|[]]. contradiction.
Qed.

(* the heap part of the simulation relation *)
Record hsim (h : heap) (st : astate) : Prop := mk_hsim {
  hs_top : top h = atop st;
  hs_val : forall x, x < top h -> val (cell h x) = avals st x;
  hs_fresh : forall x, atop st <= x -> avals st x = 0%Z;
  hs_cyc : cycs_ok h (cycles st) }.

Lemma hsim_norm h st x : hsim h st -> In x (concat (cycles st)) -> hsim (norm h x) st.
Proof.
  intros [T V FZ C] Hx. pose proof (cycs_ok_lt h _ x C Hx) as LT.
  destruct (frame_norm h x LT) as (T' & V' & _). constructor.
  - congruence.
  - intros y Hy. rewrite V'. apply V. lia.
  - exact FZ.
  - now apply cycs_ok_norm.
Qed.

Lemma lookup h st r : hsim h st -> In r (concat (cycles st)) -> nxt (cell h r) <> None ->
  exists t rest, find_cycle r (cycles st) = Some (t, rest) /\ ring_rep h (r :: t) /\
    cycs_ok h ((r :: t) :: rest) /\
    Permutation (concat (cycles st)) (concat ((r :: t) :: rest)).
Proof.
  intros HS Hr N. destruct (find_cycle_ok h _ r (hs_cyc _ _ HS) Hr) as (t & rest & E & OK & P).
  exists t, rest. split; [exact E|]. split; [|split; assumption].
  destruct OK as [_ F]. inversion F as [|? ? [H|(y & Ey & Ny & _)] _]; subst; [exact H|].
  inversion Ey; subst. contradiction.
Qed.

Lemma cyc_at_1 r t : cyc_at r t 1 = hd r t.
Proof.
  unfold cyc_at. destruct t as [|y t]; cbn [length].
  - change (Z.of_nat 1) with 1%Z. now rewrite Z.mod_1_r.
  - rewrite Z.mod_small by lia. reflexivity.
Qed.

Lemma nth_length_last : forall (t : list nat) r, nth (length t) (r :: t) r = last t r.
Proof.
  induction t as [|y t IH]; intro r; [reflexivity|].
  change (nth (length (y :: t)) (r :: y :: t) r) with (nth (length t) (y :: t) r).
  rewrite (nth_indep (y :: t) r y) by (cbn; lia). rewrite IH.
  now rewrite last_cons_any.
Qed.

Lemma cyc_at_m1 r t : cyc_at r t (-1) = last t r.
Proof.
  unfold cyc_at.
  replace (-1)%Z with (Z.of_nat (length t) + (-1) * Z.of_nat (S (length t)))%Z by lia.
  rewrite Z_mod_plus_full, Z.mod_small by lia. rewrite Nat2Z.id. apply nth_length_last.
Qed.

(* Next / Prev / Move / Len / Do against the abstract state *)
Lemma move_sim h st r n : hsim h st -> In r (concat (cycles st)) ->
  exists x, move h r n = Some (norm h r, Some x) /\ a_move st r n = Some x /\
            In x (concat (cycles st)).
Proof.
  intros HS Hr. pose proof (hsim_norm h st r HS Hr) as HS1.
  destruct (lookup _ st r HS1 Hr (norm_normal h r)) as (t & rest & E & HR & _ & P).
  exists (cyc_at r t n). rewrite <- move_norm, (move_rep _ r t n HR).
  unfold a_move. rewrite E. repeat split.
  eapply Permutation_in; [apply Permutation_sym; exact P|].
  cbn [concat]. apply in_or_app. left. apply cyc_at_in.
Qed.

Lemma next_sim h st r : hsim h st -> In r (concat (cycles st)) ->
  exists x, next h r = (norm h r, x) /\ a_move st r 1 = Some x /\ In x (concat (cycles st)).
Proof.
  intros HS Hr. pose proof (hsim_norm h st r HS Hr) as HS1.
  destruct (lookup _ st r HS1 Hr (norm_normal h r)) as (t & rest & E & HR & _ & P).
  exists (hd r t). rewrite <- next_norm, (next_rep _ r t HR).
  unfold a_move. rewrite E, cyc_at_1. repeat split.
  eapply Permutation_in; [apply Permutation_sym; exact P|].
  cbn [concat]. apply in_or_app. left. rewrite <- cyc_at_1. apply cyc_at_in.
Qed.

Lemma prev_sim h st r : hsim h st -> In r (concat (cycles st)) ->
  exists x, prev h r = (norm h r, Some x) /\ a_move st r (-1) = Some x /\
            In x (concat (cycles st)).
Proof.
  intros HS Hr. pose proof (hsim_norm h st r HS Hr) as HS1.
  destruct (lookup _ st r HS1 Hr (norm_normal h r)) as (t & rest & E & HR & _ & P).
  exists (last t r). rewrite <- prev_norm, (prev_rep _ r t HR).
  unfold a_move. rewrite E, cyc_at_m1. repeat split.
  eapply Permutation_in; [apply Permutation_sym; exact P|].
  cbn [concat]. apply in_or_app. left. rewrite <- cyc_at_m1. apply cyc_at_in.
Qed.

Lemma len_sim h st r : hsim h st -> In r (concat (cycles st)) ->
  exists n, len h (Some r) = Some (norm h r, n) /\ a_len st (Some r) = Some n.
Proof.
  intros HS Hr. pose proof (hsim_norm h st r HS Hr) as HS1.
  destruct (lookup _ st r HS1 Hr (norm_normal h r)) as (t & rest & E & HR & _ & P).
  exists (Z.of_nat (S (length t))). rewrite <- len_norm, (len_rep _ r t HR).
  unfold a_len. now rewrite E.
Qed.

Lemma do_sim h st r : hsim h st -> In r (concat (cycles st)) ->
  exists l, do h (Some r) = Some (norm h r, l) /\ a_do st (Some r) = Some l.
Proof.
  intros HS Hr. pose proof (hsim_norm h st r HS Hr) as HS1.
  destruct (lookup _ st r HS1 Hr (norm_normal h r)) as (t & rest & E & HR & _ & P).
  exists (map (avals st) (r :: t)). rewrite <- do_norm, (do_rep _ r t HR).
  unfold a_do. rewrite E. split; [|reflexivity]. do 2 f_equal.
  apply map_ext_in. intros x Hx. apply (hs_val _ _ HS1). now apply (ring_rep_lt _ (r :: t)).
Qed.

(* ------------------------------------------------------------------------------------- *)
(* H. Link and Unlink against the abstract state                                           *)

Lemma add_cycle_app c rest : add_cycle c rest = add_cycle c [] ++ rest.
Proof. destruct c; reflexivity. Qed.

Lemma hd_in_cons (r : nat) rs : In (hd r rs) (r :: rs).
Proof. destruct rs; cbn; auto. Qed.

Lemma last_in_cons (r : nat) rs : In (last rs r) (r :: rs).
Proof. rewrite <- last_cons_def. apply last_in. discriminate. Qed.

Lemma cycs_ok_tail h c rest : cycs_ok h (c :: rest) -> cycs_ok h rest.
Proof.
  intros [ND F]. cbn [concat] in ND. apply NoDup_app_iff in ND as (_ & ND & _).
  split; [exact ND | now inversion F].
Qed.

Lemma finish_link h2 st r s n p dom olds news rest :
  hsim h2 st -> cycs_ok h2 (olds ++ rest) ->
  Permutation (concat (cycles st)) (concat (olds ++ rest)) ->
  In r dom -> In s dom -> In n dom -> In p dom ->
  (forall x, In x dom -> In x (concat olds)) ->
  Permutation (concat olds) (concat news) ->
  Forall (cyc_ok (splice h2 r s n p)) news ->
  hsim (splice h2 r s n p) (mk_astate (news ++ rest) (avals st) (atop st)) /\
  Permutation (concat (cycles st)) (concat (news ++ rest)).
Proof.
  intros HS OK P Hr Hs Hn Hp DOM PN FN.
  destruct (cycs_ok_update h2 (splice h2 r s n p) dom olds news rest OK
              (frame_splice h2 r s n p dom Hr Hs Hn Hp) DOM PN FN) as [OK' P'].
  split.
  - constructor; cbn [cycles avals atop].
    + exact (hs_top _ _ HS).
    + intros x Hx. rewrite val_splice. now apply (hs_val _ _ HS).
    + exact (hs_fresh _ _ HS).
    + exact OK'.
  - eapply perm_trans; eassumption.
Qed.

Lemma link_sim h st r s : hsim h st -> In r (concat (cycles st)) -> In s (concat (cycles st)) ->
  exists h' st' x, link h r (Some s) = Some (h', x) /\ a_link st r (Some s) = Some (st', x) /\
    hsim h' st' /\ Permutation (concat (cycles st)) (concat (cycles st')) /\
    In x (concat (cycles st)).
Proof.
  intros HS Hr Hs.
  pose proof (hsim_norm h st r HS Hr) as HS1. set (h1 := norm h r) in *.
  pose proof (hsim_norm h1 st s HS1 Hs) as HS2. set (h2 := norm h1 s) in *.
  assert (N1 : nxt (cell h1 r) <> None) by apply norm_normal.
  assert (N2r : nxt (cell h2 r) <> None) by (apply norm_keeps_normal; exact N1).
  assert (N2s : nxt (cell h2 s) <> None) by apply norm_normal.
  destruct (lookup h1 st r HS1 Hr N1) as (rs & rest & E & HR1 & _ & _).
  destruct (lookup h2 st r HS2 Hr N2r) as (rs' & rest' & E' & HR2 & OK2 & P).
  rewrite E in E'. inversion E'; subst rs' rest'. clear E'.
  assert (Hx : In (hd r rs) (concat (cycles st))).
  { eapply Permutation_in; [apply Permutation_sym; exact P|].
    cbn [concat]. apply in_or_app. left. apply hd_in_cons. }
  unfold link. rewrite <- (next_norm h r). fold h1. rewrite (next_rep h1 r rs HR1).
  rewrite <- (prev_norm h1 s). fold h2.
  unfold a_link. rewrite E.
  eqb_case s r.
  - (* r.Link(r) *)
    subst s. rewrite (prev_rep h2 r rs HR2).
    destruct (splice_self h2 r rs HR2) as [R1 R2].
    destruct (finish_link h2 st r r (hd r rs) (last rs r) (r :: rs) [r :: rs]
                ([r] :: add_cycle rs []) rest HS2 OK2 P) as [HS' P'].
    + now left.
    + now left.
    + apply hd_in_cons.
    + apply last_in_cons.
    + intros x Hx0. cbn [concat]. now rewrite app_nil_r.
    + destruct rs; cbn [concat add_cycle]; rewrite ?app_nil_r; apply Permutation_refl.
    + destruct rs as [|y rs']; cbn [add_cycle].
      * constructor; [left; exact R1 | constructor].
      * constructor; [left; exact R1|].
        constructor; [left; apply R2; discriminate | constructor].
    + eexists _, _, _. split; [reflexivity|]. split; [reflexivity|].
      rewrite add_cycle_app. split; [exact HS' | split; [exact P' | exact Hx]].
  - destruct (split_at s rs) as [[mid post]|] eqn:Es.
    + (* same ring *)
      apply split_at_some in Es as [-> _].
      assert (HS2' : ring_rep h2 (s :: post ++ r :: mid)).
      { apply (ring_rep_rot h2 (r :: mid) (s :: post)); [discriminate | discriminate | exact HR2]. }
      rewrite (prev_rep h2 s _ HS2').
      rewrite (last_app_ne post (r :: mid) s) by discriminate. rewrite last_cons_any.
      destruct (splice_same h2 r mid s post HR2) as [R1 R2].
      destruct (finish_link h2 st r s (hd r (mid ++ s :: post)) (last mid r)
                  (r :: mid ++ s :: post) [r :: mid ++ s :: post]
                  ((r :: s :: post) :: add_cycle mid []) rest HS2 OK2 P) as [HS' P'].
      * now left.
      * right. apply in_or_app. right. now left.
      * apply hd_in_cons.
      * destruct (last_in_cons r mid) as [<-|H']; [now left | right; apply in_or_app; now left].
      * intros x Hx0. cbn [concat]. now rewrite app_nil_r.
      * cbn [concat]. rewrite app_nil_r. destruct mid as [|m0 mid']; cbn [add_cycle concat app].
        -- rewrite app_nil_r. apply Permutation_refl.
        -- rewrite app_nil_r. apply perm_skip.
           apply (Permutation_app_comm (m0 :: mid') (s :: post)).
      * destruct mid as [|m0 mid']; cbn [add_cycle].
        -- constructor; [left; exact R1 | constructor].
        -- constructor; [left; exact R1|].
           constructor; [left; apply R2; discriminate | constructor].
      * eexists _, _, _. split; [reflexivity|]. split; [reflexivity|].
        rewrite add_cycle_app. split; [exact HS' | split; [exact P' | exact Hx]].
    + (* two rings *)
      assert (Hsrs : ~ In s rs).
      { intro H'. destruct (split_at_in s rs H') as (? & ? & E''). congruence. }
      assert (Hs' : In s (concat rest)).
      { pose proof (Permutation_in s P Hs) as H'. cbn [concat] in H'.
        apply in_app_or in H' as [[H'|H']|H']; [congruence | contradiction | exact H']. }
      pose proof (cycs_ok_tail h2 _ _ OK2) as OKr.
      destruct (find_cycle_ok h2 rest s OKr Hs') as (ss & rest' & Es2 & OK3 & P3).
      rewrite Es2.
      assert (HSs : ring_rep h2 (s :: ss)).
      { destruct OK3 as [_ F]. inversion F as [|? ? [H'|(y & Ey & Ny & _)] _]; subst; [exact H'|].
        inversion Ey; subst. contradiction. }
      rewrite (prev_rep h2 s ss HSs).
      destruct OK2 as [ND2 F2]. cbn [concat] in ND2.
      assert (D : forall x, In x (r :: rs) -> In x (s :: ss) -> False).
      { intros x H1 H2. apply NoDup_app_iff in ND2 as (_ & _ & D). apply (D x H1).
        eapply Permutation_in; [apply Permutation_sym; exact P3|].
        cbn [concat]. apply in_or_app. now left. }
      pose proof (splice_diff h2 r rs s ss HR2 HSs D) as R1.
      destruct (finish_link h2 st r s (hd r rs) (last ss s)
                  ((r :: rs) ++ s :: ss) [r :: rs; s :: ss]
                  [r :: s :: ss ++ rs] rest' HS2) as [HS' P'].
      * split.
        -- eapply Permutation_NoDup; [|exact ND2]. cbn [concat app]. apply perm_skip.
           apply Permutation_app_head. exact P3.
        -- constructor; [now inversion F2 | exact (proj2 OK3)].
      * eapply perm_trans; [exact P|]. cbn [concat app]. apply perm_skip.
        apply Permutation_app_head. exact P3.
      * now left.
      * apply in_or_app. right. now left.
      * apply in_or_app. left. apply hd_in_cons.
      * apply in_or_app. right. apply last_in_cons.
      * intros x Hx0. cbn [concat]. now rewrite app_nil_r.
      * cbn [concat]. rewrite !app_nil_r. cbn [app]. apply perm_skip.
        apply (Permutation_app_comm rs (s :: ss)).
      * constructor; [left; exact R1 | constructor].
      * eexists _, _, _. split; [reflexivity|]. split; [reflexivity|].
        split; [exact HS' | split; [exact P' | exact Hx]].
Qed.

Lemma nth_split_skipn (l : list nat) d : forall i, i < length l ->
  l = firstn i l ++ nth i l d :: skipn (S i) l.
Proof.
  induction l as [|a l IH]; intros [|i] H; cbn [length] in H; try lia; [reflexivity|].
  cbn [firstn nth skipn app]. f_equal. apply IH. lia.
Qed.

Lemma skipn_nth (l : list nat) d : forall i, i < length l ->
  skipn i l = nth i l d :: skipn (S i) l.
Proof.
  induction l as [|a l IH]; intros [|i] H; cbn [length] in H; try lia; [reflexivity|].
  cbn [nth]. change (skipn (S i) (a :: l)) with (skipn i l).
  change (skipn (S (S i)) (a :: l)) with (skipn (S i) l). apply IH. lia.
Qed.

Lemma split_at_nth (l : list nat) d i : NoDup l -> i < length l ->
  split_at (nth i l d) l = Some (firstn i l, skipn (S i) l).
Proof.
  intros ND Hi. pose proof (nth_split_skipn l d i Hi) as Sp.
  assert (NI : ~ In (nth i l d) (firstn i l)).
  { rewrite Sp in ND. apply NoDup_app_iff in ND as (_ & _ & D). intro H. apply (D _ H). now left. }
  pose proof (split_at_app (nth i l d) (firstn i l) (skipn (S i) l) NI) as H.
  now rewrite <- Sp in H.
Qed.

Lemma unlink_index (n : Z) (m : nat) : (0 < n)%Z ->
  let L := Z.of_nat (S m) in
  let J := Z.to_nat ((n + 1) mod L) in
  let K := Z.to_nat (n mod L) in
  (J = 0 /\ K = m) \/ (J = S K /\ K < m).
Proof.
  intros Hn L J K. assert (HL : (0 < L)%Z) by (unfold L; lia).
  pose proof (Z.mod_pos_bound n L HL) as B.
  unfold J. rewrite <- Zplus_mod_idemp_l.
  destruct (Z.eq_dec (n mod L + 1) L) as [E|E].
  - left. rewrite E, Z_mod_same_full. split; [reflexivity|]. unfold K. unfold L in E at 2. lia.
  - right. rewrite Z.mod_small by lia. unfold K. unfold L in E at 2. unfold L in B at 2. lia.
Qed.

(* Unlink(n) is specified directly (remove the n mod Len elements after r); the code computes
   it as r.Link(r.Move(n+1)) — on the abstract side the two coincide *)
Lemma a_unlink_link st r n rs rest :
  NoDup (r :: rs) -> find_cycle r (cycles st) = Some (rs, rest) -> (0 < n)%Z ->
  a_unlink st r n =
  option_map (fun '(st', x) => (st', Some x)) (a_link st r (Some (cyc_at r rs (n + 1)))).
Proof.
  intros ND E Hn. unfold a_unlink, a_link, cyc_at. rewrite E.
  replace (n <=? 0)%Z with false by lia.
  destruct (unlink_index n (length rs) Hn) as [[EJ EK]|[EJ EK]]; cbv zeta in EJ, EK.
  - rewrite EJ, EK. cbn [nth]. rewrite Nat.eqb_refl. cbn [option_map].
    rewrite skipn_all, firstn_all. reflexivity.
  - rewrite EJ. set (K := Z.to_nat (n mod Z.of_nat (S (length rs)))) in *. cbn [nth].
    apply NoDup_cons_iff in ND as [NI ND].
    assert (Hs : In (nth K rs r) rs) by (apply nth_In; exact EK).
    rewrite neqb by (intros E'; rewrite E' in Hs; contradiction).
    rewrite (split_at_nth rs r K ND EK). cbn [option_map].
    rewrite (skipn_nth rs r K EK). reflexivity.
Qed.

Lemma unlink_sim h st r n : hsim h st -> In r (concat (cycles st)) -> (0 < n)%Z ->
  exists h' st' x, unlink h r n = Some (h', Some x) /\ a_unlink st r n = Some (st', Some x) /\
    hsim h' st' /\ Permutation (concat (cycles st)) (concat (cycles st')) /\
    In x (concat (cycles st)).
Proof.
  intros HS Hr Hn. unfold unlink. replace (n <=? 0)%Z with false by lia.
  destruct (move_sim h st r (n + 1) HS Hr) as (s & Em & Ea & Hs). rewrite Em.
  pose proof (hsim_norm h st r HS Hr) as HS1.
  destruct (link_sim _ st r s HS1 Hr Hs) as (h' & st' & x & El & Eal & HS' & P & Hx).
  rewrite El. exists h', st', x. split; [reflexivity|]. split; [|split; [|split]]; try assumption.
  destruct (find_cycle_ok h _ r (hs_cyc _ _ HS) Hr) as (t & rest & E & [ND _] & _).
  cbn [concat] in ND. apply NoDup_app_iff in ND as (ND & _ & _).
  rewrite (a_unlink_link st r n t rest ND E Hn).
  unfold a_move in Ea. rewrite E in Ea. inversion Ea; subst s. now rewrite Eal.
Qed.

(* ------------------------------------------------------------------------------------- *)
(* I. programs                                                                             *)

Definition regs_ok (g : regs) (st : astate) : Prop :=
  forall i x, g i = Some x -> In x (concat (cycles st)).

Lemma regs_ok_set g st d p :
  regs_ok g st -> (forall x, p = Some x -> In x (concat (cycles st))) ->
  regs_ok (set_reg g d p) st.
Proof. intros RG Hp i x. unfold set_reg. destruct (Nat.eqb i d); [apply Hp | apply RG]. Qed.

Lemma regs_ok_mono g st st' :
  (forall x, In x (concat (cycles st)) -> In x (concat (cycles st'))) ->
  regs_ok g st -> regs_ok g st'.
Proof. intros M RG i x H. apply M. now apply (RG i). Qed.

Definition sim (h : heap) (st : astate) (g : regs) : Prop := hsim h st /\ regs_ok g st.

Lemma cyc_ok_links h h' c :
  (forall x, nxt (cell h' x) = nxt (cell h x) /\ prv (cell h' x) = prv (cell h x)) ->
  top h' = top h -> cyc_ok h c -> cyc_ok h' c.
Proof.
  intros F T [H|(y & -> & N & LT)].
  - left. apply (ring_rep_frame h); [intros x _; apply F | lia | exact H].
  - right. exists y. split; [reflexivity|]. split; [|lia]. now rewrite (proj1 (F y)).
Qed.

Definition step_rel (h : heap) (g : regs) (st : astate) (o : rop) : Prop :=
  match rstep h g o, astep st g o with
  | None, None => True
  | Some (h', g', out), Some (st', g'', out') => g' = g'' /\ out = out' /\ sim h' st' g'
  | _, _ => False
  end.

Lemma step_sim h st g o : sim h st g -> step_rel h g st o.
Proof.
  intros [HS RG]. pose proof (hs_top _ _ HS) as HT. unfold step_rel. destruct o as [d n|d|d s|d s|d s n|d a b|d a n|a|a|a|a v|a b|a];
    cbn [rstep astep].
  - (* New *)
    destruct (n <=? 0)%Z eqn:En.
    + unfold new, a_new. rewrite En.
      split; [reflexivity|]. split; [reflexivity|]. split; [exact HS|].
      apply regs_ok_set; [exact RG | discriminate].
    + destruct (new_rep h n ltac:(lia)) as (h' & E & HR & T & F & V). rewrite E.
      unfold a_new. rewrite En. rewrite <- (hs_top _ _ HS).
      split; [reflexivity|]. split; [reflexivity|]. split.
      * constructor; cbn [cycles avals atop].
        -- rewrite T, (hs_top _ _ HS). reflexivity.
        -- intros x Hx. destruct (Nat.lt_ge_cases x (top h)) as [L|L].
           ++ rewrite F by exact L. now apply (hs_val _ _ HS).
           ++ rewrite V by lia. symmetry. apply (hs_fresh _ _ HS). rewrite <- (hs_top _ _ HS). lia.
        -- intros x Hx. apply (hs_fresh _ _ HS). lia.
        -- destruct (hs_cyc _ _ HS) as [ND FA]. split.
           ++ cbn [concat]. apply NoDup_app_iff. split; [apply seq_NoDup|]. split; [exact ND|].
              intros x H1 H2. apply in_seq in H1.
              pose proof (cycs_ok_lt h _ x (hs_cyc _ _ HS) H2). lia.
           ++ constructor; [left; exact HR|].
              rewrite Forall_forall in *. intros c Hc.
              apply (cyc_ok_ext h); [exact F | lia | now apply FA].
      * apply regs_ok_set.
        -- apply (regs_ok_mono g st); [|exact RG]. intros x Hx. cbn [cycles concat].
           apply in_or_app. now right.
        -- intros x Ex. inversion Ex; subst x. cbn [cycles concat]. apply in_or_app. left.
           apply in_seq. lia.
  - (* the zero ring *)
    unfold alloc, a_zero. rewrite <- (hs_top _ _ HS).
    split; [reflexivity|]. split; [reflexivity|].
    set (h' := mk_heap (fun j => if Nat.eqb j (top h) then zero_node else cell h j) (S (top h))).
    assert (F : forall x, x < top h -> cell h' x = cell h x).
    { intros x Hx. unfold h'; cbn. now rewrite neqb by lia. }
    split.
    + constructor; cbn [cycles avals atop].
      * reflexivity.
      * intros x Hx. destruct (Nat.lt_ge_cases x (top h)) as [L|L].
        -- rewrite F by exact L. now apply (hs_val _ _ HS).
        -- assert (x = top h) by (unfold h' in Hx; cbn in Hx; lia). subst x.
           unfold h'; cbn. rewrite Nat.eqb_refl. cbn. symmetry. apply (hs_fresh _ _ HS).
           rewrite <- (hs_top _ _ HS). lia.
      * intros x Hx. apply (hs_fresh _ _ HS). rewrite <- (hs_top _ _ HS) in *. lia.
      * destruct (hs_cyc _ _ HS) as [ND FA]. split.
        -- cbn [concat app]. apply NoDup_cons_iff. split; [|exact ND].
           intro H2. pose proof (cycs_ok_lt h _ _ (hs_cyc _ _ HS) H2). lia.
        -- constructor.
           ++ right. exists (top h). split; [reflexivity|]. split; [|unfold h'; cbn; lia].
              unfold h'; cbn. now rewrite Nat.eqb_refl.
           ++ rewrite Forall_forall in *. intros c Hc.
              apply (cyc_ok_ext h); [exact F | unfold h'; cbn; lia | now apply FA].
    + apply regs_ok_set.
      * apply (regs_ok_mono g st); [|exact RG]. intros x Hx. cbn [cycles concat app]. now right.
      * intros x Ex. inversion Ex; subst x. cbn [cycles concat app]. now left.
  - (* Next *)
    destruct (g s) as [r|] eqn:Eg; [|exact I]. pose proof (RG _ _ Eg) as Hr.
    destruct (next_sim h st r HS Hr) as (x & En & Ea & Hx). rewrite En, Ea. cbn [option_map].
    split; [reflexivity|]. split; [reflexivity|]. split; [now apply hsim_norm|].
    apply regs_ok_set; [exact RG|]. intros y Ey. now inversion Ey; subst.
  - (* Prev *)
    destruct (g s) as [r|] eqn:Eg; [|exact I]. pose proof (RG _ _ Eg) as Hr.
    destruct (prev_sim h st r HS Hr) as (x & En & Ea & Hx). rewrite En, Ea. cbn [option_map].
    split; [reflexivity|]. split; [reflexivity|]. split; [now apply hsim_norm|].
    apply regs_ok_set; [exact RG|]. intros y Ey. now inversion Ey; subst.
  - (* Move *)
    destruct (g s) as [r|] eqn:Eg; [|exact I]. pose proof (RG _ _ Eg) as Hr.
    destruct (move_sim h st r n HS Hr) as (x & En & Ea & Hx). rewrite En, Ea. cbn [option_map].
    split; [reflexivity|]. split; [reflexivity|]. split; [now apply hsim_norm|].
    apply regs_ok_set; [exact RG|]. intros y Ey. now inversion Ey; subst.
  - (* Link *)
    destruct (g a) as [r|] eqn:Eg; [|exact I]. pose proof (RG _ _ Eg) as Hr.
    destruct (g b) as [s|] eqn:Egb.
    + pose proof (RG _ _ Egb) as Hs.
      destruct (link_sim h st r s HS Hr Hs) as (h' & st' & x & El & Eal & HS' & P & Hx).
      rewrite El, Eal. cbn [option_map].
      split; [reflexivity|]. split; [reflexivity|]. split; [exact HS'|].
      apply regs_ok_set.
      * apply (regs_ok_mono g st); [|exact RG]. intros y. apply Permutation_in. exact P.
      * intros y Ey. inversion Ey; subst y. eapply Permutation_in; eassumption.
    + destruct (next_sim h st r HS Hr) as (x & En & Ea & Hx).
      unfold link. rewrite En. unfold a_link. unfold a_move in Ea.
      destruct (find_cycle r (cycles st)) as [[t rest]|]; [|discriminate].
      rewrite cyc_at_1 in Ea. inversion Ea; subst x. cbn [option_map].
      split; [reflexivity|]. split; [reflexivity|]. split; [now apply hsim_norm|].
      apply regs_ok_set; [exact RG|]. intros y Ey. now inversion Ey; subst.
  - (* Unlink *)
    destruct (g a) as [r|] eqn:Eg.
    + pose proof (RG _ _ Eg) as Hr. destruct (n <=? 0)%Z eqn:En.
      * unfold unlink, a_unlink. rewrite En. cbn [option_map].
        split; [reflexivity|]. split; [reflexivity|]. split; [exact HS|].
        apply regs_ok_set; [exact RG | discriminate].
      * destruct (unlink_sim h st r n HS Hr ltac:(lia)) as (h' & st' & x & El & Eal & HS' & P & Hx).
        rewrite El, Eal. cbn [option_map].
        split; [reflexivity|]. split; [reflexivity|]. split; [exact HS'|].
        apply regs_ok_set.
        -- apply (regs_ok_mono g st); [|exact RG]. intros y. apply Permutation_in. exact P.
        -- intros y Ey. inversion Ey; subst y. eapply Permutation_in; eassumption.
    + destruct (n <=? 0)%Z; [|exact I].
      split; [reflexivity|]. split; [reflexivity|]. split; [exact HS|].
      apply regs_ok_set; [exact RG | discriminate].
  - (* Len *)
    destruct (g a) as [r|] eqn:Eg.
    + pose proof (RG _ _ Eg) as Hr. destruct (len_sim h st r HS Hr) as (n & El & Ea).
      rewrite El, Ea. cbn [option_map].
      split; [reflexivity|]. split; [reflexivity|]. split; [now apply hsim_norm | exact RG].
    + cbn. split; [reflexivity|]. split; [reflexivity|]. split; assumption.
  - (* Do *)
    destruct (g a) as [r|] eqn:Eg.
    + pose proof (RG _ _ Eg) as Hr. destruct (do_sim h st r HS Hr) as (l & El & Ea).
      rewrite El, Ea. cbn [option_map].
      split; [reflexivity|]. split; [reflexivity|]. split; [now apply hsim_norm | exact RG].
    + cbn. split; [reflexivity|]. split; [reflexivity|]. split; assumption.
  - (* Value *)
    destruct (g a) as [r|] eqn:Eg; [|exact I]. pose proof (RG _ _ Eg) as Hr.
    split; [reflexivity|]. split; [|split; assumption].
    rewrite (hs_val _ _ HS); [reflexivity|]. apply (cycs_ok_lt h _ r (hs_cyc _ _ HS) Hr).
  - (* Value = v *)
    destruct (g a) as [r|] eqn:Eg; [|exact I]. pose proof (RG _ _ Eg) as Hr.
    pose proof (cycs_ok_lt h _ r (hs_cyc _ _ HS) Hr) as LT.
    split; [reflexivity|]. split; [reflexivity|]. split; [|exact RG].
    constructor; cbn [a_set cycles avals atop].
    + exact (hs_top _ _ HS).
    + intros x Hx. rewrite val_set_val. destruct (Nat.eqb x r); [reflexivity|].
      now apply (hs_val _ _ HS).
    + intros x Hx. rewrite neqb by (rewrite <- (hs_top _ _ HS) in Hx; lia).
      now apply (hs_fresh _ _ HS).
    + destruct (hs_cyc _ _ HS) as [ND FA]. split; [exact ND|].
      rewrite Forall_forall in *. intros c Hc. apply (cyc_ok_links h); [| reflexivity | now apply FA].
      intro x. now rewrite nxt_set_val, prv_set_val.
  - split; [reflexivity|]. split; [reflexivity|]. split; assumption.
  - split; [reflexivity|]. split; [reflexivity|]. split; assumption.
Qed.

Lemma steps_sim prog : forall h st g, sim h st g -> rsteps h g prog = asteps st g prog.
Proof.
  induction prog as [|o prog IH]; intros h st g S; [reflexivity|].
  cbn [rsteps asteps]. pose proof (step_sim h st g o S) as R. unfold step_rel in R.
  destruct (rstep h g o) as [[[h' g'] out]|], (astep st g o) as [[[st' g''] out']|];
    try contradiction; [|reflexivity].
  destruct R as (-> & -> & S'). f_equal. now apply IH.
Qed.

Lemma sim_empty : sim empty_heap empty_astate no_regs.
Proof.
  split.
  - constructor; cbn; try reflexivity; try lia.
    split; [constructor | constructor].
  - intros i x E. discriminate.
Qed.

(* The ring of ring.go refines the documented cycle: EVERY program over New / the zero ring /
   Next / Prev / Move (any n, negative too) / Link (one ring, two rings, itself, nil) / Unlink /
   Len / Do / Value, on rings of every size, gives exactly the answers (and the panics) of the
   cycle semantics. *)
Theorem ring_refines_cycle : forall prog, ring_run prog = cycle_run prog.
Proof. intro prog. apply steps_sim, sim_empty. Qed.

(* non-vacuity: a program that links two rings, unlinks across the seam, walks backwards
   past the start and observes everything — both sides compute the same non-trivial answers *)
Example ring_refines_cycle_example :
  ring_run [RNew 0 3; RSet 0 1; RNext 0 0; RSet 0 2; RNext 0 0; RSet 0 3; RNext 0 0;
            RZero 1; RSet 1 9; RLink 2 0 1; RDo 0; RUnlink 3 0 2; RDo 0; RDo 3;
            RMove 2 0 (-5); RGet 2; RLen 0; RNil 3; REq 0 2; RLink 3 2 1]%Z
  = [OL [1; 9; 2; 3]; OL [1; 3]; OL [9; 2]; OZ 3; OZ 2; OB false; OB false]%Z
  /\ ring_run [RNew 0 2; RUnlink 1 0 0; RLen 0; RNil 1; RNext 2 1; RLen 0]%Z
     = [OZ 2; OB true; OPanic]%Z.
Proof. split; vm_compute; reflexivity. Qed.

(* ------------------------------------------------------------------------------------- *)
(* oracle soundness                                                                        *)

Lemma rout_eqb_spec a b : rout_eqb a b = true <-> a = b.
Proof.
  destruct a, b; cbn; split; intro H; try discriminate; try reflexivity.
  - apply Z.eqb_eq in H. now subst.
  - inversion H. apply Z.eqb_refl.
  - apply eqb_listZ_spec in H. now subst.
  - inversion H. now apply eqb_listZ_spec.
  - apply Bool.eqb_prop in H. now subst.
  - inversion H. apply Bool.eqb_reflx.
Qed.

Lemma routs_eqb_spec a : forall b, routs_eqb a b = true <-> a = b.
Proof.
  induction a as [|x a IH]; intros [|y b]; cbn; split; intro H; try discriminate; try reflexivity.
  - apply andb_true_iff in H as [H1 H2]. apply rout_eqb_spec in H1. apply IH in H2. congruence.
  - inversion H; subst. apply andb_true_iff. split; [now apply rout_eqb_spec | now apply IH].
Qed.

Theorem ring_oracle_sound : forall prog obs_kit obs_std,
  ring_oracle prog obs_kit obs_std = true <-> ring_spec prog obs_kit obs_std.
Proof.
  intros. unfold ring_oracle, ring_spec. rewrite andb_true_iff, !routs_eqb_spec. tauto.
Qed.

(* whatever the pointer-level model answers satisfies the specification's first half *)
Corollary ring_model_meets_spec : forall prog, ring_spec prog (ring_run prog) (ring_run prog).
Proof. intro prog. split; [apply ring_refines_cycle | reflexivity]. Qed.
