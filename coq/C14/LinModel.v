(* C14 (concurrent half) — executable event-system model of the lock discipline of
   concurrency/cmap/map.go, concurrency/cmap/atomic.go and concurrency/slice/slice.go.

   Every method of the three containers is a sequence of CRITICAL SECTIONS on a sync.RWMutex:
   all methods have exactly one, except atomicMap.GetOrCreate (read-locked look-up, then — on a
   miss — a write-locked re-check/create).  Following the convention of this development, events
   are split exactly where the code acquires/releases a lock: a thread goes

       Idle --Invoke--> Ready p --Acquire--> Held p --Effect--> Ran m l p' --Release--> Ready p'
            ... --> Ready (Done r) --Return--> Idle

   and the body of a critical section is ONE event ([Effect]).  Read-locked sections may overlap
   each other and, by the type of [RSect], cannot write the shared state.  A lock is named by an
   integer: 0 is the container's own RWMutex, a positive [id] is the RWMutex inside the
   AtomicValue object [id].  (Go's RWMutex additionally blocks new readers while a writer
   waits; the model allows a superset of the real schedules.)

   Invocation and response stamps come from one global counter [clock] that ticks at every
   event — in the harness it is one shared atomic.Int64 incremented before a call and after
   its return.

   GHOST annotations (no influence on behaviour): a section body announces [Some r] when it is
   the point where the call takes effect, [r] being the value the call will eventually return;
   [Effect] then appends the call to the ghost log [lin].  Used only by the proofs. *)
From Coq Require Import List ZArith Bool Lia.
From Kit Require Import C14.LinSpec.
Import ListNotations.
Open Scope Z_scope.

Inductive mode := RMode | WMode.

Section Sys.
  Variables Sh Op : Type.

  (* residual program of a call *)
  Inductive prog :=
  | Done (r : ret)
  | RSect (l : Z) (body : Sh -> option ret * prog)
  | WSect (l : Z) (body : Sh -> Sh * option ret * prog).

  Variable code : Op -> prog.
  (* a call can only be invoked where it makes sense (an operation on a counter object needs a
     pointer to it, so the object exists) *)
  Variable can_invoke : Sh -> Op -> bool.
  Variable sh0 : Sh.

  Inductive pc :=
  | Idle
  | Ready (p : prog)
  | Held (p : prog)                    (* lock of the section [p] acquired, body not yet run *)
  | Ran (m : mode) (l : Z) (p : prog). (* body run, lock [l] still held in mode [m] *)

  Record thread := T { t_pc : pc; t_op : option Op; t_inv : Z; t_lin : option ret }.

  (* ghost: one linearization point *)
  Record lpoint := LP { l_tid : Z; l_inv : Z; l_lp : Z; l_op : Op; l_ret : ret }.

  Record state := ST {
    sh : Sh;
    readers : Z -> nat;
    writer : Z -> bool;
    thr : Z -> thread;
    clock : Z;
    hist : list (call Op ret);     (* completed calls, in order of their responses *)
    lin : list lpoint              (* ghost *)
  }.

  Inductive event :=
  | Invoke (t : Z) (o : Op)
  | Acquire (t : Z)
  | Effect (t : Z)
  | Release (t : Z)
  | Return (t : Z).

  Definition upd {A} (f : Z -> A) (k : Z) (v : A) : Z -> A :=
    fun x => if x =? k then v else f x.

  Definition init : state :=
    ST sh0 (fun _ => O) (fun _ => false) (fun _ => T Idle None 0 None) 0 [] [].

  Definition set_pc (th : thread) (p : pc) : thread := T p (t_op th) (t_inv th) (t_lin th).

  Definition step (s : state) (e : event) : option state :=
    match e with
    | Invoke t o =>
        match t_pc (thr s t) with
        | Idle =>
            if can_invoke (sh s) o then
              Some (ST (sh s) (readers s) (writer s)
                       (upd (thr s) t (T (Ready (code o)) (Some o) (clock s) None))
                       (clock s + 1) (hist s) (lin s))
            else None
        | _ => None
        end
    | Acquire t =>
        let th := thr s t in
        match t_pc th with
        | Ready (RSect l body) =>
            if writer s l then None
            else Some (ST (sh s) (upd (readers s) l (S (readers s l))) (writer s)
                          (upd (thr s) t (set_pc th (Held (RSect l body))))
                          (clock s + 1) (hist s) (lin s))
        | Ready (WSect l body) =>
            if writer s l then None
            else match readers s l with
                 | O => Some (ST (sh s) (readers s) (upd (writer s) l true)
                                 (upd (thr s) t (set_pc th (Held (WSect l body))))
                                 (clock s + 1) (hist s) (lin s))
                 | S _ => None
                 end
        | _ => None
        end
    | Effect t =>
        let th := thr s t in
        let fin (sh' : Sh) (lp : option ret) (m : mode) (l : Z) (p' : prog) :=
          match lp, t_op th with
          | Some r, Some o =>
              ST sh' (readers s) (writer s)
                 (upd (thr s) t (T (Ran m l p') (t_op th) (t_inv th) (Some r)))
                 (clock s + 1) (hist s) (lin s ++ [LP t (t_inv th) (clock s) o r])
          | _, _ =>
              ST sh' (readers s) (writer s) (upd (thr s) t (set_pc th (Ran m l p')))
                 (clock s + 1) (hist s) (lin s)
          end in
        match t_pc th with
        | Held (RSect l body) =>
            let '(lp, p') := body (sh s) in Some (fin (sh s) lp RMode l p')
        | Held (WSect l body) =>
            let '(sh', lp, p') := body (sh s) in Some (fin sh' lp WMode l p')
        | _ => None
        end
    | Release t =>
        let th := thr s t in
        match t_pc th with
        | Ran RMode l p' =>
            Some (ST (sh s) (upd (readers s) l (pred (readers s l))) (writer s)
                     (upd (thr s) t (set_pc th (Ready p')))
                     (clock s + 1) (hist s) (lin s))
        | Ran WMode l p' =>
            Some (ST (sh s) (readers s) (upd (writer s) l false)
                     (upd (thr s) t (set_pc th (Ready p')))
                     (clock s + 1) (hist s) (lin s))
        | _ => None
        end
    | Return t =>
        let th := thr s t in
        match t_pc th, t_op th with
        | Ready (Done r), Some o =>
            Some (ST (sh s) (readers s) (writer s) (upd (thr s) t (set_pc th Idle))
                     (clock s + 1) (hist s ++ [C (t_inv th) (clock s) t o r]) (lin s))
        | _, _ => None
        end
    end.

  (* a schedule is a list of events; [None]: some event was not enabled *)
  Fixpoint run (s : state) (es : list event) : option state :=
    match es with
    | [] => Some s
    | e :: es' => match step s e with Some s' => run s' es' | None => None end
    end.

  (* the calls that are invoked and have not returned *)
  Definition pending (s : state) (t i : Z) (o : Op) : Prop :=
    t_pc (thr s t) <> Idle /\ t_op (thr s t) = Some o /\ t_inv (thr s t) = i.

  Definition quiescent (s : state) : Prop := forall t, t_pc (thr s t) = Idle.

  (* one call run alone to completion by thread [t] (sequential replay) *)
  Fixpoint drive (fuel : nat) (s : state) (t : Z) : option state :=
    match fuel with
    | O => None
    | S f =>
        match t_pc (thr s t) with
        | Ready (Done _) => step s (Return t)
        | Ready _ =>
            match step s (Acquire t) with
            | Some s1 => match step s1 (Effect t) with
                         | Some s2 => match step s2 (Release t) with
                                      | Some s3 => drive f s3 t
                                      | None => None
                                      end
                         | None => None
                         end
            | None => None
            end
        | _ => None
        end
    end.

  Fixpoint seq_run (s : state) (ops : list Op) : option state :=
    match ops with
    | [] => Some s
    | o :: ops' => match step s (Invoke 0 o) with
                   | Some s1 => match drive 8 s1 0 with
                                | Some s2 => seq_run s2 ops'
                                | None => None
                                end
                   | None => None
                   end
    end.

  Definition seq_rets (ops : list Op) : option (list ret) :=
    match seq_run init ops with
    | Some s => Some (map c_ret (hist s))
    | None => None
    end.
End Sys.

Arguments Done {Sh} r.
Arguments RSect {Sh} l body.
Arguments WSect {Sh} l body.
Arguments Idle {Sh}.
Arguments Ready {Sh} p.
Arguments Held {Sh} p.
Arguments Ran {Sh} m l p.
Arguments Invoke {Op} t o.
Arguments Acquire {Op} t.
Arguments Effect {Op} t.
Arguments Release {Op} t.
Arguments Return {Op} t.
Arguments t_pc {Sh Op} _.
Arguments t_op {Sh Op} _.
Arguments t_inv {Sh Op} _.
Arguments t_lin {Sh Op} _.
Arguments sh {Sh Op} _.
Arguments readers {Sh Op} _ _.
Arguments writer {Sh Op} _ _.
Arguments thr {Sh Op} _ _.
Arguments clock {Sh Op} _.
Arguments hist {Sh Op} _.
Arguments lin {Sh Op} _.
Arguments l_tid {Op} _.
Arguments l_inv {Op} _.
Arguments l_lp {Op} _.
Arguments l_op {Op} _.
Arguments l_ret {Op} _.
Arguments LP {Op} _ _ _ _ _.

(* single-section methods *)
Definition rsec {Sh} (l : Z) (f : Sh -> ret) : prog Sh :=
  RSect l (fun s => let r := f s in (Some r, Done r)).
Definition wsec {Sh} (l : Z) (f : Sh -> Sh * ret) : prog Sh :=
  WSect l (fun s => let '(s', r) := f s in (s', Some r, Done r)).

(* Go's "v, ok := m[k]" *)
Definition load_ret (m : amap) (k : Z) : ret :=
  match afind k m with Some v => RVal v true | None => RVal 0 false end.

(* ------------------------------------------------------------------------------------ *)
(* cmap/map.go.  The shared state is the Go map [m.m] (as a finite map); lock 0 = [m.lock].
   Note [Keys] takes the WRITE lock in the code (map.go:91), [Range]/[Len]/[Load] the read lock.
   Go's map iteration order is unspecified: the model iterates in key order. *)

Definition map_code (o : map_op) : prog amap :=
  match o with
  | MStore k v => wsec 0 (fun m => (ains k v m, RUnit))              (* map.go:79-83 *)
  | MLoad k => rsec 0 (fun m => load_ret m k)                         (* map.go:54-59 *)
  | MDelete k => wsec 0 (fun m => (adel k m, RUnit))                  (* map.go:48-52 *)
  | MLoadAndDelete k => wsec 0 (fun m => (adel k m, load_ret m k))    (* map.go:61-67 *)
  | MLen => rsec 0 (fun m => RInt (alen m))                           (* map.go:85-89 *)
  | MKeys => wsec 0 (fun m => (m, RList (map fst m)))                 (* map.go:91-99 *)
  | MRange limit =>                                                   (* map.go:69-77 *)
      rsec 0 (fun m => RPairs (if limit <=? 0 then m else firstn (Z.to_nat limit) m))
  | MClear => wsec 0 (fun _ => ([], RUnit))                           (* map.go:42-46 *)
  end.

Definition map_init := init amap map_op map_s0.
Definition map_step := step amap map_op map_code (fun _ _ => true).
Definition map_run := run amap map_op map_code (fun _ _ => true).

(* ------------------------------------------------------------------------------------ *)
(* cmap/atomic.go.  Shared state: [a.items] (key -> pointer) and the heap of AtomicValue objects
   (identity -> value).  A new object gets the smallest identity above all existing ones. *)

Definition amax (m : amap) : Z := fold_right (fun p acc => Z.max (fst p) acc) 0 m.
Definition fresh_id (s : at_state) : Z := 1 + amax (a_vals s).

Definition at_code (o : at_op) : prog at_state :=
  match o with
  | AGet k => rsec 0 (fun s => load_ret (a_items s) k)                (* atomic.go:61-70 *)
  | AGetOrCreate k c =>                                               (* atomic.go:72-88 *)
      RSect 0 (fun s =>
        match afind k (a_items s) with
        | Some id => (Some (RVal id true), Done (RVal id true))
        | None =>
            (None,
             WSect 0 (fun s =>
               match afind k (a_items s) with
               | Some id => (s, Some (RVal id true), Done (RVal id true))
               | None =>
                   let id := fresh_id s in
                   (AS (ains k id (a_items s)) (ains id c (a_vals s)),
                    Some (RVal id true), Done (RVal id true))
               end))
        end)
  | ADelete k => wsec 0 (fun s => (AS (adel k (a_items s)) (a_vals s), RUnit))   (* :90-94 *)
  | AForEach => rsec 0 (fun s => RPairs (a_items s))                  (* atomic.go:96-102 *)
  | AClear => wsec 0 (fun s => (AS [] (a_vals s), RUnit))             (* atomic.go:104-108 *)
  | VLoad id =>                                                       (* atomic.go:27-31 *)
      rsec id (fun s => RInt (match afind id (a_vals s) with Some x => x | None => 0 end))
  | VStore id v =>                                                    (* atomic.go:33-37 *)
      wsec id (fun s => (AS (a_items s) (ains id v (a_vals s)), RUnit))
  | VAdd id d =>                                                      (* atomic.go:39-44 *)
      wsec id (fun s => let n := (match afind id (a_vals s) with Some x => x | None => 0 end) + d in
                        (AS (a_items s) (ains id n (a_vals s)), RInt n))
  end.

(* methods of a counter object can only be called through a pointer to an existing object *)
Definition at_can_invoke (s : at_state) (o : at_op) : bool :=
  match o with
  | VLoad id | VStore id _ | VAdd id _ =>
      match afind id (a_vals s) with Some _ => true | None => false end
  | _ => true
  end.

Definition at_init := init at_state at_op at_s0.
Definition at_step := step at_state at_op at_code at_can_invoke.
Definition at_run := run at_state at_op at_code at_can_invoke.

(* ------------------------------------------------------------------------------------ *)
(* slice/slice.go.  Shared state: [s.data]. *)

Definition sl_code (o : sl_op) : prog (list Z) :=
  match o with
  | SAppend items =>                                                  (* slice.go:34-39 *)
      wsec 0 (fun d => let d' := d ++ items in (d', RInt (Z.of_nat (length d'))))
  | SLen => rsec 0 (fun d => RInt (Z.of_nat (length d)))              (* slice.go:41-45 *)
  | SSlice => rsec 0 (fun d => RList d)                               (* slice.go:47-51 *)
  end.

Definition sl_init := init (list Z) sl_op sl_s0.
Definition sl_step := step (list Z) sl_op sl_code (fun _ _ => true).
Definition sl_run := run (list Z) sl_op sl_code (fun _ _ => true).

(* ------------------------------------------------------------------------------------ *)
(* Counter-models (NOT the code): variants with a broken section structure, used by the
   [_refuted] theorems to show that the structure matters.
   (a) LoadAndDelete as a read-locked Load followed by a separately locked Delete;
   (b) GetOrCreate without the re-check under the write lock. *)

Definition map_code_split (o : map_op) : prog amap :=
  match o with
  | MLoadAndDelete k =>
      RSect 0 (fun m => let r := load_ret m k in
                        (Some r, WSect 0 (fun m => (adel k m, None, Done r))))
  | _ => map_code o
  end.

Definition at_code_nocheck (o : at_op) : prog at_state :=
  match o with
  | AGetOrCreate k c =>
      RSect 0 (fun s =>
        match afind k (a_items s) with
        | Some id => (Some (RVal id true), Done (RVal id true))
        | None =>
            (None,
             WSect 0 (fun s =>
               let id := fresh_id s in
               (AS (ains k id (a_items s)) (ains id c (a_vals s)),
                Some (RVal id true), Done (RVal id true))))
        end)
  | _ => at_code o
  end.
