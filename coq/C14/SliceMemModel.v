(* C14 (concurrent half, ownership clause) — memory-level model of slice.Slice
   (/repo/concurrency/slice/slice.go) and of the caller the harness plays.  Definitions only.

   "Equivalent to an ordinary slice" includes what an ordinary [append] does with memory: it
   COPIES the items.  The caller may reuse the slice it spread into Append, and the container
   never writes into the caller's array (its spare capacity included).  To state this the model
   has Go's slice representation: arrays live in a memory [arr : address -> contents] (the
   length of the contents is the capacity of the array), a slice is nil or a header
   (array, len, cap) — offsets are always 0 here.

   [go_append] is the language's append: in place when the capacity suffices, else a fresh
   array of capacity >= the need (the growth policy [g] is a parameter: nothing observable
   depends on it), old elements and items copied.  The items are read before anything is
   written (memmove semantics).

   The caller is the harness's goroutine (harness/c14lin/exec.go: scratch): one buffer, array
   0, whose cells hold sentinels between calls; Append(buf[:n:n+spare]...), then the argument
   cells are checked and overwritten again. *)
From Coq Require Import List ZArith Bool Lia.
From Kit Require Import C14.LinSpec.
Import ListNotations.
Open Scope nat_scope.

Record mem := mk_mem { arr : nat -> list Z; mtop : nat }.
Record hdr := mk_hdr { h_arr : nat; h_len : nat; h_cap : nat }.
Definition gslice := option hdr.          (* None = nil *)

Definition write_at (l : list Z) (pos : nat) (xs : list Z) : list Z :=
  firstn pos l ++ xs ++ skipn (pos + length xs) l.

Definition set_arr (m : mem) (a : nat) (l : list Z) : mem :=
  mk_mem (fun x => if Nat.eqb x a then l else arr m x) (mtop m).

Definition alloc_arr (m : mem) (c : nat) : mem * nat :=
  (mk_mem (fun x => if Nat.eqb x (mtop m) then repeat 0%Z c else arr m x) (S (mtop m)), mtop m).

Definition read (m : mem) (h : hdr) : list Z := firstn (h_len h) (arr m (h_arr h)).

Definition glen (s : gslice) : nat := match s with Some h => h_len h | None => 0 end.
Definition gread (m : mem) (s : gslice) : list Z := match s with Some h => read m h | None => [] end.

(* the allocating branch of append: a fresh array of capacity >= need, everything copied *)
Definition go_grow (g : nat -> nat -> nat) (m : mem) (oldcap : nat) (old items : list Z) : mem * gslice :=
  let need := length old + length items in
  let c := Nat.max need (g oldcap need) in
  let '(m1, a) := alloc_arr m c in
  (set_arr m1 a (write_at (repeat 0%Z c) 0 (old ++ items)), Some (mk_hdr a need c)).

(* append(s, items...) *)
Definition go_append (g : nat -> nat -> nat) (m : mem) (s : gslice) (items : list Z) : mem * gslice :=
  let n := length items in
  match s with
  | Some h =>
      if Nat.leb (h_len h + n) (h_cap h)
      then (set_arr m (h_arr h) (write_at (arr m (h_arr h)) (h_len h) items),
            Some (mk_hdr (h_arr h) (h_len h + n) (h_cap h)))
      else go_grow g m (h_cap h) (read m h) items
  | None => if Nat.eqb n 0 then (m, None) else go_grow g m 0 [] items
  end.

(* func (s *slice[T]) Append(items ...T) int { s.data = append(s.data, items...); return len(s.data) }
   [adopt = true] is a COUNTER-model (seeded change C14-r5m2, not the code):
     if s.data == nil { s.data = items; return len(s.data) } *)
Definition sl_append_mem (adopt : bool) (g : nat -> nat -> nat) (m : mem) (data : gslice) (it : hdr)
  : mem * gslice :=
  match adopt, data with
  | true, None => (m, Some it)
  | _, _ => go_append g m data (read m it)
  end.

(* ------------------------------------------------------------------------------------- *)
(* the caller *)

Definition buf_cells : nat := 16.
Definition sentinel (i : nat) : Z := (- 1000000 - Z.of_nat i)%Z.
Definition sentinels : list Z := map sentinel (seq 0 buf_cells).

Inductive mop :=
| OwAppend (items : list Z) (spare : nat)   (* s.Append(buf[:n:n+spare]...) after copying items into buf *)
| OwLen
| OwSlice                                   (* the contents of s.Slice(), copied at once *)
| OwCheck.                                  (* the caller looks at its buffer *)

(* [pre]: the buffer held its sentinels before the call; [post]: after the call the argument
   cells still hold the items and the rest its sentinels *)
Inductive mout :=
| MoApp (n : Z) (pre post : bool)
| MoLen (n : Z)
| MoSlice (l : list Z)
| MoCheck (ok : bool).

Record mstate := mk_mstate { ms_mem : mem; ms_data : gslice }.

Definition mem_init : mstate :=
  mk_mstate (mk_mem (fun x => if Nat.eqb x 0 then sentinels else []) 1) None.

Definition mem_step (adopt : bool) (g : nat -> nat -> nat) (s : mstate) (o : mop) : mstate * mout :=
  let m := ms_mem s in
  match o with
  | OwAppend items spare =>
      let pre := eqb_zs (arr m 0) sentinels in
      let filled := write_at sentinels 0 items in
      let m1 := set_arr m 0 filled in
      let it := mk_hdr 0 (length items) (length items + spare) in
      let '(m2, d') := sl_append_mem adopt g m1 (ms_data s) it in
      let post := eqb_zs (arr m2 0) filled in
      (mk_mstate (set_arr m2 0 sentinels) d', MoApp (Z.of_nat (glen d')) pre post)
  | OwLen => (s, MoLen (Z.of_nat (glen (ms_data s))))
  | OwSlice => (s, MoSlice (gread m (ms_data s)))
  | OwCheck => (mk_mstate (set_arr m 0 sentinels) (ms_data s), MoCheck (eqb_zs (arr m 0) sentinels))
  end.

Fixpoint mem_steps (adopt : bool) (g : nat -> nat -> nat) (s : mstate) (prog : list mop) : list mout :=
  match prog with
  | [] => []
  | o :: prog' => let '(s', out) := mem_step adopt g s o in out :: mem_steps adopt g s' prog'
  end.

Definition mem_run (adopt : bool) (g : nat -> nat -> nat) (prog : list mop) : list mout :=
  mem_steps adopt g mem_init prog.

(* the growth policy used when the model is evaluated on recorded cases (any would do) *)
Definition g_double (_ need : nat) : nat := 2 * need.

(* ------------------------------------------------------------------------------------- *)
(* Specification (from the property text, not from the code): an ordinary slice.  Appending
   copies, so the caller's buffer is always found as the caller left it. *)
Definition own_step (d : list Z) (o : mop) : list Z * mout :=
  match o with
  | OwAppend items _ => (d ++ items, MoApp (Z.of_nat (length (d ++ items))) true true)
  | OwLen => (d, MoLen (Z.of_nat (length d)))
  | OwSlice => (d, MoSlice d)
  | OwCheck => (d, MoCheck true)
  end.

Fixpoint own_steps (d : list Z) (prog : list mop) : list mout :=
  match prog with
  | [] => []
  | o :: prog' => let '(d', out) := own_step d o in out :: own_steps d' prog'
  end.

Definition own_run (prog : list mop) : list mout := own_steps [] prog.

Definition own_spec (prog : list mop) (obs : list mout) : Prop := obs = own_run prog.

Definition mout_eqb (a b : mout) : bool :=
  match a, b with
  | MoApp n p q, MoApp n' p' q' => (n =? n')%Z && Bool.eqb p p' && Bool.eqb q q'
  | MoLen n, MoLen n' => (n =? n')%Z
  | MoSlice l, MoSlice l' => eqb_zs l l'
  | MoCheck b, MoCheck b' => Bool.eqb b b'
  | _, _ => false
  end.

Fixpoint mouts_eqb (a b : list mout) : bool :=
  match a, b with
  | [], [] => true
  | x :: a', y :: b' => mout_eqb x y && mouts_eqb a' b'
  | _, _ => false
  end.

Definition own_oracle (prog : list mop) (obs : list mout) : bool := mouts_eqb obs (own_run prog).
