(* C14 (concurrent half) — for EVERY schedule of the event-system model (C14/LinModel.v) the
   history of completed calls is linearizable (with the standard completion rule for the
   calls still pending).

   Generic part: if every residual program of every operation announces exactly one
   linearization point whose value is the value finally returned, and the body of that
   critical section is a legal step of the sequential specification on the shared state it
   runs on, then the order of the announced points is a linearization.  The witness is the
   ghost log; real-time order holds because a call's point lies between its invocation and its
   response stamp and the clock ticks at every event.  Mutual exclusion itself is not needed
   at this level: in the model the body of a critical section is ONE event (that IS the lock
   discipline: the whole effect of a method happens inside one critical section); what the
   proof checks is that no method spreads its effect over two sections — GetOrCreate, the only
   two-section method, re-checks under the write lock.

   Instances: cmap.Map, cmap.Atomic + AtomicValue, slice.Slice. *)
From Coq Require Import List ZArith Bool Lia Permutation Sorted.
From Kit Require Import C14.LinSpec C14.LinModel.
Import ListNotations.
Open Scope Z_scope.

Section Sched.
  Variables Sh Op : Type.
  Variable code : Op -> prog Sh.
  Variable can_invoke : Sh -> Op -> bool.
  Variable sh0 : Sh.
  Variable legal : Sh -> Op -> ret -> option Sh.
  (* an invariant of the shared state and a stable precondition per operation *)
  Variable good : Sh -> Prop.
  Variable pre : Op -> Sh -> Prop.

  Notation call := (call Op ret).
  Notation state := (state Sh Op).
  Notation thread := (thread Sh Op).
  Notation step := (step Sh Op code can_invoke).
  Notation run := (run Sh Op code can_invoke).
  Notation init := (init Sh Op sh0).

  Definition merge (ann lp : option ret) : option ret :=
    match lp with Some r => Some r | None => ann end.

  (* one critical section: it either announces (then nothing was announced before and the
     body is a legal step of the specification) or leaves the shared state alone *)
  Definition sect_ok (o : Op) (ann lp : option ret) (s s' : Sh) : Prop :=
    match lp with
    | Some r => ann = None /\ legal s o r = Some s'
    | None => s' = s
    end.

  Inductive okp (o : Op) : option ret -> prog Sh -> Prop :=
  | okp_done r : okp o (Some r) (Done r)
  | okp_r ann l body :
      (forall s lp p', good s -> pre o s -> body s = (lp, p') ->
         sect_ok o ann lp s s /\ okp o (merge ann lp) p') ->
      okp o ann (RSect l body)
  | okp_w ann l body :
      (forall s s' lp p', good s -> pre o s -> body s = (s', lp, p') ->
         sect_ok o ann lp s s' /\ good s' /\ (forall o2, pre o2 s -> pre o2 s') /\
         okp o (merge ann lp) p') ->
      okp o ann (WSect l body).

  Hypothesis good0 : good sh0.
  Hypothesis invoke_pre : forall s o, good s -> can_invoke s o = true -> pre o s.
  Hypothesis code_ok : forall o, okp o None (code o).

  (* ---------------------------------------------------------------------------------- *)
  (* small facts *)

  Lemma upd_same {A} (f : Z -> A) k v : upd f k v k = v.
  Proof. unfold upd. now rewrite Z.eqb_refl. Qed.

  Lemma upd_other {A} (f : Z -> A) k v x : x <> k -> upd f k v x = f x.
  Proof. intro H. unfold upd. destruct (x =? k) eqn:E; [apply Z.eqb_eq in E; contradiction | reflexivity]. Qed.

  Lemma legal_run_app (st : Sh) (l1 l2 : list call) :
    legal_run legal st (l1 ++ l2) =
    match legal_run legal st l1 with Some st' => legal_run legal st' l2 | None => None end.
  Proof.
    revert st; induction l1 as [|c l1 IH]; intro st; cbn; [reflexivity|].
    destruct (legal st (c_op c) (c_ret c)); [apply IH | reflexivity].
  Qed.

  Definition stamp_lt (a b : call * Z) : Prop := snd a < snd b.

  Lemma sorted_snoc (l : list (call * Z)) x :
    StronglySorted stamp_lt l -> (forall y, In y l -> stamp_lt y x) ->
    StronglySorted stamp_lt (l ++ [x]).
  Proof.
    induction 1 as [|a l S IH F]; intro H; cbn.
    - constructor; constructor.
    - constructor.
      + apply IH. intros y Hy. apply H. now right.
      + apply Forall_app. split; [exact F|]. constructor; [apply H; now left | constructor].
  Qed.

  (* calls ordered by a stamp lying between invocation and response respect real time *)
  Lemma rt_ok_stamped (l : list (call * Z)) :
    StronglySorted stamp_lt l ->
    (forall x, In x l -> c_inv (fst x) <= snd x /\ snd x < c_res (fst x)) ->
    rt_ok (map fst l).
  Proof.
    induction 1 as [|a l S IH F]; intro B; cbn; constructor.
    - rewrite Forall_forall in *. intros b Hb. apply in_map_iff in Hb as (y & <- & Hy).
      unfold precedes. pose proof (F y Hy) as L. unfold stamp_lt in L.
      destruct (B a (or_introl eq_refl)), (B y (or_intror Hy)). lia.
    - apply IH. intros x Hx. apply B. now right.
  Qed.

  Lemma NoDup_map_transfer {A B C} (f : A -> B) (g : A -> C) (l : list A) :
    NoDup (map f l) ->
    (forall x y, In x l -> In y l -> g x = g y -> f x = f y) ->
    NoDup (map g l).
  Proof.
    induction l as [|a l IH]; cbn; intros ND H; [constructor|].
    inversion ND as [|? ? NI ND']; subst. constructor.
    - intro Hin. apply in_map_iff in Hin as (y & E & Hy). apply NI.
      apply in_map_iff. exists y. split; [|exact Hy]. apply H; auto.
    - apply IH; [exact ND'|]. intros x y Hx Hy. apply H; auto.
  Qed.

  Lemma NoDup_snoc {A} (l : list A) x : NoDup l -> ~ In x l -> NoDup (l ++ [x]).
  Proof.
    induction l as [|a l IH]; cbn; intros ND NI; [constructor; [intros []|constructor]|].
    inversion ND; subst. constructor.
    - intro H. apply in_app_or in H as [H|[<-|[]]]; [contradiction | apply NI; now left].
    - apply IH; [assumption | intro; apply NI; now right].
  Qed.

  (* ---------------------------------------------------------------------------------- *)
  (* the invariant *)

  Definition pc_prog (p : pc Sh) : option (prog Sh) :=
    match p with Idle => None | Ready q | Held q | Ran _ _ q => Some q end.

  Lemma pc_prog_none p : pc_prog p = None <-> p = Idle.
  Proof. destruct p; cbn; split; intro H; try discriminate; reflexivity. Qed.

  Definition active (s : state) (t : Z) : Prop := t_pc (thr s t) <> Idle.

  Definition thr_ok (s : state) (t : Z) : Prop :=
    let th := thr s t in
    match pc_prog (t_pc th) with
    | None => True
    | Some p => exists o, t_op th = Some o /\ pre o (sh s) /\ okp o (t_lin th) p /\
                          t_inv th < clock s
    end.

  (* a call that has announced its effect and not yet returned, completed with the response
     stamp [fut tid] *)
  Definition pend_entry (s : state) (fut : Z -> Z) (c : call) : Prop :=
    let th := thr s (c_tid c) in
    t_pc th <> Idle /\ t_inv th = c_inv c /\ t_op th = Some (c_op c) /\
    t_lin th = Some (c_ret c) /\ c_res c = fut (c_tid c).

  Definition Wit (s : state) (fut : Z -> Z) (l : list (call * Z)) (ext : list call) : Prop :=
    legal_run legal sh0 (map fst l) = Some (sh s) /\
    StronglySorted stamp_lt l /\
    (forall x, In x l -> c_inv (fst x) <= snd x /\ snd x < c_res (fst x) /\ snd x < clock s) /\
    Permutation (map fst l) (hist s ++ ext) /\
    Forall (pend_entry s fut) ext /\
    NoDup (map (@c_tid Op ret) ext) /\
    (forall t, active s t -> t_lin (thr s t) <> None -> In t (map (@c_tid Op ret) ext)).

  Definition Inv (s : state) : Prop :=
    good (sh s) /\
    (forall t, thr_ok s t) /\
    (forall t1 t2, active s t1 -> active s t2 -> t1 <> t2 ->
                   t_inv (thr s t1) <> t_inv (thr s t2)) /\
    (forall fut, (forall t, clock s <= fut t) -> exists l ext, Wit s fut l ext).

  Lemma inv_init : Inv init.
  Proof.
    split; [exact good0|]. split; [intro t; exact I|]. split.
    - intros t1 t2 A. now elim A.
    - intros fut _. exists [], []. unfold Wit. cbn.
      split; [reflexivity|]. split; [constructor|]. split; [intros x []|].
      split; [constructor|]. split; [constructor|]. split; [constructor|].
      intros t A. now elim A.
  Qed.

  (* a step that changes neither the shared state nor the history nor any announcement *)
  Lemma wit_frame s s' fut l ext :
    Wit s fut l ext ->
    sh s' = sh s -> hist s' = hist s -> clock s <= clock s' ->
    (forall c, In c ext -> pend_entry s fut c -> pend_entry s' fut c) ->
    (forall t, active s' t -> t_lin (thr s' t) <> None ->
               active s t /\ t_lin (thr s t) <> None) ->
    Wit s' fut l ext.
  Proof.
    intros (L & S & B & P & F & ND & A) Esh Eh Ec Hp Ha. unfold Wit.
    rewrite Esh, Eh. repeat split; try assumption.
    - now apply B.
    - now apply B.
    - destruct (B x H) as (_ & _ & H'). lia.
    - rewrite Forall_forall in *. intros c Hc. apply Hp; [exact Hc | now apply F].
    - intros t H1 H2. destruct (Ha t H1 H2). now apply A.
  Qed.

  (* the program counter of thread t moves inside one call, nothing else happens *)
  Lemma inv_pc_change s s' t P' :
    Inv s ->
    pc_prog P' = pc_prog (t_pc (thr s t)) -> pc_prog P' <> None ->
    thr s' = upd (thr s) t (set_pc Sh Op (thr s t) P') ->
    sh s' = sh s -> hist s' = hist s -> clock s' = clock s + 1 ->
    Inv s'.
  Proof.
    intros (G & TO & DI & W) Epc Hne Ethr Esh Eh Ec.
    assert (Hact : forall x, active s' x <-> active s x).
    { intro x. unfold active. rewrite Ethr. destruct (Z.eq_dec x t) as [->|N].
      - rewrite upd_same. cbn. rewrite <- !pc_prog_none. rewrite Epc. tauto.
      - now rewrite upd_other. }
    assert (Hinv : forall x, t_inv (thr s' x) = t_inv (thr s x) /\
                             t_op (thr s' x) = t_op (thr s x) /\
                             t_lin (thr s' x) = t_lin (thr s x)).
    { intro x. rewrite Ethr. destruct (Z.eq_dec x t) as [->|N].
      - rewrite upd_same. cbn. tauto.
      - now rewrite upd_other. }
    split; [now rewrite Esh|]. split; [|split].
    - intro x. unfold thr_ok. destruct (Hinv x) as (E1 & E2 & E3). rewrite E1, E2, E3, Esh, Ec.
      specialize (TO x). unfold thr_ok in TO.
      assert (Ep : pc_prog (t_pc (thr s' x)) = pc_prog (t_pc (thr s x))).
      { rewrite Ethr. destruct (Z.eq_dec x t) as [->|N]; [rewrite upd_same; exact Epc | now rewrite upd_other]. }
      rewrite Ep. destruct (pc_prog (t_pc (thr s x))); [|exact I].
      destruct TO as (o & H1 & H2 & H3 & H4). exists o. repeat split; try assumption. lia.
    - intros t1 t2 A1 A2 N. rewrite (proj1 (Hinv t1)), (proj1 (Hinv t2)).
      apply DI; [now apply Hact | now apply Hact | exact N].
    - intros fut Hf. destruct (W fut) as (l & ext & Wt); [intro x; specialize (Hf x); lia|].
      exists l, ext. apply (wit_frame s s' fut l ext Wt Esh Eh); [lia| |].
      + intros c _ (P1 & P2 & P3 & P4 & P5). unfold pend_entry.
        destruct (Hinv (c_tid c)) as (E1 & E2 & E3). rewrite E1, E2, E3.
        repeat split; try assumption. now apply Hact.
      + intros x A1 A2. rewrite (proj2 (proj2 (Hinv x))) in A2. split; [now apply Hact | exact A2].
  Qed.

  (* Invoke *)
  Lemma inv_invoke s s' t o :
    Inv s -> t_pc (thr s t) = Idle -> can_invoke (sh s) o = true ->
    thr s' = upd (thr s) t (T Sh Op (Ready (code o)) (Some o) (clock s) None) ->
    sh s' = sh s -> hist s' = hist s -> clock s' = clock s + 1 ->
    Inv s'.
  Proof.
    intros (G & TO & DI & W) Eidle Ecan Ethr Esh Eh Ec.
    assert (Hother : forall x, x <> t -> thr s' x = thr s x).
    { intros x N. rewrite Ethr. now apply upd_other. }
    assert (Ht : thr s' t = T Sh Op (Ready (code o)) (Some o) (clock s) None).
    { rewrite Ethr. apply upd_same. }
    assert (Hinv_lt : forall x, active s x -> t_inv (thr s x) < clock s).
    { intros x A. specialize (TO x). unfold thr_ok in TO. unfold active in A.
      destruct (pc_prog (t_pc (thr s x))) eqn:E; [|apply pc_prog_none in E; contradiction].
      destruct TO as (? & _ & _ & _ & H). exact H. }
    split; [now rewrite Esh|]. split; [|split].
    - intro x. unfold thr_ok. destruct (Z.eq_dec x t) as [->|N].
      + rewrite Ht. cbn. exists o. rewrite Esh, Ec. repeat split; [now apply invoke_pre | apply code_ok | lia].
      + rewrite (Hother x N), Esh, Ec. specialize (TO x). unfold thr_ok in TO.
        destruct (pc_prog (t_pc (thr s x))); [|exact I].
        destruct TO as (o' & H1 & H2 & H3 & H4). exists o'. repeat split; try assumption. lia.
    - intros t1 t2 A1 A2 N. unfold active in A1, A2.
      destruct (Z.eq_dec t1 t) as [->|N1]; destruct (Z.eq_dec t2 t) as [->|N2]; try contradiction.
      + rewrite Ht, (Hother t2 N2) in *. cbn. pose proof (Hinv_lt t2 A2). lia.
      + rewrite Ht, (Hother t1 N1) in *. cbn. pose proof (Hinv_lt t1 A1). lia.
      + rewrite (Hother t1 N1), (Hother t2 N2) in *. now apply DI.
    - intros fut Hf. destruct (W fut) as (l & ext & Wt); [intro x; specialize (Hf x); lia|].
      exists l, ext. apply (wit_frame s s' fut l ext Wt Esh Eh); [lia| |].
      + intros c _ P. unfold pend_entry in *. destruct P as (P1 & P').
        assert (N : c_tid c <> t) by (intros E; rewrite E in P1; contradiction).
        rewrite (Hother _ N). split; assumption.
      + intros x A1 A2. destruct (Z.eq_dec x t) as [->|N].
        * rewrite Ht in A2. cbn in A2. now elim A2.
        * unfold active in *. rewrite (Hother x N) in *. split; assumption.
  Qed.

  (* the body of a critical section *)
  Lemma inv_effect s s' t o sec p' lp sh' m k :
    Inv s ->
    t_pc (thr s t) = Held sec -> t_op (thr s t) = Some o ->
    sect_ok o (t_lin (thr s t)) lp (sh s) sh' -> good sh' ->
    (forall o2, pre o2 (sh s) -> pre o2 sh') ->
    okp o (merge (t_lin (thr s t)) lp) p' ->
    sh s' = sh' ->
    thr s' = upd (thr s) t (T Sh Op (Ran m k p') (Some o) (t_inv (thr s t))
                              (merge (t_lin (thr s t)) lp)) ->
    hist s' = hist s -> clock s' = clock s + 1 ->
    Inv s'.
  Proof.
    intros (G & TO & DI & W) Epc Eop SO G' PP OK' Esh Ethr Eh Ec.
    set (th := thr s t) in *.
    assert (Hother : forall x, x <> t -> thr s' x = thr s x).
    { intros x N. rewrite Ethr. now apply upd_other. }
    assert (Ht : thr s' t = T Sh Op (Ran m k p') (Some o) (t_inv th) (merge (t_lin th) lp)).
    { rewrite Ethr. apply upd_same. }
    assert (At : active s t) by (unfold active; fold th; rewrite Epc; discriminate).
    assert (Hinvt : t_inv th < clock s).
    { specialize (TO t). unfold thr_ok in TO. fold th in TO. rewrite Epc in TO. cbn in TO.
      destruct TO as (? & _ & _ & _ & H). exact H. }
    assert (Hact : forall x, active s' x <-> active s x).
    { intro x. unfold active. destruct (Z.eq_dec x t) as [->|N].
      - rewrite Ht. cbn. fold th. rewrite Epc. split; discriminate.
      - now rewrite (Hother x N). }
    assert (Hinv : forall x, t_inv (thr s' x) = t_inv (thr s x)).
    { intro x. destruct (Z.eq_dec x t) as [->|N]; [now rewrite Ht | now rewrite (Hother x N)]. }
    split; [now rewrite Esh|]. split; [|split].
    - intro x. unfold thr_ok. destruct (Z.eq_dec x t) as [->|N].
      + rewrite Ht. cbn. exists o. rewrite Esh, Ec. repeat split; try assumption; [|lia].
        apply PP. specialize (TO t). unfold thr_ok in TO. fold th in TO. rewrite Epc in TO. cbn in TO.
        destruct TO as (o' & H1 & H2 & _). rewrite Eop in H1. now inversion H1; subst.
      + rewrite (Hother x N), Esh, Ec. specialize (TO x). unfold thr_ok in TO.
        destruct (pc_prog (t_pc (thr s x))); [|exact I].
        destruct TO as (o' & H1 & H2 & H3 & H4). exists o'. repeat split; try assumption; [now apply PP | lia].
    - intros t1 t2 A1 A2 N. rewrite !Hinv. apply DI; [now apply Hact | now apply Hact | exact N].
    - intros fut Hf. destruct (W fut) as (l & ext & Wt); [intro x; specialize (Hf x); lia|].
      destruct lp as [r|]; cbn [merge sect_ok] in *.
      + (* the linearization point of the call of thread t *)
        destruct SO as [Enone Elegal].
        destruct Wt as (L & S & B & P & F & ND & A).
        set (c := C (t_inv th) (fut t) t o r).
        assert (NIt : ~ In t (map (@c_tid Op ret) ext)).
        { intro Hin. apply in_map_iff in Hin as (c' & Etid & Hc').
          rewrite Forall_forall in F. destruct (F c' Hc') as (_ & _ & _ & H4 & _).
          rewrite Etid in H4. fold th in H4. congruence. }
        exists (l ++ [(c, clock s)]), (ext ++ [c]). unfold Wit.
        split; [|split; [|split; [|split; [|split; [|split]]]]].
        * rewrite map_app, legal_run_app, L. cbn. rewrite Elegal. now rewrite Esh.
        * apply sorted_snoc; [exact S|]. intros y Hy. unfold stamp_lt. cbn.
          now destruct (B y Hy) as (_ & _ & H).
        * intros x Hx. apply in_app_or in Hx as [Hx|[<-|[]]].
          -- destruct (B x Hx) as (H1 & H2 & H3). repeat split; try assumption. lia.
          -- cbn. specialize (Hf t). repeat split; lia.
        * rewrite map_app, Eh. cbn [map fst]. rewrite app_assoc.
          now apply Permutation_app_tail.
        * apply Forall_app. split.
          -- rewrite Forall_forall in *. intros c' Hc'. destruct (F c' Hc') as (P1 & P2 & P3 & P4 & P5).
             assert (N : c_tid c' <> t).
             { intros E. apply NIt. apply in_map_iff. exists c'. split; [exact E | exact Hc']. }
             unfold pend_entry. rewrite (Hother _ N). repeat split; assumption.
          -- constructor; [|constructor]. unfold pend_entry. cbn. rewrite Ht. cbn.
             repeat split. discriminate.
        * rewrite map_app. cbn. now apply NoDup_snoc.
        * intros x A1 A2. rewrite map_app. apply in_or_app.
          destruct (Z.eq_dec x t) as [->|N]; [right; now left|]. left.
          unfold active in A1. rewrite (Hother x N) in *. now apply A.
      + (* no announcement: the shared state is unchanged *)
        subst sh'. exists l, ext. apply (wit_frame s s' fut l ext Wt Esh Eh); [lia| |].
        * intros c' _ (P1 & P2 & P3 & P4 & P5). unfold pend_entry.
          destruct (Z.eq_dec (c_tid c') t) as [E|N].
          -- rewrite E in *. rewrite Ht. cbn. fold th in P2, P3, P4. rewrite Eop in P3.
             repeat split; try assumption. discriminate.
          -- rewrite (Hother _ N). repeat split; assumption.
        * intros x A1 A2. split; [now apply Hact|].
          destruct (Z.eq_dec x t) as [->|N]; [now rewrite Ht in A2 | now rewrite (Hother x N) in A2].
  Qed.

  (* Return *)
  Lemma inv_return s s' t o r :
    Inv s -> t_pc (thr s t) = Ready (Done r) -> t_op (thr s t) = Some o ->
    thr s' = upd (thr s) t (set_pc Sh Op (thr s t) Idle) ->
    sh s' = sh s -> hist s' = hist s ++ [C (t_inv (thr s t)) (clock s) t o r] ->
    clock s' = clock s + 1 ->
    Inv s'.
  Proof.
    intros (G & TO & DI & W) Epc Eop Ethr Esh Eh Ec.
    set (th := thr s t) in *.
    assert (Hother : forall x, x <> t -> thr s' x = thr s x).
    { intros x N. rewrite Ethr. now apply upd_other. }
    assert (Ht : t_pc (thr s' t) = Idle) by (rewrite Ethr, upd_same; reflexivity).
    assert (At : active s t) by (unfold active; fold th; rewrite Epc; discriminate).
    assert (Elin : t_lin th = Some r).
    { specialize (TO t). unfold thr_ok in TO. fold th in TO. rewrite Epc in TO. cbn in TO.
      destruct TO as (o' & _ & _ & H & _). now inversion H. }
    assert (Hact : forall x, active s' x -> active s x /\ x <> t).
    { intros x A. destruct (Z.eq_dec x t) as [->|N]; [now elim A|].
      unfold active in *. now rewrite (Hother x N) in A. }
    split; [now rewrite Esh|]. split; [|split].
    - intro x. unfold thr_ok. destruct (Z.eq_dec x t) as [->|N]; [now rewrite Ht|].
      rewrite (Hother x N), Esh, Ec. specialize (TO x). unfold thr_ok in TO.
      destruct (pc_prog (t_pc (thr s x))); [|exact I].
      destruct TO as (o' & H1 & H2 & H3 & H4). exists o'. repeat split; try assumption. lia.
    - intros t1 t2 A1 A2 N. destruct (Hact t1 A1) as [B1 N1], (Hact t2 A2) as [B2 N2].
      rewrite (Hother t1 N1), (Hother t2 N2). now apply DI.
    - intros fut' Hf.
      set (fut := fun x => if x =? t then clock s else fut' x).
      destruct (W fut) as (l & ext & (L & S & B & P & F & ND & A)).
      { intro x. unfold fut. destruct (x =? t); [lia | specialize (Hf x); lia]. }
      assert (Hin : In t (map (@c_tid Op ret) ext)) by (apply A; [exact At | fold th; congruence]).
      apply in_map_iff in Hin as (c & Etid & Hc).
      apply in_split in Hc as (e1 & e2 & ->).
      assert (Ec' : c = C (t_inv th) (clock s) t o r).
      { rewrite Forall_forall in F. destruct (F c) as (_ & P2 & P3 & P4 & P5).
        { apply in_or_app. right. now left. }
        rewrite Etid in *. fold th in P2, P3, P4. unfold fut in P5. rewrite Z.eqb_refl in P5.
        destruct c as [ci cr ct co cret]. cbn in *. subst ct. f_equal; congruence. }
      rewrite map_app in ND. cbn [map] in ND. rewrite Etid in ND.
      assert (NIt : ~ In t (map (@c_tid Op ret) (e1 ++ e2))).
      { rewrite map_app. now apply NoDup_remove_2 in ND. }
      exists l, (e1 ++ e2). unfold Wit.
      split; [|split; [|split; [|split; [|split; [|split]]]]].
      + now rewrite Esh.
      + exact S.
      + intros x Hx. destruct (B x Hx) as (H1 & H2 & H3). repeat split; try assumption. lia.
      + rewrite Eh, <- Ec'. eapply perm_trans; [exact P|].
        rewrite <- app_assoc. apply Permutation_app_head. cbn [app].
        apply Permutation_sym, Permutation_middle.
      + rewrite Forall_forall in *. intros c' Hc'.
        assert (N : c_tid c' <> t).
        { intros E. apply NIt. apply in_map_iff. exists c'. split; [exact E | exact Hc']. }
        destruct (F c') as (P1 & P2 & P3 & P4 & P5).
        { apply in_app_or in Hc' as [H|H]; apply in_or_app; [now left | right; now right]. }
        unfold pend_entry. rewrite (Hother _ N). repeat split; try assumption.
        rewrite P5. unfold fut. destruct (c_tid c' =? t) eqn:E; [apply Z.eqb_eq in E; contradiction | reflexivity].
      + rewrite map_app. now apply NoDup_remove_1 in ND.
      + intros x A1 A2. destruct (Hact x A1) as [B1 N1]. rewrite (Hother x N1) in A2.
        specialize (A x B1 A2). rewrite map_app in *. cbn [map] in A. rewrite Etid in A.
        apply in_app_or in A as [H|[H|H]]; apply in_or_app; [now left | congruence | now right].
  Qed.

  Lemma step_inv s e s' : Inv s -> step s e = Some s' -> Inv s'.
  Proof.
    intros HI. pose proof HI as (G & TO & _ & _). unfold LinModel.step.
    destruct e as [t o|t|t|t|t].
    - (* Invoke *)
      destruct (t_pc (thr s t)) eqn:Epc; try discriminate.
      destruct (can_invoke (sh s) o) eqn:Ecan; [|discriminate].
      intro H; inversion H; subst s'; clear H.
      apply (inv_invoke s _ t o HI Epc Ecan); reflexivity.
    - (* Acquire *)
      destruct (t_pc (thr s t)) as [|p|p|m k p] eqn:Epc; try discriminate.
      destruct p as [r|k body|k body]; try discriminate.
      + destruct (writer s k); [discriminate|].
        intro H; inversion H; subst s'; clear H.
        apply (inv_pc_change s _ t (Held (RSect k body)) HI); try reflexivity; [|discriminate].
        now rewrite Epc.
      + destruct (writer s k); [discriminate|]. destruct (readers s k); [|discriminate].
        intro H; inversion H; subst s'; clear H.
        apply (inv_pc_change s _ t (Held (WSect k body)) HI); try reflexivity; [|discriminate].
        now rewrite Epc.
    - (* Effect *)
      destruct (t_pc (thr s t)) as [|p|p|m k p] eqn:Epc; try discriminate.
      pose proof (TO t) as TOt. unfold thr_ok in TOt. rewrite Epc in TOt. cbn [pc_prog] in TOt.
      destruct TOt as (o & Eop & Hpre & Hok & _).
      destruct p as [r|k body|k body]; try discriminate.
      + destruct (body (sh s)) as [lp p'] eqn:Eb.
        inversion Hok as [|ann k' body' Hb|]; subst.
        destruct (Hb (sh s) lp p' G Hpre Eb) as [SO OK'].
        intro H; inversion H; subst s'; clear H.
        apply (inv_effect s _ t o (RSect k body) p' lp (sh s) RMode k HI Epc Eop SO G
                 (fun _ H => H) OK'); rewrite Eop; destruct lp; try reflexivity.
        cbn. unfold set_pc. now rewrite Eop.
      + destruct (body (sh s)) as [[sh' lp] p'] eqn:Eb.
        inversion Hok as [| |ann k' body' Hb]; subst.
        destruct (Hb (sh s) sh' lp p' G Hpre Eb) as (SO & G' & PP & OK').
        intro H; inversion H; subst s'; clear H.
        apply (inv_effect s _ t o (WSect k body) p' lp sh' WMode k HI Epc Eop SO G' PP OK');
          rewrite Eop; destruct lp; try reflexivity.
        cbn. unfold set_pc. now rewrite Eop.
    - (* Release *)
      destruct (t_pc (thr s t)) as [|p|p|m k p] eqn:Epc; try discriminate.
      destruct m; intro H; inversion H; subst s'; clear H;
        apply (inv_pc_change s _ t (Ready p) HI); try reflexivity; try discriminate;
        now rewrite Epc.
    - (* Return *)
      destruct (t_pc (thr s t)) as [|p|p|m k p] eqn:Epc; try discriminate.
      destruct p as [r|k body|k body]; try discriminate.
      destruct (t_op (thr s t)) as [o|] eqn:Eop; [|discriminate].
      intro H; inversion H; subst s'; clear H.
      apply (inv_return s _ t o r HI Epc Eop); reflexivity.
  Qed.

  Lemma run_inv es : forall s s', Inv s -> run s es = Some s' -> Inv s'.
  Proof.
    induction es as [|e es IH]; intros s s' HI; cbn [LinModel.run].
    - intro H; inversion H; now subst.
    - destruct (step s e) as [s1|] eqn:E; [|discriminate]. apply IH. now apply (step_inv s e).
  Qed.

  (* EVERY schedule: the history of completed calls, together with the calls still pending
     (standard completion rule), is linearizable w.r.t. the sequential specification *)
  Theorem sched_linearizable : forall es s, run init es = Some s ->
    forall pend, (forall t i o, pending Sh Op s t i o -> In (t, i, o) pend) ->
    linearizable_pending sh0 legal (hist s) (clock s) pend.
  Proof.
    intros es s R pend Hp.
    destruct (run_inv es init s inv_init R) as (_ & _ & DI & W).
    destruct (W (fun _ => clock s)) as (l & ext & (L & S & B & P & F & ND & _)); [intro; lia|].
    exists ext. split; [|split].
    - rewrite Forall_forall in *. intros c Hc. destruct (F c Hc) as (P1 & P2 & P3 & P4 & P5).
      split; [|lia]. apply Hp. unfold pending. repeat split; assumption.
    - apply (NoDup_map_transfer (@c_tid Op ret) (@c_inv Op ret) ext ND).
      intros x y Hx Hy E. rewrite Forall_forall in F.
      destruct (F x Hx) as (X1 & X2 & _), (F y Hy) as (Y1 & Y2 & _).
      destruct (Z.eq_dec (c_tid x) (c_tid y)) as [E'|N]; [exact E'|].
      elim (DI _ _ X1 Y1 N). congruence.
    - exists (map fst l). split; [exact P|]. split.
      + apply rt_ok_stamped; [exact S|]. intros x Hx. destruct (B x Hx) as (H1 & H2 & _). now split.
      + now exists (sh s).
  Qed.

  (* in particular, whenever no call is in flight the recorded history itself is linearizable *)
  Corollary sched_linearizable_quiescent : forall es s, run init es = Some s ->
    quiescent Sh Op s -> linearizable sh0 legal (hist s).
  Proof.
    intros es s R Q.
    destruct (run_inv es init s inv_init R) as (_ & _ & DI & W).
    destruct (W (fun _ => clock s)) as (l & ext & (L & S & B & P & F & ND & _)); [intro; lia|].
    assert (ext = []).
    { destruct ext as [|c ext]; [reflexivity|]. inversion F as [|? ? (P1 & _) _]; subst.
      elim P1. apply Q. }
    subst ext. rewrite app_nil_r in P.
    exists (map fst l). split; [exact P|]. split.
    - apply rt_ok_stamped; [exact S|]. intros x Hx. destruct (B x Hx) as (H1 & H2 & _). now split.
    - now exists (sh s).
  Qed.

  (* single-section methods *)
  Lemma okp_rsec o l (f : Sh -> ret) :
    (forall s, good s -> pre o s -> legal s o (f s) = Some s) -> okp o None (rsec l f).
  Proof.
    intro H. unfold rsec. apply okp_r. intros s lp p' G P E. inversion E; subst.
    split; [split; [reflexivity | now apply H] | constructor].
  Qed.

  Lemma okp_wsec o l (f : Sh -> Sh * ret) :
    (forall s s' r, good s -> pre o s -> f s = (s', r) ->
       legal s o r = Some s' /\ good s' /\ (forall o2, pre o2 s -> pre o2 s')) ->
    okp o None (wsec l f).
  Proof.
    intro H. unfold wsec. apply okp_w. intros s s' lp p' G P E.
    destruct (f s) as [s1 r] eqn:Ef. inversion E; subst.
    destruct (H s s' r G P Ef) as (H1 & H2 & H3).
    split; [split; [reflexivity | exact H1]|]. split; [exact H2|]. split; [exact H3 | constructor].
  Qed.
End Sched.

(* ------------------------------------------------------------------------------------ *)
(* facts about association lists *)

Lemma eqb_zs_refl l : eqb_zs l l = true.
Proof. induction l as [|x l IH]; cbn; [reflexivity|]. now rewrite Z.eqb_refl. Qed.

Lemma eqb_pairs_refl m : eqb_pairs m m = true.
Proof. induction m as [|[k v] m IH]; cbn; [reflexivity|]. now rewrite !Z.eqb_refl. Qed.

Lemma lookup_ok_load m k :
  match load_ret m k with RVal v ok => lookup_ok m k v ok = true | _ => False end.
Proof.
  unfold load_ret, lookup_ok. destruct (afind k m); cbn; now rewrite ?Z.eqb_refl.
Qed.

Definition lo_ok (lo : option Z) (k : Z) : bool :=
  match lo with Some l => l <? k | None => true end.

Lemma keys_incr_cons lo k v m :
  keys_incr lo ((k, v) :: m) = lo_ok lo k && keys_incr (Some k) m.
Proof. reflexivity. Qed.

Lemma keys_incr_weaken m lo lo' :
  keys_incr lo m = true -> (forall k, lo_ok lo k = true -> lo_ok lo' k = true) ->
  keys_incr lo' m = true.
Proof.
  destruct m as [|[k v] m]; [reflexivity|]. rewrite !keys_incr_cons, !andb_true_iff.
  intros [H1 H2] W. split; [now apply W | exact H2].
Qed.

Lemma keys_incr_ains k v : forall m lo,
  keys_incr lo m = true -> lo_ok lo k = true -> keys_incr lo (ains k v m) = true.
Proof.
  induction m as [|[k' v'] m IH]; intros lo H Hlo; cbn [ains].
  - rewrite keys_incr_cons, Hlo. reflexivity.
  - rewrite keys_incr_cons, andb_true_iff in H. destruct H as [H1 H2].
    destruct (k <? k') eqn:E1.
    + rewrite !keys_incr_cons, Hlo, H2. cbn. now rewrite E1.
    + destruct (k =? k') eqn:E2.
      * apply Z.eqb_eq in E2. subst k'. now rewrite keys_incr_cons, Hlo, H2.
      * rewrite keys_incr_cons, H1. cbn. apply IH; [exact H2 | cbn; lia].
Qed.

Lemma keys_incr_adel k : forall m lo, keys_incr lo m = true -> keys_incr lo (adel k m) = true.
Proof.
  induction m as [|[k' v'] m IH]; intros lo H; cbn [adel]; [reflexivity|].
  rewrite keys_incr_cons, andb_true_iff in H. destruct H as [H1 H2].
  destruct (k =? k').
  - apply IH. apply (keys_incr_weaken m (Some k')); [exact H2|].
    intros x Hx. destruct lo as [l|]; cbn in *; [lia | reflexivity].
  - rewrite keys_incr_cons, H1. cbn. now apply IH.
Qed.

Lemma keys_incr_firstn n : forall m lo,
  keys_incr lo m = true -> keys_incr lo (firstn n m) = true.
Proof.
  induction n as [|n IH]; intros [|[k v] m] lo H; cbn [firstn]; try reflexivity.
  rewrite keys_incr_cons, andb_true_iff in *. destruct H as [H1 H2]. split; [exact H1 | now apply IH].
Qed.

Lemma keys_lb : forall m lo k v, keys_incr (Some lo) m = true -> In (k, v) m -> lo < k.
Proof.
  induction m as [|[k' v'] m IH]; intros lo k v H Hin; [destruct Hin|].
  rewrite keys_incr_cons, andb_true_iff in H. destruct H as [H1 H2]. cbn in H1.
  destruct Hin as [E|Hin]; [inversion E; subst; lia|].
  pose proof (IH k' k v H2 Hin). lia.
Qed.

Lemma afind_sorted_in : forall m lo k v,
  keys_incr lo m = true -> In (k, v) m -> afind k m = Some v.
Proof.
  induction m as [|[k' v'] m IH]; intros lo k v H Hin; [destruct Hin|].
  rewrite keys_incr_cons, andb_true_iff in H. destruct H as [H1 H2]. cbn [afind].
  destruct Hin as [E|Hin].
  - inversion E; subst. now rewrite Z.eqb_refl.
  - pose proof (keys_lb m k' k v H2 Hin). replace (k =? k') with false by lia.
    now apply (IH (Some k')).
Qed.

Lemma in_firstn {A} (x : A) n : forall l, In x (firstn n l) -> In x l.
Proof.
  induction n as [|n IH]; intros [|a l]; cbn; try tauto. intros [H|H]; [now left | right; now apply IH].
Qed.

Lemma pairs_in_firstn n m : keys_incr None m = true -> pairs_in (firstn n m) m = true.
Proof.
  intro H. unfold pairs_in. apply forallb_forall. intros [k v] Hin. cbn.
  rewrite (afind_sorted_in m None k v H (in_firstn _ n m Hin)). apply Z.eqb_refl.
Qed.

Lemma amax_nonneg m : 0 <= amax m.
Proof. induction m as [|[k v] m IH]; unfold amax in *; cbn [fold_right fst]; lia. Qed.

Lemma afind_above_amax : forall m k, amax m < k -> afind k m = None.
Proof.
  induction m as [|[k' v'] m IH]; intros k H; unfold amax in *; cbn [fold_right fst afind] in *;
    [reflexivity|].
  replace (k =? k') with false by lia. apply IH. lia.
Qed.

Lemma afind_ains_mono id k v : forall m, afind id m <> None -> afind id (ains k v m) <> None.
Proof.
  induction m as [|[k' v'] m IH]; cbn [ains afind]; intro H; [now elim H|].
  destruct (k <? k').
  - cbn [afind]. destruct (id =? k); [discriminate | exact H].
  - destruct (k =? k') eqn:E.
    + apply Z.eqb_eq in E. subst k'. cbn [afind]. destruct (id =? k); [discriminate | exact H].
    + cbn [afind]. destruct (id =? k'); [discriminate | now apply IH].
Qed.

(* ------------------------------------------------------------------------------------ *)
(* cmap.Map *)

Definition map_good (m : amap) : Prop := keys_incr None m = true.
Definition no_pre {Sh Op} (_ : Op) (_ : Sh) : Prop := True.

Lemma map_code_ok o : okp amap map_op map_legal map_good no_pre o None (map_code o).
Proof.
  destruct o as [k v|k|k|k| | |limit|]; cbn [map_code].
  - apply okp_wsec. intros m m' r G _ E. inversion E; subst. cbn. repeat split; auto.
    now apply keys_incr_ains.
  - apply okp_rsec. intros m G _. pose proof (lookup_ok_load m k) as H.
    destruct (load_ret m k); try contradiction. cbn. now rewrite H.
  - apply okp_wsec. intros m m' r G _ E. inversion E; subst. cbn. repeat split; auto.
    now apply keys_incr_adel.
  - apply okp_wsec. intros m m' r G _ E. inversion E; subst.
    pose proof (lookup_ok_load m k) as H. destruct (load_ret m k); try contradiction.
    cbn. rewrite H. repeat split; auto. now apply keys_incr_adel.
  - apply okp_rsec. intros m G _. cbn. now rewrite Z.eqb_refl.
  - apply okp_wsec. intros m m' r G _ E. inversion E; subst. cbn. rewrite eqb_zs_refl.
    repeat split; auto.
  - apply okp_rsec. intros m G _. cbn. unfold range_ok. destruct (limit <=? 0) eqn:E.
    + now rewrite eqb_pairs_refl.
    + rewrite (keys_incr_firstn _ m None G), (pairs_in_firstn _ m G). cbn.
      replace (alen (firstn (Z.to_nat limit) m) =? Z.min limit (alen m)) with true; [reflexivity|].
      symmetry. apply Z.eqb_eq. unfold alen. rewrite firstn_length. lia.
  - apply okp_wsec. intros m m' r G _ E. inversion E; subst. cbn. repeat split; auto.
Qed.

Theorem map_sched_linearizable : forall es s, map_run map_init es = Some s ->
  forall pend, (forall t i o, pending amap map_op s t i o -> In (t, i, o) pend) ->
  linearizable_pending map_s0 map_legal (hist s) (clock s) pend.
Proof.
  apply (sched_linearizable amap map_op map_code (fun _ _ => true) map_s0 map_legal
           map_good no_pre); [reflexivity | intros; exact I | exact map_code_ok].
Qed.

Theorem map_sched_linearizable_quiescent : forall es s, map_run map_init es = Some s ->
  quiescent amap map_op s -> map_linearizable (hist s).
Proof.
  apply (sched_linearizable_quiescent amap map_op map_code (fun _ _ => true) map_s0 map_legal
           map_good no_pre); [reflexivity | intros; exact I | exact map_code_ok].
Qed.

(* ------------------------------------------------------------------------------------ *)
(* cmap.Atomic + AtomicValue *)

Definition at_pre (o : at_op) (s : at_state) : Prop :=
  match o with
  | VLoad id | VStore id _ | VAdd id _ => afind id (a_vals s) <> None
  | _ => True
  end.

Lemma at_pre_vals o s s' :
  (forall id, afind id (a_vals s) <> None -> afind id (a_vals s') <> None) ->
  at_pre o s -> at_pre o s'.
Proof. intro H. destruct o; cbn; auto. Qed.

Lemma at_code_ok o :
  okp at_state at_op at_legal (fun _ => True) at_pre o None (at_code o).
Proof.
  destruct o as [k|k c|k| | |id|id v|id d]; cbn [at_code].
  - apply okp_rsec. intros s _ _. pose proof (lookup_ok_load (a_items s) k) as H.
    destruct (load_ret (a_items s) k); try contradiction. cbn. now rewrite H.
  - apply okp_r. intros s lp p' _ _ E. destruct (afind k (a_items s)) as [x|] eqn:Ef; inversion E; subst.
    + split; [|constructor]. split; [reflexivity|]. cbn. now rewrite Ef, Z.eqb_refl.
    + split; [reflexivity|]. cbn [merge]. apply okp_w. intros s2 s2' lp2 p2 _ _ E2.
      destruct (afind k (a_items s2)) as [x|] eqn:Ef2; inversion E2; subst.
      * split; [split; [reflexivity|]; cbn; now rewrite Ef2, Z.eqb_refl|].
        split; [exact I|]. split; [auto | constructor].
      * split; [split; [reflexivity|]|].
        -- cbn -[Z.add amax fresh_id]. rewrite Ef2. pose proof (amax_nonneg (a_vals s2)).
           replace (0 <? fresh_id s2) with true by (unfold fresh_id; lia).
           rewrite (afind_above_amax (a_vals s2) (fresh_id s2)) by (unfold fresh_id; lia).
           reflexivity.
        -- split; [exact I|]. split; [|constructor].
           intro o2. apply at_pre_vals. cbn. intros id. apply afind_ains_mono.
  - apply okp_wsec. intros s s' r _ _ E. inversion E; subst. cbn. repeat split; auto.
  - apply okp_rsec. intros s _ _. cbn. now rewrite eqb_pairs_refl.
  - apply okp_wsec. intros s s' r _ _ E. inversion E; subst. cbn. repeat split; auto.
  - apply okp_rsec. intros s _ P. cbn in *. destruct (afind id (a_vals s)); [|now elim P].
    now rewrite Z.eqb_refl.
  - apply okp_wsec. intros s s' r _ P E. inversion E; subst. cbn in *.
    destruct (afind id (a_vals s)); [|now elim P]. repeat split; auto.
    intro o2. apply at_pre_vals. cbn. intros id'. apply afind_ains_mono.
  - apply okp_wsec. intros s s' r _ P E. inversion E; subst. cbn in *.
    destruct (afind id (a_vals s)) as [x|]; [|now elim P]. rewrite Z.eqb_refl. repeat split; auto.
    intro o2. apply at_pre_vals. cbn. intros id'. apply afind_ains_mono.
Qed.

Lemma at_invoke_pre s o : True -> at_can_invoke s o = true -> at_pre o s.
Proof.
  intros _. destruct o; cbn; auto; destruct (afind _ (a_vals s)); congruence.
Qed.

Theorem at_sched_linearizable : forall es s, at_run at_init es = Some s ->
  forall pend, (forall t i o, pending at_state at_op s t i o -> In (t, i, o) pend) ->
  linearizable_pending at_s0 at_legal (hist s) (clock s) pend.
Proof.
  apply (sched_linearizable at_state at_op at_code at_can_invoke at_s0 at_legal
           (fun _ => True) at_pre); [exact I | exact at_invoke_pre | exact at_code_ok].
Qed.

Theorem at_sched_linearizable_quiescent : forall es s, at_run at_init es = Some s ->
  quiescent at_state at_op s -> at_linearizable (hist s).
Proof.
  apply (sched_linearizable_quiescent at_state at_op at_code at_can_invoke at_s0 at_legal
           (fun _ => True) at_pre); [exact I | exact at_invoke_pre | exact at_code_ok].
Qed.

(* ------------------------------------------------------------------------------------ *)
(* slice.Slice *)

Lemma sl_code_ok o : okp (list Z) sl_op sl_legal (fun _ => True) no_pre o None (sl_code o).
Proof.
  destruct o as [items| |]; cbn [sl_code].
  - apply okp_wsec. intros d d' r _ _ E. inversion E; subst. cbn. rewrite Z.eqb_refl.
    repeat split; auto.
  - apply okp_rsec. intros d _ _. cbn. now rewrite Z.eqb_refl.
  - apply okp_rsec. intros d _ _. cbn. now rewrite eqb_zs_refl.
Qed.

Theorem sl_sched_linearizable : forall es s, sl_run sl_init es = Some s ->
  forall pend, (forall t i o, pending (list Z) sl_op s t i o -> In (t, i, o) pend) ->
  linearizable_pending sl_s0 sl_legal (hist s) (clock s) pend.
Proof.
  apply (sched_linearizable (list Z) sl_op sl_code (fun _ _ => true) sl_s0 sl_legal
           (fun _ => True) no_pre); [exact I | intros; exact I | exact sl_code_ok].
Qed.

Theorem sl_sched_linearizable_quiescent : forall es s, sl_run sl_init es = Some s ->
  quiescent (list Z) sl_op s -> sl_linearizable (hist s).
Proof.
  apply (sched_linearizable_quiescent (list Z) sl_op sl_code (fun _ _ => true) sl_s0 sl_legal
           (fun _ => True) no_pre); [exact I | intros; exact I | exact sl_code_ok].
Qed.

(* ------------------------------------------------------------------------------------ *)
(* Non-vacuity: a schedule with two overlapping calls runs in the model (the Load is invoked
   after the Store, takes effect before it and returns first). *)
Definition overlap_schedule : list (event map_op) :=
  [Invoke 1 (MStore 1 5); Invoke 2 (MLoad 1); Acquire 2; Effect 2; Release 2;
   Acquire 1; Effect 1; Return 2; Release 1; Return 1]%Z.

Example map_sched_example : exists s,
  map_run map_init overlap_schedule = Some s /\
  map (fun c => (c_inv c, c_res c, c_ret c)) (hist s) = [(1, 7, RVal 0 false); (0, 9, RUnit)].
Proof. eexists. split; vm_compute; reflexivity. Qed.

(* two overlapping Appends and a Len on the slice *)
Example sl_sched_example : exists s,
  sl_run sl_init [Invoke 1 (SAppend [7]); Invoke 2 (SAppend [8; 9]); Invoke 3 SLen;
                  Acquire 2; Effect 2; Release 2; Acquire 3; Effect 3; Release 3;
                  Acquire 1; Effect 1; Return 3; Release 1; Return 1; Return 2]%Z = Some s /\
  map (fun c => c_ret c) (hist s) = [RInt 2; RInt 3; RInt 2].
Proof. eexists. split; vm_compute; reflexivity. Qed.

(* The section structure matters.  Counter-models (NOT the code, see C14/LinModel.v):
   (a) LoadAndDelete as a read-locked Load followed by a separately locked Delete — two
       concurrent calls both obtain the value;
   (b) GetOrCreate without the re-check under the write lock — two concurrent calls on a
       missing key create two different counters.
   Both produce histories that are NOT linearizable (decided by the complete checker). *)
From Kit Require Import C14.LinCheck C14.LinProofs.

Definition split_schedule : list (event map_op) :=
  [Invoke 1 (MStore 1 7); Acquire 1; Effect 1; Release 1; Return 1;
   Invoke 1 (MLoadAndDelete 1); Invoke 2 (MLoadAndDelete 1);
   Acquire 1; Effect 1; Release 1; Acquire 2; Effect 2; Release 2;
   Acquire 1; Effect 1; Release 1; Return 1; Acquire 2; Effect 2; Release 2; Return 2]%Z.

Theorem map_split_sections_refuted : exists es s,
  run amap map_op map_code_split (fun _ _ => true) map_init es = Some s /\
  ~ map_linearizable (hist s).
Proof.
  exists split_schedule. eexists. split; [vm_compute; reflexivity|].
  intro L. apply map_lin_check_complete in L; [|vm_compute; reflexivity].
  vm_compute in L. discriminate.
Qed.

Definition nocheck_schedule : list (event at_op) :=
  [Invoke 1 (AGetOrCreate 1 0); Invoke 2 (AGetOrCreate 1 0);
   Acquire 1; Effect 1; Release 1; Acquire 2; Effect 2; Release 2;
   Acquire 1; Effect 1; Release 1; Return 1; Acquire 2; Effect 2; Release 2; Return 2]%Z.

Theorem at_nocheck_refuted : exists es s,
  run at_state at_op at_code_nocheck at_can_invoke at_init es = Some s /\
  ~ at_linearizable (hist s).
Proof.
  exists nocheck_schedule. eexists. split; [vm_compute; reflexivity|].
  intro L. apply at_lin_check_complete in L; [|vm_compute; reflexivity].
  vm_compute in L. discriminate.
Qed.

(* the same schedule on the real section structure: the second call finds the counter *)
Example at_recheck_example : exists s,
  at_run at_init nocheck_schedule = Some s /\
  map (fun c => c_ret c) (hist s) = [RVal 1 true; RVal 1 true].
Proof. eexists. split; vm_compute; reflexivity. Qed.
