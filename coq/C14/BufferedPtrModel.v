(* C14 (sequential half) — pointer-level executable model of ring.Buffered
   (/repo/ring/buffered.go) on top of the pointer-level ring of C14/RingModel.v.
   Definitions only.

   Unlike C14/BufferedModel.v (which keeps the ring as the abstract cycle of its cell values),
   this model keeps exactly what the Go struct keeps — [b.ring] (a node address in the heap of
   ring nodes), [b.end], [b.bsize] — and every access to the ring is a call of the transcribed
   ring.go method: [len], [move], [next], [new], [link], [unlink] of RingModel.v.  A nil
   dereference or a non-terminating ring walk is [None] (reported as [BPanic]).

   The ring is a [Ring[*T]]: a node's Value is a pointer to an element or nil.  RingModel's
   nodes carry an integer Value; [enc]/[dec] code a [*T] (nil = [None], [Some z] = the element
   the harness labelled z) injectively as an integer with nil = 0 = the zero Value of a fresh
   node, so that [New[*T](n)] yields nil cells as in Go. *)
From Kit Require Export C14.RingModel C14.BufferedModel.

Definition enc (v : bval) : Z :=
  match v with
  | None => 0
  | Some z => if (0 <=? z)%Z then (z + 1)%Z else z
  end.

Definition dec (w : Z) : bval :=
  if (w =? 0)%Z then None else if (0 <? w)%Z then Some (w - 1)%Z else Some w.

Record pbuf := mk_pbuf { ph : heap; pring : nat; pend : Z; pbsz : Z }.

(* func NewBuffered[T any](initialSize, bufferSize int): both clamped to >= 1, so the ring
   pointer is never nil *)
Definition pbuf_new (initial bsize : Z) : option pbuf :=
  let initial := if (initial <? 1)%Z then 1%Z else initial in
  let bsize := if (bsize <? 1)%Z then 1%Z else bsize in
  let '(h, p) := new empty_heap initial in
  match p with
  | Some r => Some (mk_pbuf h r 0 bsize)
  | None => None
  end.

(* the grow step of AppendBack:
     if b.end >= b.ring.Len() { b.ring.Move(b.end - 1).Link(New[*T](b.bsize)) } *)
Definition p_grow (h : heap) (r : nat) (e bsz : Z) : option heap :=
  match len h (Some r) with
  | None => None
  | Some (h1, n) =>
      if (e >=? n)%Z then
        match move h1 r (e - 1) with
        | Some (h2, Some m) => let '(h3, s) := new h2 bsz in option_map fst (link h3 m s)
        | _ => None
        end
      else Some h1
  end.

(* b.ring.Move(b.end).Value = value *)
Definition p_store (h : heap) (r : nat) (e : Z) (v : bval) : option heap :=
  match move h r e with
  | Some (h1, Some x) => Some (set_val h1 x (enc v))
  | _ => None
  end.

(* func (b *Buffered[T]) AppendBack(value *T)
     if b.end >= b.ring.Len() { b.ring.Move(b.end - 1).Link(New[*T](b.bsize)) }
     b.ring.Move(b.end).Value = value
     b.end++ *)
Definition p_append (b : pbuf) (v : bval) : option pbuf :=
  match p_grow (ph b) (pring b) (pend b) (pbsz b) with
  | None => None
  | Some h1 =>
      match p_store h1 (pring b) (pend b) v with
      | None => None
      | Some h2 => Some (mk_pbuf h2 (pring b) (pend b + 1) (pbsz b))
      end
  end.

(* func (b *Buffered[T]) Front() *T { return b.ring.Value } *)
Definition p_front (b : pbuf) : bval := dec (val (cell (ph b) (pring b))).

(* func (b *Buffered[T]) Range(fn func(p *T) bool)
     x := b.ring
     for range b.end { if !fn(x.Value) { return }; x = x.Next() }
   The callback returns false on its [stop]-th call (never for stop <= 0). *)
Fixpoint p_range (h : heap) (x : nat) (iters : nat) (stop calls : Z) : heap * list bval :=
  match iters with
  | O => (h, [])
  | S iters' =>
      let v := dec (val (cell h x)) in
      if (calls + 1 =? stop)%Z then (h, [v])
      else let '(h1, x') := next h x in
           let '(h2, l) := p_range h1 x' iters' stop (calls + 1) in (h2, v :: l)
  end.

(* Knobs for COUNTER-models (not the code; used only by the [_refuted] lemmas): the real code is
   [real_knobs].  [k_clear = false]: RemoveFront does not reset the vacated slot. *)
Record knobs := mk_knobs { k_clear : bool }.
Definition real_knobs : knobs := mk_knobs true.

(* the shrink step of RemoveFront ([r] = the new b.ring, [e] = the new b.end):
     if b.ring.Len()-b.end > b.bsize*2 { b.ring.Move(b.end).Unlink(b.bsize) } *)
Definition p_shrink (h : heap) (r : nat) (e bsz : Z) : option heap :=
  match len h (Some r) with
  | None => None
  | Some (h1, n) =>
      if (n - e >? bsz * 2)%Z then
        match move h1 r e with
        | Some (h2, Some x) => option_map fst (unlink h2 x bsz)
        | _ => None
        end
      else Some h1
  end.

(* func (b *Buffered[T]) RemoveFront() *T
     [Fixed only:] if b.end == 0 { return nil }
     b.ring.Value = nil
     b.ring = b.ring.Next()
     b.end--
     if b.ring.Len()-b.end > b.bsize*2 { b.ring.Move(b.end).Unlink(b.bsize) }
     return b.ring.Value *)
Definition p_remove (v : variant) (k : knobs) (b : pbuf) : option (pbuf * bval) :=
  if is_fixed v && (pend b =? 0)%Z then Some (b, None)
  else
    let h0 := if k_clear k then set_val (ph b) (pring b) (enc None) else ph b in
    let '(h1, r') := next h0 (pring b) in
    let e := (pend b - 1)%Z in
    match p_shrink h1 r' e (pbsz b) with
    | None => None
    | Some h2 => Some (mk_pbuf h2 r' e (pbsz b), dec (val (cell h2 r')))
    end.

Definition p_step (v : variant) (k : knobs) (b : pbuf) (o : bop) : option (pbuf * list bout) :=
  match o with
  | BAppend x => option_map (fun b' => (b', [])) (p_append b x)
  | BRemove => option_map (fun '(b', r) => (b', [BV r])) (p_remove v k b)
  | BFront => Some (b, [BV (p_front b)])
  | BLen => Some (b, [BZ (pend b)])
  | BRange stop =>
      let '(h', l) := p_range (ph b) (pring b) (Z.to_nat (pend b)) stop 0 in
      Some (mk_pbuf h' (pring b) (pend b) (pbsz b), [BL l])
  end.

Fixpoint p_steps (v : variant) (k : knobs) (b : pbuf) (ops : list bop) : list bout :=
  match ops with
  | [] => []
  | o :: ops' =>
      match p_step v k b o with
      | None => [BPanic]
      | Some (b', out) => out ++ p_steps v k b' ops'
      end
  end.

Definition buf_run_ptr_k (v : variant) (k : knobs) (initial bsize : Z) (ops : list bop) : list bout :=
  match pbuf_new initial bsize with
  | None => [BPanic]
  | Some b => p_steps v k b ops
  end.

(* outputs of NewBuffered(initial, bsize) followed by [ops] on the pointer-level model *)
Definition buf_run_ptr (v : variant) : Z -> Z -> list bop -> list bout :=
  buf_run_ptr_k v real_knobs.

(* ------------------------------------------------------------------------------------- *)
(* COUNTER-model (not the code): capacity cached in a [size] field instead of
   [b.ring.Len()], and the shrink unlinking from [Move(b.end - 1)] instead of [Move(b.end)]
   (a plausible "optimisation", seeded change C14-r2m2). *)
Definition p_append_cached (bs : pbuf * Z) (v : bval) : option (pbuf * Z) :=
  let '(b, size) := bs in
  let grown :=
    if (pend b >=? size)%Z then
      match move (ph b) (pring b) (pend b - 1) with
      | Some (h2, Some m) =>
          let '(h3, s) := new h2 (pbsz b) in
          option_map (fun r => (fst r, (size + pbsz b)%Z)) (link h3 m s)
      | _ => None
      end
    else Some (ph b, size) in
  match grown with
  | None => None
  | Some (h4, size') =>
      match move h4 (pring b) (pend b) with
      | Some (h5, Some x) =>
          Some (mk_pbuf (set_val h5 x (enc v)) (pring b) (pend b + 1) (pbsz b), size')
      | _ => None
      end
  end.

Definition p_remove_cached (bs : pbuf * Z) : option (pbuf * Z * bval) :=
  let '(b, size) := bs in
  if (pend b =? 0)%Z then Some (b, size, None)
  else
    let h0 := set_val (ph b) (pring b) (enc None) in
    let '(h1, r') := next h0 (pring b) in
    let e := (pend b - 1)%Z in
    let shrunk :=
      if (size - e >? pbsz b * 2)%Z then
        match move h1 r' (e - 1) with
        | Some (h3, Some x) => option_map (fun r => (fst r, (size - pbsz b)%Z)) (unlink h3 x (pbsz b))
        | _ => None
        end
      else Some (h1, size) in
    match shrunk with
    | None => None
    | Some (h4, size') => Some (mk_pbuf h4 r' e (pbsz b), size', dec (val (cell h4 r')))
    end.

Definition p_step_cached (bs : pbuf * Z) (o : bop) : option (pbuf * Z * list bout) :=
  match o with
  | BAppend x => option_map (fun bs' => (bs', [])) (p_append_cached bs x)
  | BRemove => option_map (fun '(b', s', r) => (b', s', [BV r])) (p_remove_cached bs)
  | BFront => Some (bs, [BV (p_front (fst bs))])
  | BLen => Some (bs, [BZ (pend (fst bs))])
  | BRange stop =>
      let b := fst bs in
      let '(h', l) := p_range (ph b) (pring b) (Z.to_nat (pend b)) stop 0 in
      Some (mk_pbuf h' (pring b) (pend b) (pbsz b), snd bs, [BL l])
  end.

Fixpoint p_steps_cached (bs : pbuf * Z) (ops : list bop) : list bout :=
  match ops with
  | [] => []
  | o :: ops' =>
      match p_step_cached bs o with
      | None => [BPanic]
      | Some (bs', out) => out ++ p_steps_cached bs' ops'
      end
  end.

Definition buf_run_ptr_cached (initial bsize : Z) (ops : list bop) : list bout :=
  match pbuf_new initial bsize with
  | None => [BPanic]
  | Some b => p_steps_cached (b, if (initial <? 1)%Z then 1%Z else initial) ops
  end.
